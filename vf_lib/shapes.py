"""Evaluator values of quantity / tensor types as sympy scalars, 3-vectors and 3x3 matrices."""
import re
import sys
from . import ev, quant
from .facts import strip_cvref
from .frontend import VERIF

sys.path.insert(0, VERIF)
from oracle import tensor_algebra as TA  # noqa: E402

FLOATS = {"float", "double", "long double"}
_cache = {}


def shape_of_type(F, t):
    t = strip_cvref(t)
    if t in FLOATS:
        return "scalar"
    key = (id(F), t)
    if key in _cache:
        return _cache[key]
    r = F.records.get(t)
    s = None
    if r is not None:
        tm = r.get("template")
        if tm in quant.TENSORS:
            s = quant.TENSORS[tm]
        elif tm in quant.BASES:
            s = quant.BASES[tm]
        else:
            for b in r["bases"]:
                s = shape_of_type(F, F.T(b["t"]))
                if s:
                    break
    _cache[key] = s
    return s


def to_sympy(conv, F, tname, value):
    s = shape_of_type(F, tname)
    if s is None:
        raise ev.Inconclusive("no tensor shape for type " + tname)
    comps = [conv(t) for _, t in ev.flatten(value)]
    if len(comps) != quant.SHAPE_N[s]:
        raise ev.Inconclusive("%s has %d slots, expected %d" % (tname, len(comps), quant.SHAPE_N[s]))
    return TA.embed(s, comps), s
