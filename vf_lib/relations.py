"""Enumeration of the relation functions (constructors, operators, members) between quantities."""
import re
from . import quant
from .facts import strip_cvref, is_ref

FLOATS = {"float", "double", "long double"}
ARITH = {"+", "-", "*", "/"}
CASSIGN = {"+=", "-=", "*=", "/="}
SKIP_NAMES = {"Value", "MutableValue", "SetValue", "StaticValue", "Print", "JSON", "XML", "YAML", "Dimensions", "Unit",
              "Zero", "Create", "operator=", "operator<<"}


class Rel:
    def __init__(self, f, kind):
        self.f = f
        self.kind = kind   # ctor | op | cassign | member | free_op | free
        self.arg_q = []    # quantity type (or 'num' / 'raw') per parameter
        self.this_q = None
        self.ret_q = None  # quantity type, 'num', 'raw', 'void', 'bool', 'other'


def tmpl(t):
    return re.sub(r"<.*", "", t)


def classify_type(F, inv_all, t):
    t = strip_cvref(t)
    if t in FLOATS:
        return "num"
    if t == "void":
        return "void"
    if t == "bool":
        return "bool"
    if t in inv_all:
        return t
    r = F.records.get(t)
    if r is not None:
        tm = r.get("template") or ""
        if tm in quant.TENSORS:
            return "raw"
        if tm in inv_all.get("__templates__", ()):
            return t
    if t.startswith("std::optional<"):
        return "other"
    return "other"


def all_quantity_records(F):
    """Quantity records of every numeric type present in the shard (name -> template)."""
    inv = quant.inventory(F)
    qt = {q.template for q in inv.values() if q.kind == "quantity"}
    out = {}
    for n, r in F.records.items():
        if r.get("template") in qt:
            out[n] = r["template"]
    out["__templates__"] = qt
    return out


def relations(F):
    """All functions with a body under PhQ that combine quantities into quantities/numbers."""
    qa = all_quantity_records(F)
    T = F.numeric
    out = []
    for f in F.fns.values():
        if "body" not in f or f.get("invalid"):
            continue
        qn = f.get("qname", f["name"])
        if not qn.startswith("PhQ::") or qn.startswith("PhQ::Internal") or qn.startswith("PhQ::ConstitutiveModel"):
            continue
        if f["sname"] in SKIP_NAMES:
            continue
        ptypes = F.param_types(f)
        args = [classify_type(F, qa, t) for t in ptypes]
        if any(a in ("other", "bool", "void") for a in args):
            continue
        this_q = None
        if f["kind"] in ("method", "ctor", "conversion") and not f.get("static"):
            pt = F.T(f["parent"])
            if pt not in qa:
                continue
            if not pt.endswith("<%s>" % T):
                continue
            this_q = pt
        ret = classify_type(F, qa, F.T(f["ret"]))
        if f["kind"] == "ctor":
            if f.get("copy_ctor") or f.get("move_ctor"):
                continue
            # converting constructor: one argument of the same template, other numeric type
            if len(args) == 1 and args[0] in qa and qa.get(args[0]) == qa.get(this_q) and args[0] != this_q:
                continue
            if f.get("access") == "private" and args == ["num"]:
                continue   # standard-value sink
            if not any(a in qa for a in args):
                continue   # built from raw numbers (value in standard unit): not a relation
            kind = "ctor"
        elif f["kind"] == "method":
            op = f.get("op")
            if op in ARITH:
                kind = "op"
            elif op in CASSIGN:
                kind = "cassign"
            elif op:
                continue
            else:
                kind = "member"
            if ret in ("other", "bool") and kind == "member":
                continue
        elif f["kind"] == "function":
            if not any(a in qa for a in args):
                continue
            if not all(strip_cvref(t).endswith("<%s>" % T) or strip_cvref(t) in FLOATS for t in ptypes):
                continue
            op = f.get("op")
            if op in ARITH:
                kind = "free_op"
            elif op:
                continue
            else:
                kind = "free"
            if ret in ("other", "bool", "void"):
                continue
        else:
            continue
        r = Rel(f, kind)
        r.arg_q, r.this_q, r.ret_q = args, this_q, ret
        out.append(r)
    return out
