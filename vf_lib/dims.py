"""Dimension domain: units-of-measure checking of terms produced by the evaluator."""
from fractions import Fraction
from . import quant, tables, ev
from .ev import Inconclusive

ZERO7 = (Fraction(0),) * 7


class DimError(Exception):
    def __init__(self, msg, term=None):
        Exception.__init__(self, msg)
        self.term = term


class DimEnv:
    def __init__(self, F, T=None):
        self.F = F
        self.T = T or tables.Tables(F)
        self._unit_dims = {}
        self._q = {}

    def unit_dims(self, ut):
        if ut not in self._unit_dims:
            d = self.T.dimensions(ut)
            if d is None:
                raise Inconclusive("no RelatedDimensions for " + ut)
            self._unit_dims[ut] = tuple(Fraction(d[k]) for k in tables.DIM_FIELDS)
        return self._unit_dims[ut]

    def qtype_unit(self, qtype):
        """Unit enum type of a quantity record (None if dimensionless)."""
        if qtype in self._q:
            return self._q[qtype]
        cur = self.F.records.get(qtype)
        unit = None
        found = False
        depth = 0
        while cur is not None and depth < 6:
            tm = cur.get("template")
            if tm in quant.BASES:
                ta = cur.get("targs", [])
                unit = ta[0] if len(ta) == 2 else None
                found = True
                break
            nxt = None
            for b in cur["bases"]:
                nxt = self.F.records.get(self.F.T(b["t"]))
            cur = nxt
            depth += 1
        if not found:
            raise Inconclusive("type %s is not a quantity" % qtype)
        self._q[qtype] = unit
        return unit

    def qtype_dims(self, qtype):
        u = self.qtype_unit(qtype)
        return self.unit_dims(u) if u else ZERO7

    # ------------------------------------------------------------------
    def dims(self, t, leaf_info):
        """Dimension vector of a scalar term; None = polymorphic zero. Raises DimError on a mismatch."""
        if isinstance(t, bool):
            return ZERO7
        if isinstance(t, int):
            return None if t == 0 else ZERO7
        if not isinstance(t, tuple) or not t:
            raise Inconclusive("dimension of non-scalar %r" % (t,))
        k = t[0]
        if k == "c":
            return None if t[1] == 0 else ZERO7
        if k == "pi":
            return ZERO7
        if k == "leaf":
            info = leaf_info.get(t[1])
            if info is None or info.get("qtype") is None:
                return ZERO7
            return self.qtype_dims(info["qtype"])
        if k in ("add", "sub"):
            a, b = self.dims(t[1], leaf_info), self.dims(t[2], leaf_info)
            return self.unify(a, b, t)
        if k == "mul":
            a, b = self.dims(t[1], leaf_info), self.dims(t[2], leaf_info)
            if a is None or b is None:
                return None
            return tuple(x + y for x, y in zip(a, b))
        if k == "div":
            a, b = self.dims(t[1], leaf_info), self.dims(t[2], leaf_info)
            if b is None:
                raise DimError("division by the constant zero", t)
            if a is None:
                return None
            return tuple(x - y for x, y in zip(a, b))
        if k == "neg":
            return self.dims(t[1], leaf_info)
        if k == "cast":
            return self.dims(t[2], leaf_info)
        if k == "g":
            self.check_bool(t[1], leaf_info)
            return self.unify(self.dims(t[2], leaf_info), self.dims(t[3], leaf_info), t)
        if k == "fn":
            name = t[1]
            args = [self.dims(x, leaf_info) for x in t[2:]]
            if name == "sqrt":
                return None if args[0] is None else tuple(x / 2 for x in args[0])
            if name == "cbrt":
                return None if args[0] is None else tuple(x / 3 for x in args[0])
            if name in ("abs", "fabs", "copysign"):
                return args[0]     # (copysign takes only the sign of its second argument)
            if name in ("min", "max", "fmin", "fmax"):
                return self.unify(args[0], args[1], t)
            if name == "clamp":
                return self.unify(self.unify(args[0], args[1], t), args[2], t)
            if name == "pow":
                e = t[3]
                if isinstance(e, int):
                    e = ("c", Fraction(e))
                if isinstance(e, tuple) and e[0] == "c":
                    return None if args[0] is None else tuple(x * e[1] for x in args[0])
                if args[0] not in (None, ZERO7):
                    raise DimError("pow of a dimensional value with a non-constant exponent", t)
                return ZERO7
            if name in ("acos", "asin", "atan", "cos", "sin", "tan", "exp", "log", "log2", "log10", "exp2", "expm1", "log1p", "sinh", "cosh", "tanh",
                        "asinh", "acosh", "atanh", "erf", "erfc", "tgamma", "lgamma"):
                if args[0] not in (None, ZERO7):
                    raise DimError("%s of a dimensional value %s" % (name, fmt(args[0])), t)
                return ZERO7
            if name == "atan2":
                self.unify(args[0], args[1], t)
                return ZERO7
            if name in ("trunc", "floor", "ceil", "round", "nearbyint", "rint", "lround", "llround", "lrint", "llrint"):
                # rounding to an integer does not commute with a change of units: only a pure number may be rounded
                if args[0] not in (None, ZERO7):
                    raise DimError("%s (conversion to an integer) of a dimensional value %s: the result depends on the unit of measure" % (name, fmt(args[0])), t)
                return ZERO7
            raise Inconclusive("dimension of call to " + str(name))
        if k == "undef":
            raise Inconclusive("uninitialised value reaches a result")
        raise Inconclusive("dimension of term kind " + str(k))

    def unify(self, a, b, t):
        if a is None:
            return b
        if b is None:
            return a
        if a != b:
            raise DimError("adds/compares/merges %s with %s in %s" % (fmt(a), fmt(b), ev.show(t)[:200]), t)
        return a

    def check_bool(self, c, leaf_info):
        if isinstance(c, bool):
            return
        if isinstance(c, tuple) and c:
            if c[0] == "cmp":
                self.unify(self.dims(c[2], leaf_info), self.dims(c[3], leaf_info), c)
            elif c[0] in ("not",):
                self.check_bool(c[1], leaf_info)
            elif c[0] in ("and", "or"):
                self.check_bool(c[1], leaf_info)
                self.check_bool(c[2], leaf_info)
            elif c[0] == "g":
                self.check_bool(c[1], leaf_info)
                self.check_bool(c[2], leaf_info)
                self.check_bool(c[3], leaf_info)


def fmt(d):
    if d is None:
        return "0(any)"
    names = ["T", "L", "M", "I", "Θ", "N", "J"]
    parts = ["%s^%s" % (n, x) for n, x in zip(names, d) if x != 0]
    return "·".join(parts) if parts else "1"
