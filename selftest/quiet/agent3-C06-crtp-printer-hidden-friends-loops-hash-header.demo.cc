// Differential program for the Dimensions / base dimension refactor.

#include <PhQ/Acceleration.hpp>
#include <PhQ/Angle.hpp>
#include <PhQ/AngularSpeed.hpp>
#include <PhQ/Area.hpp>
#include <PhQ/BulkDynamicViscosity.hpp>
#include <PhQ/Direction.hpp>
#include <PhQ/Displacement.hpp>
#include <PhQ/DisplacementGradient.hpp>
#include <PhQ/DynamicKinematicPressure.hpp>
#include <PhQ/DynamicPressure.hpp>
#include <PhQ/DynamicViscosity.hpp>
#include <PhQ/ElectricCharge.hpp>
#include <PhQ/ElectricCurrent.hpp>
#include <PhQ/Energy.hpp>
#include <PhQ/Force.hpp>
#include <PhQ/Frequency.hpp>
#include <PhQ/GasConstant.hpp>
#include <PhQ/HeatCapacityRatio.hpp>
#include <PhQ/HeatFlux.hpp>
#include <PhQ/IsentropicBulkModulus.hpp>
#include <PhQ/IsobaricHeatCapacity.hpp>
#include <PhQ/IsochoricHeatCapacity.hpp>
#include <PhQ/IsothermalBulkModulus.hpp>
#include <PhQ/KinematicViscosity.hpp>
#include <PhQ/LameFirstModulus.hpp>
#include <PhQ/Length.hpp>
#include <PhQ/LinearThermalExpansionCoefficient.hpp>
#include <PhQ/MachNumber.hpp>
#include <PhQ/Mass.hpp>
#include <PhQ/MassDensity.hpp>
#include <PhQ/MassRate.hpp>
#include <PhQ/Memory.hpp>
#include <PhQ/MemoryRate.hpp>
#include <PhQ/PWaveModulus.hpp>
#include <PhQ/PlanarAcceleration.hpp>
#include <PhQ/PlanarDirection.hpp>
#include <PhQ/PlanarDisplacement.hpp>
#include <PhQ/PlanarForce.hpp>
#include <PhQ/PlanarHeatFlux.hpp>
#include <PhQ/PlanarPosition.hpp>
#include <PhQ/PlanarTemperatureGradient.hpp>
#include <PhQ/PlanarTraction.hpp>
#include <PhQ/PlanarVelocity.hpp>
#include <PhQ/PoissonRatio.hpp>
#include <PhQ/Position.hpp>
#include <PhQ/Power.hpp>
#include <PhQ/PrandtlNumber.hpp>
#include <PhQ/ReynoldsNumber.hpp>
#include <PhQ/ScalarAcceleration.hpp>
#include <PhQ/ScalarAngularAcceleration.hpp>
#include <PhQ/ScalarDisplacementGradient.hpp>
#include <PhQ/ScalarForce.hpp>
#include <PhQ/ScalarHeatFlux.hpp>
#include <PhQ/ScalarStrain.hpp>
#include <PhQ/ScalarStrainRate.hpp>
#include <PhQ/ScalarStress.hpp>
#include <PhQ/ScalarTemperatureGradient.hpp>
#include <PhQ/ScalarThermalConductivity.hpp>
#include <PhQ/ScalarTraction.hpp>
#include <PhQ/ScalarVelocityGradient.hpp>
#include <PhQ/ShearModulus.hpp>
#include <PhQ/SolidAngle.hpp>
#include <PhQ/SoundSpeed.hpp>
#include <PhQ/SpecificEnergy.hpp>
#include <PhQ/SpecificGasConstant.hpp>
#include <PhQ/SpecificIsobaricHeatCapacity.hpp>
#include <PhQ/SpecificIsochoricHeatCapacity.hpp>
#include <PhQ/SpecificPower.hpp>
#include <PhQ/Speed.hpp>
#include <PhQ/StaticKinematicPressure.hpp>
#include <PhQ/StaticPressure.hpp>
#include <PhQ/Strain.hpp>
#include <PhQ/StrainRate.hpp>
#include <PhQ/Stress.hpp>
#include <PhQ/SubstanceAmount.hpp>
#include <PhQ/Temperature.hpp>
#include <PhQ/TemperatureDifference.hpp>
#include <PhQ/TemperatureGradient.hpp>
#include <PhQ/ThermalConductivity.hpp>
#include <PhQ/ThermalDiffusivity.hpp>
#include <PhQ/Time.hpp>
#include <PhQ/TotalKinematicPressure.hpp>
#include <PhQ/TotalPressure.hpp>
#include <PhQ/Traction.hpp>
#include <PhQ/TransportEnergyConsumption.hpp>
#include <PhQ/VectorArea.hpp>
#include <PhQ/Velocity.hpp>
#include <PhQ/VelocityGradient.hpp>
#include <PhQ/Volume.hpp>
#include <PhQ/VolumeRate.hpp>
#include <PhQ/VolumetricThermalExpansionCoefficient.hpp>
#include <PhQ/YoungModulus.hpp>
#include <PhQ/Unit/Acceleration.hpp>
#include <PhQ/Unit/Angle.hpp>
#include <PhQ/Unit/AngularAcceleration.hpp>
#include <PhQ/Unit/AngularSpeed.hpp>
#include <PhQ/Unit/Area.hpp>
#include <PhQ/Unit/Diffusivity.hpp>
#include <PhQ/Unit/DynamicViscosity.hpp>
#include <PhQ/Unit/ElectricCharge.hpp>
#include <PhQ/Unit/ElectricCurrent.hpp>
#include <PhQ/Unit/Energy.hpp>
#include <PhQ/Unit/EnergyFlux.hpp>
#include <PhQ/Unit/Force.hpp>
#include <PhQ/Unit/Frequency.hpp>
#include <PhQ/Unit/HeatCapacity.hpp>
#include <PhQ/Unit/Length.hpp>
#include <PhQ/Unit/Mass.hpp>
#include <PhQ/Unit/MassDensity.hpp>
#include <PhQ/Unit/MassRate.hpp>
#include <PhQ/Unit/Memory.hpp>
#include <PhQ/Unit/MemoryRate.hpp>
#include <PhQ/Unit/Power.hpp>
#include <PhQ/Unit/Pressure.hpp>
#include <PhQ/Unit/ReciprocalTemperature.hpp>
#include <PhQ/Unit/SolidAngle.hpp>
#include <PhQ/Unit/SpecificEnergy.hpp>
#include <PhQ/Unit/SpecificHeatCapacity.hpp>
#include <PhQ/Unit/SpecificPower.hpp>
#include <PhQ/Unit/Speed.hpp>
#include <PhQ/Unit/SubstanceAmount.hpp>
#include <PhQ/Unit/Temperature.hpp>
#include <PhQ/Unit/TemperatureDifference.hpp>
#include <PhQ/Unit/TemperatureGradient.hpp>
#include <PhQ/Unit/ThermalConductivity.hpp>
#include <PhQ/Unit/Time.hpp>
#include <PhQ/Unit/TransportEnergyConsumption.hpp>
#include <PhQ/Unit/Volume.hpp>
#include <PhQ/Unit/VolumeRate.hpp>
#include <PhQ/Dimensions.hpp>
#include <PhQ/UnitSystem.hpp>

#include <cstdint>
#include <cstdio>
#include <functional>
#include <iostream>
#include <map>
#include <random>
#include <set>
#include <sstream>
#include <string>
#include <type_traits>
#include <unordered_map>
#include <unordered_set>
#include <vector>

namespace {

// FNV-1a digest of everything that is observed.
struct Digest {
  std::uint64_t state{1469598103934665603ULL};
  void Bytes(const void* data, std::size_t size) {
    const unsigned char* bytes = static_cast<const unsigned char*>(data);
    for (std::size_t i = 0; i < size; ++i) {
      state ^= bytes[i];
      state *= 1099511628211ULL;
    }
  }
  void Add(const std::string& s) {
    Bytes(s.data(), s.size());
    const char zero = 0;
    Bytes(&zero, 1);
  }
  void Add(std::uint64_t v) {
    Bytes(&v, sizeof(v));
  }
  void Add(bool b) {
    const char c = b ? 1 : 0;
    Bytes(&c, 1);
  }
};

template <typename T>
std::string Streamed(const T& t) {
  std::ostringstream stream;
  stream << t;
  return stream.str();
}

PhQ::Dimensions Make(const int t, const int l, const int m, const int i, const int th, const int n,
                     const int j) {
  return PhQ::Dimensions(
      PhQ::Dimension::Time(static_cast<int8_t>(t)), PhQ::Dimension::Length(static_cast<int8_t>(l)),
      PhQ::Dimension::Mass(static_cast<int8_t>(m)),
      PhQ::Dimension::ElectricCurrent(static_cast<int8_t>(i)),
      PhQ::Dimension::Temperature(static_cast<int8_t>(th)),
      PhQ::Dimension::SubstanceAmount(static_cast<int8_t>(n)),
      PhQ::Dimension::LuminousIntensity(static_cast<int8_t>(j)));
}

std::string Describe(const PhQ::Dimensions& d) {
  std::string s;
  s += d.Print();
  s += " | ";
  s += Streamed(d);
  s += " | ";
  s += d.JSON();
  s += " | ";
  s += d.XML();
  s += " | ";
  s += d.YAML();
  s += " | hash=";
  s += std::to_string(std::hash<PhQ::Dimensions>()(d));
  s += " | ";
  s += std::to_string(d.Time().Value()) + "," + std::to_string(d.Length().Value()) + ","
       + std::to_string(d.Mass().Value()) + "," + std::to_string(d.ElectricCurrent().Value()) + ","
       + std::to_string(d.Temperature().Value()) + "," + std::to_string(d.SubstanceAmount().Value())
       + "," + std::to_string(d.LuminousIntensity().Value());
  return s;
}

std::uint64_t Compare(const PhQ::Dimensions& a, const PhQ::Dimensions& b) {
  std::uint64_t bits = 0;
  bits |= (a == b) ? 1U : 0U;
  bits |= (a != b) ? 2U : 0U;
  bits |= (a < b) ? 4U : 0U;
  bits |= (a > b) ? 8U : 0U;
  bits |= (a <= b) ? 16U : 0U;
  bits |= (a >= b) ? 32U : 0U;
  return bits;
}

// One base physical dimension: every exponent value, every comparison against every other value.
template <typename BaseDimension>
void BaseDimensionSweep(const char* name) {
  static_assert(sizeof(BaseDimension) == sizeof(int8_t), "size of a base dimension");
  static_assert(std::is_trivially_copyable<BaseDimension>::value, "trivially copyable");
  Digest digest;
  for (int v = -128; v <= 127; ++v) {
    const BaseDimension d(static_cast<int8_t>(v));
    const std::string printed = d.Print();
    const std::string streamed = Streamed(d);
    digest.Add(printed);
    digest.Add(streamed);
    digest.Add(static_cast<std::uint64_t>(std::hash<BaseDimension>()(d)));
    digest.Add(static_cast<std::uint64_t>(static_cast<std::int64_t>(d.Value())));
    if (v >= -12 && v <= 12) {
      std::cout << name << " " << v << " -> '" << printed << "' '" << streamed << "' hash "
                << std::hash<BaseDimension>()(d) << "\n";
    }
    for (int w = -128; w <= 127; ++w) {
      const BaseDimension e(static_cast<int8_t>(w));
      std::uint64_t bits = 0;
      bits |= (d == e) ? 1U : 0U;
      bits |= (d != e) ? 2U : 0U;
      bits |= (d < e) ? 4U : 0U;
      bits |= (d > e) ? 8U : 0U;
      bits |= (d <= e) ? 16U : 0U;
      bits |= (d >= e) ? 32U : 0U;
      digest.Add(bits);
    }
  }
  const BaseDimension zero{};
  std::cout << name << " default '" << zero.Print() << "' abbreviation "
            << BaseDimension::Abbreviation() << " label " << BaseDimension::Label() << " digest "
            << std::hex << digest.state << std::dec << "\n";
}

template <typename UnitType>
void UnitDimensions(const char* name) {
  const PhQ::Dimensions& d = PhQ::RelatedDimensions<UnitType>;
  std::cout << "unit " << name << ": " << Describe(d) << "\n";
}

template <template <typename> class Quantity>
void QuantityDimensions(const char* name) {
  const PhQ::Dimensions f = Quantity<float>::Dimensions();
  const PhQ::Dimensions d = Quantity<double>::Dimensions();
  const PhQ::Dimensions l = Quantity<long double>::Dimensions();
  std::cout << "quantity " << name << ": float " << Describe(f) << " ; double " << Describe(d)
            << " ; long double " << Describe(l) << " ; same " << (f == d) << (d == l) << (f != l)
            << (f < d) << (d > l) << (f <= l) << (l >= f) << "\n";
}

// Compile-time evaluation of the comparison operators must still be possible.
constexpr PhQ::Dimensions kSpeedLike{
    PhQ::Dimension::Time{-1},       PhQ::Dimension::Length{1},          PhQ::Dimension::Mass{0},
    PhQ::Dimension::ElectricCurrent{0}, PhQ::Dimension::Temperature{0},
    PhQ::Dimension::SubstanceAmount{0}, PhQ::Dimension::LuminousIntensity{0}};
static_assert(kSpeedLike != PhQ::Dimensionless, "constexpr !=");
static_assert(!(kSpeedLike == PhQ::Dimensionless), "constexpr ==");
static_assert(kSpeedLike < PhQ::Dimensionless, "constexpr <");
static_assert(PhQ::Dimensionless > kSpeedLike, "constexpr >");
static_assert(kSpeedLike <= kSpeedLike && kSpeedLike >= kSpeedLike, "constexpr <= >=");
static_assert(sizeof(PhQ::Dimensions) == 7 * sizeof(int8_t), "size of a dimension set");

}  // namespace

int main() {
  // 1. The seven base physical dimensions.
  BaseDimensionSweep<PhQ::Dimension::Time>("Time");
  BaseDimensionSweep<PhQ::Dimension::Length>("Length");
  BaseDimensionSweep<PhQ::Dimension::Mass>("Mass");
  BaseDimensionSweep<PhQ::Dimension::ElectricCurrent>("ElectricCurrent");
  BaseDimensionSweep<PhQ::Dimension::Temperature>("Temperature");
  BaseDimensionSweep<PhQ::Dimension::SubstanceAmount>("SubstanceAmount");
  BaseDimensionSweep<PhQ::Dimension::LuminousIntensity>("LuminousIntensity");

  // 2. Declared dimension sets of all unit types.

  UnitDimensions<PhQ::Unit::Acceleration>("Acceleration");
  UnitDimensions<PhQ::Unit::Angle>("Angle");
  UnitDimensions<PhQ::Unit::AngularAcceleration>("AngularAcceleration");
  UnitDimensions<PhQ::Unit::AngularSpeed>("AngularSpeed");
  UnitDimensions<PhQ::Unit::Area>("Area");
  UnitDimensions<PhQ::Unit::Diffusivity>("Diffusivity");
  UnitDimensions<PhQ::Unit::DynamicViscosity>("DynamicViscosity");
  UnitDimensions<PhQ::Unit::ElectricCharge>("ElectricCharge");
  UnitDimensions<PhQ::Unit::ElectricCurrent>("ElectricCurrent");
  UnitDimensions<PhQ::Unit::Energy>("Energy");
  UnitDimensions<PhQ::Unit::EnergyFlux>("EnergyFlux");
  UnitDimensions<PhQ::Unit::Force>("Force");
  UnitDimensions<PhQ::Unit::Frequency>("Frequency");
  UnitDimensions<PhQ::Unit::HeatCapacity>("HeatCapacity");
  UnitDimensions<PhQ::Unit::Length>("Length");
  UnitDimensions<PhQ::Unit::Mass>("Mass");
  UnitDimensions<PhQ::Unit::MassDensity>("MassDensity");
  UnitDimensions<PhQ::Unit::MassRate>("MassRate");
  UnitDimensions<PhQ::Unit::Memory>("Memory");
  UnitDimensions<PhQ::Unit::MemoryRate>("MemoryRate");
  UnitDimensions<PhQ::Unit::Power>("Power");
  UnitDimensions<PhQ::Unit::Pressure>("Pressure");
  UnitDimensions<PhQ::Unit::ReciprocalTemperature>("ReciprocalTemperature");
  UnitDimensions<PhQ::Unit::SolidAngle>("SolidAngle");
  UnitDimensions<PhQ::Unit::SpecificEnergy>("SpecificEnergy");
  UnitDimensions<PhQ::Unit::SpecificHeatCapacity>("SpecificHeatCapacity");
  UnitDimensions<PhQ::Unit::SpecificPower>("SpecificPower");
  UnitDimensions<PhQ::Unit::Speed>("Speed");
  UnitDimensions<PhQ::Unit::SubstanceAmount>("SubstanceAmount");
  UnitDimensions<PhQ::Unit::Temperature>("Temperature");
  UnitDimensions<PhQ::Unit::TemperatureDifference>("TemperatureDifference");
  UnitDimensions<PhQ::Unit::TemperatureGradient>("TemperatureGradient");
  UnitDimensions<PhQ::Unit::ThermalConductivity>("ThermalConductivity");
  UnitDimensions<PhQ::Unit::Time>("Time");
  UnitDimensions<PhQ::Unit::TransportEnergyConsumption>("TransportEnergyConsumption");
  UnitDimensions<PhQ::Unit::Volume>("Volume");
  UnitDimensions<PhQ::Unit::VolumeRate>("VolumeRate");

  // 3. Dimension sets reported by all quantity types, for the three numeric types.
  QuantityDimensions<PhQ::Acceleration>("Acceleration");
  QuantityDimensions<PhQ::Angle>("Angle");
  QuantityDimensions<PhQ::AngularSpeed>("AngularSpeed");
  QuantityDimensions<PhQ::Area>("Area");
  QuantityDimensions<PhQ::BulkDynamicViscosity>("BulkDynamicViscosity");
  QuantityDimensions<PhQ::Direction>("Direction");
  QuantityDimensions<PhQ::Displacement>("Displacement");
  QuantityDimensions<PhQ::DisplacementGradient>("DisplacementGradient");
  QuantityDimensions<PhQ::DynamicKinematicPressure>("DynamicKinematicPressure");
  QuantityDimensions<PhQ::DynamicPressure>("DynamicPressure");
  QuantityDimensions<PhQ::DynamicViscosity>("DynamicViscosity");
  QuantityDimensions<PhQ::ElectricCharge>("ElectricCharge");
  QuantityDimensions<PhQ::ElectricCurrent>("ElectricCurrent");
  QuantityDimensions<PhQ::Energy>("Energy");
  QuantityDimensions<PhQ::Force>("Force");
  QuantityDimensions<PhQ::Frequency>("Frequency");
  QuantityDimensions<PhQ::GasConstant>("GasConstant");
  QuantityDimensions<PhQ::HeatCapacityRatio>("HeatCapacityRatio");
  QuantityDimensions<PhQ::HeatFlux>("HeatFlux");
  QuantityDimensions<PhQ::IsentropicBulkModulus>("IsentropicBulkModulus");
  QuantityDimensions<PhQ::IsobaricHeatCapacity>("IsobaricHeatCapacity");
  QuantityDimensions<PhQ::IsochoricHeatCapacity>("IsochoricHeatCapacity");
  QuantityDimensions<PhQ::IsothermalBulkModulus>("IsothermalBulkModulus");
  QuantityDimensions<PhQ::KinematicViscosity>("KinematicViscosity");
  QuantityDimensions<PhQ::LameFirstModulus>("LameFirstModulus");
  QuantityDimensions<PhQ::Length>("Length");
  QuantityDimensions<PhQ::LinearThermalExpansionCoefficient>("LinearThermalExpansionCoefficient");
  QuantityDimensions<PhQ::MachNumber>("MachNumber");
  QuantityDimensions<PhQ::Mass>("Mass");
  QuantityDimensions<PhQ::MassDensity>("MassDensity");
  QuantityDimensions<PhQ::MassRate>("MassRate");
  QuantityDimensions<PhQ::Memory>("Memory");
  QuantityDimensions<PhQ::MemoryRate>("MemoryRate");
  QuantityDimensions<PhQ::PWaveModulus>("PWaveModulus");
  QuantityDimensions<PhQ::PlanarAcceleration>("PlanarAcceleration");
  QuantityDimensions<PhQ::PlanarDirection>("PlanarDirection");
  QuantityDimensions<PhQ::PlanarDisplacement>("PlanarDisplacement");
  QuantityDimensions<PhQ::PlanarForce>("PlanarForce");
  QuantityDimensions<PhQ::PlanarHeatFlux>("PlanarHeatFlux");
  QuantityDimensions<PhQ::PlanarPosition>("PlanarPosition");
  QuantityDimensions<PhQ::PlanarTemperatureGradient>("PlanarTemperatureGradient");
  QuantityDimensions<PhQ::PlanarTraction>("PlanarTraction");
  QuantityDimensions<PhQ::PlanarVelocity>("PlanarVelocity");
  QuantityDimensions<PhQ::PoissonRatio>("PoissonRatio");
  QuantityDimensions<PhQ::Position>("Position");
  QuantityDimensions<PhQ::Power>("Power");
  QuantityDimensions<PhQ::PrandtlNumber>("PrandtlNumber");
  QuantityDimensions<PhQ::ReynoldsNumber>("ReynoldsNumber");
  QuantityDimensions<PhQ::ScalarAcceleration>("ScalarAcceleration");
  QuantityDimensions<PhQ::ScalarAngularAcceleration>("ScalarAngularAcceleration");
  QuantityDimensions<PhQ::ScalarDisplacementGradient>("ScalarDisplacementGradient");
  QuantityDimensions<PhQ::ScalarForce>("ScalarForce");
  QuantityDimensions<PhQ::ScalarHeatFlux>("ScalarHeatFlux");
  QuantityDimensions<PhQ::ScalarStrain>("ScalarStrain");
  QuantityDimensions<PhQ::ScalarStrainRate>("ScalarStrainRate");
  QuantityDimensions<PhQ::ScalarStress>("ScalarStress");
  QuantityDimensions<PhQ::ScalarTemperatureGradient>("ScalarTemperatureGradient");
  QuantityDimensions<PhQ::ScalarThermalConductivity>("ScalarThermalConductivity");
  QuantityDimensions<PhQ::ScalarTraction>("ScalarTraction");
  QuantityDimensions<PhQ::ScalarVelocityGradient>("ScalarVelocityGradient");
  QuantityDimensions<PhQ::ShearModulus>("ShearModulus");
  QuantityDimensions<PhQ::SolidAngle>("SolidAngle");
  QuantityDimensions<PhQ::SoundSpeed>("SoundSpeed");
  QuantityDimensions<PhQ::SpecificEnergy>("SpecificEnergy");
  QuantityDimensions<PhQ::SpecificGasConstant>("SpecificGasConstant");
  QuantityDimensions<PhQ::SpecificIsobaricHeatCapacity>("SpecificIsobaricHeatCapacity");
  QuantityDimensions<PhQ::SpecificIsochoricHeatCapacity>("SpecificIsochoricHeatCapacity");
  QuantityDimensions<PhQ::SpecificPower>("SpecificPower");
  QuantityDimensions<PhQ::Speed>("Speed");
  QuantityDimensions<PhQ::StaticKinematicPressure>("StaticKinematicPressure");
  QuantityDimensions<PhQ::StaticPressure>("StaticPressure");
  QuantityDimensions<PhQ::Strain>("Strain");
  QuantityDimensions<PhQ::StrainRate>("StrainRate");
  QuantityDimensions<PhQ::Stress>("Stress");
  QuantityDimensions<PhQ::SubstanceAmount>("SubstanceAmount");
  QuantityDimensions<PhQ::Temperature>("Temperature");
  QuantityDimensions<PhQ::TemperatureDifference>("TemperatureDifference");
  QuantityDimensions<PhQ::TemperatureGradient>("TemperatureGradient");
  QuantityDimensions<PhQ::ThermalConductivity>("ThermalConductivity");
  QuantityDimensions<PhQ::ThermalDiffusivity>("ThermalDiffusivity");
  QuantityDimensions<PhQ::Time>("Time");
  QuantityDimensions<PhQ::TotalKinematicPressure>("TotalKinematicPressure");
  QuantityDimensions<PhQ::TotalPressure>("TotalPressure");
  QuantityDimensions<PhQ::Traction>("Traction");
  QuantityDimensions<PhQ::TransportEnergyConsumption>("TransportEnergyConsumption");
  QuantityDimensions<PhQ::VectorArea>("VectorArea");
  QuantityDimensions<PhQ::Velocity>("Velocity");
  QuantityDimensions<PhQ::VelocityGradient>("VelocityGradient");
  QuantityDimensions<PhQ::Volume>("Volume");
  QuantityDimensions<PhQ::VolumeRate>("VolumeRate");
  QuantityDimensions<PhQ::VolumetricThermalExpansionCoefficient>("VolumetricThermalExpansionCoefficient");
  QuantityDimensions<PhQ::YoungModulus>("YoungModulus");

  // 4. All exponent 7-tuples in the box [-2, 2]^7: printing, serialising and hashing, all printed.
  {
    Digest digest;
    std::vector<PhQ::Dimensions> box;
    for (int t = -2; t <= 2; ++t)
      for (int l = -2; l <= 2; ++l)
        for (int m = -2; m <= 2; ++m)
          for (int i = -2; i <= 2; ++i)
            for (int th = -2; th <= 2; ++th)
              for (int n = -2; n <= 2; ++n)
                for (int j = -2; j <= 2; ++j) {
                  box.push_back(Make(t, l, m, i, th, n, j));
                }
    for (const PhQ::Dimensions& d : box) {
      const std::string description = Describe(d);
      digest.Add(description);
      std::cout << description << "\n";
    }
    std::cout << "box[-2,2] count " << box.size() << " digest " << std::hex << digest.state
              << std::dec << "\n";
    // Containers keyed on dimension sets.
    std::set<PhQ::Dimensions> ordered(box.rbegin(), box.rend());
    std::unordered_set<PhQ::Dimensions> hashed(box.begin(), box.end());
    Digest order_digest;
    for (const PhQ::Dimensions& d : ordered) {
      order_digest.Add(d.Print());
    }
    std::cout << "set size " << ordered.size() << " unordered_set size " << hashed.size()
              << " first " << ordered.begin()->Print() << " last " << ordered.rbegin()->Print()
              << " order digest " << std::hex << order_digest.state << std::dec << "\n";
  }

  // 5. All ordered pairs of exponent 7-tuples in the box [-1, 1]^7: the six comparison operators.
  {
    Digest digest;
    std::vector<PhQ::Dimensions> box;
    for (int t = -1; t <= 1; ++t)
      for (int l = -1; l <= 1; ++l)
        for (int m = -1; m <= 1; ++m)
          for (int i = -1; i <= 1; ++i)
            for (int th = -1; th <= 1; ++th)
              for (int n = -1; n <= 1; ++n)
                for (int j = -1; j <= 1; ++j) {
                  box.push_back(Make(t, l, m, i, th, n, j));
                }
    std::uint64_t counts[64] = {};
    for (const PhQ::Dimensions& a : box) {
      for (const PhQ::Dimensions& b : box) {
        const std::uint64_t bits = Compare(a, b);
        ++counts[bits];
        digest.Add(bits);
      }
    }
    std::cout << "pairs box[-1,1] count " << box.size() * box.size() << " digest " << std::hex
              << digest.state << std::dec;
    for (int k = 0; k < 64; ++k) {
      if (counts[k] != 0) {
        std::cout << " [" << k << "]=" << counts[k];
      }
    }
    std::cout << "\n";
  }

  // 6. Random exponent 7-tuples over the whole int8_t range, including the extremes, and pairs
  // that agree on a random-length prefix so that every position gets to decide the ordering.
  {
    std::mt19937_64 generator(20240607ULL);
    std::uniform_int_distribution<int> any(-128, 127);
    std::uniform_int_distribution<int> pick(0, 9);
    std::uniform_int_distribution<int> prefix(0, 7);
    const int special[10] = {-128, -127, -2, -1, 0, 1, 2, 9, 126, 127};
    Digest digest;
    for (int trial = 0; trial < 300000; ++trial) {
      int a[7];
      int b[7];
      for (int k = 0; k < 7; ++k) {
        a[k] = (trial % 3 == 0) ? special[pick(generator)] : any(generator);
        b[k] = (trial % 3 == 1) ? special[pick(generator)] : any(generator);
      }
      const int shared = prefix(generator);
      for (int k = 0; k < shared; ++k) {
        b[k] = a[k];
      }
      const PhQ::Dimensions da = Make(a[0], a[1], a[2], a[3], a[4], a[5], a[6]);
      const PhQ::Dimensions db = Make(b[0], b[1], b[2], b[3], b[4], b[5], b[6]);
      const std::uint64_t bits = Compare(da, db);
      const std::string description = Describe(da);
      digest.Add(bits);
      digest.Add(description);
      digest.Add(static_cast<std::uint64_t>(std::hash<PhQ::Dimensions>()(db)));
      if (trial < 400) {
        std::cout << "random " << description << " vs " << db.Print() << " -> " << bits << "\n";
      }
    }
    std::cout << "random digest " << std::hex << digest.state << std::dec << "\n";
  }

  // 7. Copies, assignment and the dimensionless constant.
  {
    PhQ::Dimensions a = Make(-2, 1, 1, 0, 0, 0, 0);
    const PhQ::Dimensions b = a;
    PhQ::Dimensions c;
    std::cout << "default " << Describe(c) << "\n";
    c = a;
    a = PhQ::Dimensionless;
    std::cout << "copies " << Describe(a) << " ; " << Describe(b) << " ; " << Describe(c) << " ; "
              << Compare(a, b) << " " << Compare(b, c) << " " << Compare(PhQ::Dimensionless, a)
              << "\n";
    std::unordered_map<PhQ::Dimensions, std::string> names;
    names.emplace(b, "force");
    names.emplace(PhQ::Dimensionless, "none");
    std::map<PhQ::Dimensions, std::string> ordered_names(names.begin(), names.end());
    std::cout << names.at(c) << " " << names.at(a) << " " << ordered_names.begin()->second << "\n";
  }
  return 0;
}
