"""Translation validation of the abstract evaluator (reduces the trusted base).

For every constexpr relation function the evaluator's *term* is evaluated at a rational sample point (exact arithmetic,
high-precision roots) and a `static_assert` is generated that the compiler's own constant evaluator (g++ -fsyntax-only)
obtains the same number to within a few ulps.  Nothing is run; a disagreement means the evaluator (or the extractor)
misrepresents the code and is reported as ANALYSIS-BROKEN material, never as a property violation.
"""
import os
import re
import subprocess
import tempfile
from fractions import Fraction

import mpmath

from . import facts, ev, relations, quant, shapes, tables, frontend
from .facts import strip_cvref

mpmath.mp.dps = 50
SAMPLES = [Fraction(5, 4), Fraction(5, 2), Fraction(7, 4), Fraction(3, 1), Fraction(9, 8), Fraction(11, 2), Fraction(13, 4),
           Fraction(15, 8), Fraction(17, 16), Fraction(19, 4), Fraction(21, 8), Fraction(23, 2), Fraction(25, 16), Fraction(27, 4),
           Fraction(29, 8), Fraction(31, 16), Fraction(33, 4), Fraction(35, 32)]


def tval(t, env):
    """Numeric value (mpmath mpf) of a scalar term under env: leaf name -> Fraction."""
    if isinstance(t, bool):
        return t
    if isinstance(t, int):
        return mpmath.mpf(t)
    k = t[0]
    if k == "c":
        return mpmath.mpf(t[1].numerator) / t[1].denominator
    if k == "pi":
        return mpmath.pi
    if k == "leaf":
        q = env[t[1]]
        return mpmath.mpf(q.numerator) / q.denominator
    if k == "add":
        return tval(t[1], env) + tval(t[2], env)
    if k == "sub":
        return tval(t[1], env) - tval(t[2], env)
    if k == "mul":
        return tval(t[1], env) * tval(t[2], env)
    if k == "div":
        return tval(t[1], env) / tval(t[2], env)
    if k == "neg":
        return -tval(t[1], env)
    if k == "cast":
        return tval(t[2], env)
    if k == "g":
        return tval(t[2], env) if tval(t[1], env) else tval(t[3], env)
    if k == "cmp":
        a, b = tval(t[2], env), tval(t[3], env)
        return {"==": a == b, "!=": a != b, "<": a < b, ">": a > b, "<=": a <= b, ">=": a >= b}[t[1]]
    if k == "not":
        return not tval(t[1], env)
    if k == "and":
        return tval(t[1], env) and tval(t[2], env)
    if k == "or":
        return tval(t[1], env) or tval(t[2], env)
    if k == "fn":
        a = [tval(x, env) for x in t[2:]]
        n = t[1]
        if n == "sqrt":
            return mpmath.sqrt(a[0])
        if n == "cbrt":
            return mpmath.cbrt(a[0])
        if n == "pow":
            return mpmath.power(a[0], a[1])
        if n == "abs":
            return abs(a[0])
        if n == "acos":
            return mpmath.acos(a[0])
        if n == "clamp":
            return max(a[1], min(a[0], a[2]))
        if n in ("min", "fmin"):
            return min(a)
        if n in ("max", "fmax"):
            return max(a)
        if n in ("exp", "log", "log2", "log10"):
            return {"exp": mpmath.exp, "log": mpmath.log, "log2": lambda x: mpmath.log(x, 2), "log10": mpmath.log10}[n](a[0])
    raise ev.Inconclusive("cannot evaluate term kind %s numerically" % (t[1] if k == "fn" else k))


def lit(q, T):
    suf = {"float": "f", "double": "", "long double": "L"}[T]
    s = mpmath.nstr(mpmath.mpf(q.numerator) / q.denominator, 25)
    if "." not in s and "e" not in s:
        s += ".0"
    return s + suf


class Builder:
    def __init__(self, F):
        self.F = F
        self.T = F.numeric
        self.inv = quant.inventory(F)
        self.tab = tables.Tables(F)
        self.k = 0

    def fresh(self, n):
        vals = [SAMPLES[(self.k + i) % len(SAMPLES)] for i in range(n)]
        self.k += n
        return vals

    def construct(self, tname, prefix, env):
        """C++ expression building a value of type tname whose stored slots equal fresh sample values; fills env
        (leaf name -> Fraction) with the evaluator's leaf names for that operand. Returns None if not expressible."""
        t = strip_cvref(tname)
        F, T = self.F, self.T
        E = ev.Evaluator(F)
        sym = E.symbolic(t, prefix)
        leaves = [x[1] for _, x in ev.flatten(sym)]
        if t == T:
            v = self.fresh(1)
            env[leaves[0]] = v[0]
            return lit(v[0], T)
        q = self.inv.get(t)
        sh = shapes.shape_of_type(F, t)
        if sh is None:
            return None
        n = quant.SHAPE_N[sh]
        if re.match(r"PhQ::(Planar)?Direction<", t):
            vals = [Fraction(3, 5), Fraction(4, 5)] + ([Fraction(0)] if n == 3 else [])
        else:
            vals = self.fresh(n)
        for l, v in zip(leaves, vals):
            env[l] = v
        args = ", ".join(lit(v, T) for v in vals)
        if q is None or q.kind == "tensor":
            return "%s(%s)" % (t, args)
        if q.unit is not None:
            std = self.tab.standard.get(q.unit)
            creates = [f for f in F.methods(t, "Create") if f.get("static") and len(f["params"]) == n and f.get("targs") and f["targs"][0].endswith("::" + str(std))
                       and all(strip_cvref(x) == T for x in F.param_types(f))]
            if not creates:
                return None
            return "%s::Create<%s::%s>(%s)" % (t, q.unit, std, args)
        # dimensionless quantity: public constexpr constructor from the raw numbers
        ctors = [f for f in F.methods(t) if f["kind"] == "ctor" and f.get("access") == "public" and f.get("constexpr") and len(f["params"]) == n
                 and all(strip_cvref(x) == T for x in F.param_types(f))]
        if not ctors:
            return None
        return "%s(%s)" % (t, args)

    def extract(self, expr, tname):
        """[(C++ scalar expression)] reading the stored slots of a value expression of type tname, in slot order."""
        t = strip_cvref(tname)
        if t == self.T:
            return [expr]
        sh = shapes.shape_of_type(self.F, t)
        if sh is None:
            return None
        q = self.inv.get(t)
        base = expr if (q is None or q.kind == "tensor") else "(%s).Value()" % expr
        if sh == "scalar":
            return [base]
        names = {"planar": ["x", "y"], "vector": ["x", "y", "z"], "symdyad": ["xx", "xy", "xz", "yy", "yz", "zz"],
                 "dyad": ["xx", "xy", "xz", "yx", "yy", "yz", "zx", "zy", "zz"]}[sh]
        return ["(%s).%s()" % (base, nme) for nme in names]


def generate(F, limit=None):
    """Returns (list of C++ static_assert lines, list of descriptions, skipped count)."""
    T = F.numeric
    B = Builder(F)
    lines, descs, skipped = [], [], 0
    eps = {"float": "1e-5", "double": "1e-13", "long double": "1e-16"}[T]
    for r in relations.relations(F):
        f = r.f
        if r.kind == "cassign" or not f.get("constexpr"):
            skipped += 1
            continue
        if r.ret_q in ("void", "other", "bool") and r.kind != "ctor":
            skipped += 1
            continue
        try:
            env = {}
            ops = []
            ok = True
            if r.kind in ("op", "member"):
                c = B.construct(r.this_q, "self", env)
                ok &= c is not None
                ops.append(c)
            for i, pt in enumerate(F.param_types(f)):
                c = B.construct(pt, f["params"][i]["n"] or "arg%d" % i, env)
                ok &= c is not None
                ops.append(c)
            if not ok:
                skipped += 1
                continue
            E = ev.Evaluator(F)
            res, this_lv, _ = E.run_symbolic(f, this_prefix="self")
            if r.kind == "ctor":
                val, rt = E.load(this_lv), r.this_q
                expr = "%s(%s)" % (r.this_q, ", ".join(ops))
            elif r.kind == "op":
                val, rt = E.rv(res), F.T(f["ret"])
                expr = "(%s) %s (%s)" % (ops[0], f["op"], ops[1])
            elif r.kind == "member":
                val, rt = E.rv(res), F.T(f["ret"])
                expr = "(%s).%s(%s)" % (ops[0], f["sname"], ", ".join(ops[1:]))
            elif r.kind == "free_op":
                val, rt = E.rv(res), F.T(f["ret"])
                expr = "(%s) %s (%s)" % (ops[0], f["op"], ops[1])
            else:
                val, rt = E.rv(res), F.T(f["ret"])
                expr = "%s(%s)" % (f.get("qname", f["name"]), ", ".join(ops))
            if E.unknown_calls:
                skipped += 1
                continue
            outs = B.extract(expr, rt)
            slots = [t for _, t in ev.flatten(val)]
            if outs is None or len(outs) != len(slots):
                skipped += 1
                continue
            for o, t in zip(outs, slots):
                want = tval(t, env)
                w = mpmath.nstr(want, 25)
                if "." not in w and "e" not in w and "n" not in w:
                    w += ".0"
                wl = w + "L"
                lines.append("static_assert(vf_close(static_cast<long double>(%s), %s, %sL), \"%d\");" % (o, wl, eps, len(lines)))
                descs.append("%s slot %s expected %s" % (f["name"] + str([strip_cvref(x).replace("PhQ::", "") for x in F.param_types(f)]), o[-24:], w))
        except (ev.Inconclusive, KeyError, ZeroDivisionError):
            skipped += 1
            continue
        if limit and len(lines) >= limit:
            break
    # the tensor kernels themselves (C09): constexpr members and free operators of the four tensor classes
    tnames = ["PhQ::%s<%s>" % (c, T) for c in ("PlanarVector", "Vector", "SymmetricDyad", "Dyad")]
    cands = []
    for tn in tnames:
        for f in F.methods(tn):
            if "body" in f and f.get("constexpr") and f["kind"] == "method" and f.get("const") and not f.get("static") and f.get("access") == "public":
                cands.append((f, tn))
    for f in F.fns.values():
        if f.get("kind") == "function" and f.get("op") in ("+", "-", "*", "/") and "body" in f and f.get("constexpr") and len(f["params"]) == 2:
            pts = [strip_cvref(x) for x in F.param_types(f)]
            if all(p in tnames or p == T for p in pts) and any(p in tnames for p in pts):
                cands.append((f, None))
    for f, this_t in cands:
        try:
            rt = strip_cvref(F.T(f["ret"]))
            if rt.startswith("std::"):
                skipped += 1
                continue
            env, ops = {}, []
            ok = True
            if this_t:
                c = B.construct(this_t, "self", env)
                ok &= c is not None
                ops.append(c)
            pts = F.param_types(f)
            if any(strip_cvref(p) not in tnames and strip_cvref(p) != T for p in pts):
                skipped += 1
                continue
            for i, pt in enumerate(pts):
                c = B.construct(pt, f["params"][i]["n"] or "arg%d" % i, env)
                ok &= c is not None
                ops.append(c)
            if not ok:
                skipped += 1
                continue
            E = ev.Evaluator(F)
            res, this_lv, _ = E.run_symbolic(f, this_prefix="self")
            val = E.rv(res)
            if this_t:
                expr = "(%s).%s(%s)" % (ops[0], f["sname"], ", ".join(ops[1:]))
            else:
                expr = "(%s) %s (%s)" % (ops[0], f["op"], ops[1])
            outs = B.extract(expr, rt)
            slots = [t for _, t in ev.flatten(val)]
            if outs is None or len(outs) != len(slots):
                skipped += 1
                continue
            for o, t in zip(outs, slots):
                want = tval(t, env)
                w = mpmath.nstr(want, 25)
                if "." not in w and "e" not in w and "n" not in w:
                    w += ".0"
                lines.append("static_assert(vf_close(static_cast<long double>(%s), %sL, %sL), \"%d\");" % (o, w, eps, len(lines)))
                descs.append("%s slot %s expected %s" % (f["name"] + str([strip_cvref(x).replace("PhQ::", "") for x in pts]), o[-24:], w))
        except (ev.Inconclusive, KeyError, ZeroDivisionError):
            skipped += 1
    return lines, descs, skipped


PRELUDE = '''#include "umbrella.hpp"
constexpr bool vf_close(long double got, long double want, long double rel) {
  long double d = got - want; if (d < 0) d = -d;
  long double m = want < 0 ? -want : want;
  return d <= rel * (m > 1e-300L ? m : 1e-300L) || d <= 1e-30L;
}
'''


def run(numeric="double", limit=None):
    F = facts.load(numeric)
    work = frontend.build_facts()
    lines, descs, skipped = generate(F, limit)
    d = tempfile.mkdtemp(prefix="phq-validate-", dir="/var/tmp")
    try:
        src = os.path.join(d, "v.cc")
        open(src, "w").write(PRELUDE + "\n".join(lines) + "\n")
        r = subprocess.run(["g++", "-std=c++17", "-fsyntax-only", "-fmax-errors=0", "-w", "-I" + work, "-I" + frontend.INC, src],
                           capture_output=True, text=True)
        failed = sorted({int(m) for m in re.findall(r'static assertion failed: (\d+)', r.stderr)})
        nonconst = sorted({int(m) for m in re.findall(r'v\.cc:(\d+):\d+: error: non-constant condition', r.stderr)})
        other = [l for l in r.stderr.splitlines() if "error:" in l and "static assertion failed" not in l and "non-constant condition" not in l]
        base = PRELUDE.count("\n")
        nonconst_idx = [n - base - 1 for n in nonconst]
        return {"numeric": numeric, "asserts": len(lines), "skipped_functions": skipped, "disagreements": [descs[i] for i in failed if i < len(descs)][:20],
                "n_disagreements": len(failed), "not_constant_expressions": len(nonconst_idx), "other_errors": other[:5], "n_other_errors": len(other)}
    finally:
        subprocess.run(["rm", "-rf", d])


if __name__ == "__main__":
    import json
    import sys
    print(json.dumps(run(sys.argv[1] if len(sys.argv) > 1 else "double"), indent=1)[:3000])
