"""C01 — every unit converts by the factor its own symbol implies."""
from fractions import Fraction
from .. import facts, affine, ev
from ..units_model import UnitModel, close
from ..frontend import NUMERIC
from ..facts import short


def run(chk):
    chk.level = "other"
    chk.technique = ("abstract interpretation of each Conversion<U,X>::{To,From}Standard<T> body in an affine domain over Q(pi) "
                     "with a rounding counter; compared with the SI magnitude obtained by parsing the unit's own abbreviation "
                     "with an independent unit grammar/lexicon (oracle/units.py); dispatch tables read from the AST")
    chk.rule("R0", "the unit oracle is self-consistent on a list of redundant definitions")
    chk.rule("R1", "ToStandard denotes value -> a*value + b with (a, b) exactly the magnitude/offset implied by the unit's symbol")
    chk.rule("R2", "FromStandard o ToStandard is the identity as affine maps over Q(pi)")
    chk.rule("R3", "MapOfConversions{To,From}Standard<U,T>[X] is Conversions<U,X>::{To,From}Standard<T>, which applies Conversion<U,X> to each of `size` elements")
    chk.rule("R4b", "rigorous bound for each multiplicative direction: the constants are evaluated exactly as IEEE round-to-nearest arithmetic in T would, "
                    "giving |machine factor / exact factor - 1| in ulps, plus one ulp per rounding on the value path (and one per libm pow): <= 8 ulp per direction (tree maximum 4.3)")
    chk.rule("R4c", "every intermediate on the value path lies between the input and the result in magnitude (prefix factors within [min(1,|f|), max(1,|f|)]): no overflow/underflow unless the exact result overflows/underflows")
    chk.rule("R4", "a multiplicative unit's path uses only * and / by constants; K roundings on To+From gives at most K ulps; K <= 32")
    chk.assumptions += [
        "R4 bounds the relative error by K*u/(1-K*u) in the standard model of floating-point arithmetic, assuming no overflow/underflow; it does not establish the tighter measured figure",
        "ulp error of the affine units (degC, degF) near cancellation and the subnormal range are NOT decided",
        "unit symbols are read with oracle/units.py (definitions: SI brochure 2019, 1959 yard/pound agreement, g0 = 9.80665, cal_th, BTU_IT)",
    ]
    from ..units_model import U as _U
    from ..frontend import AnalysisBroken
    fails = _U.self_check()
    if fails:
        raise AnalysisBroken("unit oracle is internally inconsistent: " + "; ".join(fails[:3]))
    chk.holds("R0", "oracle self-check", "redundant definitions agree (mile = 5280 ft, acre = 43560 ft^2, kn = nmi/hr, slug = lbf s^2/ft, psi, W = J/s, P = g/cm/s, kiB, BTU_IT, degF fixed points, ...)", "oracle/units.py")
    n_types = n_units = n_bodies = 0
    kmax = {}
    ulp_max = {}
    n_r4b = [0]
    for T in NUMERIC:
        F = facts.load(T, chk.tier)
        M = UnitModel(F)
        for ut in M.unit_types():
            abbrs = M.abbreviations(ut)
            names = M.T.enumerators(ut)
            if T == "double":
                n_types += 1
                n_units += len(names)
            for name in names:
                inst = "%s::%s<%s>" % (M.short(ut), name, T)
                abbr = abbrs.get(name)
                a_to, f_to, d_to = M.conversion_affine(ut, name, "ToStandard")
                a_fr, f_fr, d_fr = M.conversion_affine(ut, name, "FromStandard")
                loc_to = short(f_to.get("def_loc", f_to["loc"])) if f_to else short(F.enums[ut]["loc"])
                loc_fr = short(f_fr.get("def_loc", f_fr["loc"])) if f_fr else short(F.enums[ut]["loc"])
                if f_to is None or f_fr is None:
                    chk.violated("R1", inst, "no conversion body is instantiated for this enumerator (%s / %s): the dispatch tables cannot reach a definition" % (d_to, d_fr), loc_to)
                    continue
                n_bodies += 2
                if a_to is None or a_fr is None:
                    chk.inconclusive("R1", inst, "%s ; %s" % (d_to, d_fr), loc_to)
                    continue
                if abbr is None:
                    chk.violated("R1", inst, "enumerator has no abbreviation, so no symbol defines its magnitude", loc_to)
                    continue
                orc, err = M.oracle_affine(ut, name, abbr)
                if orc is None:
                    chk.inconclusive("R1", inst, "symbol %r: %s" % (abbr, err), loc_to)
                    continue
                A, B = orc
                ok = close(a_to.A, A) and close(a_to.B, B)
                detail = "symbol %r => standard = (%s)*v + (%s); ToStandard body %s => (%s)*v + (%s)" % (
                    abbr, affine.n_show(A), affine.n_show(B), d_to, affine.n_show(a_to.A), affine.n_show(a_to.B))
                if ok:
                    chk.holds("R1", inst, detail, loc_to, nontrivial=(a_to.A != affine.num(1)))
                else:
                    ratio = ""
                    try:
                        ratio = " (code/symbol factor ratio = %.12g)" % (affine.n_float(a_to.A) / affine.n_float(A))
                    except Exception:
                        pass
                    chk.violated("R1", inst, detail + ratio, loc_to, witness={"value": 1, "expected_standard": affine.n_float(affine.n_add(A, B)), "code_standard": affine.n_float(affine.n_add(a_to.A, a_to.B))})
                comp = affine.compose(a_fr, a_to)
                if close(comp.A, affine.num(1)) and (comp.B == {} or all(abs(v) < Fraction(1, 2 ** 60) for v in comp.B.values())):
                    chk.holds("R2", inst, "From o To = (%s)*v + (%s)" % (affine.n_show(comp.A), affine.n_show(comp.B)), loc_fr, nontrivial=(a_to.A != affine.num(1)))
                else:
                    chk.violated("R2", inst, "FromStandard body %s; From o To = (%s)*v + (%s), not the identity" % (d_fr, affine.n_show(comp.A), affine.n_show(comp.B)), loc_fr)
                # the value itself must not pass through a narrower type
                from ..models import narrowing_casts
                for direction, a_x in (("ToStandard", a_to), ("FromStandard", a_fr)):
                    nar = [c for c in narrowing_casts(a_x.term, T) if ev.leaves(c[1])]
                    if nar:
                        chk.violated("R4b", inst + ":" + direction + ":narrowing", "the value is cast to %s inside the %s conversion (%s)" % (nar[0][0], T, ev.show(nar[0][1])[:100]), loc_to)
                # R4
                K = a_to.roundings + a_fr.roundings
                multiplicative = (B == {})
                if multiplicative:
                    if a_to.addsub or a_fr.addsub:
                        chk.violated("R4", inst, "multiplicative unit converted with an addition/subtraction on the value path (cancellation possible): %s ; %s" % (d_to, d_fr), loc_to)
                    elif K > 32:
                        chk.violated("R4", inst, "%d roundings on To+From (> 32): %s ; %s" % (K, d_to, d_fr), loc_to)
                    else:
                        chk.holds("R4", inst, "K=%d roundings, bound %d ulp" % (K, K), loc_to, nontrivial=K > 0)
                    kmax[T] = max(kmax.get(T, 0), K)
                    # R4b: exact machine evaluation of the constants => a rigorous per-direction ulp bound
                    for direction, a_x, sym_factor in (("ToStandard", a_to, A), ("FromStandard", a_fr, affine.n_inv(A))):
                        try:
                            if a_x.A == affine.num(1):
                                continue
                            fhat, nops, extra = affine.machine_factor(a_x.term, "v", T)
                            (kk, q), = sym_factor.items()
                            exact = q * affine.rounded_pi("long double") ** kk if kk else q
                            if kk:
                                # pi is irrational: use a 200-bit rational approximation for the comparison
                                from fractions import Fraction as Fr
                                PI = Fr("3.14159265358979323846264338327950288419716939937510582097494459230781640628620899")
                                exact = q * PI ** kk
                            # R4c: no intermediate on the value path leaves the range spanned by the input and the result
                            pref = [abs(x) for x in affine.value_path_prefixes(a_x.term, "v", T)]
                            lo, hi = min(1, abs(fhat)), max(1, abs(fhat))
                            outside = [x for x in pref[:-1] if x > hi or x < lo]
                            if outside:
                                chk.violated("R4c", inst + ":" + direction, "the value is scaled by %.6g before reaching its final factor %.6g: the intermediate overflows (or underflows) for finite inputs whose converted value is finite" % (float(outside[0]), float(fhat)), loc_to)
                            rel = abs(fhat / exact - 1)
                            ulps = float(rel * 2 ** affine.MANT[T]) + nops + extra
                            ulp_max[T] = max(ulp_max.get(T, 0.0), ulps)
                            if ulps > 8.0:
                                chk.violated("R4b", inst + ":" + direction, "rigorous bound %.2f ulp (> 8): machine factor %s vs exact; %d rounding(s) on the value" % (ulps, float(fhat), nops), loc_to)
                            else:
                                n_r4b[0] += 1
                        except ev.Inconclusive as x:
                            chk.inconclusive("R4b", inst + ":" + direction, str(x), loc_to)
                else:
                    chk.observe("affine unit %s: ulp bound near cancellation not decided (%s)" % (inst, d_to))
            # R3 dispatch tables
            for kind, direction in (("to_std", "ToStandard"), ("from_std", "FromStandard")):
                rows = M.T.rows(kind, ut)
                var = M.T.var(kind, ut)
                vloc = short(var["loc"]) if var else short(F.enums[ut]["loc"])
                inst = "%s<%s,%s>" % (kind, M.short(ut), T)
                if rows is None:
                    chk.violated("R3", inst, "dispatch table is not instantiated/defined for this unit type", vloc)
                    continue
                keys = [k[2] for k, v in rows if isinstance(k, tuple)]
                missing = [n for n in names if n not in keys]
                if missing:
                    chk.violated("R3", inst + ":keys", "enumerators without an entry (unchecked find()->second would dereference end()): %s" % missing, vloc)
                dup = sorted({k for k in keys if keys.count(k) > 1})
                if dup:
                    chk.violated("R3", inst + ":dups", "enumerators listed twice (later entries are dropped by std::map): %s" % dup, vloc)
                for k, v in rows:
                    if not (isinstance(k, tuple) and isinstance(v, tuple) and v[0] == "fn"):
                        chk.inconclusive("R3", inst + ":" + str(k), "table entry is not (enumerator, function)", vloc)
                        continue
                    want = "PhQ::Internal::Conversions<%s, %s::%s>::%s<%s>" % (ut, ut, k[2], direction, T)
                    got = v[1]["name"]
                    i2 = "%s[%s]" % (inst, k[2])
                    # whichever function the entry names (the loop may live in a helper or a base class): what it must
                    # *do* is apply Conversion<U, X>::direction once to each of `size` elements and to nothing else
                    okloop, why = conversions_loop_ok(F, v[1], ut, k[2], direction, T)
                    if okloop is False and got != want:
                        why = "entry for %s dispatches to %s: %s" % (k[2], got, why)
                    if okloop is True:
                        chk.holds("R3", i2, why, vloc)
                    elif okloop is False:
                        chk.violated("R3", i2, why, short(v[1].get("def_loc", v[1]["loc"])))
                    else:
                        chk.inconclusive("R3", i2, why, short(v[1].get("def_loc", v[1]["loc"])))
    # R6: the plain-number entry points compose the two kernels in the right order (affine maps do not commute)
    from . import c02
    chk.rule("R6", "Convert / ConvertInPlace / ConvertStatically on a plain number apply To_X first and From_Y second (the composed affine map is From_Y o To_X; "
                   "for the offset units the order matters), and converting a unit to itself is the identity")
    n_entry = 0
    for T in NUMERIC:
        F = facts.load(T, chk.tier)
        M = UnitModel(F)
        n_entry += c02.free_overloads(chk, F, M, c02.Conv(M), T, r3="R6", r4="R6", only_shapes={"scalar"})
    chk.floor("plain-number conversion entry point instances", n_entry, 300)
    if chk.tier == "thorough":
        all_pairs(chk)
    chk.floor("unit types", n_types, 37)
    chk.floor("units", n_units, 500)
    chk.floor("conversion bodies (x3 numeric types)", n_bodies, 3000)
    chk.coverage["units"] = n_units
    chk.coverage["unit_types"] = n_types
    chk.coverage["conversion_bodies_analysed"] = n_bodies
    chk.coverage["max_roundings_to_plus_from"] = kmax
    chk.coverage["implied_ulp_bound"] = kmax
    chk.coverage["rigorous_ulp_bound_per_direction"] = {k: round(v, 3) for k, v in ulp_max.items()}
    if n_r4b[0] and not any(o["rule"] == "R4c" for o in chk.obs):
        chk.holds("R4c", "all multiplicative directions", "%d value paths examined: no intermediate leaves the range between input and result" % n_r4b[0], "")
    chk.holds("R4b", "all multiplicative directions", "%d directions bounded; worst %s ulp" % (n_r4b[0], {k: round(v, 2) for k, v in ulp_max.items()}), "") if n_r4b[0] else None


def conversions_loop_ok(F, f, ut, name, direction, T):
    """Conversions<U,X>::dir<T>(values, size): applying it to a 3-element array applies Conversion<U,X>::dir
    to each element, and to nothing else."""
    E = ev.Evaluator(F)
    want = "PhQ::Internal::Conversion<%s, %s::%s>::%s<%s>" % (ut, ut, name, direction, T)
    calls = []

    def hook(E_, fn, this_lv, args):
        calls.append(args[0])
        lv = args[0]
        E_.save(lv, ("fn", "conv", E_.load(lv)))
        return None
    target = F.by_name.get(want, [])
    if len(target) != 1:
        return False, "no body for " + want
    # intercept the per-element routine
    orig = E._invoke

    def inv(fn, this_lv, args):
        if fn["name"] == want:
            return hook(E, fn, this_lv, args)
        return orig(fn, this_lv, args)
    E._invoke = inv
    try:
        for n in (1, 3):
            arr = E.new_loc(ev.Arr([("leaf", "v%d" % i) for i in range(n + 1)]), "arr")
            E.call(f["id"], None, [("ptr", arr.loc, (0,)), n])
            out = E.load(arr)
            for i in range(n):
                if out.items[i] != ("fn", "conv", ("leaf", "v%d" % i)):
                    return False, "element %d of %d becomes %s (expected one application of %s)" % (i, n, ev.show(out.items[i]), want)
            if out.items[n] != ("leaf", "v%d" % n):
                return False, "writes past `size` elements (size=%d)" % n
        return True, "applies Conversion<%s>::%s once to each of size elements (sizes 1 and 3 unrolled; loop is uniform in the index)" % (name, direction)
    except ev.Inconclusive as x:
        return None, str(x)


def all_pairs(chk):
    """Thorough: every ordered pair (X, Y) of units of one type, each numeric type: the composed map From_Y o To_X is
    exactly (m_X/m_Y) v + offset as implied by the two symbols, and its rounding count stays within the bound."""
    chk.rule("R5", "(thorough) for every ordered pair of units of a type, From_Y o To_X equals the map implied by the two symbols; K_to(X)+K_from(Y) <= 32")
    n = 0
    worst = {}
    for T in NUMERIC:
        F = facts.load(T, chk.tier)
        M = UnitModel(F)
        for ut in M.unit_types():
            abbrs = M.abbreviations(ut)
            names = M.T.enumerators(ut)
            maps = {}
            for x in names:
                a_to, _, _ = M.conversion_affine(ut, x, "ToStandard")
                a_fr, _, _ = M.conversion_affine(ut, x, "FromStandard")
                orc, _ = M.oracle_affine(ut, x, abbrs.get(x, ""))
                if a_to is None or a_fr is None or orc is None:
                    continue
                maps[x] = (a_to, a_fr, orc)
            bad = []
            for x in maps:
                for y in maps:
                    n += 1
                    comp = affine.compose(maps[y][1], maps[x][0])
                    (Ax, Bx), (Ay, By) = maps[x][2], maps[y][2]
                    # standard = Ax v + Bx ; y-value = (standard - By)/Ay
                    inv = affine.n_inv(Ay)
                    wantA = affine.n_mul(Ax, inv)
                    wantB = affine.n_mul(affine.n_add(Bx, By, -1), inv)
                    K = maps[x][0].roundings + maps[y][1].roundings
                    worst[T] = max(worst.get(T, 0), K)
                    if not (close(comp.A, wantA) and close(comp.B, wantB)) or K > 32:
                        bad.append("%s->%s: (%s)v+(%s), expected (%s)v+(%s), K=%d" % (x, y, affine.n_show(comp.A), affine.n_show(comp.B), affine.n_show(wantA), affine.n_show(wantB), K))
            inst = "%s<%s> all %d ordered pairs" % (M.short(ut), T, len(maps) ** 2)
            if bad:
                chk.violated("R5", inst, "; ".join(bad[:3]), short(F.enums[ut]["loc"]))
            else:
                chk.holds("R5", inst, "all pairs compose to the symbol-implied map", short(F.enums[ut]["loc"]))
    chk.coverage["ordered_pairs_checked"] = n
    chk.coverage["max_roundings_over_pairs"] = worst
