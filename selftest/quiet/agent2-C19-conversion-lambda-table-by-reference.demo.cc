// Differential program for the C19r refactor: exercises the table-backed facilities of PhQ
// (abbreviations, spellings, consistent units, related unit systems, conversion dispatch) both during
// static initialisation and inside main(), for float, double and long double.

#include <PhQ/Angle.hpp>
#include <PhQ/Area.hpp>
#include <PhQ/Displacement.hpp>
#include <PhQ/Energy.hpp>
#include <PhQ/Force.hpp>
#include <PhQ/Frequency.hpp>
#include <PhQ/Length.hpp>
#include <PhQ/Mass.hpp>
#include <PhQ/PlanarDisplacement.hpp>
#include <PhQ/ScalarForce.hpp>
#include <PhQ/StaticPressure.hpp>
#include <PhQ/Speed.hpp>
#include <PhQ/Strain.hpp>
#include <PhQ/Stress.hpp>
#include <PhQ/Temperature.hpp>
#include <PhQ/Time.hpp>
#include <PhQ/VelocityGradient.hpp>
#include <PhQ/Volume.hpp>

#include <algorithm>
#include <array>
#include <cmath>
#include <cstdint>
#include <cstdio>
#include <cstring>
#include <iostream>
#include <limits>
#include <random>
#include <sstream>
#include <string>
#include <vector>

namespace {

using PhQ::operator<<;

template <typename T>
std::string Hex(const T value) {
  char buffer[128];
  if constexpr (std::is_same_v<T, long double>) {
    std::snprintf(buffer, sizeof(buffer), "%La", value);
  } else {
    std::snprintf(buffer, sizeof(buffer), "%a", static_cast<double>(value));
  }
  // Append the raw bytes so that NaN payloads and signs of zero are visible too.
  std::string result{buffer};
  unsigned char bytes[sizeof(T)];
  std::memcpy(bytes, &value, sizeof(T));
  const std::size_t used = std::is_same_v<T, long double> ? 10 : sizeof(T);
  result += "/";
  for (std::size_t i = 0; i < used; ++i) {
    std::snprintf(buffer, sizeof(buffer), "%02x", bytes[i]);
    result += buffer;
  }
  return result;
}

template <typename T>
const char* TypeName() {
  if constexpr (std::is_same_v<T, float>) {
    return "float";
  } else if constexpr (std::is_same_v<T, double>) {
    return "double";
  } else {
    return "long double";
  }
}

template <typename T>
std::vector<T> Inputs(const unsigned seed) {
  using L = std::numeric_limits<T>;
  std::vector<T> inputs{
    static_cast<T>(0.0), static_cast<T>(-0.0), static_cast<T>(1.0), static_cast<T>(-1.0),
    static_cast<T>(0.1), static_cast<T>(-273.15), static_cast<T>(459.67), static_cast<T>(32.0),
    static_cast<T>(1.0e-30L), static_cast<T>(-1.0e30L), L::min(), -L::min(), L::denorm_min(),
    -L::denorm_min(), L::max(), L::lowest(), L::epsilon(), L::infinity(), -L::infinity(),
    L::quiet_NaN(), static_cast<T>(3.14159265358979323846264338327950288L),
    static_cast<T>(12345.678901234567890123L), static_cast<T>(1.0e-5L), static_cast<T>(999.9999L),
  };
  std::mt19937_64 generator{seed};
  std::uniform_real_distribution<double> mantissa{-1.0, 1.0};
  std::uniform_int_distribution<int> exponent{-40, 40};
  for (int i = 0; i < 40; ++i) {
    inputs.push_back(static_cast<T>(std::ldexp(mantissa(generator), exponent(generator))));
  }
  return inputs;
}

// All enumerators of a unit type: the enumerations are contiguous and start at zero.
template <typename U>
std::vector<U> AllUnits() {
  std::vector<U> units;
  const std::size_t count = PhQ::Internal::Abbreviations<U>.size();
  for (std::size_t i = 0; i < count; ++i) {
    units.push_back(static_cast<U>(static_cast<int8_t>(i)));
  }
  return units;
}

void UnitSystemTables() {
  using U = PhQ::UnitSystem;
  std::cout << "== tables UnitSystem\n";
  for (const U system : AllUnits<U>()) {
    std::ostringstream stream;
    stream << system;
    const std::optional<U> parsed = PhQ::ParseEnumeration<U>(PhQ::Abbreviation(system));
    std::cout << static_cast<int>(system) << " [" << PhQ::Abbreviation(system) << "] ["
              << stream.str() << "] parsed="
              << (parsed.has_value() ? static_cast<int>(parsed.value()) : -1) << "\n";
  }
  std::vector<std::string> spellings;
  for (const auto& entry : PhQ::Internal::Spellings<U>) {
    spellings.emplace_back(entry.first);
  }
  std::sort(spellings.begin(), spellings.end());
  for (const std::string& spelling : spellings) {
    const std::optional<U> parsed = PhQ::ParseEnumeration<U>(spelling);
    std::cout << "  spelling [" << spelling << "] -> "
              << (parsed.has_value() ? static_cast<int>(parsed.value()) : -1) << "\n";
  }
  for (const char* const miss : {"", " ", "nonsense", "M", "KG", "m kg s k", "ft,lb"}) {
    const std::optional<U> parsed = PhQ::ParseEnumeration<U>(miss);
    std::cout << "  miss [" << miss << "] -> "
              << (parsed.has_value() ? static_cast<int>(parsed.value()) : -1) << "\n";
  }
}

template <typename U>
void Tables(const char* name) {
  std::cout << "== tables " << name << "\n";
  for (const U unit : AllUnits<U>()) {
    const std::string_view abbreviation = PhQ::Abbreviation(unit);
    std::ostringstream stream;
    stream << unit;
    const std::optional<U> parsed = PhQ::ParseEnumeration<U>(abbreviation);
    const std::optional<PhQ::UnitSystem> system = PhQ::RelatedUnitSystem(unit);
    std::cout << static_cast<int>(unit) << " [" << abbreviation << "] [" << stream.str() << "] parsed="
              << (parsed.has_value() ? static_cast<int>(parsed.value()) : -1) << " system="
              << (system.has_value() ? static_cast<int>(system.value()) : -1);
    if (system.has_value()) {
      std::cout << " [" << system.value() << "] consistent="
                << static_cast<int>(PhQ::ConsistentUnit<U>(system.value()));
    }
    std::cout << "\n";
  }
  // Every spelling, looked up one at a time, sorted for a deterministic order.
  std::vector<std::string> spellings;
  for (const auto& entry : PhQ::Internal::Spellings<U>) {
    spellings.emplace_back(entry.first);
  }
  std::sort(spellings.begin(), spellings.end());
  for (const std::string& spelling : spellings) {
    const std::optional<U> parsed = PhQ::ParseEnumeration<U>(spelling);
    std::cout << "  spelling [" << spelling << "] -> "
              << (parsed.has_value() ? static_cast<int>(parsed.value()) : -1) << "\n";
  }
  for (const char* const miss : {"", " ", "nonsense", "M", "KG", "s ", " s", "metre ", "\xce\xbc"}) {
    const std::optional<U> parsed = PhQ::ParseEnumeration<U>(miss);
    std::cout << "  miss [" << miss << "] -> "
              << (parsed.has_value() ? static_cast<int>(parsed.value()) : -1) << "\n";
  }
  for (const PhQ::UnitSystem system :
       {PhQ::UnitSystem::MetreKilogramSecondKelvin, PhQ::UnitSystem::MillimetreGramSecondKelvin,
        PhQ::UnitSystem::FootPoundSecondRankine, PhQ::UnitSystem::InchPoundSecondRankine}) {
    std::cout << "  consistent(" << PhQ::Abbreviation(system)
              << ")=" << static_cast<int>(PhQ::ConsistentUnit<U>(system)) << "\n";
  }
}

template <typename U, typename T>
void Conversions(const char* name) {
  std::cout << "== conversions " << name << " " << TypeName<T>() << "\n";
  const std::vector<U> units = AllUnits<U>();
  const std::vector<T> inputs = Inputs<T>(static_cast<unsigned>(units.size()) * 7919U);
  std::size_t cursor = 0;
  const auto next = [&inputs, &cursor]() {
    const T value = inputs[cursor % inputs.size()];
    ++cursor;
    return value;
  };
  for (const U from : units) {
    for (const U to : units) {
      std::cout << static_cast<int>(from) << ">" << static_cast<int>(to) << ":";
      // Scalars: in-place and by value, for every input.
      for (const T input : inputs) {
        T in_place = input;
        PhQ::ConvertInPlace(in_place, from, to);
        const T by_value = PhQ::Convert(input, from, to);
        std::cout << " " << Hex(in_place);
        if (std::memcmp(&in_place, &by_value, std::is_same_v<T, long double> ? 10 : sizeof(T))
            != 0) {
          std::cout << "!" << Hex(by_value);
        }
      }
      // std::array of several sizes, including the empty array.
      std::array<T, 0> a0{};
      PhQ::ConvertInPlace(a0, from, to);
      std::array<T, 1> a1{next()};
      PhQ::ConvertInPlace(a1, from, to);
      std::array<T, 5> a5{next(), next(), next(), next(), next()};
      const std::array<T, 5> a5_converted = PhQ::Convert(a5, from, to);
      PhQ::ConvertInPlace(a5, from, to);
      std::cout << " |a " << Hex(a1[0]);
      for (std::size_t i = 0; i < 5; ++i) {
        std::cout << " " << Hex(a5[i]) << " " << Hex(a5_converted[i]);
      }
      // std::vector, including the empty vector.
      std::vector<T> v0;
      PhQ::ConvertInPlace(v0, from, to);
      std::vector<T> v7{next(), next(), next(), next(), next(), next(), next()};
      const std::vector<T> v7_converted = PhQ::Convert(v7, from, to);
      PhQ::ConvertInPlace(v7, from, to);
      std::cout << " |v " << v0.size() << " " << PhQ::Convert(v0, from, to).size();
      for (std::size_t i = 0; i < v7.size(); ++i) {
        std::cout << " " << Hex(v7[i]) << " " << Hex(v7_converted[i]);
      }
      // Planar vector, vector, symmetric dyad, dyad.
      PhQ::PlanarVector<T> planar{next(), next()};
      const PhQ::PlanarVector<T> planar_converted = PhQ::Convert(planar, from, to);
      PhQ::ConvertInPlace(planar, from, to);
      std::cout << " |p " << Hex(planar.x()) << " " << Hex(planar.y()) << " "
                << Hex(planar_converted.x()) << " " << Hex(planar_converted.y());
      PhQ::Vector<T> vector{next(), next(), next()};
      const PhQ::Vector<T> vector_converted = PhQ::Convert(vector, from, to);
      PhQ::ConvertInPlace(vector, from, to);
      std::cout << " |V";
      for (const T component : vector.x_y_z()) {
        std::cout << " " << Hex(component);
      }
      for (const T component : vector_converted.x_y_z()) {
        std::cout << " " << Hex(component);
      }
      PhQ::SymmetricDyad<T> symmetric{next(), next(), next(), next(), next(), next()};
      const PhQ::SymmetricDyad<T> symmetric_converted = PhQ::Convert(symmetric, from, to);
      PhQ::ConvertInPlace(symmetric, from, to);
      std::cout << " |S";
      for (const T component : symmetric.xx_xy_xz_yy_yz_zz()) {
        std::cout << " " << Hex(component);
      }
      for (const T component : symmetric_converted.xx_xy_xz_yy_yz_zz()) {
        std::cout << " " << Hex(component);
      }
      PhQ::Dyad<T> dyad{next(), next(), next(), next(), next(), next(), next(), next(), next()};
      const PhQ::Dyad<T> dyad_converted = PhQ::Convert(dyad, from, to);
      PhQ::ConvertInPlace(dyad, from, to);
      std::cout << " |D";
      for (const T component : dyad.xx_xy_xz_yx_yy_yz_zx_zy_zz()) {
        std::cout << " " << Hex(component);
      }
      for (const T component : dyad_converted.xx_xy_xz_yx_yy_yz_zx_zy_zz()) {
        std::cout << " " << Hex(component);
      }
      std::cout << "\n";
    }
  }
}

template <typename T>
void Quantities() {
  std::cout << "== quantities " << TypeName<T>() << "\n";
  for (const T input : Inputs<T>(4242U)) {
    const PhQ::Time<T> time{input, PhQ::Unit::Time::Hour};
    const PhQ::Length<T> length{input, PhQ::Unit::Length::Mile};
    const PhQ::Temperature<T> temperature{input, PhQ::Unit::Temperature::Fahrenheit};
    const PhQ::Mass<T> mass{input, PhQ::Unit::Mass::Pound};
    const PhQ::Angle<T> angle{input, PhQ::Unit::Angle::Degree};
    const PhQ::ScalarForce<T> force{input, PhQ::Unit::Force::Pound};
    const PhQ::StaticPressure<T> pressure{input, PhQ::Unit::Pressure::Atmosphere};
    const PhQ::Energy<T> energy{input, PhQ::Unit::Energy::FootPound};
    const PhQ::Speed<T> speed{input, PhQ::Unit::Speed::Knot};
    const PhQ::Volume<T> volume{input, PhQ::Unit::Volume::Litre};
    const PhQ::Displacement<T> displacement{
      {input, static_cast<T>(2) * input, -input},
      PhQ::Unit::Length::Inch
    };
    const PhQ::PlanarDisplacement<T> planar_displacement{
      {input, -input},
      PhQ::Unit::Length::Yard
    };
    const PhQ::Stress<T> stress{
      {input, input, -input, static_cast<T>(0.5) * input, input, -input},
      PhQ::Unit::Pressure::PoundPerSquareInch
    };
    const PhQ::VelocityGradient<T> gradient{
      {input, input, -input, input, -input, input, input, input, -input},
      PhQ::Unit::Frequency::PerMinute
    };
    std::cout << Hex(time.Value()) << " " << Hex(time.Value(PhQ::Unit::Time::Minute)) << " "
              << Hex(time.template StaticValue<PhQ::Unit::Time::Millisecond>()) << " ["
              << time.Print() << "] [" << time.Print(PhQ::Unit::Time::Microsecond) << "] ["
              << time.JSON(PhQ::Unit::Time::Nanosecond) << "] [" << time.XML() << "] ["
              << time.YAML(PhQ::Unit::Time::Hour) << "] [" << time << "]\n";
    std::cout << Hex(length.Value()) << " " << Hex(length.Value(PhQ::Unit::Length::Microinch))
              << " [" << length.Print(PhQ::Unit::Length::NauticalMile) << "] [" << length << "] "
              << (length < PhQ::Length<T>{input, PhQ::Unit::Length::Kilometre}) << " "
              << (length == PhQ::Length<T>{input, PhQ::Unit::Length::Mile}) << "\n";
    std::cout << Hex(temperature.Value()) << " "
              << Hex(temperature.Value(PhQ::Unit::Temperature::Celsius)) << " ["
              << temperature.Print(PhQ::Unit::Temperature::Rankine) << "] [" << temperature
              << "]\n";
    std::cout << Hex(mass.Value()) << " " << Hex(mass.Value(PhQ::Unit::Mass::Slug)) << " ["
              << mass.Print(PhQ::Unit::Mass::Slinch) << "] " << Hex(angle.Value()) << " ["
              << angle.Print(PhQ::Unit::Angle::Arcsecond) << "] " << Hex(force.Value()) << " ["
              << force.Print(PhQ::Unit::Force::Dyne) << "] " << Hex(pressure.Value()) << " ["
              << pressure.Print(PhQ::Unit::Pressure::Bar) << "] " << Hex(energy.Value()) << " ["
              << energy.Print(PhQ::Unit::Energy::KilowattHour) << "] " << Hex(speed.Value())
              << " [" << speed.Print(PhQ::Unit::Speed::MilePerHour) << "] " << Hex(volume.Value())
              << " [" << volume.Print(PhQ::Unit::Volume::CubicFoot) << "]\n";
    std::cout << "[" << displacement.Print(PhQ::Unit::Length::Foot) << "] [" << displacement
              << "] [" << planar_displacement.JSON(PhQ::Unit::Length::Centimetre) << "] ["
              << stress.Print(PhQ::Unit::Pressure::Kilopascal) << "] [" << stress << "] ["
              << gradient.YAML(PhQ::Unit::Frequency::PerHour) << "]\n";
    // Named copies: a range-for over a member of a temporary would dangle.
    const PhQ::Vector<T> displacement_value = displacement.Value(PhQ::Unit::Length::Millimetre);
    for (const T component : displacement_value.x_y_z()) {
      std::cout << Hex(component) << " ";
    }
    const PhQ::SymmetricDyad<T> stress_value =
        stress.Value(PhQ::Unit::Pressure::PoundPerSquareFoot);
    for (const T component : stress_value.xx_xy_xz_yy_yz_zz()) {
      std::cout << Hex(component) << " ";
    }
    const PhQ::Dyad<T> gradient_value = gradient.Value(PhQ::Unit::Frequency::Kilohertz);
    for (const T component : gradient_value.xx_xy_xz_yx_yy_yz_zx_zy_zz()) {
      std::cout << Hex(component) << " ";
    }
    std::cout << "\n";
  }
}

template <typename T>
void Statically() {
  std::cout << "== statically " << TypeName<T>() << "\n";
  for (const T input : Inputs<T>(99U)) {
    using PhQ::Unit::Length;
    using PhQ::Unit::Temperature;
    using PhQ::Unit::Time;
    std::cout << Hex(PhQ::ConvertStatically<Time, Time::Hour, Time::Millisecond>(input)) << " "
              << Hex(PhQ::ConvertStatically<Time, Time::Second, Time::Second>(input)) << " "
              << Hex(PhQ::ConvertStatically<Length, Length::Mile, Length::Inch>(input)) << " "
              << Hex(PhQ::ConvertStatically<Temperature, Temperature::Fahrenheit,
                                            Temperature::Celsius>(input));
    const std::array<T, 3> array{input, -input, static_cast<T>(3) * input};
    for (const T component :
         PhQ::ConvertStatically<Length, Length::Foot, Length::Kilometre, 3, T>(array)) {
      std::cout << " " << Hex(component);
    }
    const PhQ::Vector<T> vector{array};
    const PhQ::Vector<T> vector_converted =
        PhQ::ConvertStatically<Length, Length::Yard, Length::Micrometre>(vector);
    for (const T component : vector_converted.x_y_z()) {
      std::cout << " " << Hex(component);
    }
    std::cout << "\n";
  }
}

// Objects with static storage duration, dynamically initialised before main() starts. Only the
// facilities that are backed by explicitly specialised tables are used here, because those tables
// are defined before these objects in this translation unit.
const std::string static_abbreviation{PhQ::Abbreviation(PhQ::Unit::Time::Hour)};
const std::string static_system_abbreviation{
  PhQ::Abbreviation(PhQ::UnitSystem::FootPoundSecondRankine)};
const std::optional<PhQ::Unit::Length> static_parsed{
  PhQ::ParseEnumeration<PhQ::Unit::Length>("nautical miles")};
const std::optional<PhQ::Unit::Length> static_parsed_miss{
  PhQ::ParseEnumeration<PhQ::Unit::Length>("parsec")};
const std::optional<PhQ::UnitSystem> static_parsed_system{
  PhQ::ParseEnumeration<PhQ::UnitSystem>("in-lbf-s-R")};
const std::optional<PhQ::UnitSystem> static_related{
  PhQ::RelatedUnitSystem(PhQ::Unit::Length::Inch)};
const std::optional<PhQ::UnitSystem> static_related_miss{
  PhQ::RelatedUnitSystem(PhQ::Unit::Length::Mile)};
const std::optional<PhQ::UnitSystem> static_related_time{
  PhQ::RelatedUnitSystem(PhQ::Unit::Time::Second)};
const PhQ::Unit::Force static_consistent{
  PhQ::ConsistentUnit<PhQ::Unit::Force>(PhQ::UnitSystem::InchPoundSecondRankine)};
const PhQ::Time<double> static_time_standard{2.5, PhQ::Unit::Time::Second};
const std::string static_time_print{static_time_standard.Print()};
const std::string static_stream{[]() {
  std::ostringstream stream;
  stream << PhQ::UnitSystem::MillimetreGramSecondKelvin << " " << PhQ::Unit::Length::Micrometre
         << " " << static_time_standard;
  return stream.str();
}()};
const double static_statically{
  PhQ::ConvertStatically<PhQ::Unit::Time, PhQ::Unit::Time::Hour, PhQ::Unit::Time::Minute>(1.75)};

void StaticObjects() {
  std::cout << "== static objects\n";
  std::cout << "[" << static_abbreviation << "] [" << static_system_abbreviation << "] "
            << (static_parsed.has_value() ? static_cast<int>(static_parsed.value()) : -1) << " "
            << (static_parsed_miss.has_value() ? static_cast<int>(static_parsed_miss.value()) : -1)
            << " "
            << (static_parsed_system.has_value() ? static_cast<int>(static_parsed_system.value())
                                                 : -1)
            << " " << (static_related.has_value() ? static_cast<int>(static_related.value()) : -1)
            << " "
            << (static_related_miss.has_value() ? static_cast<int>(static_related_miss.value())
                                                : -1)
            << " "
            << (static_related_time.has_value() ? static_cast<int>(static_related_time.value())
                                                : -1)
            << " " << static_cast<int>(static_consistent) << " "
            << Hex(static_time_standard.Value()) << " [" << static_time_print << "] ["
            << static_stream << "] " << Hex(static_statically) << "\n";
}

template <typename T>
void AllConversions() {
  Conversions<PhQ::Unit::Time, T>("Time");
  Conversions<PhQ::Unit::Length, T>("Length");
  Conversions<PhQ::Unit::Mass, T>("Mass");
  Conversions<PhQ::Unit::Temperature, T>("Temperature");
  Conversions<PhQ::Unit::Angle, T>("Angle");
  Conversions<PhQ::Unit::Force, T>("Force");
  Conversions<PhQ::Unit::Pressure, T>("Pressure");
  Conversions<PhQ::Unit::Energy, T>("Energy");
  Conversions<PhQ::Unit::Area, T>("Area");
  Conversions<PhQ::Unit::Frequency, T>("Frequency");
}

}  // namespace

int main() {
  StaticObjects();
  UnitSystemTables();
  Tables<PhQ::Unit::Time>("Time");
  Tables<PhQ::Unit::Length>("Length");
  Tables<PhQ::Unit::Mass>("Mass");
  Tables<PhQ::Unit::Temperature>("Temperature");
  Tables<PhQ::Unit::Angle>("Angle");
  Tables<PhQ::Unit::Force>("Force");
  Tables<PhQ::Unit::Pressure>("Pressure");
  Tables<PhQ::Unit::Energy>("Energy");
  Tables<PhQ::Unit::Speed>("Speed");
  Tables<PhQ::Unit::Area>("Area");
  Tables<PhQ::Unit::Volume>("Volume");
  Tables<PhQ::Unit::Frequency>("Frequency");
  AllConversions<float>();
  AllConversions<double>();
  AllConversions<long double>();
  Quantities<float>();
  Quantities<double>();
  Quantities<long double>();
  Statically<float>();
  Statically<double>();
  Statically<long double>();
  return 0;
}
