"""C16 — changing floating-point precision casts each component and nothing else."""
import re
from .. import facts, ev, quant, nf
from ..facts import short, strip_cvref
from ..frontend import NUMERIC


def tmpl(t):
    return re.sub(r"<[^<>]*>$", "", t)


def normalised_ok(slots, casts):
    """slot_i = gamma(q > 0, c_i / sqrt(q), 0) with q == sum c_j^2 (the direction re-normalisation)."""
    conv = nf.Conv()
    q_want = sum(conv(c) ** 2 for c in casts)
    for s, c in zip(slots, casts):
        if not (isinstance(s, tuple) and s and s[0] == "g"):
            return False
        cond, a, b = s[1], s[2], s[3]
        if b != ev.ZERO:
            return False
        if not (isinstance(cond, tuple) and cond[0] == "cmp" and cond[1] in (">", "!=") and cond[3] in (ev.ZERO, 0)):
            return False
        if not nf.equal(conv(cond[2]), q_want):
            return False
        if not (isinstance(a, tuple) and a[0] == "div" and a[1] == c):
            return False
        d = a[2]
        if not (isinstance(d, tuple) and d[0] == "fn" and d[1] == "sqrt" and nf.equal(conv(d[2]), q_want)):
            return False
    return True


def run(chk):
    chk.level = "proof"
    chk.technique = ("exact-tree domain: the converting constructor and converting assignment of every class, for each ordered pair "
                     "of numeric types, are evaluated to the tree of every stored slot and compared with a single cast of the same slot "
                     "of the source (directions: followed by the normalisation formula)")
    chk.rule("R1", "converting construction: slot i of the result is static_cast<T2>(slot i of the source) - one cast straight from T1, no arithmetic, no detour")
    chk.rule("R2", "converting assignment: the same for the post-state, and *this is returned")
    chk.assumptions += ["widening then narrowing is the identity by IEEE-754 once each step is a plain cast (decided here)",
                        "the <= 2 ulp effect of re-normalising a direction is not decided; its formula is (C10)"]
    n = 0
    for T2 in NUMERIC:
        F = facts.load(T2, chk.tier)
        inv = quant.inventory(F)
        for name, q in sorted(inv.items()):
            if q.kind == "base":
                continue
            is_dir = q.short in ("Direction", "PlanarDirection")
            for T1 in NUMERIC:
                if T1 == T2:
                    continue
                src = "%s<%s>" % (tmpl(name), T1)
                cands = [f for f in F.methods(name) if len(f["params"]) == 1 and strip_cvref(F.T(f["params"][0]["t"])) == src
                         and (f["kind"] == "ctor" or f["sname"] == "operator=")]
                kinds = {("ctor" if f["kind"] == "ctor" else "assign"): f for f in cands}
                for kind, rule in (("ctor", "R1"), ("assign", "R2")):
                    inst = "%s %s from <%s>" % (name, kind, T1)
                    f = kinds.get(kind)
                    if f is None:
                        chk.violated(rule, inst, "no converting %s from %s is declared/instantiable" % (kind, src), short(q.rec["loc"]))
                        continue
                    n += 1
                    loc = short(f.get("def_loc", f["loc"]))
                    try:
                        E = ev.Evaluator(F)
                        res, this_lv, args = E.run_symbolic(f, arg_prefixes=["other"])
                        got = ev.flatten(E.load(this_lv))
                        E2 = ev.Evaluator(F)
                        srcv = ev.flatten(E2.symbolic(src, "other"))
                        if len(got) != len(srcv):
                            chk.violated(rule, inst, "%d slots from %d source slots" % (len(got), len(srcv)), loc)
                            continue
                        casts = [("cast", T2, s[1], T1) for s in srcv]
                        plain = all(g[1] == c and g[0] == s[0] for g, c, s in zip(got, casts, srcv))
                        ok = plain
                        how = "one cast per slot"
                        if is_dir:
                            # the statement: "for directions the result is additionally re-normalised" (construction and assignment alike)
                            ok = normalised_ok([g[1] for g in got], casts)
                            how = "one cast per slot, then re-normalised"
                            if not ok and plain:
                                chk.violated(rule, inst, "the components are cast but the direction is not re-normalised in %s: its length is one only to the precision of %s" % (T2, T1), loc)
                                continue
                        if ok and kind == "assign" and not (isinstance(res, ev.LV) and res.loc == this_lv.loc):
                            ok, how = False, "does not return *this"
                        if ok:
                            chk.holds(rule, inst, "%d slots: %s" % (len(got), how), loc)
                        else:
                            i = next((i for i, (g, c) in enumerate(zip(got, casts)) if g[1] != c), 0)
                            chk.violated(rule, inst, "slot %s becomes %s, expected %s (%s)" % (got[i][0], ev.show(got[i][1])[:300], ev.show(casts[i]), how), loc)
                    except ev.Inconclusive as x:
                        chk.inconclusive(rule, inst, str(x), loc)
    chk.floor("converting members analysed", n, 1100)
    chk.coverage["converting_members"] = n
