"""C10 — directions are unit vectors; magnitude times direction rebuilds the vector."""
import re
import sympy

from .. import facts, ev, nf, quant, shapes, cg, dims, errdom
from ..models import narrowing_casts
from ..facts import short, strip_cvref
from ..frontend import NUMERIC

DIR_CLASSES = ("PhQ::Direction", "PhQ::PlanarDirection")
OWNER_TEMPLATES = {"PhQ::Direction", "PhQ::PlanarDirection", "PhQ::DimensionlessVector", "PhQ::DimensionlessPlanarVector"}


def strip_cast(t):
    while isinstance(t, tuple) and t and t[0] == "cast":
        t = t[2]
    return t


def classify_direction_value(slots, leaf_info_dirs):
    """slots: list of terms of a direction's stored vector.  Returns (kind, detail):
    'zero' | 'copy' (same slots of another direction) | 'normalised' (of vector c) | 'other'."""
    if all(s == ev.ZERO for s in slots):
        return "zero", None
    plain = [strip_cast(s) for s in slots]
    # the embedding of a planar direction (its components in order, then exact zeros) is a unit vector too
    nz = [p for p in plain if p != ev.ZERO]
    if 0 < len(nz) < len(plain) and plain[:len(nz)] == nz and all(isinstance(p, tuple) and p and p[0] == "leaf" for p in nz) \
            and all(p[1] in leaf_info_dirs for p in nz):
        slots, plain = slots[:len(nz)], nz
    if all(isinstance(p, tuple) and p and p[0] == "leaf" for p in plain):
        names = [p[1] for p in plain]
        pref = {re.sub(r"\.value\..*$", "", n) for n in names}
        if len(pref) == 1 and all(n in leaf_info_dirs for n in names):
            idx = [int(re.search(r"\[(\d+)\]$", n).group(1)) for n in names]
            if idx == list(range(len(idx))):
                widened = [s for s in slots if isinstance(s, tuple) and s and s[0] == "cast" and len(s) > 3
                           and errdom.MANT.get(s[3], 99) < errdom.MANT.get(s[1], 0)]
                if widened:
                    return "other", ("copies the components of a %s direction into %s without re-normalising: the length is one only to "
                                     "the precision of %s, far outside four ulps of %s" % (widened[0][3], widened[0][1], widened[0][3], widened[0][1]))
                return "copy", list(pref)[0]
        return "other", "stores raw inputs %s without normalising" % names
    # normalised: g(q > 0, c_i / sqrt(q), 0)
    cs = []
    conv = nf.Conv()
    q0 = None
    for s in slots:
        if not (isinstance(s, tuple) and s and s[0] == "g"):
            return "other", "slot %s is not of the form (|c|^2 > 0 ? c_i/|c| : 0)" % ev.show(s)[:120]
        cond, a, b = s[1], s[2], s[3]
        if b != ev.ZERO:
            return "other", "zero-vector branch yields %s" % ev.show(b)[:80]
        if not (isinstance(cond, tuple) and cond[0] == "cmp" and cond[1] in (">", "!=") and cond[3] in (ev.ZERO, 0)):
            return "other", "guard is %s, expected |c|^2 > 0" % ev.show(cond)[:120]
        if not (isinstance(a, tuple) and a[0] == "div" and isinstance(a[2], tuple) and a[2][:2] == ("fn", "sqrt")):
            return "other", "non-zero branch is %s, expected c_i / sqrt(|c|^2)" % ev.show(a)[:120]
        cs.append(a[1])
        q = (cond[2], a[2][2])
        if q0 is None:
            q0 = q
        elif q != q0:
            return "other", "slots are normalised by different lengths"
    want = sum(conv(c) ** 2 for c in cs)
    if not nf.equal(conv(q0[0]), want) or not nf.equal(conv(q0[1]), want):
        return "other", "the length used, sqrt(%s), is not the Euclidean norm of the numerators %s" % (sympy.expand(conv(q0[1])), [ev.show(c)[:40] for c in cs])
    return "normalised", cs


def max_degree(slots):
    from .c11 import degrees
    acc = []
    for s_ in slots:
        degrees(s_, lambda name: 1, acc)
    return max((abs(d) for d, _ in acc), default=0)


def in_order_inputs(cs, input_slots):
    """Is c a subsequence of the input slots (same order), possibly padded with zeros?"""
    pos = -1
    for c in cs:
        c = strip_cast(c)
        if c == ev.ZERO:
            continue
        if c not in input_slots:
            return False
        i = input_slots.index(c)
        if i <= pos:
            return False
        pos = i
    return True


def run(chk):
    chk.level = "other"
    chk.technique = ("typestate / who-may-write analysis of the stored vector of Direction and PlanarDirection (every constructor, mutator "
                     "and producer evaluated and its final value classified as zero / copy of a direction / normalisation of the input), "
                     "a syntactic scan of every write to the stored member over all instantiated bodies, and algebraic rules for "
                     "Magnitude, component accessors, scalar x direction constructors of every vector quantity")
    chk.rule("R1", "every constructor/mutator/producer of a direction leaves its stored vector zero, a copy of a direction's vector, or the "
                   "normalisation (|c|^2 > 0 ? c/|c| : 0) of the input components in their slots")
    chk.rule("R4", "a-priori error of the normalisation step (standard model): every stored component of a non-zero direction is within 4 u of c_i/|c|, hence the length is within four ulps of one")
    chk.rule("R1w", "only Direction/PlanarDirection and their Dimensionless bases write the stored member; no member hands out a mutable reference or pointer to it")
    chk.rule("R3", "for each vector quantity: Magnitude() has the scalar type of the same unit type and value sqrt(sum of squares); x/y/z return that type "
                   "with the matching slot; Q(scalar, direction) = scalar.value * direction slot-wise; Direction() normalises the stored vector")
    chk.assumptions += ["the 'length one to within four ulps' clause is decided by R4's a-priori bound (first-order standard model, no overflow/underflow); the few-ulp recomposition clause follows from it plus one multiplication and is not separately bounded",
                        "squared length neither overflows nor underflows"]
    n_paths = n_q = 0
    norm_worst = {}
    for T in NUMERIC:
        F = facts.load(T, chk.tier)
        inv = quant.inventory(F)
        D = dims.DimEnv(F)
        for tmplname in DIR_CLASSES:
            dn = "%s<%s>" % (tmplname, T)
            if dn not in F.records:
                chk.inconclusive("R1", dn, "class not instantiated", "")
                continue
            producers = []
            for f in F.methods(dn):
                if f["kind"] == "ctor" and "body" in f and not (f.get("copy_ctor") or f.get("move_ctor")):
                    producers.append(("ctor", f))
                elif f["kind"] == "method" and "body" in f and not f.get("const") and not f.get("static") and f["sname"] != "operator=":
                    producers.append(("mutator", f))
                elif f["kind"] == "method" and "body" in f and f["sname"] == "operator=" and not (f.get("copy_assign") or f.get("move_assign")):
                    producers.append(("mutator", f))
            for f in F.fns.values():
                if "body" in f and strip_cvref(F.T(f["ret"])) == dn and f["kind"] in ("method", "function") and not (f.get("qname", "").startswith("PhQ::Internal")):
                    if all(strip_cvref(t).endswith("<%s>" % T) or strip_cvref(t) in shapes.FLOATS or strip_cvref(t).startswith("std::array") for t in F.param_types(f)):
                        producers.append(("producer", f))
            for kind, f in producers:
                sig = "%s(%s)" % (f["name"], ", ".join(strip_cvref(t).replace("PhQ::", "") for t in F.param_types(f)))
                loc = short(f.get("def_loc", f["loc"]))
                n_paths += 1
                try:
                    E = ev.Evaluator(F)
                    res, this_lv, args = E.run_symbolic(f, this_prefix="self")
                    if kind == "producer":
                        val = E.rv(res)
                    else:
                        val = E.load(this_lv)
                    slots = [t for _, t in ev.flatten(val)]
                    dir_leaves = {n for n, info in E.leaf_info.items() if info.get("qtype") and re.match(r"PhQ::(Planar)?Direction<", info["qtype"])}
                    k, detail = classify_direction_value(slots, dir_leaves)
                    # input slots in parameter order
                    E0 = ev.Evaluator(F)
                    ins = []
                    if f["kind"] == "method" and not f.get("static") and kind != "mutator":
                        ins += [t for _, t in ev.flatten(E0.symbolic(F.T(f["parent"]), "self"))]
                    for p in f["params"]:
                        ins += [t for _, t in ev.flatten(E0.symbolic(F.T(p["t"]), p["n"] or "arg"))]
                    if k == "zero":
                        ok = not f["params"] or f["sname"] == "Zero"
                        (chk.holds if ok else chk.violated)("R1", sig, "stored vector is the zero vector" + ("" if ok else " regardless of the input"), loc)
                    elif k == "copy":
                        chk.holds("R1", sig, "copies the stored vector of direction %s" % detail, loc)
                    elif k == "normalised" and max_degree(slots) > 2 and f["sname"] != "Cross":
                        chk.violated("R1", sig, "an intermediate of the normalisation grows with power %s of the input length: it overflows/underflows although the squared length does not" % max_degree(slots), loc)
                    elif k == "normalised":
                        # R4: error of the normalisation step itself, numerators taken as exact inputs
                        try:
                            mapping = {}
                            for j, c in enumerate(detail):
                                if c != ev.ZERO:
                                    mapping[c] = ("leaf", "c%d" % j)
                                    mapping[strip_cast(c)] = ("leaf", "c%d" % j)
                            bounds = []
                            for s_ in slots:
                                t2 = errdom.subst(ev.assume(s_, s_[1], True), mapping)
                                if not ev.leaves(t2) <= {"c%d" % j for j in range(len(detail))}:
                                    bounds = None
                                    break
                                b, _sg = errdom.err(t2, T, {"c%d" % j: "?" for j in range(len(detail))})
                                bounds.append(b)
                            if bounds and all(b is not None for b in bounds):
                                worst = max(bounds)
                                if worst > 4:
                                    chk.violated("R4", sig, "each stored component carries a relative error of up to %s u from the normalisation alone: the length is not within four ulps of one" % float(worst), loc)
                                else:
                                    chk.holds("R4", sig, "normalisation error <= %s u per component => |length - 1| <= %s u < 4 ulp" % (float(worst), float(worst)), loc)
                                    norm_worst[T] = max(norm_worst.get(T, 0.0), float(worst))
                            else:
                                chk.observe("normalisation error of %s not bounded (numerators not recognisable in the length)" % sig)
                        except ev.Inconclusive:
                            pass
                        if f["sname"] == "Cross":
                            # the vector that is normalised must be the cross product of the two operands' stored vectors
                            from .c09 import shape_of as _shape_of, comps as _comps, TA as _TA
                            from .. import nf as _nf
                            conv = _nf.Conv()
                            sh_a = _shape_of(F, F.T(f["parent"])) if f["kind"] == "method" else _shape_of(F, F.T(f["params"][0]["t"]))
                            ops = []
                            if f["kind"] == "method":
                                ops.append(_TA.embed(sh_a, _comps(conv, E0.symbolic(F.T(f["parent"]), "self"))))
                            for p in f["params"]:
                                ops.append(_TA.embed(_shape_of(F, F.T(p["t"])), _comps(conv, E0.symbolic(F.T(p["t"]), p["n"] or "arg"))))
                            want = _TA.BINARY["Cross"](ops[0], ops[1]) if len(ops) == 2 else None
                            nums = list(detail) + [ev.ZERO] * (3 - len(detail))
                            wrong = None
                            if want is None:
                                wrong = "not a binary cross product"
                            else:
                                for j in range(3):
                                    try:
                                        g = conv(nums[j])
                                    except ev.Inconclusive as x_:
                                        wrong = "component %s of the normalised vector is %s (%s)" % ("xyz"[j], ev.show(nums[j])[:80], x_)
                                        break
                                    if not _nf.equal(g, want[j]):
                                        wrong = "component %s of the vector that is normalised is %s, the cross product has %s there" % ("xyz"[j], ev.show(nums[j])[:80], want[j])
                                        break
                            if wrong:
                                chk.violated("R1", sig, wrong + ": the direction is not that of the cross product (for parallel operands the cross product is the zero vector and the direction must be exactly zero)", loc)
                            else:
                                chk.holds("R1", sig, "normalisation of the cross product of the operands' stored vectors", loc)
                        elif in_order_inputs(detail, ins):
                            chk.holds("R1", sig, "normalisation of the input components in their slots", loc)
                        else:
                            chk.violated("R1", sig, "normalises %s, which is not the input in slot order %s" % ([ev.show(c)[:40] for c in detail], [ev.show(i)[:30] for i in ins[:4]]), loc)
                    else:
                        chk.violated("R1", sig, detail, loc)
                except ev.Inconclusive as x:
                    chk.inconclusive("R1", sig, str(x), loc)
        # R1w who-may-write
        protected_recs = {n for n, r in F.records.items() if r.get("template") in ("PhQ::DimensionlessVector", "PhQ::DimensionlessPlanarVector")}
        writers = 0
        for f in F.fns.values():
            if "body" not in f:
                continue
            owner = F.records.get(F.T(f.get("parent", -1)) or "", {}).get("template")
            def visit(n, f=f, owner=owner):
                nonlocal writers
                k = n.get("k")
                tgt = None
                if k in ("cassign",) or (k == "bin" and n.get("op") == "="):
                    tgt = n.get("l")
                elif k == "un" and n.get("op") in ("++", "--", "&"):
                    tgt = n.get("e")
                if tgt and tgt.get("k") == "mem" and tgt.get("n") == "value" and F.T(tgt.get("rec", -1)) in protected_recs:
                    writers += 1
                    if owner not in OWNER_TEMPLATES:
                        chk.violated("R1w", f["name"], "writes (or takes the address of) the stored vector of a direction from outside the direction classes", short(f.get("def_loc", f["loc"])))
            cg.walk(f["body"], visit)
        for rn in protected_recs | {n for n, r in F.records.items() if r.get("template") in DIR_CLASSES}:
            for f in F.methods(rn):
                rt = F.T(f["ret"])
                if f.get("access") in ("public",) and f["kind"] == "method" and ((rt.endswith("&") and not rt.startswith("const ")) or rt.rstrip().endswith("*")) and f["sname"] != "operator=":
                    chk.violated("R1w", f["name"], "public member returns a mutable reference/pointer (%s): normalisation can be bypassed" % rt, short(f["loc"]))
        chk.holds("R1w", "scan<%s>" % T, "%d writes to the stored member, all inside the direction classes; no mutable accessor" % writers, "") if not any(o["rule"] == "R1w" and o["status"] == "violated" for o in chk.obs) else None
        # R3 quantity level
        for name, q in sorted(inv.items()):
            if q.kind != "quantity" or q.shape not in ("planar", "vector") or q.unit is None:
                continue
            n_q += 1
            n = quant.SHAPE_N[q.shape]
            E0 = ev.Evaluator(F)
            self_slots = [t for _, t in ev.flatten(E0.symbolic(name, "self"))]
            # Magnitude
            ms = quant.find_method(F, name, "Magnitude")
            if not ms:
                chk.violated("R3", name + "::Magnitude", "no Magnitude() member", short(q.rec["loc"]))
            else:
                f = ms[0]
                try:
                    E = ev.Evaluator(F)
                    res, _, _ = E.run_symbolic(f, this_prefix="self")
                    rt = strip_cvref(F.T(f["ret"]))
                    conv = nf.Conv(positive=False)
                    got = [t for _, t in ev.flatten(E.rv(res))]
                    nar = narrowing_casts(E.rv(res), T)
                    if nar:
                        chk.violated("R3", name + "::Magnitude", "the magnitude is computed through %s (%s): it has only %s precision" % (nar[0][0], ev.show(nar[0][1])[:100], nar[0][0]), short(f["loc"]))
                        continue
                    want = sympy.sqrt(sum(conv(s) ** 2 for s in self_slots))
                    if rt not in inv or inv[rt].unit != q.unit or inv[rt].shape != "scalar":
                        chk.violated("R3", name + "::Magnitude", "returns %s, not the scalar quantity of unit type %s" % (rt, q.unit), short(f["loc"]))
                    elif len(got) != 1 or not nf.equal(conv(got[0]), want):
                        chk.violated("R3", name + "::Magnitude", "value is %s, expected the Euclidean norm" % ev.show(got[0])[:200], short(f["loc"]))
                    else:
                        chk.holds("R3", name + "::Magnitude", "-> %s, Euclidean norm" % rt.replace("PhQ::", ""), short(f["loc"]))
                    scalar_t = rt
                except ev.Inconclusive as x:
                    chk.inconclusive("R3", name + "::Magnitude", str(x), short(f["loc"]))
            for i, acc in enumerate("xyz"[:n]):
                ms = quant.find_method(F, name, acc)
                if not ms:
                    chk.violated("R3", "%s::%s" % (name, acc), "no %s() accessor" % acc, short(q.rec["loc"]))
                    continue
                f = ms[0]
                try:
                    E = ev.Evaluator(F)
                    res, _, _ = E.run_symbolic(f, this_prefix="self")
                    rt = strip_cvref(F.T(f["ret"]))
                    got = [t for _, t in ev.flatten(E.rv(res))]
                    if rt not in inv or inv[rt].unit != q.unit or inv[rt].shape != "scalar":
                        chk.violated("R3", "%s::%s" % (name, acc), "returns %s, not the scalar quantity of unit type %s" % (rt, q.unit), short(f["loc"]))
                    elif got != [self_slots[i]]:
                        chk.violated("R3", "%s::%s" % (name, acc), "returns %s, expected component %d (%s)" % (ev.show(got[0])[:100], i, ev.show(self_slots[i])), short(f["loc"]))
                    else:
                        chk.holds("R3", "%s::%s" % (name, acc), "component %d" % i, short(f["loc"]))
                except ev.Inconclusive as x:
                    chk.inconclusive("R3", "%s::%s" % (name, acc), str(x), short(f["loc"]))
            # Q(scalar, direction)
            dirn = "PhQ::%sDirection<%s>" % ("Planar" if q.shape == "planar" else "", T)
            ctors = [f for f in F.methods(name) if f["kind"] == "ctor" and "body" in f and len(f["params"]) == 2
                     and strip_cvref(F.T(f["params"][1]["t"])) == dirn and strip_cvref(F.T(f["params"][0]["t"])) in inv and inv[strip_cvref(F.T(f["params"][0]["t"]))].shape == "scalar"]
            if not ctors:
                chk.violated("R3", name + "(scalar, direction)", "no constructor from a scalar quantity and a direction", short(q.rec["loc"]))
            for f in ctors:
                st = strip_cvref(F.T(f["params"][0]["t"]))
                inst = "%s(%s, %s)" % (name, st.replace("PhQ::", ""), dirn.replace("PhQ::", ""))
                try:
                    E = ev.Evaluator(F)
                    _, this_lv, _ = E.run_symbolic(f, arg_prefixes=["s", "d"])
                    got = [t for _, t in ev.flatten(E.load(this_lv))]
                    E1 = ev.Evaluator(F)
                    s = [t for _, t in ev.flatten(E1.symbolic(st, "s"))]
                    d = [t for _, t in ev.flatten(E1.symbolic(dirn, "d"))]
                    ok = inv[st].unit == q.unit and len(s) == 1 and len(got) == len(d) and all(g in (("mul", s[0], di), ("mul", di, s[0])) for g, di in zip(got, d))
                    if ok:
                        chk.holds("R3", inst, "slot i = scalar * direction_i", short(f.get("def_loc", f["loc"])))
                    else:
                        chk.violated("R3", inst, "slots are %s" % [ev.show(g)[:60] for g in got], short(f.get("def_loc", f["loc"])))
                except ev.Inconclusive as x:
                    chk.inconclusive("R3", inst, str(x), short(f["loc"]))
            # Direction() member
            mname = "PlanarDirection" if q.shape == "planar" else "Direction"
            ms = quant.find_method(F, name, mname)
            if not ms:
                chk.violated("R3", "%s::%s" % (name, mname), "no %s() member" % mname, short(q.rec["loc"]))
            else:
                f = ms[0]
                try:
                    E = ev.Evaluator(F)
                    res, _, _ = E.run_symbolic(f, this_prefix="self")
                    slots = [t for _, t in ev.flatten(E.rv(res))]
                    k, detail = classify_direction_value(slots, set())
                    if k == "normalised" and [strip_cast(c) for c in detail] == self_slots:
                        chk.holds("R3", "%s::%s" % (name, mname), "normalisation of the stored vector", short(f["loc"]))
                    else:
                        chk.violated("R3", "%s::%s" % (name, mname), "not the normalised stored vector: %s" % (detail if k == "other" else k), short(f["loc"]))
                except ev.Inconclusive as x:
                    chk.inconclusive("R3", "%s::%s" % (name, mname), str(x), short(f["loc"]))
    chk.floor("direction construction/mutation/producer paths (x3)", n_paths, 120)
    chk.floor("vector quantities (x3)", n_q, 51)
    chk.coverage["direction_paths"] = n_paths
    chk.coverage["normalisation_error_bound_u"] = norm_worst
    chk.coverage["vector_quantities"] = n_q
