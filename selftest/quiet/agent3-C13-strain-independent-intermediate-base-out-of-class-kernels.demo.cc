// Differential program for the Newtonian fluid constitutive models (property C13).
#include <PhQ/ConstitutiveModel.hpp>
#include <PhQ/ConstitutiveModel/CompressibleNewtonianFluid.hpp>
#include <PhQ/ConstitutiveModel/IncompressibleNewtonianFluid.hpp>
#include <PhQ/ConstitutiveModel/ElasticIsotropicSolid.hpp>

#include <cmath>
#include <cstdint>
#include <cstdio>
#include <functional>
#include <iostream>
#include <limits>
#include <memory>
#include <random>
#include <sstream>
#include <string>
#include <type_traits>
#include <vector>

using namespace PhQ;

static std::uint64_t g_digest = 1469598103934665603ULL;
static std::uint64_t g_count = 0;
static std::uint64_t g_printed = 0;
static const std::uint64_t kMaxPrinted = 6000;

static void Emit(const std::string& line) {
  for (const char c : line) {
    g_digest ^= static_cast<unsigned char>(c);
    g_digest *= 1099511628211ULL;
  }
  g_digest ^= 0x0aU;
  g_digest *= 1099511628211ULL;
  ++g_count;
  if (g_printed < kMaxPrinted) {
    std::puts(line.c_str());
    ++g_printed;
  }
}

static std::string Hex(const float v) {
  char buffer[64];
  std::snprintf(buffer, sizeof buffer, "%a", static_cast<double>(v));
  return buffer;
}
static std::string Hex(const double v) {
  char buffer[64];
  std::snprintf(buffer, sizeof buffer, "%a", v);
  return buffer;
}
static std::string Hex(const long double v) {
  char buffer[96];
  std::snprintf(buffer, sizeof buffer, "%La", v);
  return buffer;
}

template <typename T>
static std::string Hex(const SymmetricDyad<T>& d) {
  return Hex(d.xx()) + " " + Hex(d.xy()) + " " + Hex(d.xz()) + " " + Hex(d.yy()) + " "
         + Hex(d.yz()) + " " + Hex(d.zz());
}

template <typename T>
static const char* Name() {
  if (std::is_same<T, float>::value) return "f";
  if (std::is_same<T, double>::value) return "d";
  return "ld";
}

template <typename T>
static std::vector<T> Specials() {
  using L = std::numeric_limits<T>;
  return {static_cast<T>(0),
          -static_cast<T>(0),
          static_cast<T>(1),
          static_cast<T>(-1),
          static_cast<T>(0.1L),
          static_cast<T>(-3.3L),
          L::min(),
          -L::min(),
          L::denorm_min(),
          L::max(),
          -L::max(),
          L::epsilon(),
          L::infinity(),
          -L::infinity(),
          L::quiet_NaN(),
          static_cast<T>(1.0e-20L),
          static_cast<T>(1.0e20L),
          static_cast<T>(123456.789L)};
}

template <typename T>
static T RandomValue(std::mt19937_64& rng) {
  std::uniform_real_distribution<long double> mantissa(-10.0L, 10.0L);
  const int max_exponent = std::is_same<T, float>::value ? 30 : 250;
  std::uniform_int_distribution<int> exponent(-max_exponent, max_exponent);
  std::uniform_int_distribution<int> kind(0, 9);
  const int k = kind(rng);
  if (k < 5) {
    return static_cast<T>(mantissa(rng));
  }
  if (k < 9) {
    return static_cast<T>(mantissa(rng) * std::pow(10.0L, exponent(rng) / 8));
  }
  return static_cast<T>(mantissa(rng) * std::pow(10.0L, exponent(rng)));
}

template <typename T>
static T RandomViscosity(std::mt19937_64& rng) {
  std::uniform_real_distribution<long double> mantissa(1.0L, 10.0L);
  const int max_exponent = std::is_same<T, float>::value ? 18 : 120;
  std::uniform_int_distribution<int> exponent(-max_exponent, max_exponent);
  return static_cast<T>(mantissa(rng) * std::pow(10.0L, exponent(rng)));
}

template <typename T>
static SymmetricDyad<T> RandomDyad(std::mt19937_64& rng, const std::vector<T>& specials) {
  std::uniform_int_distribution<int> pick(0, 11);
  std::uniform_int_distribution<std::size_t> which(0, specials.size() - 1);
  T v[6];
  for (T& x : v) {
    x = (pick(rng) == 0) ? specials[which(rng)] : RandomValue<T>(rng);
  }
  return SymmetricDyad<T>{v[0], v[1], v[2], v[3], v[4], v[5]};
}

// Exercises every virtual overload for the numeric type T, through the abstract interface and,
// where available, through the concrete type.
template <typename T, typename Model>
static void Exercise(const std::string& tag, const Model& concrete, const SymmetricDyad<T>& rate,
                     const SymmetricDyad<T>& tension, const SymmetricDyad<T>& deformation) {
  const ConstitutiveModel& model = concrete;
  const PhQ::StrainRate<T> strain_rate{rate, Unit::Frequency::Hertz};
  const PhQ::Stress<T> stress_in{tension, Unit::Pressure::Pascal};
  const PhQ::Strain<T> strain{deformation};
  const std::string t = tag + " " + Name<T>();

  const PhQ::Stress<T> s1 = model.Stress(strain_rate);
  const PhQ::Stress<T> s2 = model.Stress(strain, strain_rate);
  const PhQ::Stress<T> s3 = model.Stress(strain);
  const PhQ::Strain<T> e1 = model.Strain(stress_in);
  const PhQ::StrainRate<T> r1 = model.StrainRate(stress_in);
  const PhQ::StrainRate<T> r2 = model.StrainRate(s1);
  const PhQ::Stress<T> s4 = model.Stress(r1);
  Emit(t + " A.Stress(rate) " + Hex(s1.Value()));
  Emit(t + " A.Stress(strain,rate) " + Hex(s2.Value()));
  Emit(t + " A.Stress(strain) " + Hex(s3.Value()));
  Emit(t + " A.Strain(stress) " + Hex(e1.Value()));
  Emit(t + " A.StrainRate(stress) " + Hex(r1.Value()));
  Emit(t + " A.StrainRate(Stress(rate)) " + Hex(r2.Value()));
  Emit(t + " A.Stress(StrainRate(stress)) " + Hex(s4.Value()));

  const PhQ::Stress<T> c1 = concrete.Stress(strain_rate);
  const PhQ::Stress<T> c2 = concrete.Stress(strain, strain_rate);
  const PhQ::Stress<T> c3 = concrete.Stress(strain);
  const PhQ::Strain<T> f1 = concrete.Strain(stress_in);
  const PhQ::StrainRate<T> q1 = concrete.StrainRate(stress_in);
  const PhQ::StrainRate<T> q2 = concrete.StrainRate(c1);
  Emit(t + " C.Stress(rate) " + Hex(c1.Value()));
  Emit(t + " C.Stress(strain,rate) " + Hex(c2.Value()));
  Emit(t + " C.Stress(strain) " + Hex(c3.Value()));
  Emit(t + " C.Strain(stress) " + Hex(f1.Value()));
  Emit(t + " C.StrainRate(stress) " + Hex(q1.Value()));
  Emit(t + " C.StrainRate(Stress(rate)) " + Hex(q2.Value()));

  // Linearity probes: scaled and summed inputs.
  const PhQ::StrainRate<T> doubled{rate * static_cast<T>(2), Unit::Frequency::Hertz};
  const PhQ::StrainRate<T> summed{rate + tension, Unit::Frequency::Hertz};
  Emit(t + " A.Stress(2*rate) " + Hex(model.Stress(doubled).Value()));
  Emit(t + " A.Stress(rate+tension) " + Hex(model.Stress(summed).Value()));
  const PhQ::Stress<T> halved{tension / static_cast<T>(2), Unit::Pressure::Pascal};
  Emit(t + " A.StrainRate(stress/2) " + Hex(model.StrainRate(halved).Value()));

  // Zero inputs.
  Emit(t + " A.Stress(0) " + Hex(model.Stress(PhQ::StrainRate<T>::Zero()).Value()));
  Emit(t + " A.StrainRate(0) " + Hex(model.StrainRate(PhQ::Stress<T>::Zero()).Value()));
}

template <typename Model>
static void Describe(const std::string& tag, const Model& concrete) {
  const ConstitutiveModel& model = concrete;
  Emit(tag + " type " + std::to_string(static_cast<int>(model.GetType())) + " "
       + std::to_string(static_cast<int>(concrete.GetType())));
  Emit(tag + " print " + model.Print() + " | " + concrete.Print());
  Emit(tag + " json " + model.JSON() + " | " + concrete.JSON());
  Emit(tag + " xml " + model.XML() + " | " + concrete.XML());
  Emit(tag + " yaml " + model.YAML() + " | " + concrete.YAML());
  std::ostringstream a;
  a << model;
  std::ostringstream b;
  b << concrete;
  Emit(tag + " stream " + a.str() + " | " + b.str());
  Emit(tag + " hash " + std::to_string(std::hash<Model>()(concrete)));
  Emit(tag + " mu " + Hex(concrete.DynamicViscosity().Value()));
}

template <typename Model>
static void Compare(const std::string& tag, const Model& a, const Model& b) {
  std::string line = tag + " cmp ";
  line += (a == b) ? '1' : '0';
  line += (a != b) ? '1' : '0';
  line += (a < b) ? '1' : '0';
  line += (a > b) ? '1' : '0';
  line += (a <= b) ? '1' : '0';
  line += (a >= b) ? '1' : '0';
  Emit(line);
}

template <typename M>
static void RunModelType(std::mt19937_64& rng, const int iterations) {
  using Incompressible = ConstitutiveModel::IncompressibleNewtonianFluid<M>;
  using Compressible = ConstitutiveModel::CompressibleNewtonianFluid<M>;
  const std::vector<float> sf = Specials<float>();
  const std::vector<double> sd = Specials<double>();
  const std::vector<long double> sl = Specials<long double>();
  const std::string m = std::string("M=") + Name<M>();

  Emit(m + " sizeof " + std::to_string(sizeof(Incompressible)) + " "
       + std::to_string(sizeof(Compressible)));
  Emit(m + " traits "
       + std::to_string(std::is_base_of<ConstitutiveModel, Incompressible>::value)
       + std::to_string(std::is_base_of<ConstitutiveModel, Compressible>::value)
       + std::to_string(std::is_convertible<Incompressible*, ConstitutiveModel*>::value)
       + std::to_string(std::is_convertible<Compressible*, ConstitutiveModel*>::value)
       + std::to_string(std::is_abstract<Incompressible>::value)
       + std::to_string(std::is_abstract<Compressible>::value)
       + std::to_string(std::is_copy_constructible<Compressible>::value)
       + std::to_string(std::is_nothrow_move_constructible<Compressible>::value)
       + std::to_string(std::is_copy_assignable<Incompressible>::value)
       + std::to_string(std::is_nothrow_move_assignable<Incompressible>::value)
       + std::to_string(std::is_default_constructible<Incompressible>::value)
       + std::to_string(std::has_virtual_destructor<Compressible>::value)
       + std::to_string(std::is_polymorphic<Incompressible>::value)
       + std::to_string(std::is_final<Incompressible>::value)
       + std::to_string(std::is_final<Compressible>::value));

  std::vector<M> viscosities = {static_cast<M>(1),      static_cast<M>(2),
                                static_cast<M>(0.5L),   static_cast<M>(128),
                                static_cast<M>(1.0e-6L), static_cast<M>(1.8e-5L),
                                static_cast<M>(1.0e6L),  static_cast<M>(0),
                                -static_cast<M>(0),      static_cast<M>(-4),
                                std::numeric_limits<M>::min(), std::numeric_limits<M>::max(),
                                std::numeric_limits<M>::infinity(),
                                std::numeric_limits<M>::quiet_NaN(),
                                static_cast<M>(1.0e-3L), static_cast<M>(8.9e-4L)};
  std::vector<M> bulks = {static_cast<M>(0),     static_cast<M>(1),      static_cast<M>(3),
                          static_cast<M>(-1),    static_cast<M>(1.0e-3L), static_cast<M>(0.25L),
                          -static_cast<M>(0),    static_cast<M>(1.0e4L)};

  for (int i = 0; i < iterations; ++i) {
    M mu;
    M bulk;
    if (i < static_cast<int>(viscosities.size() * bulks.size())) {
      mu = viscosities[static_cast<std::size_t>(i) / bulks.size()];
      bulk = bulks[static_cast<std::size_t>(i) % bulks.size()];
    } else {
      mu = RandomViscosity<M>(rng);
      bulk = (i % 5 == 0) ? static_cast<M>(0) : RandomViscosity<M>(rng);
    }
    const std::string tag = m + " #" + std::to_string(i);
    const PhQ::DynamicViscosity<M> dynamic_viscosity{mu, Unit::DynamicViscosity::PascalSecond};
    const PhQ::BulkDynamicViscosity<M> bulk_dynamic_viscosity{
      bulk, Unit::DynamicViscosity::PascalSecond};

    const Incompressible incompressible{dynamic_viscosity};
    const Compressible compressible{dynamic_viscosity, bulk_dynamic_viscosity};
    const Compressible compressible_no_bulk{dynamic_viscosity};
    Emit(tag + " nobulk " + Hex(compressible_no_bulk.BulkDynamicViscosity().Value()) + " "
         + Hex(compressible.BulkDynamicViscosity().Value()));

    // Copies, moves and heap-allocated models used through the abstract base class.
    Compressible copied{compressible};
    Compressible assigned;
    assigned = copied;
    Compressible moved{std::move(copied)};
    const std::unique_ptr<const ConstitutiveModel> heap_incompressible =
        std::make_unique<const Incompressible>(incompressible);
    const std::unique_ptr<const ConstitutiveModel> heap_compressible =
        std::make_unique<const Compressible>(std::move(assigned));

    if (i < 40 || i % 16 == 0) {
      Describe(tag + " I", incompressible);
      Describe(tag + " C", compressible);
      Describe(tag + " C0", compressible_no_bulk);
      Emit(tag + " Cbulk " + Hex(compressible.BulkDynamicViscosity().Value()));
      Emit(tag + " heap " + heap_incompressible->Print() + " | " + heap_compressible->JSON());
      Compare(tag + " II", incompressible, incompressible);
      Compare(tag + " CC0", compressible, compressible_no_bulk);
      Compare(tag + " C0C", compressible_no_bulk, compressible);
      Compare(tag + " CM", compressible, moved);
      const Incompressible other{PhQ::DynamicViscosity<M>{
        RandomViscosity<M>(rng), Unit::DynamicViscosity::PascalSecond}};
      Compare(tag + " IO", incompressible, other);
      Compare(tag + " OI", other, incompressible);
    }

    const int shapes = (i < 40) ? 4 : 2;
    for (int j = 0; j < shapes; ++j) {
      const std::string tj = tag + "." + std::to_string(j);
      {
        const SymmetricDyad<float> a = RandomDyad<float>(rng, sf);
        const SymmetricDyad<float> b = RandomDyad<float>(rng, sf);
        const SymmetricDyad<float> c = RandomDyad<float>(rng, sf);
        Exercise<float>(tj + " I", incompressible, a, b, c);
        Exercise<float>(tj + " C", compressible, a, b, c);
        Exercise<float>(tj + " C0", compressible_no_bulk, a, b, c);
        Emit(tj + " heapI f " + Hex(heap_incompressible
                                        ->Stress(PhQ::Strain<float>{c},
                                                 PhQ::StrainRate<float>{a, Unit::Frequency::Hertz})
                                        .Value()));
        Emit(tj + " heapC f "
             + Hex(heap_compressible
                       ->StrainRate(PhQ::Stress<float>{b, Unit::Pressure::Pascal})
                       .Value()));
      }
      {
        const SymmetricDyad<double> a = RandomDyad<double>(rng, sd);
        const SymmetricDyad<double> b = RandomDyad<double>(rng, sd);
        const SymmetricDyad<double> c = RandomDyad<double>(rng, sd);
        Exercise<double>(tj + " I", incompressible, a, b, c);
        Exercise<double>(tj + " C", compressible, a, b, c);
        Exercise<double>(tj + " C0", compressible_no_bulk, a, b, c);
        Emit(tj + " heapI d "
             + Hex(heap_incompressible
                       ->StrainRate(PhQ::Stress<double>{b, Unit::Pressure::Pascal})
                       .Value()));
        Emit(tj + " heapC d " + Hex(heap_compressible
                                        ->Stress(PhQ::Strain<double>{c},
                                                 PhQ::StrainRate<double>{a, Unit::Frequency::Hertz})
                                        .Value()));
      }
      {
        const SymmetricDyad<long double> a = RandomDyad<long double>(rng, sl);
        const SymmetricDyad<long double> b = RandomDyad<long double>(rng, sl);
        const SymmetricDyad<long double> c = RandomDyad<long double>(rng, sl);
        Exercise<long double>(tj + " I", incompressible, a, b, c);
        Exercise<long double>(tj + " C", compressible, a, b, c);
        Exercise<long double>(tj + " C0", compressible_no_bulk, a, b, c);
        Emit(tj + " heapI ld "
             + Hex(heap_incompressible->Strain(PhQ::Stress<long double>{b, Unit::Pressure::Pascal})
                       .Value()));
        Emit(tj + " heapC ld "
             + Hex(heap_compressible->Stress(PhQ::Strain<long double>{c}).Value()));
      }
    }
  }

  // Edge-case tensors built only from special values, with a few fixed viscosities.
  const Incompressible water{
    PhQ::DynamicViscosity<M>{static_cast<M>(8.9e-4L), Unit::DynamicViscosity::PascalSecond}};
  const Compressible air{
    PhQ::DynamicViscosity<M>{static_cast<M>(1.8e-5L), Unit::DynamicViscosity::PascalSecond},
    PhQ::BulkDynamicViscosity<M>{static_cast<M>(1.1e-5L), Unit::DynamicViscosity::PascalSecond}};
  for (std::size_t i = 0; i < sd.size(); ++i) {
    for (std::size_t j = 0; j < sd.size(); ++j) {
      const std::string tag = m + " S" + std::to_string(i) + "," + std::to_string(j);
      const std::size_t k = (i + j) % sd.size();
      Exercise<float>(tag + " I", water, {sf[i], sf[j], sf[k], sf[j], sf[i], sf[k]},
                      {sf[k], sf[i], sf[j], sf[i], sf[j], sf[i]},
                      {sf[j], sf[j], sf[j], sf[i], sf[i], sf[i]});
      Exercise<float>(tag + " C", air, {sf[i], sf[j], sf[k], sf[j], sf[i], sf[k]},
                      {sf[k], sf[i], sf[j], sf[i], sf[j], sf[i]},
                      {sf[j], sf[j], sf[j], sf[i], sf[i], sf[i]});
      Exercise<double>(tag + " I", water, {sd[i], sd[j], sd[k], sd[j], sd[i], sd[k]},
                       {sd[k], sd[i], sd[j], sd[i], sd[j], sd[i]},
                       {sd[j], sd[j], sd[j], sd[i], sd[i], sd[i]});
      Exercise<double>(tag + " C", air, {sd[i], sd[j], sd[k], sd[j], sd[i], sd[k]},
                       {sd[k], sd[i], sd[j], sd[i], sd[j], sd[i]},
                       {sd[j], sd[j], sd[j], sd[i], sd[i], sd[i]});
      Exercise<long double>(tag + " I", water, {sl[i], sl[j], sl[k], sl[j], sl[i], sl[k]},
                            {sl[k], sl[i], sl[j], sl[i], sl[j], sl[i]},
                            {sl[j], sl[j], sl[j], sl[i], sl[i], sl[i]});
      Exercise<long double>(tag + " C", air, {sl[i], sl[j], sl[k], sl[j], sl[i], sl[k]},
                            {sl[k], sl[i], sl[j], sl[i], sl[j], sl[i]},
                            {sl[j], sl[j], sl[j], sl[i], sl[i], sl[i]});
    }
  }
}

int main() {
  std::mt19937_64 rng(20240913ULL);
  RunModelType<float>(rng, 1500);
  RunModelType<double>(rng, 1500);
  RunModelType<long double>(rng, 1500);

  // Default template argument and an unrelated model that shares the abstract interface.
  const ConstitutiveModel::IncompressibleNewtonianFluid<> default_incompressible{
    PhQ::DynamicViscosity<>{4.0, Unit::DynamicViscosity::PascalSecond}};
  const ConstitutiveModel::CompressibleNewtonianFluid<> default_compressible{
    PhQ::DynamicViscosity<>{4.0, Unit::DynamicViscosity::PascalSecond},
    PhQ::BulkDynamicViscosity<>{2.0, Unit::DynamicViscosity::PascalSecond}};
  Describe("default I", default_incompressible);
  Describe("default C", default_compressible);
  const ConstitutiveModel::ElasticIsotropicSolid<> solid{
    YoungModulus<>{200.0, Unit::Pressure::Gigapascal}, PoissonRatio<>{0.3}};
  const ConstitutiveModel& abstract_solid = solid;
  Emit("solid " + abstract_solid.Print());
  Emit("solid stress "
       + Hex(abstract_solid.Stress(PhQ::Strain<double>{1.0e-3, 2.0e-4, -1.0e-4, 5.0e-4, 0.0, -2.0e-4})
                 .Value()));

  std::printf("lines %llu digest %016llx\n", static_cast<unsigned long long>(g_count),
              static_cast<unsigned long long>(g_digest));
  return 0;
}
