// Differential program for the C18q refactor: strain / strain rate as symmetric parts of the
// displacement / velocity gradients, and the von Mises stress. Prints every result as raw bytes
// in hexadecimal and as hexfloat so that any last-bit difference is visible.
#include <PhQ/DisplacementGradient.hpp>
#include <PhQ/Strain.hpp>
#include <PhQ/StrainRate.hpp>
#include <PhQ/Stress.hpp>
#include <PhQ/VelocityGradient.hpp>

#include <array>
#include <cmath>
#include <cstdint>
#include <cstdio>
#include <cstring>
#include <limits>
#include <random>
#include <string>
#include <vector>

namespace {

std::uint64_t digest = 1469598103934665603ULL;

template <typename T>
constexpr std::size_t SignificantBytes() {
  // long double on x86-64 has 10 significant bytes; the 6 padding bytes are indeterminate.
  return sizeof(T) == 16 ? 10 : sizeof(T);
}

template <typename T>
void Emit(const char* label, const T value) {
  unsigned char bytes[sizeof(T)];
  std::memcpy(bytes, &value, sizeof(T));
  std::printf("%s ", label);
  for (std::size_t i = SignificantBytes<T>(); i-- > 0;) {
    std::printf("%02x", bytes[i]);
    digest = (digest ^ bytes[i]) * 1099511628211ULL;
  }
  std::printf(" %La\n", static_cast<long double>(value));
}

template <typename T>
void EmitSym(const char* label, const PhQ::SymmetricDyad<T>& s) {
  std::printf("%s\n", label);
  Emit<T>("  xx", s.xx());
  Emit<T>("  xy", s.xy());
  Emit<T>("  xz", s.xz());
  Emit<T>("  yx", s.yx());
  Emit<T>("  yy", s.yy());
  Emit<T>("  yz", s.yz());
  Emit<T>("  zx", s.zx());
  Emit<T>("  zy", s.zy());
  Emit<T>("  zz", s.zz());
}

template <typename T>
std::vector<T> EdgeValues() {
  using L = std::numeric_limits<T>;
  return {static_cast<T>(0),
          -static_cast<T>(0),
          static_cast<T>(1),
          static_cast<T>(-1),
          static_cast<T>(0.1L),
          static_cast<T>(-0.3L),
          static_cast<T>(3),
          L::min(),
          -L::min(),
          L::denorm_min(),
          -L::denorm_min(),
          static_cast<T>(3) * L::denorm_min(),
          L::epsilon(),
          static_cast<T>(1) + L::epsilon(),
          L::max(),
          -L::max(),
          L::max() / static_cast<T>(2),
          std::sqrt(L::max()),
          std::sqrt(L::max()) / static_cast<T>(4),
          L::infinity(),
          -L::infinity(),
          L::quiet_NaN()};
}

template <typename T>
void OneGradient(const std::array<T, 9>& a) {
  const PhQ::Dyad<T> dyad(a);

  // Strain from displacement gradient: constructor and member function.
  const PhQ::DisplacementGradient<T> displacement_gradient(dyad);
  const PhQ::Strain<T> strain_ctor(displacement_gradient);
  const PhQ::Strain<T> strain_member = displacement_gradient.Strain();
  EmitSym<T>("strain(ctor)", strain_ctor.Value());
  EmitSym<T>("strain(member)", strain_member.Value());
  const PhQ::DisplacementGradient<T> displacement_gradient_components(
      a[0], a[1], a[2], a[3], a[4], a[5], a[6], a[7], a[8]);
  EmitSym<T>("strain(components)", PhQ::Strain<T>(displacement_gradient_components).Value());

  // Strain rate from velocity gradient, in several units.
  for (const PhQ::Unit::Frequency unit :
       {PhQ::Unit::Frequency::Hertz, PhQ::Unit::Frequency::Kilohertz,
        PhQ::Unit::Frequency::PerMinute, PhQ::Unit::Frequency::PerHour}) {
    const PhQ::VelocityGradient<T> velocity_gradient(dyad, unit);
    const PhQ::StrainRate<T> rate_ctor(velocity_gradient);
    const PhQ::StrainRate<T> rate_member = velocity_gradient.StrainRate();
    EmitSym<T>("strain_rate(ctor)", rate_ctor.Value());
    EmitSym<T>("strain_rate(member)", rate_member.Value());
    EmitSym<T>("strain_rate(ctor, unit)", rate_ctor.Value(unit));
  }
}

template <typename T>
void OneStress(const std::array<T, 6>& a) {
  const PhQ::SymmetricDyad<T> value(a);
  for (const PhQ::Unit::Pressure unit :
       {PhQ::Unit::Pressure::Pascal, PhQ::Unit::Pressure::Megapascal, PhQ::Unit::Pressure::Bar,
        PhQ::Unit::Pressure::PoundPerSquareInch}) {
    const PhQ::Stress<T> stress(value, unit);
    const PhQ::ScalarStress<T> von_mises = stress.VonMises();
    Emit<T>("von_mises", von_mises.Value());
    Emit<T>("von_mises(unit)", von_mises.Value(unit));
  }
}

template <typename T>
void Run(const char* name, const unsigned seed) {
  std::printf("==== %s ====\n", name);
  std::mt19937_64 generator(seed);
  const std::vector<T> edges = EdgeValues<T>();

  // Edge cases: every edge value in every slot with a fixed background, and pairs of edge values in
  // the off-diagonal pairs that are summed.
  for (const T background : {static_cast<T>(0), static_cast<T>(1.25L), static_cast<T>(-7.5L)}) {
    for (std::size_t slot = 0; slot < 9; ++slot) {
      for (const T edge : edges) {
        std::array<T, 9> a;
        a.fill(background);
        a[slot] = edge;
        OneGradient<T>(a);
      }
    }
    for (std::size_t slot = 0; slot < 6; ++slot) {
      for (const T edge : edges) {
        std::array<T, 6> a;
        a.fill(background);
        a[slot] = edge;
        OneStress<T>(a);
      }
    }
  }
  for (const T first : edges) {
    for (const T second : edges) {
      OneGradient<T>({first, first, second, second, second, first, first, second, first});
      OneStress<T>({first, second, first, second, second, first});
      OneStress<T>({first, first, first, second, second, second});
    }
  }

  // Random inputs over many orders of magnitude, with random signs.
  const int min_exponent = std::numeric_limits<T>::min_exponent - std::numeric_limits<T>::digits;
  const int max_exponent = std::numeric_limits<T>::max_exponent;
  std::uniform_real_distribution<long double> mantissa(0.5L, 1.0L);
  std::uniform_int_distribution<int> wide_exponent(min_exponent, max_exponent);
  std::uniform_int_distribution<int> narrow_exponent(-40, 40);
  std::uniform_int_distribution<int> tight_exponent(-2, 2);
  std::bernoulli_distribution negative(0.5);
  const auto draw = [&](std::uniform_int_distribution<int>& exponent) {
    const long double magnitude = std::ldexp(mantissa(generator), exponent(generator));
    return static_cast<T>(negative(generator) ? -magnitude : magnitude);
  };
  for (int iteration = 0; iteration < 3000; ++iteration) {
    std::uniform_int_distribution<int>& exponent =
        iteration % 3 == 0 ? wide_exponent : (iteration % 3 == 1 ? narrow_exponent : tight_exponent);
    std::array<T, 9> gradient;
    for (T& component : gradient) {
      component = draw(exponent);
    }
    OneGradient<T>(gradient);
    std::array<T, 6> stress;
    for (T& component : stress) {
      component = draw(exponent);
    }
    OneStress<T>(stress);
    // Nearly hydrostatic stress: cancellation in the normal differences.
    const T p = draw(exponent);
    const T e = std::numeric_limits<T>::epsilon();
    OneStress<T>({p, stress[1] * e, stress[2] * e, p * (static_cast<T>(1) + e), stress[4] * e,
                  p * (static_cast<T>(1) - e)});
  }
}

}  // namespace

int main() {
  Run<float>("float", 1801U);
  Run<double>("double", 1802U);
  Run<long double>("long double", 1803U);
  std::printf("digest %016llx\n", static_cast<unsigned long long>(digest));
  return 0;
}
