// Differential program for refactor C03r: exercises PhQ::Vector and PhQ::SymmetricDyad arithmetic
// (scaling, dot/cross products, symmetric-dyad * vector) and the quantity relations built on them
// (Stress from StaticPressure, Traction = Stress * Direction, Force = Traction * Area, Velocity =
// Displacement / Time, HeatFlux = -k * grad(T), ...), for float, double and long double.
#include <PhQ/Acceleration.hpp>
#include <PhQ/Angle.hpp>
#include <PhQ/Area.hpp>
#include <PhQ/Direction.hpp>
#include <PhQ/Displacement.hpp>
#include <PhQ/Force.hpp>
#include <PhQ/Frequency.hpp>
#include <PhQ/HeatFlux.hpp>
#include <PhQ/Length.hpp>
#include <PhQ/ScalarForce.hpp>
#include <PhQ/ScalarThermalConductivity.hpp>
#include <PhQ/ScalarTraction.hpp>
#include <PhQ/Speed.hpp>
#include <PhQ/StaticPressure.hpp>
#include <PhQ/Stress.hpp>
#include <PhQ/SymmetricDyad.hpp>
#include <PhQ/TemperatureGradient.hpp>
#include <PhQ/ThermalConductivity.hpp>
#include <PhQ/Time.hpp>
#include <PhQ/Traction.hpp>
#include <PhQ/Vector.hpp>
#include <PhQ/Velocity.hpp>

#include <cmath>
#include <cstdint>
#include <cstdio>
#include <cstring>
#include <limits>
#include <random>
#include <string>
#include <vector>

using namespace PhQ;

// ---------------------------------------------------------------------------------------------
// Compile-time checks: the refactored functions must remain usable in constant expressions.
// ---------------------------------------------------------------------------------------------
constexpr Vector<double> kA{1.0, -2.0, 3.0};
constexpr Vector<double> kB{4.0, 5.0, -6.0};
static_assert(kA.MagnitudeSquared() == 14.0);
static_assert(kA.Dot(kB) == -24.0);
static_assert(kA.Cross(kB) == Vector<double>{-3.0, 18.0, 13.0});
static_assert(kA * 2.0 == Vector<double>{2.0, -4.0, 6.0});
static_assert(2.0F * kA == Vector<double>{2.0, -4.0, 6.0});
static_assert(kA / 2 == Vector<double>{0.5, -1.0, 1.5});
constexpr Vector<float> ScaledInPlace(Vector<float> v, const double by, const long double over) {
  v *= by;
  v /= over;
  return v;
}
static_assert(ScaledInPlace({1.0F, -2.0F, 3.0F}, 4.0, 2.0L) == Vector<float>{2.0F, -4.0F, 6.0F});
constexpr SymmetricDyad<double> kS{1.0, 2.0, 3.0, 4.0, 5.0, 6.0};
static_assert(kS * kA == Vector<double>{6.0, 9.0, 11.0});
constexpr SymmetricDyad<long double> ScaledInPlace(
    SymmetricDyad<long double> s, const float by, const int over) {
  s *= by;
  s /= over;
  return s;
}
static_assert(ScaledInPlace({1.0L, 2.0L, 3.0L, 4.0L, 5.0L, 6.0L}, 4.0F, 2)
              == SymmetricDyad<long double>{2.0L, 4.0L, 6.0L, 8.0L, 10.0L, 12.0L});
constexpr Stress<double> kStress{StaticPressure<double>::Create<Unit::Pressure::Pascal>(8.0)};
static_assert(kStress.Value() == SymmetricDyad<double>{-8.0, 0.0, 0.0, -8.0, 0.0, -8.0});
constexpr Stress<float> kStressF{StaticPressure<float>::Create<Unit::Pressure::Pascal>(0.0F)};
static_assert(kStressF.Value().xy() == 0.0F);

// ---------------------------------------------------------------------------------------------
// Output helpers.
// ---------------------------------------------------------------------------------------------
static std::uint64_t g_digest = 1469598103934665603ULL;
static unsigned long g_count = 0;
static bool g_canonical_nan = false;
static bool g_quiet = false;  // hash values without printing them (used by the large NaN sweep)

static void Mix(const void* data, const std::size_t size) {
  const auto* bytes = static_cast<const unsigned char*>(data);
  for (std::size_t i = 0; i < size; ++i) {
    g_digest ^= bytes[i];
    g_digest *= 1099511628211ULL;
  }
}

template <typename T>
static void Emit(const char* tag, const T value) {
  // Value bytes (10 significant bytes for x87 long double).
  unsigned char raw[sizeof(T)];
  std::memcpy(raw, &value, sizeof(T));
  const std::size_t significant = std::is_same<T, long double>::value ? 10 : sizeof(T);
  ++g_count;
  if (g_canonical_nan && value != value) {
    // Optional mode (argument "--canonical-nan"): print every NaN as "nan" regardless of its sign
    // bit. The default mode prints and hashes the raw bits, sign of NaN included.
    Mix("nan", 3);
    if (!g_quiet) {
      std::printf("%s nan\n", tag);
    }
    return;
  }
  Mix(raw, significant);
  if (!g_quiet) {
    std::printf("%s %La\n", tag, static_cast<long double>(value));
  }
}

template <typename T>
static void EmitV(const char* tag, const Vector<T>& v) {
  std::string t{tag};
  Emit<T>((t + ".x").c_str(), v.x());
  Emit<T>((t + ".y").c_str(), v.y());
  Emit<T>((t + ".z").c_str(), v.z());
}

template <typename T>
static void EmitS(const char* tag, const SymmetricDyad<T>& s) {
  std::string t{tag};
  Emit<T>((t + ".xx").c_str(), s.xx());
  Emit<T>((t + ".xy").c_str(), s.xy());
  Emit<T>((t + ".xz").c_str(), s.xz());
  Emit<T>((t + ".yy").c_str(), s.yy());
  Emit<T>((t + ".yz").c_str(), s.yz());
  Emit<T>((t + ".zz").c_str(), s.zz());
}

static void EmitText(const char* tag, const std::string& text) {
  Mix(text.data(), text.size());
  std::printf("%s %s\n", tag, text.c_str());
}

// ---------------------------------------------------------------------------------------------
// Input generation.
// ---------------------------------------------------------------------------------------------
template <typename T>
struct Source {
  std::mt19937_64 rng;
  std::vector<T> edges;

  explicit Source(const std::uint64_t seed) : rng(seed) {
    using L = std::numeric_limits<T>;
    edges = {static_cast<T>(0),
             -static_cast<T>(0),
             static_cast<T>(1),
             static_cast<T>(-1),
             static_cast<T>(2),
             static_cast<T>(-0.5),
             static_cast<T>(1) / static_cast<T>(3),
             static_cast<T>(-10) / static_cast<T>(7),
             L::denorm_min(),
             -L::denorm_min(),
             L::min(),
             -L::min(),
             L::epsilon(),
             L::max(),
             -L::max(),
             L::max() / static_cast<T>(4),
             std::sqrt(L::max()),
             -std::sqrt(L::max()),
             std::sqrt(L::min()),
             L::infinity(),
             -L::infinity(),
             L::quiet_NaN(),
             static_cast<T>(101325),
             static_cast<T>(1.0e-9L),
             static_cast<T>(-6.02214076e23L)};
  }

  T Random() {
    std::uniform_real_distribution<double> mantissa(-1.0, 1.0);
    std::uniform_int_distribution<int> exponent(-30, 30);
    std::uniform_int_distribution<int> wide(-120, 120);
    std::uniform_int_distribution<int> kind(0, 9);
    const int k = kind(rng);
    if (k < 2) {
      std::uniform_int_distribution<std::size_t> pick(0, edges.size() - 1);
      return edges[pick(rng)];
    }
    const long double m = static_cast<long double>(mantissa(rng))
                          + static_cast<long double>(mantissa(rng)) * 0x1p-40L;
    if (k < 4) {
      return static_cast<T>(std::ldexp(m, wide(rng)));
    }
    if (k < 6) {
      return static_cast<T>(m * 10.0L);
    }
    return static_cast<T>(std::ldexp(m, exponent(rng)));
  }

  // Finite, non-extreme value (used where the library converts units at run time).
  T Moderate() {
    std::uniform_real_distribution<double> mantissa(-1.0, 1.0);
    std::uniform_int_distribution<int> exponent(-12, 12);
    const long double m = static_cast<long double>(mantissa(rng))
                          + static_cast<long double>(mantissa(rng)) * 0x1p-40L;
    return static_cast<T>(std::ldexp(m, exponent(rng)));
  }

  Vector<T> RandomVector() {
    const T x = Random();
    const T y = Random();
    const T z = Random();
    return Vector<T>{x, y, z};
  }

  Vector<T> ModerateVector() {
    const T x = Moderate();
    const T y = Moderate();
    const T z = Moderate();
    return Vector<T>{x, y, z};
  }

  SymmetricDyad<T> RandomSymmetricDyad() {
    const T xx = Random();
    const T xy = Random();
    const T xz = Random();
    const T yy = Random();
    const T yz = Random();
    const T zz = Random();
    return SymmetricDyad<T>{xx, xy, xz, yy, yz, zz};
  }

  SymmetricDyad<T> ModerateSymmetricDyad() {
    const T xx = Moderate();
    const T xy = Moderate();
    const T xz = Moderate();
    const T yy = Moderate();
    const T yz = Moderate();
    const T zz = Moderate();
    return SymmetricDyad<T>{xx, xy, xz, yy, yz, zz};
  }
};

// ---------------------------------------------------------------------------------------------
// Raw Vector / SymmetricDyad arithmetic.
// ---------------------------------------------------------------------------------------------
template <typename T, typename N>
static void ScaleVector(const char* tag, const Vector<T>& v, const N number) {
  std::string t{tag};
  EmitV<T>((t + " v*n").c_str(), v * number);
  EmitV<T>((t + " n*v").c_str(), number * v);
  EmitV<T>((t + " v/n").c_str(), v / number);
  Vector<T> a{v};
  a *= number;
  EmitV<T>((t + " v*=n").c_str(), a);
  Vector<T> b{v};
  b /= number;
  EmitV<T>((t + " v/=n").c_str(), b);
  Vector<T> c{v};
  c *= number;
  c /= number;
  EmitV<T>((t + " v*=n/=n").c_str(), c);
}

template <typename T, typename N>
static void ScaleSymmetricDyad(const char* tag, const SymmetricDyad<T>& s, const N number) {
  std::string t{tag};
  SymmetricDyad<T> a{s};
  a *= number;
  EmitS<T>((t + " s*=n").c_str(), a);
  SymmetricDyad<T> b{s};
  b /= number;
  EmitS<T>((t + " s/=n").c_str(), b);
  // Unchanged neighbours, for context.
  EmitS<T>((t + " s*n").c_str(), s * number);
  EmitS<T>((t + " s/n").c_str(), s / number);
}

template <typename T>
static void RawArithmetic(const char* name, Source<T>& source, const int iterations) {
  for (int i = 0; i < iterations; ++i) {
    const std::string t{std::string{name} + " raw#" + std::to_string(i)};
    const Vector<T> u{source.RandomVector()};
    const Vector<T> v{source.RandomVector()};
    const SymmetricDyad<T> s{source.RandomSymmetricDyad()};
    const T n{source.Random()};
    EmitV<T>((t + " u").c_str(), u);
    EmitV<T>((t + " v").c_str(), v);
    Emit<T>((t + " u.MagnitudeSquared").c_str(), u.MagnitudeSquared());
    Emit<T>((t + " u.Magnitude").c_str(), u.Magnitude());
    Emit<T>((t + " u.Dot(v)").c_str(), u.Dot(v));
    Emit<T>((t + " v.Dot(u)").c_str(), v.Dot(u));
    Emit<T>((t + " u.Dot(u)").c_str(), u.Dot(u));
    EmitV<T>((t + " u.Cross(v)").c_str(), u.Cross(v));
    EmitV<T>((t + " v.Cross(u)").c_str(), v.Cross(u));
    EmitV<T>((t + " u.Cross(u)").c_str(), u.Cross(u));
    const Direction<T> d{v};
    EmitV<T>((t + " d").c_str(), d.Value());
    Emit<T>((t + " u.Dot(d)").c_str(), u.Dot(d));
    EmitV<T>((t + " u.Cross(d)").c_str(), u.Cross(d));
    Emit<T>((t + " u.Angle(v)").c_str(), u.Angle(v).Value());
    Emit<T>((t + " u.Angle(d)").c_str(), u.Angle(d).Value());
    EmitV<T>((t + " u.Direction").c_str(), u.Direction().Value());
    EmitV<T>((t + " s*u").c_str(), s * u);
    EmitV<T>((t + " s*d").c_str(), s * d);
    ScaleVector<T, T>((t + " T").c_str(), u, n);
    ScaleVector<T, float>((t + " f").c_str(), u, static_cast<float>(n));
    ScaleVector<T, double>((t + " d").c_str(), u, static_cast<double>(n));
    ScaleVector<T, long double>((t + " ld").c_str(), u, static_cast<long double>(n));
    ScaleVector<T, int>((t + " i").c_str(), u, (i % 13) - 6 == 0 ? 7 : (i % 13) - 6);
    ScaleSymmetricDyad<T, T>((t + " T").c_str(), s, n);
    ScaleSymmetricDyad<T, float>((t + " f").c_str(), s, static_cast<float>(n));
    ScaleSymmetricDyad<T, double>((t + " d").c_str(), s, static_cast<double>(n));
    ScaleSymmetricDyad<T, long double>((t + " ld").c_str(), s, static_cast<long double>(n));
    ScaleSymmetricDyad<T, long>((t + " l").c_str(), s, static_cast<long>((i % 9) - 4 == 0 ? 5 : (i % 9) - 4));
  }
}

// ---------------------------------------------------------------------------------------------
// Relations between physical quantities that are built on the refactored arithmetic.
// ---------------------------------------------------------------------------------------------
template <typename T>
static void Relations(const char* name, Source<T>& source, const int iterations) {
  constexpr Unit::Pressure pressure_units[] = {
      Unit::Pressure::Pascal,     Unit::Pressure::Kilopascal,         Unit::Pressure::Megapascal,
      Unit::Pressure::Gigapascal, Unit::Pressure::Bar,                Unit::Pressure::Atmosphere,
      Unit::Pressure::PoundPerSquareFoot, Unit::Pressure::PoundPerSquareInch};
  constexpr Unit::Area area_units[] = {Unit::Area::SquareMetre, Unit::Area::SquareFoot,
                                       Unit::Area::SquareInch, Unit::Area::Hectare,
                                       Unit::Area::SquareMillimetre};
  constexpr Unit::Force force_units[] = {Unit::Force::Newton, Unit::Force::Kilonewton,
                                         Unit::Force::Dyne, Unit::Force::Pound};
  constexpr Unit::Time time_units[] = {Unit::Time::Second, Unit::Time::Millisecond,
                                       Unit::Time::Minute, Unit::Time::Hour};
  constexpr Unit::Length length_units[] = {Unit::Length::Metre, Unit::Length::Foot,
                                           Unit::Length::Mile, Unit::Length::Millimetre};
  constexpr Unit::Speed speed_units[] = {Unit::Speed::MetrePerSecond, Unit::Speed::MilePerHour,
                                         Unit::Speed::Knot, Unit::Speed::FootPerMinute};
  constexpr Unit::Frequency frequency_units[] = {
      Unit::Frequency::Hertz, Unit::Frequency::Kilohertz, Unit::Frequency::PerMinute};

  for (int i = 0; i < iterations; ++i) {
    const std::string t{std::string{name} + " rel#" + std::to_string(i)};
    const bool wild = (i % 3) == 0;  // every third iteration uses edge-case-heavy inputs

    // --- Stress from static pressure; traction from stress and direction. -------------------
    const Unit::Pressure pu = pressure_units[i % 8];
    const T p_value = wild ? source.Random() : source.Moderate();
    const StaticPressure<T> static_pressure{p_value, pu};
    Emit<T>((t + " p").c_str(), static_pressure.Value());
    const Stress<T> hydrostatic{static_pressure};
    EmitS<T>((t + " Stress(p)").c_str(), hydrostatic.Value());
    EmitS<T>((t + " p.Stress()").c_str(), static_pressure.Stress().Value());
    EmitText((t + " Stress(p).Print").c_str(), hydrostatic.Print(pu));

    const Stress<T> stress{wild ? source.RandomSymmetricDyad() : source.ModerateSymmetricDyad(),
                           pressure_units[(i + 3) % 8]};
    const Direction<T> direction{wild ? source.RandomVector() : source.ModerateVector()};
    EmitS<T>((t + " stress").c_str(), stress.Value());
    EmitV<T>((t + " direction").c_str(), direction.Value());
    const Traction<T> traction{stress, direction};
    EmitV<T>((t + " Traction(stress,dir)").c_str(), traction.Value());
    EmitV<T>((t + " stress.Traction(dir)").c_str(), stress.Traction(direction).Value());
    EmitV<T>((t + " Traction(Stress(p),dir)").c_str(),
             Traction<T>{hydrostatic, direction}.Value());
    Emit<T>((t + " traction.Magnitude").c_str(), traction.Magnitude().Value());
    EmitV<T>((t + " traction.Direction").c_str(), traction.Direction().Value());

    // --- Stress scaling. --------------------------------------------------------------------
    const T n = wild ? source.Random() : source.Moderate();
    Emit<T>((t + " n").c_str(), n);
    Stress<T> scaled_stress{stress};
    scaled_stress *= n;
    EmitS<T>((t + " stress*=n").c_str(), scaled_stress.Value());
    scaled_stress = stress;
    scaled_stress /= n;
    EmitS<T>((t + " stress/=n").c_str(), scaled_stress.Value());
    EmitS<T>((t + " stress*n").c_str(), (stress * n).Value());
    EmitS<T>((t + " n*stress").c_str(), (n * stress).Value());
    EmitS<T>((t + " stress/n").c_str(), (stress / n).Value());

    // --- Force = Traction * Area and back. -----------------------------------------------------
    const Area<T> area{wild ? source.Random() : source.Moderate(), area_units[i % 5]};
    Emit<T>((t + " area").c_str(), area.Value());
    const Force<T> force{traction, area};
    EmitV<T>((t + " Force(traction,area)").c_str(), force.Value());
    EmitV<T>((t + " traction*area").c_str(), (traction * area).Value());
    EmitV<T>((t + " force/area").c_str(), (force / area).Value());
    EmitV<T>((t + " Traction(force,area)").c_str(), Traction<T>{force, area}.Value());
    const Force<T> other_force{wild ? source.RandomVector() : source.ModerateVector(),
                               force_units[i % 4]};
    EmitV<T>((t + " other_force").c_str(), other_force.Value());
    EmitV<T>((t + " force+other").c_str(), (force + other_force).Value());
    EmitV<T>((t + " force-other").c_str(), (force - other_force).Value());
    EmitV<T>((t + " force*n").c_str(), (force * n).Value());
    EmitV<T>((t + " n*force").c_str(), (n * force).Value());
    EmitV<T>((t + " force/n").c_str(), (force / n).Value());
    Force<T> f2{other_force};
    f2 *= n;
    EmitV<T>((t + " force*=n").c_str(), f2.Value());
    f2 = other_force;
    f2 /= n;
    EmitV<T>((t + " force/=n").c_str(), f2.Value());
    Emit<T>((t + " other_force.Magnitude").c_str(), other_force.Magnitude().Value());
    EmitV<T>((t + " other_force.Direction").c_str(), other_force.Direction().Value());
    Emit<T>((t + " force.Angle(other)").c_str(), force.Angle(other_force).Value());
    const ScalarForce<T> scalar_force{wild ? source.Random() : source.Moderate(),
                                      force_units[(i + 1) % 4]};
    EmitV<T>((t + " Force(scalar,dir)").c_str(), Force<T>{scalar_force, direction}.Value());
    EmitV<T>((t + " scalar_force*dir").c_str(), (scalar_force * direction).Value());
    EmitV<T>((t + " dir*scalar_force").c_str(), (direction * scalar_force).Value());
    const ScalarTraction<T> scalar_traction{wild ? source.Random() : source.Moderate(),
                                            pressure_units[(i + 5) % 8]};
    EmitV<T>((t + " Traction(scalar,dir)").c_str(),
             Traction<T>{scalar_traction, direction}.Value());
    EmitV<T>((t + " scalar_traction*dir").c_str(), (scalar_traction * direction).Value());
    EmitText((t + " force.Print").c_str(), force.Print());

    // --- Kinematics: displacement, velocity, acceleration. -------------------------------------
    const Displacement<T> displacement{wild ? source.RandomVector() : source.ModerateVector(),
                                       length_units[i % 4]};
    const Time<T> time{wild ? source.Random() : source.Moderate(), time_units[i % 4]};
    const Frequency<T> frequency{wild ? source.Random() : source.Moderate(),
                                 frequency_units[i % 3]};
    EmitV<T>((t + " displacement").c_str(), displacement.Value());
    Emit<T>((t + " time").c_str(), time.Value());
    Emit<T>((t + " frequency").c_str(), frequency.Value());
    const Velocity<T> velocity{displacement, time};
    EmitV<T>((t + " Velocity(disp,time)").c_str(), velocity.Value());
    EmitV<T>((t + " disp/time").c_str(), (displacement / time).Value());
    EmitV<T>((t + " disp*freq").c_str(), (displacement * frequency).Value());
    EmitV<T>((t + " velocity*time").c_str(), (velocity * time).Value());
    EmitV<T>((t + " velocity/freq").c_str(), (velocity / frequency).Value());
    EmitV<T>((t + " velocity/time").c_str(), (velocity / time).Value());
    EmitV<T>((t + " velocity*freq").c_str(), (velocity * frequency).Value());
    EmitV<T>((t + " Acceleration(v,t)").c_str(), Acceleration<T>{velocity, time}.Value());
    const Speed<T> speed{wild ? source.Random() : source.Moderate(), speed_units[i % 4]};
    Emit<T>((t + " speed").c_str(), speed.Value());
    EmitV<T>((t + " Velocity(speed,dir)").c_str(), Velocity<T>{speed, direction}.Value());
    EmitV<T>((t + " speed*dir").c_str(), (speed * direction).Value());
    EmitV<T>((t + " dir*speed").c_str(), (direction * speed).Value());
    Emit<T>((t + " velocity.Magnitude").c_str(), velocity.Magnitude().Value());
    const Length<T> length{wild ? source.Random() : source.Moderate(), length_units[(i + 2) % 4]};
    EmitV<T>((t + " Displacement(len,dir)").c_str(), Displacement<T>{length, direction}.Value());
    Emit<T>((t + " displacement.Magnitude").c_str(), displacement.Magnitude().Value());
    Emit<T>((t + " velocity.Angle(disp/time*n)").c_str(),
            velocity.Angle(Velocity<T>{speed, direction}).Value());

    // --- Heat conduction: q = -k * grad(T). ----------------------------------------------------
    const ThermalConductivity<T> conductivity{
        wild ? source.RandomSymmetricDyad() : source.ModerateSymmetricDyad(),
        (i % 2) == 0 ? Unit::ThermalConductivity::WattPerMetrePerKelvin
                     : Unit::ThermalConductivity::PoundPerSecondPerRankine};
    const TemperatureGradient<T> temperature_gradient{
        wild ? source.RandomVector() : source.ModerateVector(),
        (i % 2) == 0 ? Unit::TemperatureGradient::KelvinPerMetre
                     : Unit::TemperatureGradient::FahrenheitPerInch};
    EmitS<T>((t + " conductivity").c_str(), conductivity.Value());
    EmitV<T>((t + " grad_T").c_str(), temperature_gradient.Value());
    EmitV<T>((t + " HeatFlux(k,gradT)").c_str(),
             HeatFlux<T>{conductivity, temperature_gradient}.Value());
    const ScalarThermalConductivity<T> scalar_conductivity{
        wild ? source.Random() : source.Moderate(),
        Unit::ThermalConductivity::NanowattPerMillimetrePerKelvin};
    EmitV<T>((t + " HeatFlux(ks,gradT)").c_str(),
             HeatFlux<T>{scalar_conductivity, temperature_gradient}.Value());
  }
}

template <typename T>
static void Run(const char* name, const std::uint64_t seed) {
  Source<T> source{seed};
  // Deterministic sweep over all pairs of edge values first.
  const std::vector<T> edges{source.edges};
  int k = 0;
  for (const T a : edges) {
    for (const T b : edges) {
      const std::string t{std::string{name} + " edge#" + std::to_string(k++)};
      const Vector<T> u{a, b, a};
      const Vector<T> v{b, b, a};
      Emit<T>((t + " msq").c_str(), u.MagnitudeSquared());
      Emit<T>((t + " dot").c_str(), u.Dot(v));
      EmitV<T>((t + " cross").c_str(), u.Cross(v));
      EmitV<T>((t + " u*b").c_str(), u * b);
      EmitV<T>((t + " a*v").c_str(), a * v);
      EmitV<T>((t + " u/b").c_str(), u / b);
      Vector<T> w{u};
      w *= b;
      EmitV<T>((t + " u*=b").c_str(), w);
      w = u;
      w /= b;
      EmitV<T>((t + " u/=b").c_str(), w);
      const SymmetricDyad<T> s{a, b, a, b, b, a};
      EmitV<T>((t + " s*u").c_str(), s * u);
      EmitV<T>((t + " s*v").c_str(), s * v);
      SymmetricDyad<T> r{s};
      r *= b;
      EmitS<T>((t + " s*=b").c_str(), r);
      r = s;
      r /= a;
      EmitS<T>((t + " s/=a").c_str(), r);
      const Stress<T> stress{StaticPressure<T>{a, Unit::Pressure::Pascal}};
      EmitS<T>((t + " Stress(p)").c_str(), stress.Value());
      EmitV<T>((t + " Traction(Stress(p),dir)").c_str(),
               Traction<T>{stress, Direction<T>{v}}.Value());
    }
  }
  // NaN sign / payload propagation sweep: all 6-tuples over a small set of special values, so
  // that every product and sum in the refactored expressions sees every mixture of +NaN, -NaN,
  // infinities and zeros.
  {
    using L = std::numeric_limits<T>;
    const T specials[] = {L::quiet_NaN(), -L::quiet_NaN(), L::infinity(), static_cast<T>(0),
                          static_cast<T>(-1.5)};
    int q = 0;
    for (const T a : specials) {
      for (const T b : specials) {
        for (const T c : specials) {
          for (const T d : specials) {
            for (const T e : specials) {
              for (const T f : specials) {
                const std::string t{std::string{name} + " nan#" + std::to_string(q++)};
                g_quiet = true;
                const Vector<T> u{a, b, c};
                const Vector<T> v{d, e, f};
                Emit<T>((t + " msq").c_str(), u.MagnitudeSquared());
                Emit<T>((t + " dot").c_str(), u.Dot(v));
                EmitV<T>((t + " cross").c_str(), u.Cross(v));
                EmitV<T>((t + " u*d").c_str(), u * d);
                EmitV<T>((t + " d*u").c_str(), d * u);
                EmitV<T>((t + " u/d").c_str(), u / d);
                Vector<T> w{u};
                w *= e;
                EmitV<T>((t + " u*=e").c_str(), w);
                w = u;
                w /= f;
                EmitV<T>((t + " u/=f").c_str(), w);
                const SymmetricDyad<T> s{d, e, f, a, b, c};
                EmitV<T>((t + " s*u").c_str(), s * u);
                EmitV<T>((t + " s*v").c_str(), s * v);
                SymmetricDyad<T> r{s};
                r *= a;
                EmitS<T>((t + " s*=a").c_str(), r);
                r = s;
                r /= b;
                EmitS<T>((t + " s/=b").c_str(), r);
                EmitS<T>((t + " Stress(p)").c_str(),
                         Stress<T>{StaticPressure<T>{a, Unit::Pressure::Pascal}}.Value());
                g_quiet = false;
                // One line per tuple: running digest over the raw bits of all 69 values above.
                std::printf("%s digest=%016llx\n", t.c_str(),
                            static_cast<unsigned long long>(g_digest));
              }
            }
          }
        }
      }
    }
  }
  RawArithmetic<T>(name, source, 600);
  Relations<T>(name, source, 900);
}

int main(int argc, char** argv) {
  g_canonical_nan = argc > 1 && std::string{argv[1]} == "--canonical-nan";
  Run<float>("float", 0xC03A5EEDULL);
  Run<double>("double", 0xC03B5EEDULL);
  Run<long double>("longdouble", 0xC03C5EEDULL);
  std::printf("values=%lu digest=%016llx\n", g_count, static_cast<unsigned long long>(g_digest));
  return 0;
}
