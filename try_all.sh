#!/bin/bash
# usage: try_all.sh <patch.diff>  -- all 20 quick checks, in parallel, on a scratch copy of /repo/include with the patch applied
P="$1"
D=$(mktemp -d /var/tmp/phq-all-XXXXXX)
cp -r /repo/include "$D/include"
patch -p1 -s -d "$D" -i "$P" || { echo "patch does not apply"; rm -rf "$D"; exit 3; }
cd /verif
export PHQ_REPO="$D" VF_NO_EVIDENCE=1 VF_REPLAY_DIR="$D/replay"
./vf check C17 > "$D/C17.log" 2>&1; echo "C17 rc=$? $(tail -1 $D/C17.log)"
for i in $(seq -w 1 20); do [ $i = 17 ] && continue; ( ./vf check C$i > "$D/C$i.log" 2>&1; echo $? > "$D/C$i.rc" ) & done; wait
for i in $(seq -w 1 20); do [ $i = 17 ] && continue
  rc=$(cat "$D/C$i.rc"); echo "C$i rc=$rc $(tail -1 $D/C$i.log)"
  if [ "$rc" != 0 ]; then grep -A4 '^VIOLATION' "$D/C$i.log" | head -10 | cut -c1-400; grep '^INCONCLUSIVE\|^ANALYSIS' "$D/C$i.log" | head -4 | cut -c1-400; fi
done
rm -rf "$D"
