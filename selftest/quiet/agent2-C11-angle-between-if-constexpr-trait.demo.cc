// Differential program for the C11 refactor: prints every angle in hexfloat.
#include <PhQ/Acceleration.hpp>
#include <PhQ/Angle.hpp>
#include <PhQ/Direction.hpp>
#include <PhQ/Displacement.hpp>
#include <PhQ/Force.hpp>
#include <PhQ/HeatFlux.hpp>
#include <PhQ/PlanarAcceleration.hpp>
#include <PhQ/PlanarDirection.hpp>
#include <PhQ/PlanarDisplacement.hpp>
#include <PhQ/PlanarForce.hpp>
#include <PhQ/PlanarHeatFlux.hpp>
#include <PhQ/PlanarPosition.hpp>
#include <PhQ/PlanarTemperatureGradient.hpp>
#include <PhQ/PlanarTraction.hpp>
#include <PhQ/PlanarVector.hpp>
#include <PhQ/PlanarVelocity.hpp>
#include <PhQ/Position.hpp>
#include <PhQ/TemperatureGradient.hpp>
#include <PhQ/Traction.hpp>
#include <PhQ/Vector.hpp>
#include <PhQ/VectorArea.hpp>
#include <PhQ/Velocity.hpp>

#include <cmath>
#include <cstdint>
#include <cstdio>
#include <limits>
#include <random>
#include <vector>

namespace {

void Put(const char* tag, const long double v) {
  std::printf(" %s=%La/%d%d", tag, v, std::isnan(v) ? 1 : 0, std::signbit(v) ? 1 : 0);
}

template <typename T>
void Emit(const char* tag, const PhQ::Angle<T>& a) {
  Put(tag, static_cast<long double>(a.Value()));
}

template <typename T>
void ArcCos(const T c) {
  std::printf("AC");
  Put("c", static_cast<long double>(c));
  Put("r", static_cast<long double>(PhQ::Internal::ArcCosine(c)));
  std::printf("\n");
}

template <template <typename> class Q, typename T, typename V>
void Quantity(const char* tag, const V& a, const V& b) {
  const Q<T> qa(a, Q<T>::Unit());
  const Q<T> qb(b, Q<T>::Unit());
  Emit(tag, PhQ::Angle<T>(qa, qb));
  Emit(tag, qa.Angle(qb));
  Emit(tag, qb.Angle(qa));
}

template <typename T>
void Pair3(const char* name, const PhQ::Vector<T>& a, const PhQ::Vector<T>& b) {
  std::printf("%s V3", name);
  Put("ax", a.x()); Put("ay", a.y()); Put("az", a.z());
  Put("bx", b.x()); Put("by", b.y()); Put("bz", b.z());
  const PhQ::Direction<T> da(a);
  const PhQ::Direction<T> db(b);
  Emit("vv", PhQ::Angle<T>(a, b));
  Emit("vv'", PhQ::Angle<T>(b, a));
  Emit("vd", PhQ::Angle<T>(a, db));
  Emit("dv", PhQ::Angle<T>(da, b));
  Emit("dv'", PhQ::Angle<T>(db, a));
  Emit("vd'", PhQ::Angle<T>(b, da));
  Emit("dd", PhQ::Angle<T>(da, db));
  Emit("dd'", PhQ::Angle<T>(db, da));
  Emit("mvv", a.Angle(b));
  Emit("mvd", a.Angle(db));
  Emit("mdv", da.Angle(b));
  Emit("mdd", da.Angle(db));
  Emit("self", a.Angle(a));
  Emit("dself", da.Angle(da));
  Emit("neg", a.Angle(a * static_cast<T>(-1)));
  Emit("scaled", a.Angle(a * static_cast<T>(3)));
  Emit("nscaled", a.Angle(a * static_cast<T>(-7)));
  Quantity<PhQ::Acceleration, T>("acc", a, b);
  Quantity<PhQ::Displacement, T>("dis", a, b);
  Quantity<PhQ::Force, T>("for", a, b);
  Quantity<PhQ::HeatFlux, T>("hfx", a, b);
  Quantity<PhQ::Position, T>("pos", a, b);
  Quantity<PhQ::TemperatureGradient, T>("tgr", a, b);
  Quantity<PhQ::Traction, T>("tra", a, b);
  Quantity<PhQ::VectorArea, T>("var", a, b);
  Quantity<PhQ::Velocity, T>("vel", a, b);
  std::printf("\n");
}

template <typename T>
void Pair2(const char* name, const PhQ::PlanarVector<T>& a, const PhQ::PlanarVector<T>& b) {
  std::printf("%s V2", name);
  Put("ax", a.x()); Put("ay", a.y());
  Put("bx", b.x()); Put("by", b.y());
  const PhQ::PlanarDirection<T> da(a);
  const PhQ::PlanarDirection<T> db(b);
  Emit("vv", PhQ::Angle<T>(a, b));
  Emit("vv'", PhQ::Angle<T>(b, a));
  Emit("vd", PhQ::Angle<T>(a, db));
  Emit("dv", PhQ::Angle<T>(da, b));
  Emit("dv'", PhQ::Angle<T>(db, a));
  Emit("vd'", PhQ::Angle<T>(b, da));
  Emit("dd", PhQ::Angle<T>(da, db));
  Emit("dd'", PhQ::Angle<T>(db, da));
  Emit("mvv", a.Angle(b));
  Emit("mvd", a.Angle(db));
  Emit("mdv", da.Angle(b));
  Emit("mdd", da.Angle(db));
  Emit("self", a.Angle(a));
  Emit("dself", da.Angle(da));
  Emit("neg", a.Angle(a * static_cast<T>(-1)));
  Emit("scaled", a.Angle(a * static_cast<T>(3)));
  Emit("nscaled", a.Angle(a * static_cast<T>(-7)));
  Quantity<PhQ::PlanarAcceleration, T>("acc", a, b);
  Quantity<PhQ::PlanarDisplacement, T>("dis", a, b);
  Quantity<PhQ::PlanarForce, T>("for", a, b);
  Quantity<PhQ::PlanarHeatFlux, T>("hfx", a, b);
  Quantity<PhQ::PlanarPosition, T>("pos", a, b);
  Quantity<PhQ::PlanarTemperatureGradient, T>("tgr", a, b);
  Quantity<PhQ::PlanarTraction, T>("tra", a, b);
  Quantity<PhQ::PlanarVelocity, T>("vel", a, b);
  std::printf("\n");
}

template <typename T>
void Run(const char* name, const std::uint64_t seed) {
  using L = std::numeric_limits<T>;
  const T zero = static_cast<T>(0);
  const T nzero = -zero;
  const T one = static_cast<T>(1);
  const T eps = L::epsilon();
  const T tiny = L::min();
  const T denorm = L::denorm_min();
  const T huge = L::max();
  const T big = std::sqrt(L::max()) / static_cast<T>(4);
  const T small = std::sqrt(L::min()) * static_cast<T>(4);
  const T inf = L::infinity();
  const T nan = L::quiet_NaN();

  // The clamping arc cosine itself.
  const std::vector<T> cosines = {
      zero, nzero, one, -one, one + eps, -one - eps, one - eps / 2, -one + eps / 2,
      static_cast<T>(2), static_cast<T>(-2), static_cast<T>(0.5), static_cast<T>(-0.5), tiny,
      -tiny, denorm, -denorm, huge, -huge, inf, -inf, nan, -nan, std::nextafter(one, inf),
      std::nextafter(-one, -inf), std::nextafter(one, zero), std::nextafter(-one, zero)};
  for (const T c : cosines) {
    ArcCos<T>(c);
  }

  const std::vector<T> edge = {zero, nzero, one, -one, static_cast<T>(3), static_cast<T>(-0.1),
                               eps, tiny, -tiny, denorm, small, -small, big, -big, huge, inf,
                               -inf, nan};

  // Edge-case component combinations (a sampled cross product, to keep the output bounded).
  std::mt19937_64 pick(seed ^ 0x9e3779b97f4a7c15ULL);
  const auto e = [&]() { return edge[pick() % edge.size()]; };
  for (int i = 0; i < 1500; ++i) {
    Pair3<T>(name, PhQ::Vector<T>(e(), e(), e()), PhQ::Vector<T>(e(), e(), e()));
    Pair2<T>(name, PhQ::PlanarVector<T>(e(), e()), PhQ::PlanarVector<T>(e(), e()));
  }
  // Axis-aligned and simple exact cases.
  const std::vector<T> axis = {zero, nzero, one, -one, static_cast<T>(2)};
  for (const T ax : axis) for (const T ay : axis) for (const T bx : axis) for (const T by : axis) {
    Pair2<T>(name, PhQ::PlanarVector<T>(ax, ay), PhQ::PlanarVector<T>(bx, by));
    Pair3<T>(name, PhQ::Vector<T>(ax, ay, zero), PhQ::Vector<T>(bx, zero, by));
  }

  // Random pairs, including parallel, antiparallel and nearly so.
  std::mt19937_64 gen(seed);
  std::uniform_real_distribution<long double> uni(-1.0L, 1.0L);
  std::uniform_int_distribution<int> expo(-30, 30);
  const auto r = [&]() { return static_cast<T>(uni(gen) * std::ldexp(1.0L, expo(gen))); };
  const auto u = [&]() { return static_cast<T>(uni(gen)); };
  for (int i = 0; i < 3000; ++i) {
    const PhQ::Vector<T> a(r(), r(), r());
    const PhQ::Vector<T> b(r(), r(), r());
    const PhQ::Vector<T> c(u(), u(), u());
    const T k = static_cast<T>(std::fabs(r()) + tiny);
    Pair3<T>(name, a, b);
    Pair3<T>(name, c, c * k);
    Pair3<T>(name, c, c * -k);
    Pair3<T>(name, c, c * k + PhQ::Vector<T>(u(), u(), u()) * (eps * static_cast<T>(8)));
    Pair3<T>(name, c, c * -k + PhQ::Vector<T>(u(), u(), u()) * (eps * static_cast<T>(8)));
    const PhQ::PlanarVector<T> p(r(), r());
    const PhQ::PlanarVector<T> q(r(), r());
    const PhQ::PlanarVector<T> s(u(), u());
    Pair2<T>(name, p, q);
    Pair2<T>(name, s, s * k);
    Pair2<T>(name, s, s * -k);
    Pair2<T>(name, s, s * k + PhQ::PlanarVector<T>(u(), u()) * (eps * static_cast<T>(8)));
    Pair2<T>(name, s, s * -k + PhQ::PlanarVector<T>(u(), u()) * (eps * static_cast<T>(8)));
  }
}

}  // namespace

int main() {
  Run<float>("f", 12345);
  Run<double>("d", 67890);
  Run<long double>("l", 424242);
  return 0;
}
