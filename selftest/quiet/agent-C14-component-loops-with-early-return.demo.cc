// Differential program for the C14q refactor: comparison operators and hashes of PhQ::Vector,
// PhQ::PlanarVector and the quantity types that are built on them.
#include <PhQ/Acceleration.hpp>
#include <PhQ/Direction.hpp>
#include <PhQ/Displacement.hpp>
#include <PhQ/Force.hpp>
#include <PhQ/PlanarAcceleration.hpp>
#include <PhQ/PlanarDirection.hpp>
#include <PhQ/PlanarForce.hpp>
#include <PhQ/PlanarPosition.hpp>
#include <PhQ/PlanarVector.hpp>
#include <PhQ/PlanarVelocity.hpp>
#include <PhQ/Position.hpp>
#include <PhQ/Vector.hpp>
#include <PhQ/Velocity.hpp>

#include <cstdint>
#include <cstdio>
#include <iostream>
#include <limits>
#include <random>
#include <set>
#include <string>
#include <unordered_set>
#include <vector>

namespace {

struct Digest {
  std::uint64_t state{1469598103934665603ULL};
  std::uint64_t count{0};
  void Add(const std::uint64_t value) {
    for (int byte = 0; byte < 8; ++byte) {
      state ^= (value >> (8 * byte)) & 0xFFU;
      state *= 1099511628211ULL;
    }
    ++count;
  }
};

template <typename T>
std::vector<T> Grid() {
  using L = std::numeric_limits<T>;
  return {L::quiet_NaN(), -L::infinity(), -L::max(), static_cast<T>(-1), -L::denorm_min(),
          static_cast<T>(-0.0), static_cast<T>(0.0), L::denorm_min(), L::min(), static_cast<T>(1),
          static_cast<T>(1) + L::epsilon(), L::max(), L::infinity()};
}

template <typename T>
std::vector<T> SmallGrid() {
  using L = std::numeric_limits<T>;
  return {L::quiet_NaN(), -L::infinity(), static_cast<T>(-2.5), static_cast<T>(-0.0),
          static_cast<T>(0.0), L::denorm_min(), static_cast<T>(2.5), L::infinity()};
}

template <typename Object>
std::uint64_t Code(const Object& a, const Object& b) {
  std::uint64_t code = 0;
  code |= (a == b) ? 1U : 0U;
  code |= (a != b) ? 2U : 0U;
  code |= (a < b) ? 4U : 0U;
  code |= (a > b) ? 8U : 0U;
  code |= (a <= b) ? 16U : 0U;
  code |= (a >= b) ? 32U : 0U;
  return code;
}

// Compares all pairs, hashes all objects, stores them in ordered and unordered containers.
template <typename Object>
void Exercise(const std::string& label, const std::vector<Object>& objects, const bool containers) {
  Digest compare;
  std::uint64_t histogram[64] = {};
  for (const Object& a : objects) {
    for (const Object& b : objects) {
      const std::uint64_t code = Code(a, b);
      compare.Add(code);
      ++histogram[code];
    }
  }
  Digest hashes;
  for (const Object& a : objects) {
    hashes.Add(static_cast<std::uint64_t>(std::hash<Object>()(a)));
  }
  std::printf("%s n=%zu compare=%016llx pairs=%llu hash=%016llx", label.c_str(), objects.size(),
              static_cast<unsigned long long>(compare.state),
              static_cast<unsigned long long>(compare.count),
              static_cast<unsigned long long>(hashes.state));
  for (int code = 0; code < 64; ++code) {
    if (histogram[code] != 0) {
      std::printf(" [%d]=%llu", code, static_cast<unsigned long long>(histogram[code]));
    }
  }
  if (containers) {
    std::set<Object> ordered(objects.begin(), objects.end());
    std::unordered_set<Object> unordered(objects.begin(), objects.end());
    std::size_t found = 0;
    for (const Object& a : objects) {
      found += ordered.count(a) + 2 * unordered.count(a);
    }
    Digest order;
    for (const Object& a : ordered) {
      order.Add(static_cast<std::uint64_t>(std::hash<Object>()(a)));
    }
    std::printf(" set=%zu uset=%zu found=%zu order=%016llx", ordered.size(), unordered.size(),
                found, static_cast<unsigned long long>(order.state));
  }
  std::printf("\n");
}

template <typename T>
void PrintHash(const std::string& label, const std::size_t hash) {
  std::printf("%s %016llx\n", label.c_str(), static_cast<unsigned long long>(hash));
}

template <typename T>
void Run(const std::string& type) {
  using PhQ::PlanarVector;
  using PhQ::Vector;

  // Full grid, NaN included: comparison results and hashes only (no containers, as NaN breaks the
  // strict weak ordering requirement of std::set).
  {
    const std::vector<T> grid = Grid<T>();
    std::vector<Vector<T>> vectors;
    std::vector<PlanarVector<T>> planars;
    for (const T x : grid) {
      for (const T y : grid) {
        planars.emplace_back(x, y);
        for (const T z : grid) {
          vectors.emplace_back(x, y, z);
        }
      }
    }
    Exercise(type + " Vector full-grid", vectors, false);
    Exercise(type + " PlanarVector full-grid", planars, false);
  }

  // Grid without NaN: containers too.
  {
    std::vector<T> grid = Grid<T>();
    grid.erase(grid.begin());
    std::vector<Vector<T>> vectors;
    std::vector<PlanarVector<T>> planars;
    for (const T x : grid) {
      for (const T y : grid) {
        planars.emplace_back(x, y);
        for (const T z : grid) {
          vectors.emplace_back(x, y, z);
        }
      }
    }
    Exercise(type + " Vector finite-grid", vectors, true);
    Exercise(type + " PlanarVector finite-grid", planars, true);
  }

  // Quantity types built on the vector types.
  {
    const std::vector<T> grid = SmallGrid<T>();
    std::vector<PhQ::Velocity<T>> velocities;
    std::vector<PhQ::Position<T>> positions;
    std::vector<PhQ::Force<T>> forces;
    std::vector<PhQ::Acceleration<T>> accelerations;
    std::vector<PhQ::Displacement<T>> displacements;
    std::vector<PhQ::PlanarVelocity<T>> planar_velocities;
    std::vector<PhQ::PlanarPosition<T>> planar_positions;
    std::vector<PhQ::PlanarForce<T>> planar_forces;
    std::vector<PhQ::PlanarAcceleration<T>> planar_accelerations;
    std::vector<PhQ::Direction<T>> directions;
    std::vector<PhQ::PlanarDirection<T>> planar_directions;
    for (const T x : grid) {
      for (const T y : grid) {
        const PlanarVector<T> planar{x, y};
        planar_velocities.emplace_back(planar, PhQ::Unit::Speed::MetrePerSecond);
        planar_velocities.emplace_back(planar, PhQ::Unit::Speed::KilometrePerHour);
        planar_positions.emplace_back(planar, PhQ::Unit::Length::Metre);
        planar_positions.emplace_back(planar, PhQ::Unit::Length::Foot);
        planar_forces.emplace_back(planar, PhQ::Unit::Force::Newton);
        planar_forces.emplace_back(planar, PhQ::Unit::Force::Pound);
        planar_accelerations.emplace_back(planar, PhQ::Unit::Acceleration::MetrePerSquareSecond);
        planar_directions.emplace_back(planar);
        for (const T z : grid) {
          const Vector<T> vector{x, y, z};
          velocities.emplace_back(vector, PhQ::Unit::Speed::MetrePerSecond);
          velocities.emplace_back(vector, PhQ::Unit::Speed::FootPerSecond);
          positions.emplace_back(vector, PhQ::Unit::Length::Metre);
          positions.emplace_back(vector, PhQ::Unit::Length::Mile);
          forces.emplace_back(vector, PhQ::Unit::Force::Newton);
          accelerations.emplace_back(vector, PhQ::Unit::Acceleration::MetrePerSquareSecond);
          displacements.emplace_back(vector, PhQ::Unit::Length::Kilometre);
          directions.emplace_back(vector);
        }
      }
    }
    Exercise(type + " Velocity", velocities, false);
    Exercise(type + " Position", positions, false);
    Exercise(type + " Force", forces, false);
    Exercise(type + " Acceleration", accelerations, false);
    Exercise(type + " Displacement", displacements, false);
    Exercise(type + " Direction", directions, false);
    Exercise(type + " PlanarVelocity", planar_velocities, false);
    Exercise(type + " PlanarPosition", planar_positions, false);
    Exercise(type + " PlanarForce", planar_forces, false);
    Exercise(type + " PlanarAcceleration", planar_accelerations, false);
    Exercise(type + " PlanarDirection", planar_directions, false);
  }

  // Random values drawn from a small pool so that ties in leading components are frequent.
  {
    std::mt19937_64 generator(20240914);
    std::uniform_real_distribution<double> real(-1000.0, 1000.0);
    std::vector<T> pool;
    for (int index = 0; index < 6; ++index) {
      pool.push_back(static_cast<T>(real(generator)));
    }
    pool.push_back(static_cast<T>(0.0));
    pool.push_back(static_cast<T>(-0.0));
    std::uniform_int_distribution<std::size_t> pick(0, pool.size() - 1);
    std::vector<Vector<T>> vectors;
    std::vector<PlanarVector<T>> planars;
    std::vector<PhQ::Velocity<T>> velocities;
    std::vector<PhQ::PlanarForce<T>> planar_forces;
    for (int index = 0; index < 400; ++index) {
      const T x = pool[pick(generator)];
      const T y = pool[pick(generator)];
      const T z = pool[pick(generator)];
      vectors.emplace_back(x, y, z);
      planars.emplace_back(x, y);
      velocities.emplace_back(Vector<T>{x, y, z}, PhQ::Unit::Speed::MilePerHour);
      planar_forces.emplace_back(PlanarVector<T>{x, y}, PhQ::Unit::Force::Pound);
    }
    Exercise(type + " Vector random", vectors, true);
    Exercise(type + " PlanarVector random", planars, true);
    Exercise(type + " Velocity random", velocities, true);
    Exercise(type + " PlanarForce random", planar_forces, true);
    for (int index = 0; index < 20; ++index) {
      PrintHash<T>(type + " hash Vector " + vectors[index].Print(),
                   std::hash<Vector<T>>()(vectors[index]));
      PrintHash<T>(type + " hash PlanarVector " + planars[index].Print(),
                   std::hash<PlanarVector<T>>()(planars[index]));
    }
  }

  // Signed zeros: equal objects, equal hashes.
  {
    const Vector<T> positive{static_cast<T>(0.0), static_cast<T>(0.0), static_cast<T>(0.0)};
    const Vector<T> negative{static_cast<T>(-0.0), static_cast<T>(-0.0), static_cast<T>(-0.0)};
    const PlanarVector<T> planar_positive{static_cast<T>(0.0), static_cast<T>(0.0)};
    const PlanarVector<T> planar_negative{static_cast<T>(-0.0), static_cast<T>(-0.0)};
    std::printf("%s zeros code=%llu hashes %016llx %016llx planar code=%llu hashes %016llx %016llx\n",
                type.c_str(), static_cast<unsigned long long>(Code(positive, negative)),
                static_cast<unsigned long long>(std::hash<Vector<T>>()(positive)),
                static_cast<unsigned long long>(std::hash<Vector<T>>()(negative)),
                static_cast<unsigned long long>(Code(planar_positive, planar_negative)),
                static_cast<unsigned long long>(std::hash<PlanarVector<T>>()(planar_positive)),
                static_cast<unsigned long long>(std::hash<PlanarVector<T>>()(planar_negative)));
  }
}

// The comparison operators remain usable in constant expressions.
constexpr PhQ::Vector<double> kA{1.0, 2.0, 3.0};
constexpr PhQ::Vector<double> kB{1.0, 2.0, 4.0};
constexpr PhQ::PlanarVector<float> kC{1.0F, 2.0F};
constexpr PhQ::PlanarVector<float> kD{1.0F, -2.0F};
static_assert(kA < kB && !(kA > kB) && kA <= kB && !(kA >= kB) && kA != kB && !(kA == kB), "");
static_assert(kC > kD && !(kC < kD) && kC >= kD && !(kC <= kD) && kC != kD && !(kC == kD), "");

}  // namespace

int main() {
  Run<float>("float");
  Run<double>("double");
  Run<long double>("long double");
  return 0;
}
