// Differential program for the C18s refactor: dynamic / static / total pressure relations.
#include <PhQ/DynamicKinematicPressure.hpp>
#include <PhQ/DynamicPressure.hpp>
#include <PhQ/MassDensity.hpp>
#include <PhQ/Speed.hpp>
#include <PhQ/StaticKinematicPressure.hpp>
#include <PhQ/StaticPressure.hpp>
#include <PhQ/TotalKinematicPressure.hpp>
#include <PhQ/TotalPressure.hpp>

#include <cstdint>
#include <cstdio>
#include <cstring>
#include <functional>
#include <limits>
#include <random>
#include <sstream>
#include <string>
#include <type_traits>
#include <vector>

namespace {

struct Digest {
  std::uint64_t h = 1469598103934665603ULL;
  std::uint64_t n = 0;
  void bytes(const void* p, std::size_t k) {
    const unsigned char* c = static_cast<const unsigned char*>(p);
    for (std::size_t i = 0; i < k; ++i) {
      h ^= c[i];
      h *= 1099511628211ULL;
    }
  }
  template <typename T>
  void add(const T v) {
    // Only the value bytes (long double has 10 significant bytes on x86).
    constexpr std::size_t k = std::is_same<T, long double>::value ? 10 : sizeof(T);
    unsigned char buf[sizeof(T)] = {};
    std::memcpy(buf, &v, sizeof(T));
    bytes(buf, k);
    ++n;
  }
  void add_string(const std::string& s) {
    bytes(s.data(), s.size());
    ++n;
  }
};

template <typename T>
void print_value(const char* label, const T v) {
  std::printf("  %-34s %La\n", label, static_cast<long double>(v));
}

template <typename T>
const char* type_name() {
  if (std::is_same<T, float>::value) return "float";
  if (std::is_same<T, double>::value) return "double";
  return "long double";
}

template <typename T>
struct Results {
  T v[24];
  std::string text;
  std::size_t hash;
};

// Evaluates every relation touched by the refactor for one triple of raw values.
template <typename T>
Results<T> evaluate(const T rho_value, const T v_value, const T p_value) {
  using namespace PhQ;
  Results<T> r{};
  const MassDensity<T> rho(rho_value, Unit::MassDensity::KilogramPerCubicMetre);
  const Speed<T> v(v_value, Unit::Speed::MetrePerSecond);
  const StaticPressure<T> p(p_value, Unit::Pressure::Pascal);

  const DynamicPressure<T> q(rho, v);                 // 1/2 rho v^2
  const MassDensity<T> rho_back(q, v);                // 2 q / v^2 (moved to Detail header)
  const Speed<T> v_back(q, rho);                      // sqrt(2 q / rho) (moved to Detail header)
  const TotalPressure<T> t_ctor(p, q);                // p + q
  const TotalPressure<T> t_qp = q + p;                // hidden friend in DynamicPressure
  const TotalPressure<T> t_pq = p + q;                // hidden friend in StaticPressure
  const DynamicPressure<T> q_sub = t_ctor - p;        // hidden friend in TotalPressure
  const StaticPressure<T> p_sub = t_ctor - q;         // hidden friend in TotalPressure
  const DynamicPressure<T> q_ctor(t_ctor, p);         // moved to Detail header
  const StaticPressure<T> p_ctor(t_ctor, q);          // moved to Detail header
  const DynamicKinematicPressure<T> k_div = q / rho;  // hidden friend in DynamicPressure
  const DynamicKinematicPressure<T> k_ctor(q, rho);
  const DynamicKinematicPressure<T> k_speed(v);       // 1/2 v^2
  const Speed<T> v_from_k(k_speed);                   // sqrt(2 k)
  const DynamicPressure<T> q_from_k(rho, k_speed);    // rho k
  // Neighbouring overloads that must still be selected as before.
  const DynamicPressure<T> q_sum = q + q_sub;
  const StaticPressure<T> p_sum = p + p_sub;
  const TotalPressure<T> t_diff = t_qp - t_pq;
  const TotalPressure<T> t_sum = t_qp + t_pq;
  const DynamicPressure<T> q_half = q / static_cast<T>(2);
  const T q_ratio = q / q_from_k;
  const DynamicPressure<T> q_scaled = static_cast<T>(3) * q;
  const TotalKinematicPressure<T> tk = t_ctor / rho;
  const StaticKinematicPressure<T> sk = p / rho;

  int i = 0;
  r.v[i++] = q.Value();
  r.v[i++] = rho_back.Value();
  r.v[i++] = v_back.Value();
  r.v[i++] = t_ctor.Value();
  r.v[i++] = t_qp.Value();
  r.v[i++] = t_pq.Value();
  r.v[i++] = q_sub.Value();
  r.v[i++] = p_sub.Value();
  r.v[i++] = q_ctor.Value();
  r.v[i++] = p_ctor.Value();
  r.v[i++] = k_div.Value();
  r.v[i++] = k_ctor.Value();
  r.v[i++] = k_speed.Value();
  r.v[i++] = v_from_k.Value();
  r.v[i++] = q_from_k.Value();
  r.v[i++] = q_sum.Value();
  r.v[i++] = p_sum.Value();
  r.v[i++] = t_diff.Value();
  r.v[i++] = t_sum.Value();
  r.v[i++] = q_half.Value();
  r.v[i++] = q_ratio;
  r.v[i++] = q_scaled.Value();
  r.v[i++] = tk.Value();
  r.v[i++] = sk.Value();

  std::ostringstream stream;
  stream << q << "|" << t_qp << "|" << t_pq << "|" << q_sub << "|" << p_sub << "|" << k_div << "|"
         << rho_back << "|" << v_back << "|" << q.Print(Unit::Pressure::Kilopascal) << "|"
         << t_qp.Print(Unit::Pressure::PoundPerSquareInch) << "|" << t_qp.JSON() << "|"
         << p_sub.XML() << "|" << k_div.YAML();
  r.text = stream.str();
  r.hash = std::hash<DynamicPressure<T>>()(q_sub) ^ (std::hash<TotalPressure<T>>()(t_qp) << 1)
           ^ (std::hash<StaticPressure<T>>()(p_sub) << 2);
  return r;
}

const char* const kLabels[24] = {
    "DynamicPressure(rho,v)", "MassDensity(q,v)", "Speed(q,rho)", "TotalPressure(p,q)", "q + p",
    "p + q", "t - p", "t - q", "DynamicPressure(t,p)", "StaticPressure(t,q)", "q / rho",
    "DynamicKinematicPressure(q,rho)", "DynamicKinematicPressure(v)", "Speed(k)",
    "DynamicPressure(rho,k)", "q + q", "p + p", "t - t", "t + t", "q / 2", "q / q", "3 * q",
    "t / rho", "p / rho"};

template <typename T>
void run_edges() {
  using L = std::numeric_limits<T>;
  const std::vector<T> special = {static_cast<T>(0),
                                  -static_cast<T>(0),
                                  L::denorm_min(),
                                  L::min(),
                                  L::epsilon(),
                                  static_cast<T>(1),
                                  static_cast<T>(-1),
                                  static_cast<T>(0.1L),
                                  static_cast<T>(1.2L),
                                  static_cast<T>(343.21L),
                                  static_cast<T>(101325),
                                  static_cast<T>(1.0e-20L),
                                  static_cast<T>(1.0e19L),
                                  static_cast<T>(-1.0e19L),
                                  L::max(),
                                  L::infinity(),
                                  L::quiet_NaN()};
  Digest digest;
  std::size_t printed = 0;
  for (const T rho : special) {
    for (const T v : special) {
      for (const T p : special) {
        const Results<T> r = evaluate<T>(rho, v, p);
        for (const T x : r.v) {
          digest.add(x);
        }
        digest.add_string(r.text);
        digest.add(static_cast<double>(r.hash % 1000003));
        // Print a subset in full.
        const bool show = (p == static_cast<T>(101325) || p == static_cast<T>(0))
                          && (rho == static_cast<T>(1.2L) || rho == L::denorm_min() || rho == L::max()
                              || (rho == static_cast<T>(0) && std::signbit(rho)));
        if (show) {
          std::printf("[%s] rho=%La v=%La p=%La\n", type_name<T>(), static_cast<long double>(rho),
                      static_cast<long double>(v), static_cast<long double>(p));
          for (int i = 0; i < 24; ++i) {
            print_value(kLabels[i], r.v[i]);
          }
          std::printf("  text: %s\n", r.text.c_str());
          ++printed;
        }
      }
    }
  }
  std::printf("[%s] edge digest: %016llx over %llu items (%zu triples printed)\n", type_name<T>(),
              static_cast<unsigned long long>(digest.h), static_cast<unsigned long long>(digest.n),
              printed);
}

template <typename T>
void run_random(const unsigned seed, const int count) {
  std::mt19937_64 gen(seed);
  std::uniform_real_distribution<double> mantissa(1.0, 10.0);
  const int max_exp = std::is_same<T, float>::value ? 9 : 60;
  std::uniform_int_distribution<int> exponent(-max_exp, max_exp);
  std::uniform_int_distribution<int> sign(0, 9);
  Digest digest;
  Digest per_relation[24];
  for (int n = 0; n < count; ++n) {
    const T rho = static_cast<T>(mantissa(gen) * std::pow(10.0, exponent(gen)));
    T v = static_cast<T>(mantissa(gen) * std::pow(10.0, exponent(gen) / 2));
    T p = static_cast<T>(mantissa(gen) * std::pow(10.0, exponent(gen)));
    if (sign(gen) == 0) v = -v;
    if (sign(gen) == 0) p = -p;
    const Results<T> r = evaluate<T>(rho, v, p);
    for (int i = 0; i < 24; ++i) {
      digest.add(r.v[i]);
      per_relation[i].add(r.v[i]);
    }
    digest.add_string(r.text);
    digest.add(static_cast<double>(r.hash % 1000003));
    if (n < 6) {
      std::printf("[%s] random #%d rho=%La v=%La p=%La\n", type_name<T>(), n,
                  static_cast<long double>(rho), static_cast<long double>(v),
                  static_cast<long double>(p));
      for (int i = 0; i < 24; ++i) {
        print_value(kLabels[i], r.v[i]);
      }
      std::printf("  text: %s\n", r.text.c_str());
    }
  }
  for (int i = 0; i < 24; ++i) {
    std::printf("[%s] random digest %-34s %016llx\n", type_name<T>(), kLabels[i],
                static_cast<unsigned long long>(per_relation[i].h));
  }
  std::printf("[%s] random digest (all, %d triples): %016llx over %llu items\n", type_name<T>(),
              count, static_cast<unsigned long long>(digest.h),
              static_cast<unsigned long long>(digest.n));
}

template <typename E>
std::vector<E> all_units(const int count) {
  std::vector<E> result;
  for (int i = 0; i < count; ++i) {
    result.push_back(static_cast<E>(i));
  }
  return result;
}

// Units: construct in every pressure unit and go through the refactored operators.
template <typename T>
void run_units() {
  using namespace PhQ;
  Digest digest;
  const std::vector<T> values = {static_cast<T>(0), static_cast<T>(1), static_cast<T>(-2.5L),
                                 static_cast<T>(14.7L), static_cast<T>(1.0e6L),
                                 static_cast<T>(3.0e-7L)};
  for (const Unit::Pressure unit_a : all_units<Unit::Pressure>(8)) {
    for (const Unit::Pressure unit_b : all_units<Unit::Pressure>(8)) {
      for (const T a : values) {
        for (const T b : values) {
          const DynamicPressure<T> q(a, unit_a);
          const StaticPressure<T> p(b, unit_b);
          const TotalPressure<T> t1 = q + p;
          const TotalPressure<T> t2 = p + q;
          const DynamicPressure<T> q2 = t1 - p;
          const StaticPressure<T> p2 = t2 - q;
          digest.add(t1.Value());
          digest.add(t2.Value());
          digest.add(q2.Value(unit_b));
          digest.add(p2.Value(unit_a));
          digest.add_string(t1.Print(unit_a));
          digest.add_string(q2.Print(unit_b));
          for (const Unit::MassDensity unit_c : all_units<Unit::MassDensity>(6)) {
            const MassDensity<T> rho(static_cast<T>(1.25L), unit_c);
            const DynamicKinematicPressure<T> k = q / rho;
            const Speed<T> v(q, rho);
            digest.add(k.Value());
            digest.add(v.Value());
            for (const Unit::Speed unit_d : all_units<Unit::Speed>(39)) {
              const Speed<T> w(static_cast<T>(7.5L), unit_d);
              const MassDensity<T> rho2(q, w);
              const DynamicPressure<T> q3(rho, w);
              digest.add(rho2.Value(unit_c));
              digest.add(q3.Value(unit_a));
            }
          }
        }
      }
    }
  }
  std::printf("[%s] units digest: %016llx over %llu items\n", type_name<T>(),
              static_cast<unsigned long long>(digest.h), static_cast<unsigned long long>(digest.n));
}

// Compile-time checks: the result types and constexpr-ness seen by users are unchanged.
template <typename T>
void run_static_checks() {
  using namespace PhQ;
  using Q = DynamicPressure<T>;
  using P = StaticPressure<T>;
  using Tt = TotalPressure<T>;
  using R = MassDensity<T>;
  static_assert(std::is_same<decltype(std::declval<Q>() + std::declval<P>()), Tt>::value, "");
  static_assert(std::is_same<decltype(std::declval<P>() + std::declval<Q>()), Tt>::value, "");
  static_assert(std::is_same<decltype(std::declval<Tt>() - std::declval<P>()), Q>::value, "");
  static_assert(std::is_same<decltype(std::declval<Tt>() - std::declval<Q>()), P>::value, "");
  static_assert(std::is_same<decltype(std::declval<Tt>() - std::declval<Tt>()), Tt>::value, "");
  static_assert(std::is_same<decltype(std::declval<Q>() + std::declval<Q>()), Q>::value, "");
  static_assert(std::is_same<decltype(std::declval<P>() + std::declval<P>()), P>::value, "");
  static_assert(
      std::is_same<decltype(std::declval<Q>() / std::declval<R>()), DynamicKinematicPressure<T>>::value,
      "");
  static_assert(std::is_same<decltype(std::declval<Q>() / std::declval<Q>()), T>::value, "");
  static_assert(std::is_same<decltype(std::declval<Q>() / std::declval<T>()), Q>::value, "");
  static_assert(sizeof(Q) == sizeof(T) && sizeof(P) == sizeof(T) && sizeof(Tt) == sizeof(T), "");
  static_assert(std::is_standard_layout<Q>::value && std::is_standard_layout<P>::value
                    && std::is_standard_layout<Tt>::value,
                "");
  constexpr Q q = Q::template Create<Unit::Pressure::Pascal>(static_cast<T>(8));
  constexpr P p = P::template Create<Unit::Pressure::Pascal>(static_cast<T>(100));
  constexpr R rho = R::template Create<Unit::MassDensity::KilogramPerCubicMetre>(static_cast<T>(2));
  constexpr Tt t1 = q + p;
  constexpr Tt t2 = p + q;
  constexpr Q q2 = t1 - p;
  constexpr P p2 = t2 - q;
  constexpr DynamicKinematicPressure<T> k = q / rho;
  constexpr Q q3(t1, p);
  constexpr P p3(t1, q);
  static_assert(t1.Value() == static_cast<T>(108) && t2.Value() == static_cast<T>(108), "");
  static_assert(q2.Value() == static_cast<T>(8) && p2.Value() == static_cast<T>(100), "");
  static_assert(q3.Value() == static_cast<T>(8) && p3.Value() == static_cast<T>(100), "");
  static_assert(k.Value() == static_cast<T>(4), "");
  std::printf("[%s] static checks: sizeof=%zu t1=%La k=%La\n", type_name<T>(), sizeof(Q),
              static_cast<long double>(t1.Value()), static_cast<long double>(k.Value()));
}

}  // namespace

int main() {
  run_static_checks<float>();
  run_static_checks<double>();
  run_static_checks<long double>();
  run_edges<float>();
  run_edges<double>();
  run_edges<long double>();
  run_random<float>(20240101U, 100000);
  run_random<double>(20240102U, 100000);
  run_random<long double>(20240103U, 100000);
  run_units<float>();
  run_units<double>();
  run_units<long double>();
  return 0;
}
