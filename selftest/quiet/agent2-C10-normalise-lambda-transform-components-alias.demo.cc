// Differential program for refactor C10r: exercises every construction path of PhQ::Direction and
// PhQ::PlanarDirection and prints all results bit-exactly.
#include <PhQ/Acceleration.hpp>
#include <PhQ/Direction.hpp>
#include <PhQ/Displacement.hpp>
#include <PhQ/Force.hpp>
#include <PhQ/HeatFlux.hpp>
#include <PhQ/PlanarAcceleration.hpp>
#include <PhQ/PlanarDirection.hpp>
#include <PhQ/PlanarDisplacement.hpp>
#include <PhQ/PlanarForce.hpp>
#include <PhQ/PlanarHeatFlux.hpp>
#include <PhQ/PlanarPosition.hpp>
#include <PhQ/PlanarTemperatureGradient.hpp>
#include <PhQ/PlanarTraction.hpp>
#include <PhQ/PlanarVector.hpp>
#include <PhQ/PlanarVelocity.hpp>
#include <PhQ/Position.hpp>
#include <PhQ/TemperatureGradient.hpp>
#include <PhQ/Traction.hpp>
#include <PhQ/Vector.hpp>
#include <PhQ/VectorArea.hpp>
#include <PhQ/Velocity.hpp>

#include <array>
#include <cmath>
#include <cstdint>
#include <cstdio>
#include <cstring>
#include <functional>
#include <limits>
#include <random>
#include <string>
#include <vector>

static std::uint64_t digest = 1469598103934665603ULL;
static unsigned long long count = 0;

template <typename T>
void Emit(const char* tag, const T v, const bool print) {
  unsigned char bytes[sizeof(T)];
  std::memcpy(bytes, &v, sizeof(T));
  // long double has 10 significant bytes on x86-64; the remaining ones are padding.
  const std::size_t n = (sizeof(T) > 10 && std::numeric_limits<T>::digits == 64) ? 10 : sizeof(T);
  for (std::size_t i = 0; i < n; ++i) {
    digest ^= bytes[i];
    digest *= 1099511628211ULL;
  }
  ++count;
  if (print) {
    std::printf("%s %La", tag, static_cast<long double>(v));
    std::printf(" [");
    for (std::size_t i = 0; i < n; ++i) {
      std::printf("%02x", bytes[n - 1 - i]);
    }
    std::printf("]\n");
  }
}

void EmitText(const char* tag, const std::string& text, const bool print) {
  for (const char c : text) {
    digest ^= static_cast<unsigned char>(c);
    digest *= 1099511628211ULL;
  }
  ++count;
  if (print) {
    std::printf("%s %s\n", tag, text.c_str());
  }
}

template <typename T>
void EmitDirection(const char* tag, const PhQ::Direction<T>& d, const bool print) {
  Emit(tag, d.x(), print);
  Emit(tag, d.y(), print);
  Emit(tag, d.z(), print);
}

template <typename T>
void EmitPlanarDirection(const char* tag, const PhQ::PlanarDirection<T>& d, const bool print) {
  Emit(tag, d.x(), print);
  Emit(tag, d.y(), print);
}

template <typename T, template <typename> class Quantity, template <typename> class Scalar,
          typename UnitType>
void Quantity3(const char* tag, const PhQ::Vector<T>& v, const bool print) {
  const Quantity<T> q{v, PhQ::Standard<UnitType>};
  const PhQ::Direction<T> d1{q};
  const PhQ::Direction<T> d2 = q.Direction();
  EmitDirection(tag, d1, print);
  EmitDirection(tag, d2, print);
  const Scalar<T> m = q.Magnitude();
  Emit(tag, m.Value(), print);
  Emit(tag, q.x().Value(), print);
  Emit(tag, q.y().Value(), print);
  Emit(tag, q.z().Value(), print);
  const Quantity<T> r1 = d1 * m;
  const Quantity<T> r2{m, d2};
  Emit(tag, r1.Value().x(), print);
  Emit(tag, r1.Value().y(), print);
  Emit(tag, r1.Value().z(), print);
  Emit(tag, r2.Value().x(), print);
  Emit(tag, r2.Value().y(), print);
  Emit(tag, r2.Value().z(), print);
}

template <typename T, template <typename> class Quantity, template <typename> class Scalar,
          typename UnitType>
void Quantity2(const char* tag, const PhQ::PlanarVector<T>& v, const bool print) {
  const Quantity<T> q{v, PhQ::Standard<UnitType>};
  const PhQ::PlanarDirection<T> d1{q};
  const PhQ::PlanarDirection<T> d2 = q.PlanarDirection();
  EmitPlanarDirection(tag, d1, print);
  EmitPlanarDirection(tag, d2, print);
  const Scalar<T> m = q.Magnitude();
  Emit(tag, m.Value(), print);
  Emit(tag, q.x().Value(), print);
  Emit(tag, q.y().Value(), print);
  const Quantity<T> r1 = d1 * m;
  const Quantity<T> r2{m, d2};
  Emit(tag, r1.Value().x(), print);
  Emit(tag, r1.Value().y(), print);
  Emit(tag, r2.Value().x(), print);
  Emit(tag, r2.Value().y(), print);
}

template <typename T>
void Case(const T x, const T y, const T z, const T x2, const T y2, const T z2, const bool print) {
  // Three-dimensional construction paths.
  const PhQ::Direction<T> a{x, y, z};
  EmitDirection("D(x,y,z)", a, print);
  const std::array<T, 3> array3{x, y, z};
  const PhQ::Direction<T> b{array3};
  EmitDirection("D(array)", b, print);
  const PhQ::Vector<T> v{x, y, z};
  const PhQ::Direction<T> c{v};
  EmitDirection("D(vector)", c, print);
  EmitDirection("V.Direction", v.Direction(), print);
  PhQ::Direction<T> s;
  EmitDirection("D()", s, print);
  s.Set(x, y, z);
  EmitDirection("Set(x,y,z)", s, print);
  s.Set(x2, y2, z2);
  EmitDirection("Set(x2,y2,z2)", s, print);
  s.Set(array3);
  EmitDirection("Set(array)", s, print);
  s.Set(PhQ::Vector<T>{x2, y2, z2});
  EmitDirection("Set(vector)", s, print);
  EmitDirection("Zero", PhQ::Direction<T>::Zero(), print);
  Emit("MagSq", a.MagnitudeSquared(), print);
  Emit("Mag", a.Magnitude(), print);
  Emit("VMag", v.Magnitude(), print);
  Emit("Dot", a.Dot(s), print);
  Emit("DotV", a.Dot(v), print);
  EmitDirection("Cross", a.Cross(s), print);
  const PhQ::Vector<T> cross = a.Cross(PhQ::Vector<T>{x2, y2, z2});
  Emit("CrossV", cross.x(), print);
  Emit("CrossV", cross.y(), print);
  Emit("CrossV", cross.z(), print);
  Emit("Angle", a.Angle(s).Value(), print);
  const PhQ::Vector<T> rebuilt{v.Magnitude(), a};
  Emit("Rebuilt", rebuilt.x(), print);
  Emit("Rebuilt", rebuilt.y(), print);
  Emit("Rebuilt", rebuilt.z(), print);
  EmitText("Print", a.Print(), print);
  EmitText("JSON", b.JSON(), print);
  Emit("Hash", static_cast<long double>(std::hash<PhQ::Direction<T>>()(a) % 1000003U), print);
  Emit("Eq", static_cast<T>((a == b) + 2 * (a != c) + 4 * (a < s) + 8 * (a >= s)), print);

  // Conversions between numeric types.
  const PhQ::Direction<float> af{a};
  const PhQ::Direction<double> ad{a};
  const PhQ::Direction<long double> al{a};
  EmitDirection("ToFloat", af, print);
  EmitDirection("ToDouble", ad, print);
  EmitDirection("ToLongDouble", al, print);
  PhQ::Direction<T> assigned;
  assigned = af;
  EmitDirection("AssignFloat", assigned, print);
  assigned = ad;
  EmitDirection("AssignDouble", assigned, print);
  assigned = al;
  EmitDirection("AssignLongDouble", assigned, print);

  // Two-dimensional construction paths.
  const PhQ::PlanarDirection<T> pa{x, y};
  EmitPlanarDirection("P(x,y)", pa, print);
  const std::array<T, 2> array2{x, y};
  const PhQ::PlanarDirection<T> pb{array2};
  EmitPlanarDirection("P(array)", pb, print);
  const PhQ::PlanarVector<T> pv{x, y};
  const PhQ::PlanarDirection<T> pc{pv};
  EmitPlanarDirection("P(vector)", pc, print);
  EmitPlanarDirection("PV.PlanarDirection", pv.PlanarDirection(), print);
  PhQ::PlanarDirection<T> ps;
  EmitPlanarDirection("P()", ps, print);
  ps.Set(x2, y2);
  EmitPlanarDirection("PSet(x,y)", ps, print);
  ps.Set(array2);
  EmitPlanarDirection("PSet(array)", ps, print);
  ps.Set(PhQ::PlanarVector<T>{y2, z2});
  EmitPlanarDirection("PSet(vector)", ps, print);
  EmitPlanarDirection("PZero", PhQ::PlanarDirection<T>::Zero(), print);
  Emit("PMagSq", pa.MagnitudeSquared(), print);
  Emit("PMag", pa.Magnitude(), print);
  Emit("PDot", pa.Dot(ps), print);
  EmitDirection("PCross", pa.Cross(ps), print);
  Emit("PAngle", pa.Angle(ps).Value(), print);
  const PhQ::PlanarVector<T> prebuilt{pv.Magnitude(), pa};
  Emit("PRebuilt", prebuilt.x(), print);
  Emit("PRebuilt", prebuilt.y(), print);
  EmitText("PPrint", pa.Print(), print);
  Emit("PHash", static_cast<long double>(std::hash<PhQ::PlanarDirection<T>>()(pa) % 1000003U),
       print);
  const PhQ::PlanarDirection<float> pf{pa};
  const PhQ::PlanarDirection<double> pd{pa};
  const PhQ::PlanarDirection<long double> pl{pa};
  EmitPlanarDirection("PToFloat", pf, print);
  EmitPlanarDirection("PToDouble", pd, print);
  EmitPlanarDirection("PToLongDouble", pl, print);
  PhQ::PlanarDirection<T> passigned;
  passigned = pf;
  EmitPlanarDirection("PAssignFloat", passigned, print);
  passigned = pd;
  EmitPlanarDirection("PAssignDouble", passigned, print);
  passigned = pl;
  EmitPlanarDirection("PAssignLongDouble", passigned, print);

  // 2-D / 3-D conversions.
  EmitDirection("D(planar)", PhQ::Direction<T>{pa}, print);
  EmitPlanarDirection("P(direction)", PhQ::PlanarDirection<T>{a}, print);

  // Every vector quantity.
  using namespace PhQ;
  Quantity3<T, Acceleration, ScalarAcceleration, Unit::Acceleration>("Acceleration", v, print);
  Quantity3<T, Force, ScalarForce, Unit::Force>("Force", v, print);
  Quantity3<T, HeatFlux, ScalarHeatFlux, Unit::EnergyFlux>("HeatFlux", v, print);
  Quantity3<T, Position, Length, Unit::Length>("Position", v, print);
  Quantity3<T, TemperatureGradient, ScalarTemperatureGradient, Unit::TemperatureGradient>(
      "TemperatureGradient", v, print);
  Quantity3<T, Traction, ScalarTraction, Unit::Pressure>("Traction", v, print);
  Quantity3<T, VectorArea, Area, Unit::Area>("VectorArea", v, print);
  Quantity3<T, Velocity, Speed, Unit::Speed>("Velocity", v, print);
  {
    const Displacement<T> q{v, Standard<Unit::Length>};
    EmitDirection("Displacement", PhQ::Direction<T>{q}, print);
    EmitDirection("Displacement", q.Direction(), print);
    Emit("Displacement", q.Magnitude().Value(), print);
    Emit("Displacement", q.x().Value(), print);
    Emit("Displacement", q.y().Value(), print);
    Emit("Displacement", q.z().Value(), print);
  }
  Quantity2<T, PlanarAcceleration, ScalarAcceleration, Unit::Acceleration>(
      "PlanarAcceleration", pv, print);
  Quantity2<T, PlanarForce, ScalarForce, Unit::Force>("PlanarForce", pv, print);
  Quantity2<T, PlanarHeatFlux, ScalarHeatFlux, Unit::EnergyFlux>("PlanarHeatFlux", pv, print);
  Quantity2<T, PlanarPosition, Length, Unit::Length>("PlanarPosition", pv, print);
  Quantity2<T, PlanarTemperatureGradient, ScalarTemperatureGradient, Unit::TemperatureGradient>(
      "PlanarTemperatureGradient", pv, print);
  Quantity2<T, PlanarTraction, ScalarTraction, Unit::Pressure>("PlanarTraction", pv, print);
  Quantity2<T, PlanarVelocity, Speed, Unit::Speed>("PlanarVelocity", pv, print);
  {
    const PlanarDisplacement<T> q{pv, Standard<Unit::Length>};
    EmitPlanarDirection("PlanarDisplacement", PhQ::PlanarDirection<T>{q}, print);
    EmitPlanarDirection("PlanarDisplacement", q.PlanarDirection(), print);
    Emit("PlanarDisplacement", q.Magnitude().Value(), print);
    Emit("PlanarDisplacement", q.x().Value(), print);
    Emit("PlanarDisplacement", q.y().Value(), print);
  }
}

template <typename T>
void Run(const char* name, const std::uint64_t seed) {
  std::printf("==== %s\n", name);
  using L = std::numeric_limits<T>;
  const std::vector<T> edge{
      static_cast<T>(0),
      -static_cast<T>(0),
      static_cast<T>(1),
      static_cast<T>(-1),
      static_cast<T>(3),
      static_cast<T>(-4),
      static_cast<T>(0.1L),
      static_cast<T>(-1.0L / 3.0L),
      L::denorm_min(),
      -L::denorm_min(),
      L::min(),
      -L::min(),
      L::epsilon(),
      std::sqrt(L::min()),
      std::sqrt(L::min()) * static_cast<T>(0.75L),
      std::sqrt(L::denorm_min()),
      std::sqrt(L::max()),
      std::sqrt(L::max()) * static_cast<T>(0.57L),
      L::max(),
      -L::max(),
      L::infinity(),
      -L::infinity(),
      L::quiet_NaN(),
  };
  // All triples of edge values, printed in full.
  for (std::size_t i = 0; i < edge.size(); ++i) {
    for (std::size_t j = 0; j < edge.size(); ++j) {
      for (std::size_t k = 0; k < edge.size(); ++k) {
        const bool print = (i * 7 + j * 3 + k) % 61 == 0;
        Case<T>(edge[i], edge[j], edge[k], edge[(k + 3) % edge.size()], edge[(i + 5) % edge.size()],
                edge[(j + 11) % edge.size()], print);
      }
    }
  }
  std::printf("edge digest %016llx after %llu values\n",
              static_cast<unsigned long long>(digest), count);

  // Random directions over a wide range of binades.
  std::mt19937_64 generator(seed);
  std::uniform_real_distribution<long double> mantissa(-1.0L, 1.0L);
  const int max_exponent = L::max_exponent / 2 - 2;
  const int min_exponent = L::min_exponent - L::digits;
  std::uniform_int_distribution<int> exponent(min_exponent, max_exponent);
  std::uniform_int_distribution<int> small_shift(-3, 3);
  for (int n = 0; n < 40000; ++n) {
    const int e = exponent(generator);
    T c[6];
    for (T& component : c) {
      const int shift = (n % 3 == 0) ? small_shift(generator) * 10 : small_shift(generator);
      component = static_cast<T>(std::ldexp(mantissa(generator), e + shift));
    }
    if (n % 11 == 0) {
      c[1] = static_cast<T>(0);
    }
    if (n % 13 == 0) {
      c[2] = -static_cast<T>(0);
    }
    if (n % 17 == 0) {
      c[0] = c[1];
    }
    Case<T>(c[0], c[1], c[2], c[3], c[4], c[5], n < 40);
  }
  std::printf("random digest %016llx after %llu values\n",
              static_cast<unsigned long long>(digest), count);
}

int main() {
  Run<float>("float", 101);
  Run<double>("double", 202);
  Run<long double>("long double", 303);
  std::printf("final digest %016llx after %llu values\n", static_cast<unsigned long long>(digest),
              count);
  return 0;
}
