// Differential program for the C09 refactor: exercises the algebra kernels of PlanarVector, Vector,
// SymmetricDyad and Dyad on edge cases and random inputs for float, double and long double, and
// prints results in hexfloat plus digests of bulk data.
#include <PhQ/Direction.hpp>
#include <PhQ/Dyad.hpp>
#include <PhQ/PlanarDirection.hpp>
#include <PhQ/PlanarVector.hpp>
#include <PhQ/SymmetricDyad.hpp>
#include <PhQ/Vector.hpp>

#include <array>
#include <cmath>
#include <cstdint>
#include <cstdio>
#include <cstring>
#include <limits>
#include <optional>
#include <random>
#include <string>
#include <vector>

namespace {

template <typename T>
struct Bytes;
template <>
struct Bytes<float> {
  static constexpr std::size_t n = 4;
};
template <>
struct Bytes<double> {
  static constexpr std::size_t n = 8;
};
template <>
struct Bytes<long double> {
  static constexpr std::size_t n = 10;  // x87 extended: 10 significant bytes
};

struct Digest {
  std::uint64_t h = 1469598103934665603ULL;
  std::uint64_t count = 0;
  void byte(unsigned char b) {
    h ^= b;
    h *= 1099511628211ULL;
  }
  template <typename T>
  void add(const T v) {
    if (v != v) {
      // The sign and payload of a NaN that results from combining several NaN operands (or an
      // invalid operation such as inf * 0 with a NaN) are not determined by the C++ source: they
      // depend on which operand the compiler happens to place first in the mulss/addss/subss
      // instruction (already in the original code GCC -O0 emits zz*yy for the source yy()*zz()).
      // All NaNs are therefore digested as one canonical value; NaN versus non-NaN, signed zeros
      // and infinities are still distinguished exactly.
      byte(0xAA);
      byte(0x55);
      ++count;
      return;
    }
    unsigned char buffer[sizeof(T)];
    std::memset(buffer, 0, sizeof(T));
    std::memcpy(buffer, &v, sizeof(T));
    for (std::size_t i = 0; i < Bytes<T>::n; ++i) {
      byte(buffer[i]);
    }
    ++count;
  }
  void addbool(bool b) {
    byte(b ? 1 : 2);
    ++count;
  }
};

template <typename T>
std::string Hex(const T v) {
  // Exact bit pattern, so that signed zeros and the last bit are visible. NaNs are printed
  // canonically (see Digest::add).
  if (v != v) {
    return "nan";
  }
  unsigned char buffer[sizeof(T)];
  std::memset(buffer, 0, sizeof(T));
  std::memcpy(buffer, &v, sizeof(T));
  std::string s;
  char tmp[4];
  for (std::size_t i = Bytes<T>::n; i-- > 0;) {
    std::snprintf(tmp, sizeof(tmp), "%02x", buffer[i]);
    s += tmp;
  }
  return s;
}

template <typename T, typename Sink>
void EmitPV(Sink& sink, const PhQ::PlanarVector<T>& v) {
  sink(v.x());
  sink(v.y());
}
template <typename T, typename Sink>
void EmitV(Sink& sink, const PhQ::Vector<T>& v) {
  sink(v.x());
  sink(v.y());
  sink(v.z());
}
template <typename T, typename Sink>
void EmitS(Sink& sink, const PhQ::SymmetricDyad<T>& s) {
  for (const T c : s.xx_xy_xz_yy_yz_zz()) {
    sink(c);
  }
}
template <typename T, typename Sink>
void EmitD(Sink& sink, const PhQ::Dyad<T>& d) {
  for (const T c : d.xx_xy_xz_yx_yy_yz_zx_zy_zz()) {
    sink(c);
  }
}

// Runs every kernel on one set of operands and feeds each result to the sink.
template <typename T, typename Sink, typename BoolSink>
void RunAll(Sink& sink, BoolSink& boolsink, const PhQ::PlanarVector<T>& p,
            const PhQ::PlanarVector<T>& q, const PhQ::Vector<T>& u, const PhQ::Vector<T>& v,
            const PhQ::SymmetricDyad<T>& s, const PhQ::SymmetricDyad<T>& t, const PhQ::Dyad<T>& a,
            const PhQ::Dyad<T>& b) {
  // PlanarVector kernels.
  sink(p.MagnitudeSquared());
  sink(p.Magnitude());
  sink(p.Dot(q));
  sink(q.Dot(p));
  EmitV<T>(sink, p.Cross(q));
  EmitD<T>(sink, p.Dyadic(q));
  // Vector kernels.
  sink(u.MagnitudeSquared());
  sink(u.Magnitude());
  sink(u.Dot(v));
  sink(v.Dot(u));
  sink(u.Dot(u));
  EmitV<T>(sink, u.Cross(v));
  EmitV<T>(sink, v.Cross(u));
  EmitV<T>(sink, u.Cross(u));
  EmitD<T>(sink, u.Dyadic(v));
  EmitD<T>(sink, v.Dyadic(u));
  // Embeddings.
  sink(PhQ::Vector<T>(p).Dot(PhQ::Vector<T>(q)));
  EmitV<T>(sink, PhQ::Vector<T>(p).Cross(PhQ::Vector<T>(q)));
  // SymmetricDyad kernels.
  sink(s.Trace());
  sink(s.Determinant());
  EmitS<T>(sink, s.Transpose());
  EmitS<T>(sink, s.Cofactors());
  EmitS<T>(sink, s.Adjugate());
  {
    const std::optional<PhQ::SymmetricDyad<T>> inverse{s.Inverse()};
    boolsink(inverse.has_value());
    if (inverse.has_value()) {
      EmitS<T>(sink, inverse.value());
      EmitD<T>(sink, inverse.value() * s);
    }
  }
  EmitV<T>(sink, s * p);
  EmitV<T>(sink, s * u);
  EmitV<T>(sink, t * q);
  EmitV<T>(sink, t * v);
  // Dyad kernels.
  sink(a.Trace());
  sink(a.Determinant());
  sink(b.Determinant());
  sink(PhQ::Dyad<T>(s).Determinant());
  EmitD<T>(sink, a.Transpose());
  EmitD<T>(sink, a.Cofactors());
  EmitD<T>(sink, b.Cofactors());
  EmitD<T>(sink, PhQ::Dyad<T>(s).Cofactors());
  EmitD<T>(sink, a.Adjugate());
  {
    const std::optional<PhQ::Dyad<T>> inverse{a.Inverse()};
    boolsink(inverse.has_value());
    if (inverse.has_value()) {
      EmitD<T>(sink, inverse.value());
      EmitD<T>(sink, inverse.value() * a);
      EmitD<T>(sink, a * inverse.value());
    }
  }
  EmitV<T>(sink, a * p);
  EmitV<T>(sink, a * u);
  EmitV<T>(sink, b * q);
  EmitV<T>(sink, b * v);
  // Matrix-matrix products, every operand-shape combination and both orders.
  EmitD<T>(sink, s * t);
  EmitD<T>(sink, t * s);
  EmitD<T>(sink, s * s);
  EmitD<T>(sink, s * a);
  EmitD<T>(sink, t * b);
  EmitD<T>(sink, a * s);
  EmitD<T>(sink, b * t);
  EmitD<T>(sink, a * b);
  EmitD<T>(sink, b * a);
  EmitD<T>(sink, a * a);
  EmitD<T>(sink, PhQ::Dyad<T>(s) * PhQ::Dyad<T>(t));
}

template <typename T>
std::vector<T> EdgeValues() {
  using L = std::numeric_limits<T>;
  return {static_cast<T>(0),
          -static_cast<T>(0),
          static_cast<T>(1),
          static_cast<T>(-1),
          static_cast<T>(2),
          static_cast<T>(-3),
          static_cast<T>(0.1L),
          static_cast<T>(-7.25L),
          L::denorm_min(),
          -L::denorm_min(),
          L::min(),
          L::epsilon(),
          L::max(),
          -L::max(),
          std::sqrt(L::max()),
          static_cast<T>(1.0e-20L),
          static_cast<T>(3.0e18L),
          L::infinity(),
          -L::infinity(),
          L::quiet_NaN(),
          -L::quiet_NaN()};
}

template <typename T>
void Run(const char* name) {
  std::printf("==== %s ====\n", name);

  // 1. Constant expressions.
  {
    constexpr PhQ::PlanarVector<T> p{static_cast<T>(1), static_cast<T>(-2)};
    constexpr PhQ::PlanarVector<T> q{static_cast<T>(3), static_cast<T>(4)};
    constexpr PhQ::Vector<T> u{static_cast<T>(1), static_cast<T>(-2), static_cast<T>(3)};
    constexpr PhQ::Vector<T> v{static_cast<T>(4), static_cast<T>(5), static_cast<T>(-6)};
    constexpr PhQ::SymmetricDyad<T> s{static_cast<T>(1), static_cast<T>(-2), static_cast<T>(3),
                                      static_cast<T>(-4), static_cast<T>(5), static_cast<T>(-6)};
    constexpr PhQ::Dyad<T> a{static_cast<T>(1), static_cast<T>(-2), static_cast<T>(3),
                             static_cast<T>(-4), static_cast<T>(5), static_cast<T>(-6),
                             static_cast<T>(7), static_cast<T>(-8), static_cast<T>(10)};
    constexpr T c1{p.Dot(q)};
    constexpr T c2{p.MagnitudeSquared()};
    constexpr T c3{u.Dot(v)};
    constexpr T c4{u.MagnitudeSquared()};
    constexpr PhQ::Vector<T> c5{u.Cross(v)};
    constexpr T c6{s.Determinant()};
    constexpr T c7{a.Determinant()};
    constexpr PhQ::Dyad<T> c8{a.Cofactors()};
    constexpr PhQ::Vector<T> c9{a * u};
    constexpr PhQ::Vector<T> c10{s * p};
    constexpr PhQ::Dyad<T> c11{a * s};
    constexpr PhQ::Dyad<T> c12{s * a};
    constexpr PhQ::Dyad<T> c13{a * a};
    constexpr PhQ::Dyad<T> c14{s * s};
    constexpr PhQ::Dyad<T> c15{u.Dyadic(v)};
    constexpr PhQ::Vector<T> c16{s * u};
    constexpr PhQ::Vector<T> c17{a * p};
    static_assert(c1 == static_cast<T>(-5), "");
    static_assert(c3 == static_cast<T>(-24), "");
    std::printf("constexpr %s %s %s %s %s %s\n", Hex(c1).c_str(), Hex(c2).c_str(), Hex(c3).c_str(),
                Hex(c4).c_str(), Hex(c6).c_str(), Hex(c7).c_str());
    std::printf("constexpr cross %s\n", c5.Print().c_str());
    std::printf("constexpr cof %s\n", c8.Print().c_str());
    std::printf("constexpr a*u %s s*p %s s*u %s a*p %s\n", c9.Print().c_str(), c10.Print().c_str(),
                c16.Print().c_str(), c17.Print().c_str());
    std::printf("constexpr a*s %s\n", c11.Print().c_str());
    std::printf("constexpr s*a %s\n", c12.Print().c_str());
    std::printf("constexpr a*a %s\n", c13.Print().c_str());
    std::printf("constexpr s*s %s\n", c14.Print().c_str());
    std::printf("constexpr u(x)v %s\n", c15.Print().c_str());
    const auto inverse_a = a.Inverse();
    const auto inverse_s = s.Inverse();
    std::printf("inverse a %s\n", inverse_a.has_value() ? inverse_a->Print().c_str() : "none");
    std::printf("inverse s %s\n", inverse_s.has_value() ? inverse_s->Print().c_str() : "none");
    const PhQ::Dyad<T> singular{static_cast<T>(1), static_cast<T>(2), static_cast<T>(3),
                                static_cast<T>(2), static_cast<T>(4), static_cast<T>(6),
                                static_cast<T>(-1), static_cast<T>(0), static_cast<T>(5)};
    std::printf("singular det %s inverse %d\n", Hex(singular.Determinant()).c_str(),
                singular.Inverse().has_value() ? 1 : 0);
    const PhQ::SymmetricDyad<T> singular_s{static_cast<T>(1), static_cast<T>(2), static_cast<T>(3),
                                           static_cast<T>(4), static_cast<T>(6),
                                           static_cast<T>(9)};
    std::printf("singular s det %s inverse %d\n", Hex(singular_s.Determinant()).c_str(),
                singular_s.Inverse().has_value() ? 1 : 0);
  }

  // 2. A few fully printed random cases.
  std::mt19937_64 generator(20240927ULL);
  std::uniform_real_distribution<double> uniform(-10.0, 10.0);
  std::uniform_int_distribution<int> integer(-9, 9);
  std::uniform_int_distribution<int> exponent(-40, 40);
  const std::vector<T> edges{EdgeValues<T>()};
  std::uniform_int_distribution<std::size_t> edge_index(0, edges.size() - 1);
  std::uniform_int_distribution<int> mode_distribution(0, 3);

  auto draw = [&](const int mode) -> T {
    switch (mode) {
      case 0:
        return static_cast<T>(uniform(generator));
      case 1:
        return static_cast<T>(integer(generator));
      case 2:
        return static_cast<T>(std::ldexp(uniform(generator), exponent(generator)));
      default:
        return (integer(generator) > 0) ? edges[edge_index(generator)]
                                        : static_cast<T>(uniform(generator));
    }
  };

  auto make_operands = [&](const int mode, PhQ::PlanarVector<T>& p, PhQ::PlanarVector<T>& q,
                           PhQ::Vector<T>& u, PhQ::Vector<T>& v, PhQ::SymmetricDyad<T>& s,
                           PhQ::SymmetricDyad<T>& t, PhQ::Dyad<T>& a, PhQ::Dyad<T>& b) {
    p = PhQ::PlanarVector<T>{draw(mode), draw(mode)};
    q = PhQ::PlanarVector<T>{draw(mode), draw(mode)};
    u = PhQ::Vector<T>{draw(mode), draw(mode), draw(mode)};
    v = PhQ::Vector<T>{draw(mode), draw(mode), draw(mode)};
    s = PhQ::SymmetricDyad<T>{draw(mode), draw(mode), draw(mode), draw(mode), draw(mode),
                              draw(mode)};
    t = PhQ::SymmetricDyad<T>{draw(mode), draw(mode), draw(mode), draw(mode), draw(mode),
                              draw(mode)};
    a = PhQ::Dyad<T>{draw(mode), draw(mode), draw(mode), draw(mode), draw(mode),
                     draw(mode), draw(mode), draw(mode), draw(mode)};
    b = PhQ::Dyad<T>{draw(mode), draw(mode), draw(mode), draw(mode), draw(mode),
                     draw(mode), draw(mode), draw(mode), draw(mode)};
  };

  PhQ::PlanarVector<T> p;
  PhQ::PlanarVector<T> q;
  PhQ::Vector<T> u;
  PhQ::Vector<T> v;
  PhQ::SymmetricDyad<T> s;
  PhQ::SymmetricDyad<T> t;
  PhQ::Dyad<T> a;
  PhQ::Dyad<T> b;

  for (int mode = 0; mode < 4; ++mode) {
    for (int repetition = 0; repetition < 3; ++repetition) {
      make_operands(mode, p, q, u, v, s, t, a, b);
      std::string line;
      auto sink = [&](const T value) {
        line += Hex(value);
        line += ' ';
      };
      auto boolsink = [&](const bool value) { line += value ? "Y " : "N "; };
      RunAll<T>(sink, boolsink, p, q, u, v, s, t, a, b);
      std::printf("case mode=%d rep=%d: %s\n", mode, repetition, line.c_str());
    }
  }

  // 3. Bulk random cases, digested.
  for (int mode = 0; mode < 4; ++mode) {
    Digest digest;
    auto sink = [&](const T value) { digest.add(value); };
    auto boolsink = [&](const bool value) { digest.addbool(value); };
    for (int repetition = 0; repetition < 20000; ++repetition) {
      make_operands(mode, p, q, u, v, s, t, a, b);
      RunAll<T>(sink, boolsink, p, q, u, v, s, t, a, b);
    }
    std::printf("bulk mode=%d count=%llu digest=%016llx\n", mode,
                static_cast<unsigned long long>(digest.count),
                static_cast<unsigned long long>(digest.h));
  }

  // 4. Exhaustive small-integer grid for vectors and a structured grid for tensors.
  {
    Digest digest;
    auto sink = [&](const T value) { digest.add(value); };
    for (int i0 = -2; i0 <= 2; ++i0) {
      for (int i1 = -2; i1 <= 2; ++i1) {
        for (int i2 = -2; i2 <= 2; ++i2) {
          for (int j0 = -2; j0 <= 2; ++j0) {
            for (int j1 = -2; j1 <= 2; ++j1) {
              for (int j2 = -2; j2 <= 2; ++j2) {
                const PhQ::Vector<T> left{static_cast<T>(i0), static_cast<T>(i1),
                                          static_cast<T>(i2)};
                const PhQ::Vector<T> right{static_cast<T>(j0), static_cast<T>(j1),
                                           static_cast<T>(j2)};
                sink(left.Dot(right));
                EmitV<T>(sink, left.Cross(right));
                EmitD<T>(sink, left.Dyadic(right));
                const PhQ::PlanarVector<T> planar_left{static_cast<T>(i0), static_cast<T>(i1)};
                const PhQ::PlanarVector<T> planar_right{static_cast<T>(j0), static_cast<T>(j1)};
                sink(planar_left.Dot(planar_right));
                const PhQ::SymmetricDyad<T> symmetric{
                  static_cast<T>(i0), static_cast<T>(i1), static_cast<T>(i2),
                  static_cast<T>(j0), static_cast<T>(j1), static_cast<T>(j2)};
                sink(symmetric.Determinant());
                EmitS<T>(sink, symmetric.Cofactors());
                EmitV<T>(sink, symmetric * left);
                EmitV<T>(sink, symmetric * planar_right);
                const PhQ::Dyad<T> dyad{static_cast<T>(i0), static_cast<T>(j2), static_cast<T>(i1),
                                        static_cast<T>(j1), static_cast<T>(i2), static_cast<T>(j0),
                                        static_cast<T>(i0 + j1), static_cast<T>(i1 - j2),
                                        static_cast<T>(i2 * j0)};
                sink(dyad.Determinant());
                EmitD<T>(sink, dyad.Cofactors());
                EmitV<T>(sink, dyad * right);
                EmitV<T>(sink, dyad * planar_left);
                EmitD<T>(sink, dyad * symmetric);
                EmitD<T>(sink, symmetric * dyad);
                EmitD<T>(sink, dyad * dyad);
                EmitD<T>(sink, symmetric * symmetric);
                const auto inverse = dyad.Inverse();
                digest.addbool(inverse.has_value());
                if (inverse.has_value()) {
                  EmitD<T>(sink, inverse.value());
                }
                const auto symmetric_inverse = symmetric.Inverse();
                digest.addbool(symmetric_inverse.has_value());
                if (symmetric_inverse.has_value()) {
                  EmitS<T>(sink, symmetric_inverse.value());
                }
              }
            }
          }
        }
      }
    }
    std::printf("grid count=%llu digest=%016llx\n", static_cast<unsigned long long>(digest.count),
                static_cast<unsigned long long>(digest.h));
  }

  // 5. All pairs of edge values in vector kernels; all triples in the dot product.
  {
    Digest digest;
    auto sink = [&](const T value) { digest.add(value); };
    for (const T e0 : edges) {
      for (const T e1 : edges) {
        const PhQ::PlanarVector<T> planar_left{e0, e1};
        const PhQ::PlanarVector<T> planar_right{e1, e0};
        sink(planar_left.MagnitudeSquared());
        sink(planar_left.Dot(planar_right));
        EmitV<T>(sink, planar_left.Cross(planar_right));
        for (const T e2 : edges) {
          const PhQ::Vector<T> left{e0, e1, e2};
          const PhQ::Vector<T> right{e2, e0, e1};
          sink(left.MagnitudeSquared());
          sink(left.Dot(right));
          EmitV<T>(sink, left.Cross(right));
          const PhQ::SymmetricDyad<T> symmetric{e0, e1, e2, e2, e0, e1};
          sink(symmetric.Determinant());
          EmitV<T>(sink, symmetric * left);
          EmitV<T>(sink, symmetric * planar_left);
          const PhQ::Dyad<T> dyad{e0, e1, e2, e1, e2, e0, e2, e2, e1};
          sink(dyad.Determinant());
          EmitD<T>(sink, dyad.Cofactors());
          EmitV<T>(sink, dyad * right);
          EmitV<T>(sink, dyad * planar_right);
          EmitD<T>(sink, dyad * symmetric);
          EmitD<T>(sink, symmetric * dyad);
          EmitD<T>(sink, dyad * dyad.Transpose());
          EmitD<T>(sink, symmetric * symmetric);
        }
      }
    }
    std::printf("edges count=%llu digest=%016llx\n", static_cast<unsigned long long>(digest.count),
                static_cast<unsigned long long>(digest.h));
  }

  // 6. Directions (delegating to the vector kernels).
  {
    const PhQ::Direction<T> d1{static_cast<T>(1), static_cast<T>(-2), static_cast<T>(3)};
    const PhQ::Direction<T> d2{static_cast<T>(-4), static_cast<T>(0.5L), static_cast<T>(6)};
    const PhQ::PlanarDirection<T> e1{static_cast<T>(1), static_cast<T>(-2)};
    const PhQ::PlanarDirection<T> e2{static_cast<T>(-4), static_cast<T>(0.5L)};
    const PhQ::Vector<T> w{static_cast<T>(0.3L), static_cast<T>(-7), static_cast<T>(11)};
    const PhQ::PlanarVector<T> z{static_cast<T>(0.3L), static_cast<T>(-7)};
    std::string line;
    auto sink = [&](const T value) {
      line += Hex(value);
      line += ' ';
    };
    sink(d1.Dot(d2));
    sink(d1.Dot(w));
    sink(w.Dot(d1));
    sink(d1.MagnitudeSquared());
    EmitV<T>(sink, d1.Cross(w));
    EmitV<T>(sink, w.Cross(d2));
    EmitV<T>(sink, d1.Cross(d2).Value());
    EmitD<T>(sink, d1.Dyadic(d2));
    EmitD<T>(sink, w.Dyadic(d2));
    sink(e1.Dot(e2));
    sink(e1.Dot(z));
    sink(z.Dot(e2));
    sink(e2.MagnitudeSquared());
    EmitV<T>(sink, e1.Cross(z));
    EmitV<T>(sink, e1.Cross(e2).Value());
    EmitD<T>(sink, e1.Dyadic(e2));
    sink(w.Angle(d1).Value());
    sink(z.Angle(e2).Value());
    std::printf("directions: %s\n", line.c_str());
  }
}

}  // namespace

int main() {
  Run<float>("float");
  Run<double>("double");
  Run<long double>("long double");
  return 0;
}
