"""./vf selftest — run the checks against scratch copies of /repo with (a) each confirmed seeded change applied
(the named property's check must report a violation) and (b) behaviour-preserving refactors (checks must stay quiet)."""
import glob
import json
import os
import shutil
import subprocess
import sys
import tempfile

from .frontend import VERIF, REPO


def run_case(patch, props, expect_violation, label):
    d = tempfile.mkdtemp(prefix="phq-selftest-", dir="/var/tmp")
    try:
        shutil.copytree(os.path.join(REPO, "include"), os.path.join(d, "include"))
        r = subprocess.run(["patch", "-p1", "-s", "-d", d, "-i", patch], capture_output=True, text=True)
        if r.returncode != 0:
            return [(label, "-", "STALE", "patch does not apply to the current tree: " + (r.stdout + r.stderr)[:200])]
        out = []
        env = dict(os.environ, PHQ_REPO=d, VF_NO_EVIDENCE="1", VF_REPLAY_DIR=os.path.join(d, "replay"))
        for p in props:
            r = subprocess.run([os.path.join(VERIF, "vf"), "check", p], capture_output=True, text=True, env=env)
            first = next((l for l in r.stdout.splitlines() if l.startswith("  instance")), "").strip()
            if expect_violation:
                ok = r.returncode == 1 and "VIOLATION property=%s" % p in r.stdout
            else:
                ok = r.returncode == 0 and "VIOLATION" not in r.stdout
            out.append((label, p, "ok" if ok else "UNEXPECTED", "rc=%d %s %s" % (r.returncode, first[:120], r.stdout.strip().splitlines()[-1][:100] if r.stdout.strip() else "")))
        return out
    finally:
        shutil.rmtree(d, ignore_errors=True)


def main(only=None):
    from concurrent.futures import ThreadPoolExecutor
    jobs = []
    for meta in sorted(glob.glob(os.path.join(VERIF, "seeded", "*", "meta.json"))):
        sd = os.path.dirname(meta)
        sid = os.path.basename(sd)
        if only and only not in ('seeded/' + sid):
            continue
        m = json.load(open(meta))
        props = m.get("detected_by_checks") or [m["property"]]
        jobs.append((os.path.join(sd, "patch.diff"), props, True, "seeded/" + sid))
    for meta in sorted(glob.glob(os.path.join(VERIF, "selftest", "loud", "*.json"))):
        # my own single-site mutants (survivors of the mutation sweeps that exposed a blind spot): must be reported
        lid = os.path.basename(meta)[:-5]
        if only and only not in ('loud/' + lid):
            continue
        m = json.load(open(meta))
        jobs.append((meta[:-5] + ".diff", m["checks"], True, "loud/" + lid))
    for meta in sorted(glob.glob(os.path.join(VERIF, "selftest", "quiet", "*.json"))):
        qid = os.path.basename(meta)[:-5]
        if only and only not in ('quiet/' + qid):
            continue
        m = json.load(open(meta))
        jobs.append((meta[:-5] + ".diff", m["checks"], False, "quiet/" + qid))
    results = []
    with ThreadPoolExecutor(6) as ex:
        for r in ex.map(lambda j: run_case(*j), jobs):
            results += r
    bad = 0
    for label, p, st, detail in results:
        print("%-11s %-45s %-4s %s" % (st, label, p, detail))
        if st != "ok":
            bad += 1
    print("selftest: %d case(s), %d unexpected" % (len(results), bad))
    return 1 if bad else 0


def cases_for(pid):
    """Seeded changes and quiet refactors that exercise property pid: [(label, check, status, detail)] (run 8 at a time)."""
    from concurrent.futures import ThreadPoolExecutor
    jobs = []
    for meta in sorted(glob.glob(os.path.join(VERIF, "seeded", "*", "meta.json"))):
        sd = os.path.dirname(meta)
        m = json.load(open(meta))
        props = m.get("detected_by_checks") or [m["property"]]
        if pid in props:
            jobs.append((os.path.join(sd, "patch.diff"), [pid], True, "seeded/" + os.path.basename(sd)))
    for meta in sorted(glob.glob(os.path.join(VERIF, "selftest", "loud", "*.json"))):
        m = json.load(open(meta))
        if pid in m["checks"]:
            jobs.append((meta[:-5] + ".diff", [pid], True, "loud/" + os.path.basename(meta)[:-5]))
    for meta in sorted(glob.glob(os.path.join(VERIF, "selftest", "quiet", "*.json"))):
        m = json.load(open(meta))
        if pid in m["checks"]:
            jobs.append((meta[:-5] + ".diff", [pid], False, "quiet/" + os.path.basename(meta)[:-5]))
    out = []
    with ThreadPoolExecutor(8) as ex:
        for r in ex.map(lambda j: run_case(*j), jobs):
            out += r
    return out
