// Differential demo for property C13 (Newtonian fluid constitutive models).
#include <PhQ/BulkDynamicViscosity.hpp>
#include <PhQ/ConstitutiveModel.hpp>
#include <PhQ/ConstitutiveModel/CompressibleNewtonianFluid.hpp>
#include <PhQ/ConstitutiveModel/IncompressibleNewtonianFluid.hpp>
#include <PhQ/DynamicViscosity.hpp>
#include <PhQ/Strain.hpp>
#include <PhQ/StrainRate.hpp>
#include <PhQ/Stress.hpp>
#include <PhQ/SymmetricDyad.hpp>
#include <PhQ/Unit/DynamicViscosity.hpp>
#include <PhQ/Unit/Frequency.hpp>
#include <PhQ/Unit/Pressure.hpp>

#include <cmath>
#include <cstdint>
#include <cstdio>
#include <cstring>
#include <limits>
#include <memory>
#include <random>
#include <string>
#include <vector>

using namespace PhQ;

static std::uint64_t digest = 1469598103934665603ULL;
static unsigned long long count = 0;

static void mix(const void* p, std::size_t n) {
  const unsigned char* c = static_cast<const unsigned char*>(p);
  for (std::size_t i = 0; i < n; ++i) {
    digest ^= c[i];
    digest *= 1099511628211ULL;
  }
}

static bool verbose = false;

template <typename T>
static void emit(const char* tag, const SymmetricDyad<T>& d) {
  const T v[6] = {d.xx(), d.xy(), d.xz(), d.yy(), d.yz(), d.zz()};
  for (int i = 0; i < 6; ++i) {
    char buf[64];
    const int n = std::snprintf(buf, sizeof buf, "%La", static_cast<long double>(v[i]));
    mix(buf, static_cast<std::size_t>(n));
    // also mix the sign bit / nan-ness explicitly
    const int s = std::signbit(v[i]) ? 1 : 0;
    mix(&s, sizeof s);
    ++count;
  }
  if (verbose) {
    std::printf("%s", tag);
    for (int i = 0; i < 6; ++i) {
      std::printf(" %La", static_cast<long double>(v[i]));
    }
    std::printf("\n");
  }
}

template <typename T>
static const char* Name();
template <>
const char* Name<float>() {
  return "f";
}
template <>
const char* Name<double>() {
  return "d";
}
template <>
const char* Name<long double>() {
  return "l";
}

// Exercises all overloads with argument numeric type T on one model through the abstract interface.
template <typename T>
static void RunOne(const ConstitutiveModel& model, const std::string& tag,
                   const SymmetricDyad<long double>& source) {
  const SymmetricDyad<T> value{static_cast<SymmetricDyad<T>>(source)};
  const PhQ::StrainRate<T> strain_rate{value, Unit::Frequency::Hertz};
  const PhQ::Stress<T> stress_in{value, Unit::Pressure::Pascal};
  const PhQ::Strain<T> strain{value};
  const std::string t = tag + Name<T>();

  const PhQ::Stress<T> s1 = model.Stress(strain_rate);
  emit((t + " S(D)  ").c_str(), s1.Value());
  const PhQ::Stress<T> s2 = model.Stress(strain, strain_rate);
  emit((t + " S(e,D)").c_str(), s2.Value());
  const PhQ::Stress<T> s3 = model.Stress(strain);
  emit((t + " S(e)  ").c_str(), s3.Value());
  const PhQ::Strain<T> e1 = model.Strain(stress_in);
  emit((t + " e(S)  ").c_str(), e1.Value());
  const PhQ::StrainRate<T> d1 = model.StrainRate(stress_in);
  emit((t + " D(S)  ").c_str(), d1.Value());
  // composition
  const PhQ::StrainRate<T> d2 = model.StrainRate(s1);
  emit((t + " D(S(D))").c_str(), d2.Value());
  const PhQ::Stress<T> s4 = model.Stress(d1);
  emit((t + " S(D(S))").c_str(), s4.Value());
}

static void RunAll(const ConstitutiveModel& model, const std::string& tag,
                   const SymmetricDyad<long double>& source) {
  RunOne<float>(model, tag, source);
  RunOne<double>(model, tag, source);
  RunOne<long double>(model, tag, source);
}

template <typename N>
static void RunModels(const long double mu, const long double mub, const std::string& tag,
                      const std::vector<SymmetricDyad<long double>>& tensors) {
  const DynamicViscosity<N> dv(static_cast<N>(mu), Unit::DynamicViscosity::PascalSecond);
  const BulkDynamicViscosity<N> bv(static_cast<N>(mub), Unit::DynamicViscosity::PascalSecond);
  const std::unique_ptr<const ConstitutiveModel> inc =
      std::make_unique<const ConstitutiveModel::IncompressibleNewtonianFluid<N>>(dv);
  const std::unique_ptr<const ConstitutiveModel> com =
      std::make_unique<const ConstitutiveModel::CompressibleNewtonianFluid<N>>(dv, bv);
  const std::unique_ptr<const ConstitutiveModel> com0 =
      std::make_unique<const ConstitutiveModel::CompressibleNewtonianFluid<N>>(dv);
  const std::string n = Name<N>();
  for (std::size_t i = 0; i < tensors.size(); ++i) {
    const std::string t = tag + "#" + std::to_string(i) + " ";
    RunAll(*inc, t + "I" + n, tensors[i]);
    RunAll(*com, t + "C" + n, tensors[i]);
    RunAll(*com0, t + "Z" + n, tensors[i]);
  }
  // also direct (non-virtual) calls on the concrete type
  const ConstitutiveModel::CompressibleNewtonianFluid<N> direct{dv, bv};
  const ConstitutiveModel::IncompressibleNewtonianFluid<N> direct_inc{dv};
  for (std::size_t i = 0; i < tensors.size(); ++i) {
    const SymmetricDyad<N> v{static_cast<SymmetricDyad<N>>(tensors[i])};
    emit("direct C S", direct.Stress(PhQ::StrainRate<N>{v, Unit::Frequency::Hertz}).Value());
    emit("direct C D", direct.StrainRate(PhQ::Stress<N>{v, Unit::Pressure::Pascal}).Value());
    emit("direct I S", direct_inc.Stress(PhQ::StrainRate<N>{v, Unit::Frequency::Hertz}).Value());
    emit("direct I D", direct_inc.StrainRate(PhQ::Stress<N>{v, Unit::Pressure::Pascal}).Value());
  }
  if (verbose) {
    std::printf("%s\n%s\n%s\n%s\n", direct.Print().c_str(), direct.JSON().c_str(),
                direct_inc.Print().c_str(), direct_inc.YAML().c_str());
  }
}

int main() {
  std::mt19937_64 rng(20240913ULL);
  std::uniform_real_distribution<long double> unit(-1.0L, 1.0L);
  std::uniform_real_distribution<long double> expo(-30.0L, 30.0L);
  std::uniform_int_distribution<int> coin(0, 7);

  const long double inf = std::numeric_limits<long double>::infinity();
  const long double nan = std::numeric_limits<long double>::quiet_NaN();

  // Edge-case tensors.
  std::vector<SymmetricDyad<long double>> edge;
  edge.emplace_back(0.0L, 0.0L, 0.0L, 0.0L, 0.0L, 0.0L);
  edge.emplace_back(-0.0L, -0.0L, -0.0L, -0.0L, -0.0L, -0.0L);
  edge.emplace_back(0.0L, -0.0L, 0.0L, -0.0L, 0.0L, -0.0L);
  edge.emplace_back(1.0L, 0.0L, 0.0L, 1.0L, 0.0L, 1.0L);
  edge.emplace_back(1.0L, 0.0L, 0.0L, 1.0L, 0.0L, -2.0L);
  edge.emplace_back(32.0L, 1.0L, -2.0L, 16.0L, -1.0L, 8.0L);
  edge.emplace_back(1.0e-40L, -1.0e-42L, 3.0e-45L, 1.0e-44L, -7.0e-41L, 2.0e-39L);
  edge.emplace_back(1.0e-310L, -2.0e-320L, 5.0e-324L, 3.0e-315L, -1.0e-312L, 4.0e-308L);
  edge.emplace_back(1.0e-4940L, -2.0e-4945L, 3.0e-4950L, 3.0e-4935L, -1.0e-4932L, 4.0e-4940L);
  edge.emplace_back(3.0e38L, -3.0e38L, 1.0e37L, 3.4e38L, 1.0e38L, -3.4e38L);
  edge.emplace_back(1.7e308L, -1.7e308L, 1.0e307L, 1.7e308L, 1.0e300L, 1.7e308L);
  edge.emplace_back(1.0e4931L, -1.0e4931L, 1.0e4930L, 1.1e4932L, 1.0e4900L, 1.1e4932L);
  edge.emplace_back(inf, 1.0L, -1.0L, -inf, 0.0L, 2.0L);
  edge.emplace_back(nan, 1.0L, -1.0L, 3.0L, 0.0L, 2.0L);
  edge.emplace_back(1.0L / 3.0L, 2.0L / 3.0L, -1.0L / 7.0L, 0.1L, 0.2L, 0.3L);
  edge.emplace_back(0.1L, 0.2L, 0.3L, -0.3L, 0.7L, 0.2L);

  // Edge-case viscosities: (mu, mu_b).
  const long double mus[] = {1.0L,     2.0L,    128.0L,   0.1L,     1.0L / 3.0L, 1.0e-6L, 1.8e-5L,
                             1.0e-20L, 1.0e20L, 1.0e-38L, 1.0e38L,  1.0e-45L,    3.0e38L, 1.0e-300L,
                             1.0e300L, 0.0L,    -0.0L,    -1.0L,    inf,         nan,     1.0e-4940L,
                             1.0e4900L};
  const long double mubs[] = {0.0L,    -0.0L, 1.0L,    0.1L, 2.0L / 3.0L, 1.0e-6L, 1.0e20L, 1.0e-40L,
                              3.0e38L, -1.0L, -2.0L / 3.0L, inf, nan};

  verbose = true;
  int k = 0;
  for (const long double mu : mus) {
    for (const long double mub : mubs) {
      const std::string tag = "E" + std::to_string(k++);
      // -2/3 mu is the singular case for the inverse: also use mub scaled by mu
      const long double pairs[2] = {mub, mub * mu};
      for (int j = 0; j < 2; ++j) {
        const std::string tj = tag + (j == 0 ? "a" : "b");
        if (verbose) {
          std::printf("== %s mu=%La mub=%La\n", tj.c_str(), mu, pairs[j]);
        }
        RunModels<float>(mu, pairs[j], tj, edge);
        RunModels<double>(mu, pairs[j], tj, edge);
        RunModels<long double>(mu, pairs[j], tj, edge);
      }
    }
    // keep the printed output to a sane size: only print the first few viscosities in full
    if (k >= 4 * 13) {
      verbose = false;
    }
  }
  std::printf("edge digest %016llx count %llu\n", static_cast<unsigned long long>(digest), count);

  // Random sweep.
  verbose = false;
  for (int iter = 0; iter < 1500; ++iter) {
    const long double mu = std::pow(10.0L, expo(rng)) * (1.0L + 0.5L * unit(rng));
    long double mub = 0.0L;
    switch (coin(rng)) {
      case 0:
        mub = 0.0L;
        break;
      case 1:
        mub = mu * unit(rng);
        break;
      case 2:
        mub = -2.0L / 3.0L * mu;
        break;
      default:
        mub = std::pow(10.0L, expo(rng)) * (1.0L + 0.5L * unit(rng));
        break;
    }
    std::vector<SymmetricDyad<long double>> tensors;
    for (int j = 0; j < 4; ++j) {
      const long double scale = std::pow(10.0L, expo(rng));
      long double c[6];
      for (long double& x : c) {
        x = scale * unit(rng);
        if (coin(rng) == 0) {
          x = (coin(rng) & 1) ? 0.0L : -0.0L;
        }
      }
      if (j == 3) {
        c[5] = -(c[0] + c[3]);  // trace-free
      }
      tensors.emplace_back(c[0], c[1], c[2], c[3], c[4], c[5]);
    }
    verbose = iter < 20;
    const std::string tag = "R" + std::to_string(iter);
    if (verbose) {
      std::printf("== %s mu=%La mub=%La\n", tag.c_str(), mu, mub);
    }
    RunModels<float>(mu, mub, tag, tensors);
    RunModels<double>(mu, mub, tag, tensors);
    RunModels<long double>(mu, mub, tag, tensors);
    if (iter % 100 == 99) {
      std::printf("iter %d digest %016llx count %llu\n", iter,
                  static_cast<unsigned long long>(digest), count);
    }
  }
  std::printf("final digest %016llx count %llu\n", static_cast<unsigned long long>(digest), count);
  return 0;
}
