"""C03 — every relation between quantities is dimensionally homogeneous."""
from fractions import Fraction
from .. import facts, ev, relations, dims
from ..facts import short, strip_cvref
from ..frontend import NUMERIC


def eval_relation(F, r):
    """Evaluate a relation on fresh symbolic inputs. Returns (E, list of (slot path, term), result type class)."""
    f = r.f
    E = ev.Evaluator(F)
    res, this_lv, args = E.run_symbolic(f, this_prefix="self")
    if f["kind"] == "ctor" or r.kind == "cassign" or r.ret_q == "void":
        val = E.load(this_lv)
        target = r.this_q
    else:
        val = E.rv(res)
        target = r.ret_q
    return E, ev.flatten(val), target, val


def run(chk):
    chk.level = "proof"
    chk.technique = ("units-of-measure type checking of PhQ's implementation: every relation body is evaluated to terms over the "
                     "operands' stored values and interpreted in a dimension domain (exponent vectors in Q^7, polymorphic zero) whose "
                     "leaf dimensions come from RelatedDimensions<U> of the operand types; signatures checked separately")
    chk.rule("R0", "every declared relation is well-formed when instantiated for float, double and long double (no clang error located in /repo/include)")
    chk.rule("R1", "operator* / operator/ : dims(result type) = dims(lhs) +/- dims(rhs); operator+/-/+=/-= : all equal")
    chk.rule("R3", "no implicit conversion between quantity types (every public one-argument constructor is explicit, no conversion functions): "
                   "the set of operand pairs for which an operator compiles is exactly the declared set checked by R1")
    chk.rule("R2", "the dimension-domain value of every slot a relation computes equals the dimension set of the type it is stored in; all +,-,<,== unify")
    n_rel = 0
    names = set()
    for T in NUMERIC:
        F = facts.load(T, chk.tier)
        for d in F.repo_diagnostics():
            where = d["notes"][0] if d["notes"] else ""
            chk.violated("R0", "%s|%s" % (short(d["loc"]), T), "%s %s" % (d["msg"], where[:300]), short(d["loc"]))
        if not F.repo_diagnostics():
            chk.holds("R0", "all instantiations <%s>" % T, "%d function bodies instantiated without error" % sum(1 for f in F.fns.values() if "body" in f), "", nontrivial=True)
        # R3: no implicit conversion from one quantity type to another
        from .. import quant
        inv = quant.inventory(F)
        n_ctor1 = 0
        for qname_, q in sorted(inv.items()):
            if q.kind != "quantity":
                continue
            for f in F.methods(qname_):
                if f["kind"] == "conversion" and f.get("access") == "public" and not f.get("explicit"):
                    chk.violated("R3", f["name"], "implicit conversion function out of a quantity type", short(f["loc"]))
                if f["kind"] != "ctor" or len(f["params"]) != 1 or f.get("copy_ctor") or f.get("move_ctor") or f.get("access") != "public":
                    continue
                n_ctor1 += 1
                if not f.get("explicit"):
                    pt = strip_cvref(F.param_types(f)[0]).replace("PhQ::", "")
                    chk.violated("R3", "%s(%s)" % (f["name"], pt),
                                 "one-argument constructor is not explicit: a %s converts implicitly to a %s, so operators declared for the latter silently accept the former "
                                 "and expressions whose operand dimensions do not add up to the result's compile" % (pt, qname_.replace("PhQ::", "")), short(f.get("def_loc", f["loc"])))
        if not any(o["rule"] == "R3" and o["status"] == "violated" and ("<%s>" % T) in o["instance"] for o in chk.obs):
            chk.holds("R3", "one-argument constructors <%s>" % T, "%d public one-argument constructors of quantity types are all explicit; no conversion functions" % n_ctor1, "")
        D = dims.DimEnv(F)
        rels = relations.relations(F)
        for r in rels:
            f = r.f
            n_rel += 1
            sig = "%s(%s)" % (f["name"], ", ".join(strip_cvref(t).replace("PhQ::", "") for t in F.param_types(f)))
            names.add(sig.replace("<%s>" % T, "<T>"))
            loc = short(f.get("def_loc", f["loc"]))
            # R1 signatures
            try:
                if r.kind in ("op", "free_op", "cassign"):
                    op = f["op"][0]
                    if r.kind == "free_op":
                        lq, rq = r.arg_q
                    else:
                        lq, rq = r.this_q, r.arg_q[0]
                    res_q = r.this_q if r.kind == "cassign" else r.ret_q

                    def dq(q):
                        return dims.ZERO7 if q in ("num", "raw") else D.qtype_dims(q)
                    dl, dr, dres = dq(lq), dq(rq), dq(res_q)
                    if op == "*":
                        want = tuple(a + b for a, b in zip(dl, dr))
                    elif op == "/":
                        want = tuple(a - b for a, b in zip(dl, dr))
                    else:
                        want = dl
                        if dl != dr:
                            chk.violated("R1", sig, "%s of %s and %s" % (op, dims.fmt(dl), dims.fmt(dr)), loc)
                            continue
                    if dres != want:
                        chk.violated("R1", sig, "result type has %s but %s %s %s = %s" % (dims.fmt(dres), dims.fmt(dl), op, dims.fmt(dr), dims.fmt(want)), loc)
                    else:
                        chk.holds("R1", sig, "%s %s %s = %s" % (dims.fmt(dl), op, dims.fmt(dr), dims.fmt(want)), loc, nontrivial=any(want))
            except ev.Inconclusive as x:
                chk.inconclusive("R1", sig, str(x), loc)
            # R2 bodies
            try:
                E, flat, target, val = eval_relation(F, r)
                if E.unknown_calls:
                    chk.inconclusive("R2", sig, "calls unmodelled function(s) %s" % sorted(set(E.unknown_calls))[:3], loc)
                    continue
                want = dims.ZERO7 if target in ("num", "raw") else D.qtype_dims(target)
                bad = None
                for path, term in flat:
                    if isinstance(term, tuple) and term and term[0] == "undef":
                        bad = "slot %s is left uninitialised" % path
                        break
                    got = D.dims(term, E.leaf_info)
                    if got is not None and got != want:
                        bad = "slot %s = %s has dimension %s but %s declares %s" % (path, ev.show(term)[:300], dims.fmt(got), str(target).replace("PhQ::", ""), dims.fmt(want))
                        break
                if bad:
                    chk.violated("R2", sig, bad, loc)
                else:
                    chk.holds("R2", sig, "%d slot(s) : %s" % (len(flat), dims.fmt(want)), loc, nontrivial=len(ev.leaves(val)) > 0)
                    if n_rel % 97 == chk.seed % 97:
                        chk.sample({"relation": sig, "slot0": ev.show(flat[0][1])[:200] if flat else "", "dimension": dims.fmt(want), "loc": loc})
            except dims.DimError as x:
                chk.violated("R2", sig, str(x), loc)
            except ev.Inconclusive as x:
                chk.inconclusive("R2", sig, str(x), loc)
    if chk.tier == "thorough":
        gxx_second_opinion(chk)
    chk.floor("relation functions (x3 numeric types)", n_rel, 4500)
    chk.floor("distinct relation signatures", len(names), 1500)
    chk.coverage["relation_functions"] = n_rel
    chk.coverage["distinct_signatures"] = len(names)


def gxx_second_opinion(chk):
    """Thorough: the same instantiating drivers type-checked by the repository's own compiler (g++ -fsyntax-only)."""
    import os
    import re
    import subprocess
    from concurrent.futures import ThreadPoolExecutor
    from .. import frontend
    work = frontend.build_facts(chk.tier)

    def one(T):
        src = os.path.join(work, "driver_%s.cc" % frontend.TAG[T])
        r = subprocess.run(["g++", "-std=c++17", "-fsyntax-only", "-fmax-errors=0", "-w", "-I" + work, "-I" + frontend.INC, src],
                           capture_output=True, text=True)
        return T, r
    with ThreadPoolExecutor(3) as ex:
        for T, r in ex.map(one, NUMERIC):
            errs = [l for l in r.stderr.splitlines() if re.search(r": (fatal )?error:", l)]
            repo_errs = [l for l in errs if l.startswith(frontend.INC)]
            other = [l for l in errs if not l.startswith(frontend.INC)]
            for l in repo_errs[:20]:
                m = re.match(r"(.*?:\d+):\d+: (?:fatal )?error: (.*)", l)
                chk.violated("R0", "g++|%s|%s" % (short(m.group(1)) if m else l[:60], T), "g++ 12: %s" % (m.group(2) if m else l), short(m.group(1)) if m else "")
            if other and not repo_errs:
                chk.inconclusive("R0", "g++ driver <%s>" % T, "the generated driver does not compile with g++: %s" % other[0][:300], "")
            if not errs:
                chk.holds("R0", "g++ all instantiations <%s>" % T, "g++ 12 -fsyntax-only accepts every instantiation of the driver", "")
