// phqx — fact extractor for the PhQ static checks (libTooling, clang 14).
//
// Modes:
//   --mode=inventory : dump the *templates* found under --root (class templates, partial
//                      specialisations, free function templates, member function templates, enums)
//                      so that driver_gen.py can write a TU that instantiates all of them.
//   --mode=facts     : dump every non-dependent function body, record, enum and static-storage
//                      variable whose location is under --root, with callees resolved to ids.
// Nothing is executed; this is clang's parser + Sema followed by a read-only walk of the AST.
#include "clang/AST/ASTConsumer.h"
#include "clang/AST/ASTContext.h"
#include "clang/AST/DeclTemplate.h"
#include "clang/AST/ExprCXX.h"
#include "clang/AST/RecordLayout.h"
#include "clang/AST/RecursiveASTVisitor.h"
#include "clang/AST/StmtCXX.h"
#include "clang/Basic/Diagnostic.h"
#include "clang/Frontend/CompilerInstance.h"
#include "clang/Frontend/FrontendAction.h"
#include "clang/Lex/Lexer.h"
#include "clang/Sema/Sema.h"
#include "clang/Tooling/CommonOptionsParser.h"
#include "clang/Tooling/Tooling.h"
#include "llvm/Support/CommandLine.h"
#include "llvm/Support/JSON.h"
#include "llvm/Support/MemoryBuffer.h"
#include "llvm/Support/VirtualFileSystem.h"
#include "llvm/Support/raw_ostream.h"

#include <deque>
#include <map>
#include <string>
#include <vector>

using namespace clang;
namespace json = llvm::json;

static llvm::cl::OptionCategory Cat("phqx options");
static llvm::cl::opt<std::string> Mode("mode", llvm::cl::init("facts"), llvm::cl::cat(Cat));
static llvm::cl::opt<std::string> Root("root", llvm::cl::init("/repo/include"), llvm::cl::cat(Cat));
static llvm::cl::opt<std::string> Out("out", llvm::cl::init("-"), llvm::cl::cat(Cat));
static llvm::cl::opt<std::string> Overlay("overlay", llvm::cl::init(""), llvm::cl::cat(Cat));
static llvm::cl::list<std::string> ExtraBody(
    "extern-body", llvm::cl::desc("qualified-name prefix of non-root functions whose bodies are also dumped"),
    llvm::cl::cat(Cat));

namespace {

struct DiagRec {
  std::string level, msg, loc;
  std::vector<std::string> notes;
};
static std::vector<DiagRec> gDiags;

class CollectDiags : public DiagnosticConsumer {
public:
  void HandleDiagnostic(DiagnosticsEngine::Level L, const Diagnostic& Info) override {
    DiagnosticConsumer::HandleDiagnostic(L, Info);
    llvm::SmallString<256> Buf;
    Info.FormatDiagnostic(Buf);
    std::string loc;
    if (Info.hasSourceManager() && Info.getLocation().isValid()) {
      loc = Info.getLocation().printToString(Info.getSourceManager());
    }
    if (L == DiagnosticsEngine::Note) {
      if (!gDiags.empty()) gDiags.back().notes.push_back(loc + ": " + std::string(Buf.str()));
      return;
    }
    const char* lv = L == DiagnosticsEngine::Warning ? "warning"
                     : L == DiagnosticsEngine::Error ? "error"
                     : L == DiagnosticsEngine::Fatal ? "fatal"
                                                     : "remark";
    if (L == DiagnosticsEngine::Warning) return;  // warnings are not facts
    gDiags.push_back({lv, std::string(Buf.str()), loc, {}});
  }
};

class Extractor {
public:
  Extractor(ASTContext& C, Sema* S) : Ctx(C), SM(C.getSourceManager()), S(S), PP(C.getLangOpts()) {
    PP.SuppressTagKeyword = true;
    PP.FullyQualifiedName = true;
    PP.PrintCanonicalTypes = true;
    PP.Bool = true;
    PP.SuppressUnwrittenScope = false;
  }

  ASTContext& Ctx;
  SourceManager& SM;
  Sema* S;
  PrintingPolicy PP;

  // ---------------------------------------------------------------- helpers
  std::string fileOf(SourceLocation L) const {
    if (L.isInvalid()) return "";
    L = SM.getExpansionLoc(L);
    PresumedLoc P = SM.getPresumedLoc(L);
    if (P.isInvalid()) return "";
    return P.getFilename();
  }
  unsigned lineOf(SourceLocation L) const {
    if (L.isInvalid()) return 0;
    L = SM.getExpansionLoc(L);
    return SM.getPresumedLoc(L).getLine();
  }
  std::string locStr(SourceLocation L) const {
    std::string f = fileOf(L);
    if (f.empty()) return "";
    return f + ":" + std::to_string(lineOf(L));
  }
  bool underRoot(SourceLocation L) const {
    std::string f = fileOf(L);
    return f.compare(0, Root.size(), Root) == 0;
  }

  SourceLocation patLoc(const CXXRecordDecl* R) const {
    if (const auto* Sp = dyn_cast<ClassTemplateSpecializationDecl>(R)) {
      auto From = Sp->getSpecializedTemplateOrPartial();
      if (From.is<ClassTemplatePartialSpecializationDecl*>())
        return From.get<ClassTemplatePartialSpecializationDecl*>()->getLocation();
      if (Sp->getSpecializationKind() != TSK_ExplicitSpecialization) {
        const CXXRecordDecl* Pat = Sp->getSpecializedTemplate()->getTemplatedDecl();
        if (const CXXRecordDecl* Def = Pat->getDefinition()) return Def->getLocation();
        return Pat->getLocation();
      }
    }
    return R->getLocation();
  }
  SourceLocation patLoc(const VarDecl* V) const {
    if (const auto* Sp = dyn_cast<VarTemplateSpecializationDecl>(V)) {
      if (Sp->getSpecializationKind() != TSK_ExplicitSpecialization) {
        auto From = Sp->getSpecializedTemplateOrPartial();
        if (From.is<VarTemplatePartialSpecializationDecl*>())
          return From.get<VarTemplatePartialSpecializationDecl*>()->getLocation();
        return Sp->getSpecializedTemplate()->getLocation();
      }
    }
    return V->getLocation();
  }

  std::map<std::string, int> typeIdx;
  std::vector<std::string> types;
  int T(QualType Q) {
    if (Q.isNull()) return -1;
    std::string s = Q.getCanonicalType().getAsString(PP);
    auto it = typeIdx.find(s);
    if (it != typeIdx.end()) return it->second;
    int i = (int)types.size();
    types.push_back(s);
    typeIdx[s] = i;
    return i;
  }

  std::string argStr(const TemplateArgument& A) {
    switch (A.getKind()) {
      case TemplateArgument::Type:
        return A.getAsType().getCanonicalType().getAsString(PP);
      case TemplateArgument::Integral: {
        QualType IT = A.getIntegralType();
        if (const auto* ET = IT->getAs<EnumType>()) {
          for (const auto* EC : ET->getDecl()->enumerators()) {
            if (llvm::APSInt::isSameValue(EC->getInitVal(), A.getAsIntegral())) {
              return IT.getCanonicalType().getAsString(PP) + "::" + EC->getNameAsString();
            }
          }
        }
        llvm::SmallString<32> s;
        A.getAsIntegral().toString(s, 10);
        return std::string(s.str());
      }
      case TemplateArgument::Pack: {
        std::string r = "<";
        for (const auto& P : A.pack_elements()) r += argStr(P) + ",";
        return r + ">";
      }
      default: {
        std::string s;
        llvm::raw_string_ostream os(s);
        A.print(PP, os, true);
        return os.str();
      }
    }
  }
  json::Array argList(const TemplateArgumentList* L) {
    json::Array a;
    if (L)
      for (const auto& A : L->asArray()) a.push_back(argStr(A));
    return a;
  }

  std::string qualName(const NamedDecl* D) {
    std::string s;
    llvm::raw_string_ostream os(s);
    D->getNameForDiagnostic(os, PP, true);
    return os.str();
  }

  // ---------------------------------------------------------------- ids
  std::map<const FunctionDecl*, int> fnId;
  std::vector<const FunctionDecl*> fns;
  std::deque<int> fnQueue;
  std::map<const VarDecl*, int> varId;
  std::vector<const VarDecl*> vars;

  const FunctionDecl* canonFn(const FunctionDecl* F) {
    const FunctionDecl* Def = nullptr;
    if (F->isDefined(Def)) return Def;
    return F->getCanonicalDecl();
  }
  int FN(const FunctionDecl* F) {
    F = canonFn(F);
    auto it = fnId.find(F);
    if (it != fnId.end()) return it->second;
    int i = (int)fns.size();
    fns.push_back(F);
    fnId[F] = i;
    fnQueue.push_back(i);
    return i;
  }
  int VAR(const VarDecl* V) {
    if (const VarDecl* D = V->getDefinition()) V = D;
    else V = V->getCanonicalDecl();
    auto it = varId.find(V);
    if (it != varId.end()) return it->second;
    int i = (int)vars.size();
    vars.push_back(V);
    varId[V] = i;
    return i;
  }

  std::map<const VarDecl*, int> localId;  // TU-wide
  int LOCAL(const VarDecl* V) {
    auto it = localId.find(V);
    if (it != localId.end()) return it->second;
    int i = (int)localId.size();
    localId[V] = i;
    return i;
  }

  // ---------------------------------------------------------------- expressions
  json::Value E(const Stmt* St) {
    if (!St) return nullptr;
    if (const auto* Ex = dyn_cast<Expr>(St)) return expr(Ex);
    return stmt(St);
  }

  json::Value expr(const Expr* X) {
    if (!X) return nullptr;
    // transparent wrappers
    if (const auto* P = dyn_cast<ParenExpr>(X)) return expr(P->getSubExpr());
    if (const auto* P = dyn_cast<ExprWithCleanups>(X)) return expr(P->getSubExpr());
    if (const auto* P = dyn_cast<MaterializeTemporaryExpr>(X)) {
      json::Value sub = expr(P->getSubExpr());
      // a temporary bound to a reference: remember whether its lifetime is extended by a declaration
      if (json::Object* so = sub.getAsObject()) (*so)["mat"] = P->getExtendingDecl() ? "ext" : "tmp";
      return sub;
    }
    if (const auto* P = dyn_cast<CXXBindTemporaryExpr>(X)) return expr(P->getSubExpr());
    if (const auto* P = dyn_cast<ConstantExpr>(X)) return expr(P->getSubExpr());
    if (const auto* P = dyn_cast<SubstNonTypeTemplateParmExpr>(X)) {
      json::Value v = expr(P->getReplacement());
      if (json::Object* ob = v.getAsObject()) (*ob)["nttp"] = true;   // written by the compiler from a template argument
      return v;
    }
    if (const auto* P = dyn_cast<CXXDefaultArgExpr>(X)) return expr(P->getExpr());
    if (const auto* P = dyn_cast<CXXDefaultInitExpr>(X)) return expr(P->getExpr());

    json::Object o;
    o["t"] = T(X->getType());
    if (X->isPRValue() && !X->isValueDependent() && !X->containsErrors() &&
        (X->getType()->isIntegralOrEnumerationType()) && !isa<IntegerLiteral>(X) &&
        !isa<CXXBoolLiteralExpr>(X)) {
      Expr::EvalResult R;
      if (X->EvaluateAsInt(R, Ctx, Expr::SE_NoSideEffects)) {
        llvm::SmallString<32> s;
        R.Val.getInt().toString(s, 10);
        o["cv"] = s.str().str();
      }
    }

    if (const auto* L = dyn_cast<FloatingLiteral>(X)) {
      o["k"] = "flit";
      CharSourceRange R = CharSourceRange::getTokenRange(L->getBeginLoc(), L->getEndLoc());
      o["text"] = Lexer::getSourceText(R, SM, Ctx.getLangOpts()).str();
      llvm::SmallString<64> s;
      L->getValue().toString(s, 40, 0);
      o["val"] = s.str().str();
      return std::move(o);
    }
    if (const auto* L = dyn_cast<IntegerLiteral>(X)) {
      o["k"] = "ilit";
      llvm::SmallString<32> s;
      L->getValue().toString(s, 10, X->getType()->isSignedIntegerType());
      o["val"] = s.str().str();
      return std::move(o);
    }
    if (const auto* L = dyn_cast<clang::StringLiteral>(X)) {
      o["k"] = "slit";
      if (L->getCharByteWidth() == 1) {
        std::string b = L->getBytes().str();
        // JSON needs valid UTF-8; PhQ's literals are UTF-8 source text.
        if (json::isUTF8(b)) o["s"] = b;
        else o["s"] = json::fixUTF8(b);
      } else o["s"] = "<wide>";
      return std::move(o);
    }
    if (const auto* L = dyn_cast<CharacterLiteral>(X)) {
      o["k"] = "ilit";
      o["val"] = std::to_string(L->getValue());
      return std::move(o);
    }
    if (const auto* L = dyn_cast<CXXBoolLiteralExpr>(X)) {
      o["k"] = "blit";
      o["val"] = L->getValue();
      return std::move(o);
    }
    if (isa<CXXNullPtrLiteralExpr>(X) || isa<GNUNullExpr>(X)) {
      o["k"] = "nullptr";
      return std::move(o);
    }
    if (isa<CXXScalarValueInitExpr>(X) || isa<ImplicitValueInitExpr>(X)) {
      o["k"] = "zeroinit";
      return std::move(o);
    }
    if (isa<CXXThisExpr>(X)) {
      o["k"] = "this";
      return std::move(o);
    }
    if (const auto* D = dyn_cast<DeclRefExpr>(X)) {
      const ValueDecl* V = D->getDecl();
      if (const auto* P = dyn_cast<ParmVarDecl>(V)) {
        o["k"] = "parm";
        o["i"] = (int)P->getFunctionScopeIndex();
        o["n"] = P->getNameAsString();
        o["d"] = (int)P->getFunctionScopeDepth();
        // the function that owns the parameter: inside a lambda body a captured parameter of the enclosing function is
        // referenced by the same kind of node as the lambda's own parameters
        if (const auto* OF = dyn_cast_or_null<FunctionDecl>(P->getDeclContext())) o["fn"] = FN(OF);
      } else if (const auto* VD = dyn_cast<VarDecl>(V)) {
        if (VD->hasGlobalStorage() && !VD->isStaticLocal()) {
          o["k"] = "gvar";
          o["v"] = VAR(VD);
        } else {
          o["k"] = "local";
          o["i"] = LOCAL(VD);
          o["n"] = VD->getNameAsString();
          if (VD->isStaticLocal()) o["static"] = true;
        }
      } else if (const auto* EC = dyn_cast<EnumConstantDecl>(V)) {
        o["k"] = "enumc";
        o["n"] = EC->getNameAsString();
        llvm::SmallString<32> s;
        EC->getInitVal().toString(s, 10);
        o["val"] = s.str().str();
      } else if (const auto* FD = dyn_cast<FunctionDecl>(V)) {
        o["k"] = "fnref";
        o["f"] = FN(FD);
      } else if (const auto* BD = dyn_cast<BindingDecl>(V)) {
        o["k"] = "binding";
        o["n"] = BD->getNameAsString();
        if (const Expr* BE = BD->getBinding()) o["e"] = expr(BE);
      } else {
        o["k"] = "unkref";
        o["n"] = V->getNameAsString();
      }
      return std::move(o);
    }
    if (const auto* M = dyn_cast<MemberExpr>(X)) {
      const ValueDecl* V = M->getMemberDecl();
      if (const auto* FD = dyn_cast<FieldDecl>(V)) {
        o["k"] = "mem";
        o["n"] = FD->getNameAsString();
        o["rec"] = T(Ctx.getRecordType(FD->getParent()));
        o["arrow"] = M->isArrow();
        o["b"] = expr(M->getBase());
      } else if (const auto* MD = dyn_cast<CXXMethodDecl>(V)) {
        o["k"] = "methref";
        o["f"] = FN(MD);
        o["b"] = expr(M->getBase());
      } else if (const auto* VD = dyn_cast<VarDecl>(V)) {
        o["k"] = "gvar";
        o["v"] = VAR(VD);
      } else if (const auto* EC = dyn_cast<EnumConstantDecl>(V)) {
        o["k"] = "enumc";
        o["n"] = EC->getNameAsString();
      } else {
        o["k"] = "unkmem";
      }
      return std::move(o);
    }
    if (const auto* C = dyn_cast<CXXOperatorCallExpr>(X)) {
      o["k"] = "call";
      o["op"] = getOperatorSpelling(C->getOperator());
      const FunctionDecl* FD = C->getDirectCallee();
      json::Array args;
      unsigned first = 0;
      if (FD) {
        o["f"] = FN(FD);
        if (const auto* MD = dyn_cast<CXXMethodDecl>(FD); MD && !MD->isStatic()) {
          o["obj"] = expr(C->getArg(0));
          first = 1;
        }
      } else {
        o["callee"] = expr(C->getCallee());
      }
      for (unsigned i = first; i < C->getNumArgs(); ++i) args.push_back(expr(C->getArg(i)));
      o["a"] = std::move(args);
      return std::move(o);
    }
    if (const auto* C = dyn_cast<CXXMemberCallExpr>(X)) {
      o["k"] = "call";
      const CXXMethodDecl* MD = C->getMethodDecl();
      if (MD) o["f"] = FN(MD);
      else o["callee"] = expr(C->getCallee());
      o["obj"] = expr(C->getImplicitObjectArgument());
      if (const auto* ME = dyn_cast<MemberExpr>(C->getCallee()->IgnoreParens()))
        if (ME->hasQualifier()) o["qual"] = true;   // Base::f(): no dynamic dispatch
      json::Array args;
      for (const Expr* A : C->arguments()) args.push_back(expr(A));
      o["a"] = std::move(args);
      return std::move(o);
    }
    if (const auto* C = dyn_cast<CallExpr>(X)) {
      o["k"] = "call";
      const FunctionDecl* FD = C->getDirectCallee();
      if (FD) o["f"] = FN(FD);
      else o["callee"] = expr(C->getCallee());
      json::Array args;
      for (const Expr* A : C->arguments()) args.push_back(expr(A));
      o["a"] = std::move(args);
      return std::move(o);
    }
    if (const auto* C = dyn_cast<CXXConstructExpr>(X)) {
      o["k"] = "ctor";
      o["f"] = FN(C->getConstructor());
      if (C->isListInitialization()) o["list"] = true;
      if (C->isStdInitListInitialization()) o["stdil"] = true;
      if (C->isElidable()) o["elidable"] = true;
      if (C->requiresZeroInitialization()) o["zero"] = true;
      json::Array args;
      for (const Expr* A : C->arguments()) args.push_back(expr(A));
      o["a"] = std::move(args);
      return std::move(o);
    }
    if (const auto* C = dyn_cast<CXXInheritedCtorInitExpr>(X)) {
      o["k"] = "inhctor";
      o["f"] = FN(C->getConstructor());
      return std::move(o);
    }
    if (const auto* C = dyn_cast<CastExpr>(X)) {
      CastKind K = C->getCastKind();
      bool expl = isa<ExplicitCastExpr>(C);
      if (K == CK_NoOp || K == CK_LValueToRValue || K == CK_ConstructorConversion ||
          K == CK_FunctionToPointerDecay || K == CK_UserDefinedConversion) {
        json::Value sub = expr(C->getSubExpr());
        // an lvalue-to-rvalue read of a constant (e.g. numeric_limits<T>::max_digits10): keep its value
        if (K == CK_LValueToRValue && o.get("cv"))
          if (json::Object* so = sub.getAsObject())
            if (!so->get("cv")) (*so)["cv"] = *o.get("cv");
        return sub;
      }
      o["k"] = "cast";
      o["ck"] = C->getCastKindName();
      if (expl) o["explicit"] = true;
      o["from"] = T(C->getSubExpr()->getType());
      o["e"] = expr(C->getSubExpr());
      return std::move(o);
    }
    if (const auto* B = dyn_cast<CompoundAssignOperator>(X)) {
      o["k"] = "cassign";
      o["op"] = B->getOpcodeStr().str();
      o["l"] = expr(B->getLHS());
      o["r"] = expr(B->getRHS());
      o["ct"] = T(B->getComputationResultType());
      return std::move(o);
    }
    if (const auto* B = dyn_cast<BinaryOperator>(X)) {
      o["k"] = "bin";
      o["op"] = B->getOpcodeStr().str();
      o["l"] = expr(B->getLHS());
      o["r"] = expr(B->getRHS());
      return std::move(o);
    }
    if (const auto* U = dyn_cast<UnaryOperator>(X)) {
      o["k"] = "un";
      o["op"] = UnaryOperator::getOpcodeStr(U->getOpcode()).str();
      if (U->isPostfix()) o["postfix"] = true;
      o["e"] = expr(U->getSubExpr());
      return std::move(o);
    }
    if (const auto* C = dyn_cast<ConditionalOperator>(X)) {
      o["k"] = "cond";
      o["c"] = expr(C->getCond());
      o["a"] = expr(C->getTrueExpr());
      o["b"] = expr(C->getFalseExpr());
      return std::move(o);
    }
    if (const auto* I = dyn_cast<InitListExpr>(X)) {
      const InitListExpr* Sem = I->isSemanticForm() ? I : (I->getSemanticForm() ? I->getSemanticForm() : I);
      o["k"] = "ilist";
      json::Array el;
      for (const Expr* A : Sem->inits()) el.push_back(expr(A));
      o["e"] = std::move(el);
      if (Sem->hasArrayFiller()) o["filler"] = expr(Sem->getArrayFiller());
      return std::move(o);
    }
    if (const auto* I = dyn_cast<CXXStdInitializerListExpr>(X)) {
      o["k"] = "stdil";
      o["e"] = expr(I->getSubExpr());
      return std::move(o);
    }
    if (const auto* A = dyn_cast<ArraySubscriptExpr>(X)) {
      o["k"] = "idx";
      o["b"] = expr(A->getBase());
      o["i"] = expr(A->getIdx());
      return std::move(o);
    }
    if (const auto* L = dyn_cast<LambdaExpr>(X)) {
      o["k"] = "lambda";
      if (const CXXMethodDecl* MD = L->getCallOperator()) o["f"] = FN(MD);
      o["ncap"] = (int)L->capture_size();
      json::Array caps;
      for (const LambdaCapture& C : L->captures()) {
        json::Object c;
        c["by"] = C.getCaptureKind() == LCK_ByRef ? "ref" : (C.capturesThis() ? "this" : "copy");
        if (C.capturesVariable()) {
          if (const auto* P = dyn_cast<ParmVarDecl>(C.getCapturedVar())) {
            c["k"] = "parm";
            c["i"] = (int)P->getFunctionScopeIndex();
            if (const auto* OF = dyn_cast_or_null<FunctionDecl>(P->getDeclContext())) c["fn"] = FN(OF);
          } else if (const auto* VD = dyn_cast<VarDecl>(C.getCapturedVar())) {
            c["k"] = "local";
            c["i"] = LOCAL(VD);
          }
          c["n"] = C.getCapturedVar()->getNameAsString();
        }
        caps.push_back(std::move(c));
      }
      o["caps"] = std::move(caps);
      return std::move(o);
    }
    if (const auto* TE = dyn_cast<CXXThrowExpr>(X)) {
      o["k"] = "throw";
      o["e"] = expr(TE->getSubExpr());
      return std::move(o);
    }
    if (const auto* N = dyn_cast<CXXNewExpr>(X)) {
      o["k"] = "new";
      (void)N;
      return std::move(o);
    }
    if (const auto* UE = dyn_cast<UnaryExprOrTypeTraitExpr>(X)) {
      o["k"] = "sizeof";
      Expr::EvalResult R;
      if (UE->EvaluateAsInt(R, Ctx)) o["val"] = (int64_t)R.Val.getInt().getExtValue();
      return std::move(o);
    }
    if (isa<RecoveryExpr>(X)) {
      o["k"] = "recovery";
      return std::move(o);
    }
    // generic fallback: class name + children
    o["k"] = "unk";
    o["cls"] = X->getStmtClassName();
    json::Array ch;
    for (const Stmt* Cs : X->children()) ch.push_back(E(Cs));
    o["ch"] = std::move(ch);
    return std::move(o);
  }

  json::Value varDecl(const VarDecl* V) {
    json::Object d;
    d["i"] = LOCAL(V);
    d["n"] = V->getNameAsString();
    d["t"] = T(V->getType());
    if (V->isStaticLocal()) d["static"] = true;
    if (V->hasInit()) {
      d["init"] = expr(V->getInit());
      if (V->getInitStyle() == VarDecl::ListInit) d["list"] = true;
    }
    return std::move(d);
  }

  json::Value stmt(const Stmt* St) {
    if (!St) return nullptr;
    if (const auto* Ex = dyn_cast<Expr>(St)) return expr(Ex);
    json::Object o;
    if (const auto* C = dyn_cast<CompoundStmt>(St)) {
      o["k"] = "block";
      json::Array a;
      for (const Stmt* S2 : C->body()) {
        if (const auto* DS = dyn_cast<DeclStmt>(S2)) {
          bool any = false;
          for (const Decl* D : DS->decls())
            if (isa<VarDecl>(D)) any = true;
          if (!any) continue;  // static_assert, typedef, using
        }
        a.push_back(stmt(S2));
      }
      o["s"] = std::move(a);
      return std::move(o);
    }
    if (const auto* DS = dyn_cast<DeclStmt>(St)) {
      o["k"] = "decl";
      json::Array a;
      for (const Decl* D : DS->decls())
        if (const auto* V = dyn_cast<VarDecl>(D)) {
          a.push_back(varDecl(V));
          // structured bindings of a tuple-like type: the implicit holding variables (initialised by get<I>(e))
          if (const auto* DD = dyn_cast<DecompositionDecl>(V))
            for (const BindingDecl* B : DD->bindings())
              if (const VarDecl* H = B->getHoldingVar()) a.push_back(varDecl(H));
        }
      o["d"] = std::move(a);
      return std::move(o);
    }
    if (const auto* R = dyn_cast<ReturnStmt>(St)) {
      o["k"] = "ret";
      o["e"] = expr(R->getRetValue());
      return std::move(o);
    }
    if (const auto* I = dyn_cast<IfStmt>(St)) {
      o["k"] = "if";
      if (I->getInit()) o["init"] = stmt(I->getInit());
      if (I->getConditionVariable()) o["condvar"] = varDecl(I->getConditionVariable());
      if (I->isConstexpr()) {
        o["constexpr"] = true;
        bool B = false;
        if (!I->getCond()->isValueDependent() && I->getCond()->EvaluateAsBooleanCondition(B, Ctx)) o["cond_value"] = B;
      }
      o["c"] = expr(I->getCond());
      o["then"] = stmt(I->getThen());
      o["else"] = stmt(I->getElse());
      return std::move(o);
    }
    if (const auto* F = dyn_cast<ForStmt>(St)) {
      o["k"] = "for";
      o["init"] = stmt(F->getInit());
      o["c"] = expr(F->getCond());
      o["inc"] = expr(F->getInc());
      o["body"] = stmt(F->getBody());
      return std::move(o);
    }
    if (const auto* W = dyn_cast<WhileStmt>(St)) {
      o["k"] = "while";
      o["c"] = expr(W->getCond());
      o["body"] = stmt(W->getBody());
      return std::move(o);
    }
    if (const auto* W = dyn_cast<DoStmt>(St)) {
      o["k"] = "do";
      o["c"] = expr(W->getCond());
      o["body"] = stmt(W->getBody());
      return std::move(o);
    }
    if (const auto* R = dyn_cast<CXXForRangeStmt>(St)) {
      o["k"] = "rangefor";
      o["var"] = varDecl(R->getLoopVariable());
      // the type of *begin before the implicit conversion to the loop variable's type (`for (const double c : list_of_long_double)`)
      if (const VarDecl* LV = R->getLoopVariable())
        if (const Expr* In = LV->getInit()) o["elt"] = T(In->IgnoreParenImpCasts()->getType());
      o["range"] = expr(R->getRangeInit());
      o["body"] = stmt(R->getBody());
      return std::move(o);
    }
    if (const auto* Tr = dyn_cast<CXXTryStmt>(St)) {
      o["k"] = "try";
      o["body"] = stmt(Tr->getTryBlock());
      json::Array hs;
      for (unsigned i = 0; i < Tr->getNumHandlers(); ++i) {
        const CXXCatchStmt* H = Tr->getHandler(i);
        json::Object h;
        h["catch_all"] = H->getExceptionDecl() == nullptr;
        if (H->getExceptionDecl()) h["t"] = T(H->getCaughtType());
        h["body"] = stmt(H->getHandlerBlock());
        hs.push_back(std::move(h));
      }
      o["handlers"] = std::move(hs);
      return std::move(o);
    }
    if (isa<NullStmt>(St)) {
      o["k"] = "nullstmt";
      return std::move(o);
    }
    if (isa<BreakStmt>(St)) {
      o["k"] = "break";
      return std::move(o);
    }
    if (isa<ContinueStmt>(St)) {
      o["k"] = "continue";
      return std::move(o);
    }
    if (const auto* SW = dyn_cast<SwitchStmt>(St)) {
      o["k"] = "switch";
      o["c"] = expr(SW->getCond());
      o["body"] = stmt(SW->getBody());
      return std::move(o);
    }
    if (const auto* CS = dyn_cast<CaseStmt>(St)) {
      o["k"] = "case";
      o["v"] = expr(CS->getLHS());
      o["body"] = stmt(CS->getSubStmt());
      return std::move(o);
    }
    if (const auto* DS2 = dyn_cast<DefaultStmt>(St)) {
      o["k"] = "default";
      o["body"] = stmt(DS2->getSubStmt());
      return std::move(o);
    }
    o["k"] = "unkstmt";
    o["cls"] = St->getStmtClassName();
    json::Array ch;
    for (const Stmt* Cs : St->children()) ch.push_back(E(Cs));
    o["ch"] = std::move(ch);
    return std::move(o);
  }

  // ---------------------------------------------------------------- functions
  json::Value nothrowOf(const FunctionDecl* F) {
    const auto* FPT = F->getType()->getAs<FunctionProtoType>();
    if (!FPT) return nullptr;
    ExceptionSpecificationType EST = FPT->getExceptionSpecType();
    if (isUnresolvedExceptionSpec(EST)) {
      if (S) {
        const FunctionProtoType* R = S->ResolveExceptionSpec(F->getLocation(), FPT);
        if (R && !isUnresolvedExceptionSpec(R->getExceptionSpecType())) return R->isNothrow();
      }
      return nullptr;
    }
    return FPT->isNothrow();
  }

  bool wantBody(const FunctionDecl* F) {
    if (underRoot(F->getLocation())) return true;
    if (ExtraBody.empty()) return false;
    std::string q = F->getQualifiedNameAsString();
    for (const auto& p : ExtraBody)
      if (q.compare(0, p.size(), p) == 0) return true;
    return false;
  }

  json::Value function(int id) {
    const FunctionDecl* F = fns[id];
    /* local ids are unique in the TU: a lambda body refers to captured locals of its enclosing function by the same id */
    json::Object o;
    o["id"] = id;
    o["name"] = qualName(F);
    {
      std::string qs;
      llvm::raw_string_ostream qos(qs);
      F->printQualifiedName(qos, PP);
      o["qname"] = qos.str();
    }
    o["sname"] = F->getNameAsString();
    o["loc"] = locStr(F->getLocation());
    const char* kind = "function";
    if (isa<CXXConstructorDecl>(F)) kind = "ctor";
    else if (isa<CXXDestructorDecl>(F)) kind = "dtor";
    else if (isa<CXXConversionDecl>(F)) kind = "conversion";
    else if (isa<CXXMethodDecl>(F)) kind = "method";
    o["kind"] = kind;
    if (const auto* MD = dyn_cast<CXXMethodDecl>(F)) {
      o["parent"] = T(Ctx.getRecordType(MD->getParent()));
      if (MD->isStatic()) o["static"] = true;
      if (MD->isConst()) o["const"] = true;
      if (MD->isVirtual()) o["virtual"] = true;
      if (MD->isPure()) o["pure"] = true;
      if (MD->hasAttr<OverrideAttr>()) o["override"] = true;
      if (MD->size_overridden_methods() > 0) {
        json::Array ov;
        for (const CXXMethodDecl* B : MD->overridden_methods()) ov.push_back(FN(B));
        o["overrides"] = std::move(ov);
      }
      const char* acc = MD->getAccess() == AS_public      ? "public"
                        : MD->getAccess() == AS_protected ? "protected"
                        : MD->getAccess() == AS_private   ? "private"
                                                          : "none";
      o["access"] = acc;
      if (MD->isCopyAssignmentOperator()) o["copy_assign"] = true;
      if (MD->isMoveAssignmentOperator()) o["move_assign"] = true;
    }
    if (const auto* CD = dyn_cast<CXXConstructorDecl>(F)) {
      if (CD->isExplicit()) o["explicit"] = true;
      if (CD->isCopyConstructor()) o["copy_ctor"] = true;
      if (CD->isMoveConstructor()) o["move_ctor"] = true;
      if (CD->isDefaultConstructor()) o["default_ctor"] = true;
    }
    if (F->isOverloadedOperator()) o["op"] = getOperatorSpelling(F->getOverloadedOperator());
    if (const TemplateArgumentList* L = F->getTemplateSpecializationArgs()) o["targs"] = argList(L);
    if (F->getTemplateSpecializationKind() != TSK_Undeclared)
      o["tsk"] = (int)F->getTemplateSpecializationKind();
    if (F->isConstexpr()) o["constexpr"] = true;
    if (F->isDefaulted()) o["defaulted"] = true;
    if (F->isDeleted()) o["deleted"] = true;
    if (F->isImplicit()) o["implicit"] = true;
    if (F->isInvalidDecl()) o["invalid"] = true;
    if (F->isTrivial()) o["trivial"] = true;
    if (F->isVariadic()) o["variadic"] = true;
    o["nothrow"] = nothrowOf(F);
    o["ret"] = T(F->getReturnType());
    json::Array ps;
    for (const ParmVarDecl* P : F->parameters()) {
      json::Object p;
      p["n"] = P->getNameAsString();
      p["t"] = T(P->getType());
      ps.push_back(std::move(p));
    }
    o["params"] = std::move(ps);

    const FunctionDecl* Def = nullptr;
    bool has = F->hasBody(Def) && Def == F;
    if (!has || !wantBody(F)) {
      o["extern"] = true;
      if (has) o["has_body"] = true;
      return std::move(o);
    }
    if (F->isDefaulted() || F->isImplicit()) {
      return std::move(o);  // memberwise semantics; body is compiler-generated
    }
    if (const auto* CD = dyn_cast<CXXConstructorDecl>(F)) {
      json::Array in;
      for (const CXXCtorInitializer* I : CD->inits()) {
        json::Object io;
        if (I->isBaseInitializer()) io["base"] = T(QualType(I->getBaseClass(), 0));
        else if (I->isDelegatingInitializer()) io["delegating"] = true;
        else if (I->isAnyMemberInitializer()) io["field"] = I->getAnyMember()->getNameAsString();
        io["written"] = I->isWritten();
        io["e"] = expr(I->getInit());
        in.push_back(std::move(io));
      }
      o["inits"] = std::move(in);
    }
    o["def_loc"] = locStr(F->getBody()->getBeginLoc());
    o["body"] = stmt(F->getBody());
    return std::move(o);
  }

  // ---------------------------------------------------------------- records / enums / vars
  json::Value record(const CXXRecordDecl* R) {
    json::Object o;
    o["name"] = Ctx.getRecordType(R).getCanonicalType().getAsString(PP);
    o["t"] = T(Ctx.getRecordType(R));
    o["loc"] = locStr(patLoc(R));
    if (const auto* Sp = dyn_cast<ClassTemplateSpecializationDecl>(R)) {
      o["template"] = Sp->getSpecializedTemplate()->getQualifiedNameAsString();
      o["targs"] = argList(&Sp->getTemplateArgs());
      o["tsk"] = (int)Sp->getSpecializationKind();
    }
    json::Array bs;
    for (const CXXBaseSpecifier& B : R->bases()) {
      json::Object b;
      b["t"] = T(B.getType());
      b["virtual"] = B.isVirtual();
      b["access"] = (int)B.getAccessSpecifier();
      bs.push_back(std::move(b));
    }
    o["bases"] = std::move(bs);
    o["polymorphic"] = R->isPolymorphic();
    o["abstract"] = R->isAbstract();
    o["trivially_copyable"] = Ctx.getRecordType(R).isTriviallyCopyableType(Ctx);
    o["standard_layout"] = R->isStandardLayout();
    o["trivial_default_ctor"] = R->hasTrivialDefaultConstructor();
    o["trivial_dtor"] = R->hasTrivialDestructor();
    o["empty"] = R->isEmpty();
    json::Array fs;
    const ASTRecordLayout* L = nullptr;
    if (!R->isInvalidDecl() && !R->isDependentType()) L = &Ctx.getASTRecordLayout(R);
    unsigned idx = 0;
    for (const FieldDecl* FD : R->fields()) {
      json::Object f;
      f["n"] = FD->getNameAsString();
      f["t"] = T(FD->getType());
      f["access"] = (int)FD->getAccess();
      if (L) f["offset_bits"] = (int64_t)L->getFieldOffset(idx);
      f["size_bits"] = (int64_t)Ctx.getTypeSize(FD->getType());
      if (FD->isMutable()) f["mutable"] = true;
      if (FD->hasInClassInitializer()) {
        f["nsdmi"] = true;
        if (const Expr* IE = FD->getInClassInitializer()) {
          /* local ids are unique in the TU: a lambda body refers to captured locals of its enclosing function by the same id */
          f["init"] = expr(IE);
        }
      }
      fs.push_back(std::move(f));
      ++idx;
    }
    o["fields"] = std::move(fs);
    json::Array sf;
    for (const Decl* D : R->decls())
      if (const auto* V = dyn_cast<VarDecl>(D)) sf.push_back(V->getNameAsString());
    o["static_members"] = std::move(sf);
    if (L) {
      o["size"] = (int64_t)L->getSize().getQuantity();
      o["align"] = (int64_t)L->getAlignment().getQuantity();
      o["data_size"] = (int64_t)L->getDataSize().getQuantity();
    }
    json::Array fr;
    for (const FriendDecl* FDc : R->friends()) {
      if (const NamedDecl* ND = FDc->getFriendDecl()) fr.push_back(ND->getQualifiedNameAsString());
      else if (TypeSourceInfo* TSI = FDc->getFriendType()) fr.push_back(TSI->getType().getAsString(PP));
    }
    o["friends"] = std::move(fr);
    return std::move(o);
  }

  json::Value enumDecl(const EnumDecl* En) {
    json::Object o;
    o["name"] = Ctx.getEnumType(En).getCanonicalType().getAsString(PP);
    o["loc"] = locStr(En->getLocation());
    o["underlying"] = T(En->getIntegerType());
    o["scoped"] = En->isScoped();
    json::Array a;
    for (const EnumConstantDecl* EC : En->enumerators()) {
      json::Object e;
      e["n"] = EC->getNameAsString();
      llvm::SmallString<32> s;
      EC->getInitVal().toString(s, 10);
      e["val"] = s.str().str();
      e["line"] = (int)lineOf(EC->getLocation());
      a.push_back(std::move(e));
    }
    o["enumerators"] = std::move(a);
    return std::move(o);
  }

  json::Value variable(int id) {
    const VarDecl* V = vars[id];
    /* local ids are unique in the TU: a lambda body refers to captured locals of its enclosing function by the same id */
    json::Object o;
    o["id"] = id;
    o["name"] = qualName(V);
    o["qname"] = V->getQualifiedNameAsString();
    o["loc"] = locStr(patLoc(V));
    o["t"] = T(V->getType());
    if (const auto* Sp = dyn_cast<VarTemplateSpecializationDecl>(V)) {
      o["template"] = Sp->getSpecializedTemplate()->getQualifiedNameAsString();
      o["targs"] = argList(&Sp->getTemplateArgs());
      // was it produced from a partial specialisation?
      auto From = Sp->getSpecializedTemplateOrPartial();
      if (From.is<VarTemplatePartialSpecializationDecl*>()) {
        o["from_partial"] = true;
        o["pattern_loc"] = locStr(From.get<VarTemplatePartialSpecializationDecl*>()->getLocation());
      }
    }
    const char* tsk = "none";
    switch (V->getTemplateSpecializationKind()) {
      case TSK_Undeclared: tsk = "none"; break;
      case TSK_ImplicitInstantiation: tsk = "implicit_instantiation"; break;
      case TSK_ExplicitSpecialization: tsk = "explicit_specialization"; break;
      case TSK_ExplicitInstantiationDeclaration: tsk = "explicit_instantiation_declaration"; break;
      case TSK_ExplicitInstantiationDefinition: tsk = "explicit_instantiation_definition"; break;
    }
    o["tsk"] = tsk;
    o["inline"] = V->isInline();
    o["constexpr"] = V->isConstexpr();
    o["static_member"] = V->isStaticDataMember();
    o["is_definition"] = V->isThisDeclarationADefinition() == VarDecl::Definition;
    o["under_root"] = underRoot(patLoc(V));
    if (V->hasInit() && !V->getType()->isDependentType() && !V->getInit()->isValueDependent()) {
      o["constant_init"] = V->hasConstantInitialization();
      if (underRoot(patLoc(V))) o["init"] = expr(V->getInit());
    } else {
      o["constant_init"] = nullptr;
    }
    return std::move(o);
  }
};

// ------------------------------------------------------------------ facts mode
class FactsVisitor : public RecursiveASTVisitor<FactsVisitor> {
public:
  explicit FactsVisitor(Extractor& X) : X(X) {}
  bool shouldVisitTemplateInstantiations() const { return true; }
  bool shouldVisitImplicitCode() const { return false; }

  bool VisitFunctionDecl(FunctionDecl* F) {
    if (!F->isThisDeclarationADefinition()) return true;
    if (F->isDependentContext() || F->getDescribedFunctionTemplate()) return true;
    if (!X.underRoot(F->getLocation()) && !(!ExtraBody.empty() && X.wantBody(F))) return true;
    X.FN(F);
    return true;
  }
  bool VisitCXXRecordDecl(CXXRecordDecl* R) {
    if (!R->isThisDeclarationADefinition() || !R->isCompleteDefinition()) return true;
    if (R->isDependentContext() || R->getDescribedClassTemplate()) return true;
    if (isa<ClassTemplatePartialSpecializationDecl>(R)) return true;
    if (!X.underRoot(X.patLoc(R))) return true;
    if (R->isLambda()) return true;
    recs.push_back(R);
    return true;
  }
  bool VisitEnumDecl(EnumDecl* En) {
    if (!En->isCompleteDefinition() || !X.underRoot(En->getLocation())) return true;
    enums.push_back(En);
    return true;
  }
  bool VisitVarDecl(VarDecl* V) {
    if (isa<ParmVarDecl>(V)) return true;
    if (!V->hasGlobalStorage() || V->isStaticLocal()) return true;
    if (V->isThisDeclarationADefinition() != VarDecl::Definition) return true;
    if (V->getDescribedVarTemplate() || isa<VarTemplatePartialSpecializationDecl>(V)) return true;
    if (V->getDeclContext()->isDependentContext()) return true;
    if (!X.underRoot(X.patLoc(V))) return true;
    X.VAR(V);
    return true;
  }
  Extractor& X;
  std::vector<const CXXRecordDecl*> recs;
  std::vector<const EnumDecl*> enums;
};

// ------------------------------------------------------------------ inventory mode
class InventoryVisitor : public RecursiveASTVisitor<InventoryVisitor> {
public:
  explicit InventoryVisitor(Extractor& X) : X(X) {
    WP = PrintingPolicy(X.Ctx.getLangOpts());
    WP.SuppressTagKeyword = true;
    WP.Bool = true;
  }
  bool shouldVisitTemplateInstantiations() const { return false; }

  json::Array tparams(const TemplateParameterList* L) {
    json::Array a;
    for (const NamedDecl* P : *L) {
      json::Object o;
      o["n"] = P->getNameAsString();
      if (const auto* TT = dyn_cast<TemplateTypeParmDecl>(P)) {
        o["kind"] = "type";
        o["default"] = TT->hasDefaultArgument();
      } else if (const auto* NT = dyn_cast<NonTypeTemplateParmDecl>(P)) {
        o["kind"] = "nontype";
        o["type"] = NT->getType().getAsString(WP);
        o["default"] = NT->hasDefaultArgument();
      } else {
        o["kind"] = "template";
      }
      a.push_back(std::move(o));
    }
    return a;
  }

  std::string ctxName(const DeclContext* DC) {
    if (const auto* ND = dyn_cast<NamedDecl>(DC)) return ND->getQualifiedNameAsString();
    return "";
  }

  bool VisitClassTemplateDecl(ClassTemplateDecl* D) {
    if (!X.underRoot(D->getLocation())) return true;
    if (!D->isThisDeclarationADefinition()) return true;
    json::Object o;
    o["name"] = D->getQualifiedNameAsString();
    o["loc"] = X.locStr(D->getLocation());
    o["tparams"] = tparams(D->getTemplateParameters());
    o["member_of_class"] = D->getDeclContext()->isRecord();
    json::Array bs;
    for (const CXXBaseSpecifier& B : D->getTemplatedDecl()->bases()) bs.push_back(B.getType().getAsString(WP));
    o["bases"] = std::move(bs);
    o["abstract"] = D->getTemplatedDecl()->isAbstract();
    // friend functions defined inside the class ("hidden friends"): found by argument-dependent lookup only and
    // instantiated only when used, so the driver has to call each one
    json::Array hf;
    for (const FriendDecl* FDc : D->getTemplatedDecl()->friends()) {
      const NamedDecl* ND = FDc->getFriendDecl();
      if (!ND) continue;
      const FunctionDecl* F = dyn_cast<FunctionDecl>(ND);
      json::Object h;
      if (const auto* FT = dyn_cast<FunctionTemplateDecl>(ND)) {
        F = FT->getTemplatedDecl();
        h["tparams"] = tparams(FT->getTemplateParameters());
      }
      if (!F || !F->doesThisDeclarationHaveABody()) continue;
      h["sname"] = F->getNameAsString();
      h["loc"] = X.locStr(F->getLocation());
      json::Array ps;
      for (const ParmVarDecl* P : F->parameters()) ps.push_back(P->getType().getAsString(WP));
      h["params"] = std::move(ps);
      hf.push_back(std::move(h));
    }
    o["hidden_friends"] = std::move(hf);
    classTemplates.push_back(std::move(o));
    return true;
  }
  bool VisitClassTemplatePartialSpecializationDecl(ClassTemplatePartialSpecializationDecl* D) {
    if (!X.underRoot(D->getLocation())) return true;
    if (!D->isThisDeclarationADefinition()) return true;
    json::Object o;
    o["primary"] = D->getSpecializedTemplate()->getQualifiedNameAsString();
    o["loc"] = X.locStr(D->getLocation());
    o["tparams"] = tparams(D->getTemplateParameters());
    json::Array as;
    if (const ASTTemplateArgumentListInfo* AW = D->getTemplateArgsAsWritten()) {
      for (const TemplateArgumentLoc& A : AW->arguments()) {
        std::string s;
        llvm::raw_string_ostream os(s);
        A.getArgument().print(WP, os, true);
        as.push_back(os.str());
      }
    }
    o["args_written"] = std::move(as);
    partials.push_back(std::move(o));
    return true;
  }
  bool VisitFunctionTemplateDecl(FunctionTemplateDecl* D) {
    if (!X.underRoot(D->getLocation())) return true;
    const FunctionDecl* F = D->getTemplatedDecl();
    json::Object o;
    o["name"] = D->getQualifiedNameAsString();
    o["sname"] = D->getNameAsString();
    o["loc"] = X.locStr(D->getLocation());
    o["tparams"] = tparams(D->getTemplateParameters());
    o["is_definition"] = D->isThisDeclarationADefinition();
    o["context"] = ctxName(D->getDeclContext());
    o["in_class"] = D->getDeclContext()->isRecord();
    if (D->getDeclContext()->isRecord()) {
      const auto* R = cast<CXXRecordDecl>(D->getDeclContext());
      if (const ClassTemplateDecl* CT = R->getDescribedClassTemplate()) o["class_template"] = CT->getQualifiedNameAsString();
      o["access"] = (int)D->getAccess();
    }
    const char* kind = "function";
    if (isa<CXXConstructorDecl>(F)) kind = "ctor";
    else if (isa<CXXMethodDecl>(F)) kind = "method";
    o["kind"] = kind;
    if (const auto* MD = dyn_cast<CXXMethodDecl>(F)) {
      o["static"] = MD->isStatic();
      o["const"] = MD->isConst();
    }
    if (F->isOverloadedOperator()) o["op"] = getOperatorSpelling(F->getOverloadedOperator());
    json::Array ps;
    for (const ParmVarDecl* P : F->parameters()) ps.push_back(P->getType().getAsString(WP));
    o["params"] = std::move(ps);
    o["ret"] = F->getReturnType().getAsString(WP);
    fnTemplates.push_back(std::move(o));
    return true;
  }
  bool VisitEnumDecl(EnumDecl* En) {
    if (!En->isCompleteDefinition() || !X.underRoot(En->getLocation())) return true;
    enums.push_back(X.enumDecl(En));
    return true;
  }
  bool VisitVarTemplateDecl(VarTemplateDecl* D) {
    if (!X.underRoot(D->getLocation())) return true;
    json::Object o;
    o["name"] = D->getQualifiedNameAsString();
    o["loc"] = X.locStr(D->getLocation());
    o["tparams"] = tparams(D->getTemplateParameters());
    varTemplates.push_back(std::move(o));
    return true;
  }
  bool VisitVarTemplateSpecializationDecl(VarTemplateSpecializationDecl* D) {
    if (!X.underRoot(D->getLocation())) return true;
    if (isa<VarTemplatePartialSpecializationDecl>(D)) return true;
    if (D->getSpecializationKind() != TSK_ExplicitSpecialization) return true;
    json::Object o;
    o["template"] = D->getSpecializedTemplate()->getQualifiedNameAsString();
    o["targs"] = X.argList(&D->getTemplateArgs());
    o["loc"] = X.locStr(D->getLocation());
    varSpecs.push_back(std::move(o));
    return true;
  }
  Extractor& X;
  PrintingPolicy WP{LangOptions()};
  json::Array classTemplates, partials, fnTemplates, enums, varTemplates, varSpecs;
};

class Consumer : public ASTConsumer {
public:
  explicit Consumer(CompilerInstance& CI) : CI(CI) {}
  void HandleTranslationUnit(ASTContext& Ctx) override {
    Sema* S = CI.hasSema() ? &CI.getSema() : nullptr;
    Extractor X(Ctx, S);
    std::error_code EC;
    llvm::raw_fd_ostream OS(Out, EC);
    if (EC) {
      llvm::errs() << "phqx: cannot open " << Out << ": " << EC.message() << "\n";
      return;
    }
    if (Mode == "inventory") {
      InventoryVisitor V(X);
      V.TraverseDecl(Ctx.getTranslationUnitDecl());
      json::Object top;
      top["class_templates"] = std::move(V.classTemplates);
      top["partial_specializations"] = std::move(V.partials);
      top["function_templates"] = std::move(V.fnTemplates);
      top["enums"] = std::move(V.enums);
      top["var_templates"] = std::move(V.varTemplates);
      top["var_specializations"] = std::move(V.varSpecs);
      json::Array ds;
      for (const auto& D : gDiags) {
        json::Object d;
        d["level"] = D.level;
        d["msg"] = D.msg;
        d["loc"] = D.loc;
        ds.push_back(std::move(d));
      }
      top["diagnostics"] = std::move(ds);
      OS << json::Value(std::move(top)) << "\n";
      return;
    }
    FactsVisitor V(X);
    V.TraverseDecl(Ctx.getTranslationUnitDecl());
    // Stream the output: bodies may be numerous.
    OS << "{\"functions\":[\n";
    bool first = true;
    size_t done = 0;
    while (!X.fnQueue.empty()) {
      int id = X.fnQueue.front();
      X.fnQueue.pop_front();
      json::Value v = X.function(id);
      if (!first) OS << ",\n";
      first = false;
      OS << v;
      ++done;
    }
    OS << "\n],\"records\":[\n";
    first = true;
    for (const CXXRecordDecl* R : V.recs) {
      if (!first) OS << ",\n";
      first = false;
      OS << X.record(R);
    }
    OS << "\n],\"enums\":[\n";
    first = true;
    for (const EnumDecl* En : V.enums) {
      if (!first) OS << ",\n";
      first = false;
      OS << X.enumDecl(En);
    }
    OS << "\n],\"variables\":[\n";
    first = true;
    // variables may be appended while dumping initialisers (references to other globals)
    for (size_t i = 0; i < X.vars.size(); ++i) {
      if (!first) OS << ",\n";
      first = false;
      OS << X.variable((int)i);
    }
    // initialisers may have referenced new functions
    OS << "\n],\"late_functions\":[\n";
    first = true;
    while (!X.fnQueue.empty()) {
      int id = X.fnQueue.front();
      X.fnQueue.pop_front();
      json::Value v = X.function(id);
      if (!first) OS << ",\n";
      first = false;
      OS << v;
    }
    OS << "\n],\"types\":[\n";
    // dumping late functions may intern types, so types go last
    first = true;
    for (const std::string& s : X.types) {
      if (!first) OS << ",\n";
      first = false;
      OS << json::Value(s);
    }
    OS << "\n],\"diagnostics\":[\n";
    first = true;
    for (const auto& D : gDiags) {
      json::Object d;
      d["level"] = D.level;
      d["msg"] = D.msg;
      d["loc"] = D.loc;
      json::Array ns;
      for (const auto& n : D.notes) ns.push_back(n);
      d["notes"] = std::move(ns);
      if (!first) OS << ",\n";
      first = false;
      OS << json::Value(std::move(d));
    }
    OS << "\n]}\n";
  }
  CompilerInstance& CI;
};

class Action : public ASTFrontendAction {
public:
  std::unique_ptr<ASTConsumer> CreateASTConsumer(CompilerInstance& CI, StringRef) override {
    CI.getDiagnostics().setClient(new CollectDiags(), /*ShouldOwnClient=*/true);
    return std::make_unique<Consumer>(CI);
  }
};

}  // namespace

int main(int argc, const char** argv) {
  auto Exp = tooling::CommonOptionsParser::create(argc, argv, Cat);
  if (!Exp) {
    llvm::errs() << llvm::toString(Exp.takeError());
    return 2;
  }
  llvm::IntrusiveRefCntPtr<llvm::vfs::FileSystem> FS = llvm::vfs::getRealFileSystem();
  if (!Overlay.empty()) {
    auto Buf = llvm::MemoryBuffer::getFile(Overlay);
    if (!Buf) {
      llvm::errs() << "phqx: cannot read overlay " << Overlay << "\n";
      return 2;
    }
    auto OFS = llvm::vfs::getVFSFromYAML(std::move(*Buf), nullptr, Overlay, nullptr, FS);
    if (!OFS) {
      llvm::errs() << "phqx: bad overlay " << Overlay << "\n";
      return 2;
    }
    auto OV = llvm::makeIntrusiveRefCnt<llvm::vfs::OverlayFileSystem>(FS);
    OV->pushOverlay(std::move(OFS));
    FS = OV;
  }
  tooling::ClangTool Tool(Exp->getCompilations(), Exp->getSourcePathList(),
                          std::make_shared<PCHContainerOperations>(), FS);
  Tool.run(tooling::newFrontendActionFactory<Action>().get());
  return 0;  // diagnostics are facts; the Python side decides what they mean
}
