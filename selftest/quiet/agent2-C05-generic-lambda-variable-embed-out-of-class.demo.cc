// Differential program for refactor C05r: prints results of all refactored code paths with full
// precision (raw bytes of the value representation + hexfloat).
#include <PhQ/Acceleration.hpp>
#include <PhQ/Direction.hpp>
#include <PhQ/Displacement.hpp>
#include <PhQ/DynamicKinematicPressure.hpp>
#include <PhQ/DynamicPressure.hpp>
#include <PhQ/Force.hpp>
#include <PhQ/Frequency.hpp>
#include <PhQ/HeatFlux.hpp>
#include <PhQ/MassDensity.hpp>
#include <PhQ/PlanarAcceleration.hpp>
#include <PhQ/PlanarDirection.hpp>
#include <PhQ/PlanarDisplacement.hpp>
#include <PhQ/PlanarForce.hpp>
#include <PhQ/PlanarHeatFlux.hpp>
#include <PhQ/PlanarPosition.hpp>
#include <PhQ/PlanarTemperatureGradient.hpp>
#include <PhQ/PlanarTraction.hpp>
#include <PhQ/PlanarVector.hpp>
#include <PhQ/PlanarVelocity.hpp>
#include <PhQ/Position.hpp>
#include <PhQ/Speed.hpp>
#include <PhQ/TemperatureGradient.hpp>
#include <PhQ/Time.hpp>
#include <PhQ/Traction.hpp>
#include <PhQ/Vector.hpp>
#include <PhQ/Velocity.hpp>

#include <cmath>
#include <cstdint>
#include <cstdio>
#include <cstring>
#include <limits>
#include <random>
#include <type_traits>
#include <vector>

template <typename T>
struct Name;
template <>
struct Name<float> {
  static constexpr const char* value = "float";
  static constexpr std::size_t bytes = 4;
};
template <>
struct Name<double> {
  static constexpr const char* value = "double";
  static constexpr std::size_t bytes = 8;
};
template <>
struct Name<long double> {
  static constexpr const char* value = "long double";
  static constexpr std::size_t bytes = 10;  // x87 extended: 80 significant bits
};

template <typename T>
void Out(const char* label, const T v) {
  unsigned char raw[sizeof(T)];
  std::memcpy(raw, &v, sizeof(T));
  std::printf("%s = ", label);
  for (std::size_t i = Name<T>::bytes; i-- > 0;) {
    std::printf("%02x", raw[i]);
  }
  std::printf(" %La\n", static_cast<long double>(v));
}

template <typename T>
void Out(const char* label, const PhQ::Vector<T>& v) {
  std::printf("%s:\n", label);
  Out<T>("  x", v.x());
  Out<T>("  y", v.y());
  Out<T>("  z", v.z());
}

template <typename T>
void Out(const char* label, const PhQ::PlanarVector<T>& v) {
  std::printf("%s:\n", label);
  Out<T>("  x", v.x());
  Out<T>("  y", v.y());
}

template <typename T>
std::vector<T> Samples(std::mt19937_64& generator, const bool positive_only) {
  using L = std::numeric_limits<T>;
  std::vector<T> s = {static_cast<T>(0), -static_cast<T>(0), static_cast<T>(1), static_cast<T>(2),
                      static_cast<T>(0.5), static_cast<T>(3), static_cast<T>(0.1),
                      static_cast<T>(1) / static_cast<T>(3), L::min(), L::denorm_min(), L::max(),
                      L::epsilon(), L::infinity(), L::quiet_NaN(), L::min() * static_cast<T>(4),
                      L::max() / static_cast<T>(4), std::sqrt(L::max()), std::sqrt(L::min()),
                      static_cast<T>(1) + L::epsilon(), static_cast<T>(1) - L::epsilon() / 2,
                      static_cast<T>(1e-20L), static_cast<T>(1e20L), static_cast<T>(1e-30L),
                      static_cast<T>(1e30L), static_cast<T>(7.25L), static_cast<T>(123456.789L)};
  std::uniform_real_distribution<long double> exponent(-30.0L, 30.0L);
  std::uniform_real_distribution<long double> mantissa(1.0L, 10.0L);
  for (int i = 0; i < 400; ++i) {
    s.push_back(static_cast<T>(mantissa(generator) * std::pow(10.0L, exponent(generator))));
  }
  if (!positive_only) {
    const std::size_t n = s.size();
    for (std::size_t i = 0; i < n; ++i) {
      s.push_back(-s[i]);
    }
  }
  return s;
}

// Compile-time use of the refactored code paths, so that constexpr evaluation is compared too.
template <typename T>
void ConstexprChecks() {
  constexpr PhQ::Vector<T> zero = PhQ::Vector<T>::Zero();
  constexpr PhQ::PlanarVector<T> planar(static_cast<T>(1.25), static_cast<T>(-2.5));
  constexpr PhQ::Vector<T> embedded(planar);
  constexpr PhQ::PlanarVector<T> projected(embedded);
  constexpr PhQ::Vector<T> full(static_cast<T>(-0.0), static_cast<T>(8), static_cast<T>(9));
  constexpr PhQ::PlanarVector<T> projected_full(full);
  static_assert(projected == planar, "round trip");
  static_assert(embedded.z() == static_cast<T>(0), "z");
  Out<T>("constexpr zero", zero);
  Out<T>("constexpr embedded", embedded);
  Out<T>("constexpr projected", projected);
  Out<T>("constexpr projected_full", projected_full);
  constexpr PhQ::Time<T> time = PhQ::Time<T>::template Create<PhQ::Unit::Time::Second>(
      static_cast<T>(3));
  constexpr PhQ::Frequency<T> frequency(time);
  constexpr PhQ::Time<T> period(frequency);
  constexpr PhQ::Time<T> period2 = frequency.Period();
  constexpr PhQ::Frequency<T> frequency2 = period.Frequency();
  Out<T>("constexpr frequency", frequency.Value());
  Out<T>("constexpr period", period.Value());
  Out<T>("constexpr period2", period2.Value());
  Out<T>("constexpr frequency2", frequency2.Value());
}

template <typename T>
void TimeAndFrequency(const std::vector<T>& samples) {
  const PhQ::Unit::Time time_units[] = {
      PhQ::Unit::Time::Second, PhQ::Unit::Time::Nanosecond, PhQ::Unit::Time::Microsecond,
      PhQ::Unit::Time::Millisecond, PhQ::Unit::Time::Minute, PhQ::Unit::Time::Hour};
  const PhQ::Unit::Frequency frequency_units[] = {
      PhQ::Unit::Frequency::Hertz, PhQ::Unit::Frequency::Kilohertz,
      PhQ::Unit::Frequency::Megahertz, PhQ::Unit::Frequency::Gigahertz,
      PhQ::Unit::Frequency::PerMinute, PhQ::Unit::Frequency::PerHour};
  for (const T sample : samples) {
    for (const PhQ::Unit::Time unit : time_units) {
      const PhQ::Time<T> time(sample, unit);
      const PhQ::Frequency<T> frequency(time);
      const PhQ::Frequency<T> frequency2 = time.Frequency();
      const PhQ::Time<T> back(frequency);
      const PhQ::Time<T> back2 = frequency2.Period();
      Out<T>("t", time.Value());
      Out<T>("F(t)", frequency.Value());
      Out<T>("t.Frequency()", frequency2.Value());
      Out<T>("T(F(t))", back.Value());
      Out<T>("F(t).Period()", back2.Value());
      Out<T>("t*F(t)", time * frequency);
      Out<T>("F(t)*t", frequency * time);
    }
    for (const PhQ::Unit::Frequency unit : frequency_units) {
      const PhQ::Frequency<T> frequency(sample, unit);
      const PhQ::Time<T> period(frequency);
      const PhQ::Time<T> period2 = frequency.Period();
      const PhQ::Frequency<T> back(period);
      const PhQ::Frequency<T> back2 = period2.Frequency();
      Out<T>("f", frequency.Value());
      Out<T>("T(f)", period.Value());
      Out<T>("f.Period()", period2.Value());
      Out<T>("F(T(f))", back.Value());
      Out<T>("f.Period().Frequency()", back2.Value());
    }
  }
}

template <typename T>
void DynamicPressures(const std::vector<T>& samples, std::mt19937_64& generator) {
  const PhQ::Unit::Speed speed_units[] = {
      PhQ::Unit::Speed::MetrePerSecond, PhQ::Unit::Speed::Knot, PhQ::Unit::Speed::MilePerHour,
      PhQ::Unit::Speed::KilometrePerHour, PhQ::Unit::Speed::FootPerSecond,
      PhQ::Unit::Speed::MicroinchPerHour};
  const PhQ::Unit::SpecificEnergy specific_energy_units[] = {
      PhQ::Unit::SpecificEnergy::JoulePerKilogram, PhQ::Unit::SpecificEnergy::NanojoulePerGram,
      PhQ::Unit::SpecificEnergy::FootPoundPerSlug, PhQ::Unit::SpecificEnergy::InchPoundPerSlinch};
  const PhQ::Unit::MassDensity mass_density_units[] = {
      PhQ::Unit::MassDensity::KilogramPerCubicMetre, PhQ::Unit::MassDensity::GramPerCubicMillimetre,
      PhQ::Unit::MassDensity::SlugPerCubicFoot, PhQ::Unit::MassDensity::SlinchPerCubicInch,
      PhQ::Unit::MassDensity::PoundPerCubicFoot, PhQ::Unit::MassDensity::PoundPerCubicInch};
  const PhQ::Unit::Pressure pressure_units[] = {
      PhQ::Unit::Pressure::Pascal, PhQ::Unit::Pressure::Kilopascal, PhQ::Unit::Pressure::Megapascal,
      PhQ::Unit::Pressure::Gigapascal, PhQ::Unit::Pressure::Bar, PhQ::Unit::Pressure::Atmosphere,
      PhQ::Unit::Pressure::PoundPerSquareFoot, PhQ::Unit::Pressure::PoundPerSquareInch};
  std::uniform_int_distribution<std::size_t> pick(0, samples.size() - 1);
  for (const T sample : samples) {
    for (const PhQ::Unit::Speed unit : speed_units) {
      const PhQ::Speed<T> speed(sample, unit);
      const PhQ::DynamicKinematicPressure<T> dkp(speed);
      const PhQ::Speed<T> back(dkp);
      Out<T>("v", speed.Value());
      Out<T>("DKP(v)", dkp.Value());
      Out<T>("V(DKP(v))", back.Value());
      // Two-argument relations with a second random operand.
      const T other = samples[pick(generator)];
      for (const PhQ::Unit::MassDensity density_unit : mass_density_units) {
        const PhQ::MassDensity<T> density(other, density_unit);
        const PhQ::DynamicPressure<T> dp(density, speed);
        const PhQ::MassDensity<T> density_back(dp, speed);
        const PhQ::Speed<T> speed_back(dp, density);
        const PhQ::DynamicKinematicPressure<T> dkp2(dp, density);
        const PhQ::DynamicKinematicPressure<T> dkp3 = dp / density;
        const PhQ::DynamicPressure<T> dp_back(density, dkp2);
        Out<T>("rho", density.Value());
        Out<T>("DP(rho,v)", dp.Value());
        Out<T>("Rho(DP,v)", density_back.Value());
        Out<T>("V(DP,rho)", speed_back.Value());
        Out<T>("DKP(DP,rho)", dkp2.Value());
        Out<T>("DP/rho", dkp3.Value());
        Out<T>("DP(rho,DKP)", dp_back.Value());
      }
    }
    for (const PhQ::Unit::SpecificEnergy unit : specific_energy_units) {
      const PhQ::DynamicKinematicPressure<T> dkp(sample, unit);
      const PhQ::Speed<T> speed(dkp);
      const PhQ::DynamicKinematicPressure<T> back(speed);
      Out<T>("k", dkp.Value());
      Out<T>("V(k)", speed.Value());
      Out<T>("DKP(V(k))", back.Value());
    }
    for (const PhQ::Unit::Pressure unit : pressure_units) {
      const T other = samples[pick(generator)];
      const PhQ::DynamicPressure<T> dp(sample, unit);
      const PhQ::MassDensity<T> density(other, PhQ::Unit::MassDensity::KilogramPerCubicMetre);
      const PhQ::Speed<T> speed(dp, density);
      const PhQ::DynamicPressure<T> back(density, speed);
      const PhQ::MassDensity<T> density_back(dp, speed);
      Out<T>("q", dp.Value());
      Out<T>("V(q,rho)", speed.Value());
      Out<T>("DP(rho,V(q,rho))", back.Value());
      Out<T>("Rho(q,V)", density_back.Value());
    }
  }
}

template <typename T, typename Planar, typename Full, typename Unit>
void EmbedQuantity(const char* name, const PhQ::PlanarVector<T>& planar_vector,
                   const PhQ::Vector<T>& vector, const Unit unit) {
  std::printf("%s\n", name);
  const Planar planar(planar_vector, unit);
  const Full embedded(planar);
  const Planar back(embedded);
  Out<T>(" embedded", embedded.Value());
  Out<T>(" back", back.Value());
  const Full full(vector, unit);
  const Planar projected(full);
  const Full reembedded(projected);
  Out<T>(" projected", projected.Value());
  Out<T>(" reembedded", reembedded.Value());
  std::printf(" eq %d %d\n", static_cast<int>(back == planar),
              static_cast<int>(reembedded == full));
}

template <typename T>
void Embeddings(const std::vector<T>& samples, std::mt19937_64& generator) {
  std::uniform_int_distribution<std::size_t> pick(0, samples.size() - 1);
  Out<T>("Vector::Zero", PhQ::Vector<T>::Zero());
  std::printf("Zero==embedded(PlanarVector::Zero) %d\n",
              static_cast<int>(PhQ::Vector<T>::Zero()
                               == PhQ::Vector<T>(PhQ::PlanarVector<T>::Zero())));
  for (std::size_t i = 0; i < samples.size(); ++i) {
    const T x = samples[i];
    const T y = samples[pick(generator)];
    const T z = samples[pick(generator)];
    const PhQ::PlanarVector<T> planar(x, y);
    const PhQ::Vector<T> vector(x, y, z);
    const PhQ::Vector<T> embedded(planar);
    const PhQ::PlanarVector<T> back(embedded);
    const PhQ::PlanarVector<T> projected(vector);
    const PhQ::Vector<T> reembedded(projected);
    Out<T>("embedded", embedded);
    Out<T>("back", back);
    Out<T>("projected", projected);
    Out<T>("reembedded", reembedded);
    std::printf("print %s %s\n", embedded.Print().c_str(), projected.Print().c_str());
    Out<T>("cross", planar.Cross(projected));
    if (i % 8 == 0) {
      EmbedQuantity<T, PhQ::PlanarForce<T>, PhQ::Force<T>>(
          "Force", planar, vector, PhQ::Unit::Force::Pound);
      EmbedQuantity<T, PhQ::PlanarVelocity<T>, PhQ::Velocity<T>>(
          "Velocity", planar, vector, PhQ::Unit::Speed::Knot);
      EmbedQuantity<T, PhQ::PlanarAcceleration<T>, PhQ::Acceleration<T>>(
          "Acceleration", planar, vector, PhQ::Unit::Acceleration::FootPerSquareSecond);
      EmbedQuantity<T, PhQ::PlanarDisplacement<T>, PhQ::Displacement<T>>(
          "Displacement", planar, vector, PhQ::Unit::Length::Inch);
      EmbedQuantity<T, PhQ::PlanarPosition<T>, PhQ::Position<T>>(
          "Position", planar, vector, PhQ::Unit::Length::Mile);
      EmbedQuantity<T, PhQ::PlanarHeatFlux<T>, PhQ::HeatFlux<T>>(
          "HeatFlux", planar, vector, PhQ::Unit::EnergyFlux::WattPerSquareMetre);
      EmbedQuantity<T, PhQ::PlanarTemperatureGradient<T>, PhQ::TemperatureGradient<T>>(
          "TemperatureGradient", planar, vector, PhQ::Unit::TemperatureGradient::KelvinPerMetre);
      EmbedQuantity<T, PhQ::PlanarTraction<T>, PhQ::Traction<T>>(
          "Traction", planar, vector, PhQ::Unit::Pressure::PoundPerSquareInch);
      const PhQ::PlanarDirection<T> planar_direction(planar);
      const PhQ::Direction<T> direction(planar_direction);
      const PhQ::PlanarDirection<T> direction_back(direction);
      Out<T>("direction", direction.Value());
      Out<T>("direction_back", direction_back.Value());
      const PhQ::Direction<T> full_direction(vector);
      const PhQ::PlanarDirection<T> projected_direction(full_direction);
      Out<T>("projected_direction", projected_direction.Value());
    }
  }
}

template <typename T>
void Run() {
  std::printf("======== %s ========\n", Name<T>::value);
  std::mt19937_64 generator(20240526);
  const std::vector<T> positive = Samples<T>(generator, true);
  const std::vector<T> all = Samples<T>(generator, false);
  ConstexprChecks<T>();
  TimeAndFrequency<T>(all);
  DynamicPressures<T>(positive, generator);
  DynamicPressures<T>(all, generator);
  Embeddings<T>(all, generator);
}

int main() {
  Run<float>();
  Run<double>();
  Run<long double>();
  return 0;
}
