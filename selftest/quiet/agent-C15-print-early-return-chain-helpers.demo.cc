// Differential program for the C15q refactor: PhQ::Print, Vector serialisations,
// DimensionalScalar::Print. Prints edge-case results verbatim and digests of bulk results.
#include <PhQ/Base.hpp>
#include <PhQ/Dyad.hpp>
#include <PhQ/Force.hpp>
#include <PhQ/Length.hpp>
#include <PhQ/Mass.hpp>
#include <PhQ/PlanarVector.hpp>
#include <PhQ/Position.hpp>
#include <PhQ/SymmetricDyad.hpp>
#include <PhQ/Temperature.hpp>
#include <PhQ/Time.hpp>
#include <PhQ/Vector.hpp>
#include <PhQ/Velocity.hpp>

#include <cmath>
#include <cstdint>
#include <cstring>
#include <iostream>
#include <limits>
#include <random>
#include <sstream>
#include <string>
#include <vector>

namespace {

struct Digest {
  std::uint64_t hash = 1469598103934665603ULL;
  std::uint64_t count = 0;
  void Add(const std::string& text) {
    for (const char character : text) {
      hash ^= static_cast<unsigned char>(character);
      hash *= 1099511628211ULL;
    }
    hash ^= 0xFFU;
    hash *= 1099511628211ULL;
    ++count;
  }
  void Report(const std::string& label) const {
    std::cout << label << ": count=" << count << " fnv=" << std::hex << hash << std::dec << "\n";
  }
};

template <typename T>
const char* Name();
template <>
const char* Name<float>() {
  return "float";
}
template <>
const char* Name<double>() {
  return "double";
}
template <>
const char* Name<long double>() {
  return "long double";
}

template <typename T>
std::string Hex(const T value) {
  std::ostringstream stream;
  stream << std::hexfloat << value;
  return stream.str();
}

template <typename T>
std::string ParseBack(const std::string& text) {
  const std::optional<T> parsed = PhQ::ParseNumber<T>(text);
  if (!parsed.has_value()) {
    return "nullopt";
  }
  return Hex<T>(parsed.value());
}

template <typename T>
std::vector<T> EdgeValues() {
  std::vector<T> values;
  const T inf = std::numeric_limits<T>::infinity();
  const std::vector<T> seeds = {
    static_cast<T>(0.0),      static_cast<T>(0.001),   static_cast<T>(0.01),
    static_cast<T>(0.1),      static_cast<T>(1.0),     static_cast<T>(10.0),
    static_cast<T>(100.0),    static_cast<T>(1000.0),  static_cast<T>(10000.0),
    static_cast<T>(100000.0), static_cast<T>(0.0001),  static_cast<T>(0.5),
    static_cast<T>(9.9999),   static_cast<T>(99.9999), static_cast<T>(999.9999),
    static_cast<T>(9999.5),   static_cast<T>(1.0e-10), static_cast<T>(1.0e10),
    static_cast<T>(1.0e-30),  static_cast<T>(1.0e30),  static_cast<T>(0.001L),
    static_cast<T>(0.01L),    static_cast<T>(0.1L),    std::numeric_limits<T>::min(),
    std::numeric_limits<T>::max(), std::numeric_limits<T>::denorm_min(),
    std::numeric_limits<T>::epsilon(), static_cast<T>(3.14159265358979323846264338327950288L),
    static_cast<T>(2.0) / static_cast<T>(3.0), static_cast<T>(123456.789L),
    static_cast<T>(1234.56789L), static_cast<T>(0.00123456789L)};
  for (const T seed : seeds) {
    T down = seed;
    T up = seed;
    values.push_back(seed);
    for (int step = 0; step < 4; ++step) {
      down = std::nextafter(down, -inf);
      up = std::nextafter(up, inf);
      values.push_back(down);
      values.push_back(up);
    }
  }
  // Powers of ten across the range, with neighbours.
  for (int exponent = -60; exponent <= 60; ++exponent) {
    const T power = static_cast<T>(std::pow(static_cast<long double>(10.0L), exponent));
    values.push_back(power);
    values.push_back(std::nextafter(power, -inf));
    values.push_back(std::nextafter(power, inf));
  }
  values.push_back(inf);
  values.push_back(std::numeric_limits<T>::quiet_NaN());
  const std::size_t size = values.size();
  for (std::size_t index = 0; index < size; ++index) {
    values.push_back(-values[index]);
  }
  return values;
}

template <typename T>
T RandomValue(std::mt19937_64& generator);

template <>
float RandomValue<float>(std::mt19937_64& generator) {
  const std::uint32_t bits = static_cast<std::uint32_t>(generator());
  float value;
  std::memcpy(&value, &bits, sizeof(value));
  return value;
}

template <>
double RandomValue<double>(std::mt19937_64& generator) {
  const std::uint64_t bits = generator();
  double value;
  std::memcpy(&value, &bits, sizeof(value));
  return value;
}

template <>
long double RandomValue<long double>(std::mt19937_64& generator) {
  const std::uint64_t mantissa = generator() | (1ULL << 63U);
  const std::uint64_t other = generator();
  const int exponent = static_cast<int>(other % 32900U) - 16500;
  const long double magnitude = std::ldexp(static_cast<long double>(mantissa), exponent);
  return ((other >> 40U) & 1U) != 0U ? -magnitude : magnitude;
}

// A value whose magnitude is log-uniform near the notation boundaries: [1e-6, 1e7].
template <typename T>
T ModerateValue(std::mt19937_64& generator) {
  std::uniform_real_distribution<long double> exponent(-6.0L, 7.0L);
  const long double magnitude = std::pow(10.0L, exponent(generator));
  const T value = static_cast<T>(magnitude);
  return (generator() & 1U) != 0U ? -value : value;
}

template <typename T>
void TestPrint() {
  const std::string name = Name<T>();
  std::cout << "==== PhQ::Print<" << name << "> edge cases ====\n";
  for (const T value : EdgeValues<T>()) {
    const std::string text = PhQ::Print(value);
    std::cout << Hex<T>(value) << " -> [" << text << "] -> " << ParseBack<T>(text) << "\n";
  }
  std::mt19937_64 generator(20240915U);
  Digest random_bits;
  Digest moderate;
  const int random_count = 400000;
  for (int index = 0; index < random_count; ++index) {
    const T value = RandomValue<T>(generator);
    const std::string text = PhQ::Print(value);
    random_bits.Add(text);
    if (index < 40) {
      std::cout << "random " << Hex<T>(value) << " -> [" << text << "]\n";
    }
  }
  for (int index = 0; index < random_count; ++index) {
    const T value = ModerateValue<T>(generator);
    const std::string text = PhQ::Print(value);
    moderate.Add(text);
    moderate.Add(ParseBack<T>(text));
    if (index < 40) {
      std::cout << "moderate " << Hex<T>(value) << " -> [" << text << "]\n";
    }
  }
  random_bits.Report("Print<" + name + "> random bit patterns");
  moderate.Report("Print<" + name + "> moderate magnitudes");
}

// Exhaustive-ish sweep over float bit patterns with a stride.
void TestFloatSweep() {
  Digest digest;
  for (std::uint64_t bits = 0; bits <= 0xFFFFFFFFULL; bits += 2039U) {
    const std::uint32_t pattern = static_cast<std::uint32_t>(bits);
    float value;
    std::memcpy(&value, &pattern, sizeof(value));
    digest.Add(PhQ::Print(value));
  }
  digest.Report("Print<float> strided sweep of all bit patterns");
}

template <typename T>
T Pick(std::mt19937_64& generator, const int index) {
  switch (index % 4) {
    case 0:
      return ModerateValue<T>(generator);
    case 1:
      return RandomValue<T>(generator);
    case 2: {
      const std::vector<T> special = {static_cast<T>(0.0), -static_cast<T>(0.0),
                                      static_cast<T>(1.0), static_cast<T>(-10000.0),
                                      static_cast<T>(0.001), std::numeric_limits<T>::max(),
                                      std::numeric_limits<T>::denorm_min(),
                                      std::numeric_limits<T>::infinity()};
      return special[generator() % special.size()];
    }
    default:
      return static_cast<T>(static_cast<long double>(generator() % 2000001U) / 100.0L - 10000.0L);
  }
}

template <typename Shape>
void Emit(Digest& digest, const Shape& shape, const bool verbose) {
  std::ostringstream stream;
  stream << shape;
  const std::string print = shape.Print();
  const std::string json = shape.JSON();
  const std::string xml = shape.XML();
  const std::string yaml = shape.YAML();
  digest.Add(print);
  digest.Add(json);
  digest.Add(xml);
  digest.Add(yaml);
  digest.Add(stream.str());
  if (verbose) {
    std::cout << print << " | " << json << " | " << xml << " | " << yaml << " | " << stream.str()
              << "\n";
  }
}

template <typename T>
void TestShapes() {
  const std::string name = Name<T>();
  std::cout << "==== shapes<" << name << "> ====\n";
  std::mt19937_64 generator(777U);
  Digest vectors;
  Digest planar_vectors;
  Digest symmetric_dyads;
  Digest dyads;
  for (int index = 0; index < 40000; ++index) {
    const bool verbose = index < 12;
    const T a = Pick<T>(generator, index);
    const T b = Pick<T>(generator, index + 1);
    const T c = Pick<T>(generator, index + 2);
    const T d = Pick<T>(generator, index + 3);
    const T e = Pick<T>(generator, index);
    const T f = Pick<T>(generator, index + 1);
    const T g = Pick<T>(generator, index + 2);
    const T h = Pick<T>(generator, index + 3);
    const T i = Pick<T>(generator, index);
    Emit(vectors, PhQ::Vector<T>(a, b, c), verbose);
    Emit(planar_vectors, PhQ::PlanarVector<T>(a, b), verbose);
    if (index % 4 == 0) {
      Emit(symmetric_dyads, PhQ::SymmetricDyad<T>(a, b, c, d, e, f), verbose);
      Emit(dyads, PhQ::Dyad<T>(a, b, c, d, e, f, g, h, i), verbose);
    }
  }
  vectors.Report("Vector<" + name + ">");
  planar_vectors.Report("PlanarVector<" + name + ">");
  symmetric_dyads.Report("SymmetricDyad<" + name + ">");
  dyads.Report("Dyad<" + name + ">");
}

template <typename Quantity, typename UnitType>
void EmitQuantity(Digest& digest, const Quantity& quantity, const bool verbose) {
  std::ostringstream stream;
  stream << quantity;
  std::string line = quantity.Print() + " | " + quantity.JSON() + " | " + quantity.XML() + " | "
                     + quantity.YAML() + " | " + stream.str();
  digest.Add(line);
  if (verbose) {
    std::cout << line << "\n";
  }
  for (const auto& entry : PhQ::Internal::Abbreviations<UnitType>) {
    const UnitType unit = entry.first;
    line = quantity.Print(unit) + " | " + quantity.JSON(unit) + " | " + quantity.XML(unit) + " | "
           + quantity.YAML(unit);
    digest.Add(line);
    if (verbose) {
      std::cout << "  " << line << "\n";
    }
  }
}

template <template <typename> class Quantity, typename UnitType, typename T>
void TestScalarQuantity(const std::string& label) {
  const std::string name = Name<T>();
  std::cout << "==== " << label << "<" << name << "> ====\n";
  std::mt19937_64 generator(4242U);
  Digest digest;
  int index = 0;
  for (const auto& entry : PhQ::Internal::Abbreviations<UnitType>) {
    const UnitType unit = entry.first;
    for (int repeat = 0; repeat < 60; ++repeat, ++index) {
      const T value = Pick<T>(generator, index);
      const Quantity<T> quantity(value, unit);
      EmitQuantity<Quantity<T>, UnitType>(digest, quantity, repeat < 2);
    }
  }
  digest.Report(label + "<" + name + ">");
}

template <template <typename> class Quantity, typename UnitType, typename T>
void TestVectorQuantity(const std::string& label) {
  const std::string name = Name<T>();
  std::cout << "==== " << label << "<" << name << "> ====\n";
  std::mt19937_64 generator(9001U);
  Digest digest;
  int index = 0;
  for (const auto& entry : PhQ::Internal::Abbreviations<UnitType>) {
    const UnitType unit = entry.first;
    for (int repeat = 0; repeat < 40; ++repeat, ++index) {
      const PhQ::Vector<T> value(
          Pick<T>(generator, index), Pick<T>(generator, index + 1), Pick<T>(generator, index + 2));
      const Quantity<T> quantity(value, unit);
      EmitQuantity<Quantity<T>, UnitType>(digest, quantity, repeat < 1);
    }
  }
  digest.Report(label + "<" + name + ">");
}

template <typename T>
void TestAll() {
  TestPrint<T>();
  TestShapes<T>();
  TestScalarQuantity<PhQ::Time, PhQ::Unit::Time, T>("Time");
  TestScalarQuantity<PhQ::Length, PhQ::Unit::Length, T>("Length");
  TestScalarQuantity<PhQ::Mass, PhQ::Unit::Mass, T>("Mass");
  TestScalarQuantity<PhQ::Temperature, PhQ::Unit::Temperature, T>("Temperature");
  TestVectorQuantity<PhQ::Force, PhQ::Unit::Force, T>("Force");
  TestVectorQuantity<PhQ::Position, PhQ::Unit::Length, T>("Position");
  TestVectorQuantity<PhQ::Velocity, PhQ::Unit::Speed, T>("Velocity");
}

}  // namespace

int main() {
  TestAll<float>();
  TestAll<double>();
  TestAll<long double>();
  TestFloatSweep();
  return 0;
}
