// Differential program for property C14: comparison operators and hashes of PhQ::PlanarVector,
// PhQ::Vector, PhQ::SymmetricDyad, PhQ::Dyad and of quantity types that store them.
#include <PhQ/Direction.hpp>
#include <PhQ/Displacement.hpp>
#include <PhQ/DisplacementGradient.hpp>
#include <PhQ/Dyad.hpp>
#include <PhQ/Force.hpp>
#include <PhQ/PlanarDirection.hpp>
#include <PhQ/PlanarForce.hpp>
#include <PhQ/PlanarVector.hpp>
#include <PhQ/PlanarVelocity.hpp>
#include <PhQ/Position.hpp>
#include <PhQ/Strain.hpp>
#include <PhQ/Stress.hpp>
#include <PhQ/SymmetricDyad.hpp>
#include <PhQ/Vector.hpp>
#include <PhQ/Velocity.hpp>
#include <PhQ/VelocityGradient.hpp>

#include <algorithm>
#include <array>
#include <cstddef>
#include <cstdint>
#include <cstdio>
#include <functional>
#include <iostream>
#include <limits>
#include <map>
#include <random>
#include <set>
#include <string>
#include <type_traits>
#include <unordered_map>
#include <unordered_set>
#include <vector>

namespace {

// Compile-time use of the operators must keep working.
static_assert(PhQ::PlanarVector<double>(1.0, 2.0) < PhQ::PlanarVector<double>(1.0, 3.0), "");
static_assert(PhQ::PlanarVector<float>(1.0F, 2.0F) == PhQ::PlanarVector<float>(1.0F, 2.0F), "");
static_assert(PhQ::Vector<double>(1.0, 2.0, 3.0) < PhQ::Vector<double>(1.0, 2.0, 4.0), "");
static_assert(PhQ::Vector<double>(1.0, 2.0, 3.0) != PhQ::Vector<double>(1.0, 2.0, 4.0), "");
static_assert(PhQ::Vector<long double>(1.0L, 2.0L, 3.0L) >= PhQ::Vector<long double>(1.0L, 2.0L, 3.0L),
              "");
static_assert(PhQ::SymmetricDyad<double>(1.0, 2.0, 3.0, 4.0, 5.0, 6.0)
                  > PhQ::SymmetricDyad<double>(1.0, 2.0, 3.0, 4.0, 5.0, 5.0),
              "");
static_assert(PhQ::Dyad<double>(1.0, 2.0, 3.0, 4.0, 5.0, 6.0, 7.0, 8.0, 9.0)
                  <= PhQ::Dyad<double>(1.0, 2.0, 3.0, 4.0, 5.0, 6.0, 7.0, 8.0, 9.5),
              "");
static_assert(std::is_same<decltype(PhQ::Vector<double>() == PhQ::Vector<double>()), bool>::value,
              "");
static_assert(noexcept(PhQ::Vector<double>() < PhQ::Vector<double>()), "");
static_assert(noexcept(PhQ::Dyad<float>() != PhQ::Dyad<float>()), "");

std::uint64_t digest = 1469598103934665603ULL;

void Mix(const std::uint64_t value) {
  for (int byte = 0; byte < 8; ++byte) {
    digest ^= (value >> (8 * byte)) & 0xFFU;
    digest *= 1099511628211ULL;
  }
}

template <typename T>
std::vector<T> Palette() {
  using L = std::numeric_limits<T>;
  return {static_cast<T>(0),
          -static_cast<T>(0),
          static_cast<T>(1),
          static_cast<T>(-1),
          L::denorm_min(),
          -L::denorm_min(),
          L::min(),
          -L::min(),
          L::max(),
          L::lowest(),
          L::infinity(),
          -L::infinity(),
          L::quiet_NaN(),
          static_cast<T>(1) + L::epsilon(),
          static_cast<T>(0.1L),
          static_cast<T>(-2.5L)};
}

template <typename T, std::size_t N>
std::vector<std::array<T, N>> Inputs(std::mt19937_64& generator) {
  const std::vector<T> palette = Palette<T>();
  const std::vector<T> small = {static_cast<T>(-1), -static_cast<T>(0), static_cast<T>(0),
                                static_cast<T>(1)};
  std::vector<std::array<T, N>> result;
  // Full grid over a small value set for the low-dimensional shapes: forces ties in every prefix.
  if (N <= 3) {
    std::size_t total = 1;
    for (std::size_t i = 0; i < N; ++i) {
      total *= small.size();
    }
    for (std::size_t code = 0; code < total; ++code) {
      std::array<T, N> a{};
      std::size_t rest = code;
      for (std::size_t i = 0; i < N; ++i) {
        a[i] = small[rest % small.size()];
        rest /= small.size();
      }
      result.push_back(a);
    }
  }
  // Ties in the first k components, then each palette value at position k, zeros afterwards.
  for (std::size_t k = 0; k < N; ++k) {
    for (const T value : palette) {
      std::array<T, N> a{};
      for (std::size_t i = 0; i < N; ++i) {
        a[i] = i < k ? static_cast<T>(2) : static_cast<T>(0);
      }
      a[k] = value;
      result.push_back(a);
    }
  }
  // Ties in the first k components with a trailing pattern that contradicts the deciding one.
  for (std::size_t k = 0; k + 1 < N; ++k) {
    for (const T sign : {static_cast<T>(1), static_cast<T>(-1)}) {
      std::array<T, N> a{};
      for (std::size_t i = 0; i < N; ++i) {
        a[i] = i < k ? static_cast<T>(0.5L) : (i == k ? sign : -sign * static_cast<T>(7));
      }
      result.push_back(a);
    }
  }
  // Random draws from the palette so that ties are frequent.
  std::uniform_int_distribution<std::size_t> pick(0, palette.size() - 1);
  for (int count = 0; count < 60; ++count) {
    std::array<T, N> a{};
    for (std::size_t i = 0; i < N; ++i) {
      a[i] = palette[pick(generator)];
    }
    result.push_back(a);
  }
  // Random finite values.
  std::uniform_real_distribution<double> real(-3.0, 3.0);
  for (int count = 0; count < 20; ++count) {
    std::array<T, N> a{};
    for (std::size_t i = 0; i < N; ++i) {
      a[i] = static_cast<T>(real(generator));
    }
    result.push_back(a);
  }
  return result;
}

template <typename Object>
char Code(const Object& left, const Object& right) {
  unsigned bits = 0;
  bits |= (left == right) ? 1U : 0U;
  bits |= (left != right) ? 2U : 0U;
  bits |= (left < right) ? 4U : 0U;
  bits |= (left > right) ? 8U : 0U;
  bits |= (left <= right) ? 16U : 0U;
  bits |= (left >= right) ? 32U : 0U;
  return static_cast<char>('0' + bits);
}

template <typename Object>
void Compare(const std::string& label, const std::vector<Object>& objects) {
  std::printf("== %s: %zu objects\n", label.c_str(), objects.size());
  for (std::size_t i = 0; i < objects.size(); ++i) {
    std::string row;
    row.reserve(objects.size());
    for (std::size_t j = 0; j < objects.size(); ++j) {
      const char code = Code(objects[i], objects[j]);
      row.push_back(code);
      Mix(static_cast<std::uint64_t>(code));
    }
    const std::size_t hash = std::hash<Object>()(objects[i]);
    Mix(static_cast<std::uint64_t>(hash));
    std::printf("%zu h=%016llx %s\n", i, static_cast<unsigned long long>(hash), row.c_str());
  }
}

// Containers: only objects without NaN components, so that the order is a strict weak order.
template <typename Object>
void Containers(const std::string& label, const std::vector<Object>& objects) {
  std::set<Object> ordered(objects.begin(), objects.end());
  std::unordered_set<Object> unordered(objects.begin(), objects.end());
  std::map<Object, std::size_t> first_index;
  std::unordered_map<Object, std::size_t> count;
  for (std::size_t i = 0; i < objects.size(); ++i) {
    first_index.emplace(objects[i], i);
    ++count[objects[i]];
  }
  std::size_t found = 0;
  for (const Object& object : objects) {
    found += ordered.count(object) + unordered.count(object);
  }
  std::printf("-- %s containers: set=%zu unordered_set=%zu map=%zu unordered_map=%zu found=%zu\n",
              label.c_str(), ordered.size(), unordered.size(), first_index.size(), count.size(),
              found);
  std::vector<Object> sorted(objects);
  std::stable_sort(sorted.begin(), sorted.end());
  std::printf("   sorted:");
  for (const Object& object : sorted) {
    const std::size_t index = first_index.at(object);
    Mix(index);
    std::printf(" %zu", index);
  }
  std::printf("\n   set order:");
  for (const Object& object : ordered) {
    std::printf(" %zu/%zu", first_index.at(object), count.at(object));
    Mix(count.at(object));
  }
  std::stable_sort(sorted.begin(), sorted.end(), std::greater<Object>());
  std::printf("\n   sorted descending:");
  for (const Object& object : sorted) {
    std::printf(" %zu", first_index.at(object));
  }
  std::printf("\n");
}

template <typename T, std::size_t N>
bool HasNaN(const std::array<T, N>& a) {
  for (const T value : a) {
    if (value != value) {
      return true;
    }
  }
  return false;
}

template <typename Object, typename T, std::size_t N, typename Make>
void Run(const std::string& label, const std::vector<std::array<T, N>>& inputs, Make make) {
  std::vector<Object> all;
  std::vector<Object> clean;
  for (const std::array<T, N>& input : inputs) {
    all.push_back(make(input));
    if (!HasNaN(input)) {
      clean.push_back(make(input));
    }
  }
  Compare(label, all);
  Containers(label, clean);
}

template <typename T>
void RunAll(const std::string& type) {
  std::mt19937_64 generator(20240914);
  const auto in2 = Inputs<T, 2>(generator);
  const auto in3 = Inputs<T, 3>(generator);
  const auto in6 = Inputs<T, 6>(generator);
  const auto in9 = Inputs<T, 9>(generator);

  Run<PhQ::PlanarVector<T>>("PlanarVector<" + type + ">", in2,
                            [](const std::array<T, 2>& a) { return PhQ::PlanarVector<T>(a); });
  Run<PhQ::Vector<T>>(
      "Vector<" + type + ">", in3, [](const std::array<T, 3>& a) { return PhQ::Vector<T>(a); });
  Run<PhQ::SymmetricDyad<T>>("SymmetricDyad<" + type + ">", in6,
                             [](const std::array<T, 6>& a) { return PhQ::SymmetricDyad<T>(a); });
  Run<PhQ::Dyad<T>>(
      "Dyad<" + type + ">", in9, [](const std::array<T, 9>& a) { return PhQ::Dyad<T>(a); });

  // Quantities that store one of the four shapes; constructed in the standard unit so that the
  // stored value is exactly the input.
  Run<PhQ::PlanarForce<T>>("PlanarForce<" + type + ">", in2, [](const std::array<T, 2>& a) {
    return PhQ::PlanarForce<T>(PhQ::PlanarVector<T>(a), PhQ::Unit::Force::Newton);
  });
  Run<PhQ::PlanarVelocity<T>>("PlanarVelocity<" + type + ">", in2, [](const std::array<T, 2>& a) {
    return PhQ::PlanarVelocity<T>(PhQ::PlanarVector<T>(a), PhQ::Unit::Speed::MetrePerSecond);
  });
  Run<PhQ::Force<T>>("Force<" + type + ">", in3, [](const std::array<T, 3>& a) {
    return PhQ::Force<T>(PhQ::Vector<T>(a), PhQ::Unit::Force::Newton);
  });
  Run<PhQ::Position<T>>("Position<" + type + ">", in3, [](const std::array<T, 3>& a) {
    return PhQ::Position<T>(PhQ::Vector<T>(a), PhQ::Unit::Length::Metre);
  });
  Run<PhQ::Velocity<T>>("Velocity<" + type + ">", in3, [](const std::array<T, 3>& a) {
    return PhQ::Velocity<T>(PhQ::Vector<T>(a), PhQ::Unit::Speed::MetrePerSecond);
  });
  Run<PhQ::Stress<T>>("Stress<" + type + ">", in6, [](const std::array<T, 6>& a) {
    return PhQ::Stress<T>(PhQ::SymmetricDyad<T>(a), PhQ::Unit::Pressure::Pascal);
  });
  Run<PhQ::Strain<T>>("Strain<" + type + ">", in6,
                      [](const std::array<T, 6>& a) { return PhQ::Strain<T>(a); });
  Run<PhQ::VelocityGradient<T>>(
      "VelocityGradient<" + type + ">", in9, [](const std::array<T, 9>& a) {
        return PhQ::VelocityGradient<T>(PhQ::Dyad<T>(a), PhQ::Unit::Frequency::Hertz);
      });
  Run<PhQ::DisplacementGradient<T>>("DisplacementGradient<" + type + ">", in9,
                                    [](const std::array<T, 9>& a) {
                                      return PhQ::DisplacementGradient<T>(a);
                                    });

  // Directions normalise their input; only finite inputs.
  {
    std::vector<PhQ::Direction<T>> directions;
    for (const auto& a : in3) {
      bool finite = true;
      for (const T value : a) {
        finite = finite && value == value && value != std::numeric_limits<T>::infinity()
                 && value != -std::numeric_limits<T>::infinity();
      }
      if (finite) {
        directions.emplace_back(a[0], a[1], a[2]);
      }
    }
    std::vector<PhQ::Direction<T>> clean;
    for (const auto& direction : directions) {
      if (!HasNaN(direction.Value().x_y_z())) {
        clean.push_back(direction);
      }
    }
    Compare("Direction<" + type + ">", directions);
    Containers("Direction<" + type + ">", clean);
  }
  {
    std::vector<PhQ::PlanarDirection<T>> directions;
    for (const auto& a : in2) {
      bool finite = true;
      for (const T value : a) {
        finite = finite && value == value && value != std::numeric_limits<T>::infinity()
                 && value != -std::numeric_limits<T>::infinity();
      }
      if (finite) {
        directions.emplace_back(a[0], a[1]);
      }
    }
    std::vector<PhQ::PlanarDirection<T>> clean;
    for (const auto& direction : directions) {
      if (!HasNaN(direction.Value().x_y())) {
        clean.push_back(direction);
      }
    }
    Compare("PlanarDirection<" + type + ">", directions);
    Containers("PlanarDirection<" + type + ">", clean);
  }
}

}  // namespace

int main() {
  RunAll<float>("float");
  RunAll<double>("double");
  RunAll<long double>("long double");
  std::printf("digest %016llx\n", static_cast<unsigned long long>(digest));
  return 0;
}
