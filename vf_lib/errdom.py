"""Forward relative-error domain (standard model of floating-point arithmetic, positive inputs).

err(term) = (bound, sign): `bound` is an upper bound, in units of the unit roundoff u = 2^-p, on the relative error of
the computed value of `term` with respect to its exact real value, valid for ALL positive finite inputs in the
normal range (no overflow/underflow); None means "no input-independent bound" (a subtraction of rounded quantities can
cancel).  First-order bounds (products of (1+delta) factors are linearised; the neglected O(u^2) terms are far below
one u for the term sizes in this library).

  leaf, exactly representable constant      0
  other constant, Pi<T>                     1
  x*y, x/y                                  e_x + e_y + 1
  sqrt(x)                                   e_x/2 + 1           (correctly rounded)
  cbrt, pow(x, n)                           n*e_x + 2           (libm: assumed < 1 ulp = 2u)
  x + y with x, y of the same sign          max(e_x, e_y) + 1
  x - y (or x + y of unknown signs)         1 if e_x = e_y = 0, otherwise no bound
  cast to a narrower type                   e_x + (ratio of roundoffs) -- reported as no bound: handled by the narrowing rule
"""
from fractions import Fraction
from . import ev

MANT = {"float": 24, "double": 53, "long double": 64}


def _exact(q, T):
    return ev._exact_in(q, T)


def err(t, T, signs=None):
    """Returns (bound in u or None, sign in '+', '-', '0', '?')."""
    if isinstance(t, int):
        return Fraction(0), ("+" if t > 0 else "-" if t < 0 else "0")
    if not isinstance(t, tuple) or not t:
        return None, "?"
    k = t[0]
    if k == "leaf":
        return Fraction(0), (signs or {}).get(t[1], "+")
    if k == "c":
        s = "+" if t[1] > 0 else "-" if t[1] < 0 else "0"
        return (Fraction(0) if _exact(t[1], T) else Fraction(1)), s
    if k == "pi":
        return Fraction(1), "+"
    if k == "cast":
        e, s = err(t[2], T, signs)
        X = t[1]
        if X in MANT and T in MANT and MANT[X] < MANT[T]:
            return None, s
        return e, s
    if k == "neg":
        e, s = err(t[1], T, signs)
        return e, {"+": "-", "-": "+"}.get(s, s)
    if k == "mul" and t[1] == t[2]:
        e1, _ = err(t[1], T, signs)
        return (None if e1 is None else 2 * e1 + 1), "+"
    if k in ("mul", "div"):
        (e1, s1), (e2, s2) = err(t[1], T, signs), err(t[2], T, signs)
        if s1 == "0":
            return Fraction(0), "0"
        s = "?" if "?" in (s1, s2) else ("0" if s2 == "0" and k == "mul" else ("+" if s1 == s2 else "-"))
        if e1 is None or e2 is None:
            return None, s
        return e1 + e2 + 1, s
    if k in ("add", "sub"):
        (e1, s1), (e2, s2) = err(t[1], T, signs), err(t[2], T, signs)
        if k == "sub":
            s2 = {"+": "-", "-": "+"}.get(s2, s2)
        if s1 == "0":
            return e2, s2
        if s2 == "0":
            return e1, s1
        if e1 is None or e2 is None:
            return None, (s1 if s1 == s2 else "?")
        if s1 == s2 and s1 in "+-":
            return max(e1, e2) + 1, s1
        if e1 == 0 and e2 == 0:
            return Fraction(1), "?"
        return None, "?"
    if k == "fn":
        name = t[1]
        if name == "sqrt":
            e, s = err(t[2], T, signs)
            return (None if e is None else e / 2 + 1), "+"
        if name == "cbrt":
            e, s = err(t[2], T, signs)
            return (None if e is None else e / 3 + 2), s
        if name == "pow" and len(t) == 4:
            e, s = err(t[2], T, signs)
            n = t[3]
            n = n if isinstance(n, int) else (n[1] if isinstance(n, tuple) and n[0] == "c" else None)
            if n is None or e is None:
                return None, "?"
            sign = "+" if (n == int(n) and int(n) % 2 == 0) else s
            return abs(Fraction(n)) * e + 2, sign
        if name == "abs":
            e, s = err(t[2], T, signs)
            return e, "+"
        return None, "?"
    if k == "g":
        (e1, s1), (e2, s2) = err(t[2], T, signs), err(t[3], T, signs)
        if e1 is None or e2 is None:
            return None, "?"
        return max(e1, e2), (s1 if s1 == s2 else "?")
    return None, "?"


def ulps(bound_u):
    """u-units -> ulps (1 ulp >= 1 u relative... a relative error of b*u is at most b ulps, at least b/2)."""
    return float(bound_u)


def subst(t, mapping):
    """Replace sub-terms (keys of mapping) by other terms."""
    if t in mapping:
        return mapping[t]
    if isinstance(t, tuple) and t and t[0] not in ("leaf", "c", "pi"):
        return tuple(subst(x, mapping) if isinstance(x, tuple) else x for x in t)
    return t


def term_of_sympy(x):
    """A term with the *shape* of a sympy expression as its author wrote it (sympy keeps (a - b)**2, sqrt, products and
    quotients unexpanded), for comparing the conditioning of the textbook form with that of the implementation."""
    import sympy
    from fractions import Fraction as Fr
    if x.is_Symbol:
        return ("leaf", x.name)
    if x.is_Rational:
        return ("c", Fr(int(x.p), int(x.q)))
    if x.is_Add:
        pos, neg = [], []
        for a in x.args:
            c, rest = a.as_coeff_Mul()
            (neg if c.is_negative else pos).append(a if not c.is_negative else -a)
        if not pos:
            t = ("neg", term_of_sympy(neg[0]))
            neg = neg[1:]
        else:
            t = term_of_sympy(pos[0])
            for a in pos[1:]:
                t = ("add", t, term_of_sympy(a))
        for a in neg:
            t = ("sub", t, term_of_sympy(a))
        return t
    if x.is_Mul:
        num, den = [], []
        for a in x.args:
            if a.is_Pow and a.exp.is_Rational and a.exp.is_negative:
                den.append(sympy.Pow(a.base, -a.exp))
            elif a.is_Rational and a.p == 1 and a.q != 1:
                den.append(sympy.Integer(a.q))
            else:
                num.append(a)
        t = term_of_sympy(num[0]) if num else ("c", Fr(1))
        for a in num[1:]:
            t = ("mul", t, term_of_sympy(a))
        for a in den:
            t = ("div", t, term_of_sympy(a))
        return t
    if x.is_Pow:
        if x.exp == sympy.Rational(1, 2):
            return ("fn", "sqrt", term_of_sympy(x.base))
        if x.exp == sympy.Rational(1, 3):
            return ("fn", "cbrt", term_of_sympy(x.base))
        if x.exp.is_Integer and int(x.exp) == 2:
            b = term_of_sympy(x.base)
            return ("mul", b, b)
        if x.exp.is_Rational:
            return ("fn", "pow", term_of_sympy(x.base), ("c", Fr(int(x.exp.p), int(x.exp.q))))
    raise ValueError("no term for %s" % x)
