"""Ordering enumeration: decide comparison operators over the finite abstraction
'each slot pair is <, = or >' (complete on non-NaN values when the operator touches components only
through same-slot comparisons)."""
import itertools
from . import ev
from .ev import Inconclusive

REL = {"<": {"<": True, "=": False, ">": False},
       ">": {"<": False, "=": False, ">": True},
       "<=": {"<": True, "=": True, ">": False},
       ">=": {"<": False, "=": True, ">": True},
       "==": {"<": False, "=": True, ">": False},
       "!=": {"<": True, "=": False, ">": True}}
FLIP = {"<": ">", ">": "<", "=": "="}


def _leafname(t):
    if isinstance(t, tuple) and t and t[0] in ("leaf", "isym"):
        return t[1]
    if isinstance(t, tuple) and t and t[0] == "cast":
        return _leafname(t[2])
    return None


def collect_atoms(term, acc):
    """All ('cmp', op, a, b) atoms of a boolean term."""
    if isinstance(term, bool):
        return
    if not isinstance(term, tuple) or not term:
        raise Inconclusive("non-boolean term in comparison: %r" % (term,))
    k = term[0]
    if k == "oob":
        raise Inconclusive("PIECEWISE: an element outside its array is compared on a feasible path (%s)" % term[1])
    if k == "cmp":
        acc.append(term)
    elif k in ("not",):
        collect_atoms(term[1], acc)
    elif k in ("and", "or"):
        collect_atoms(term[1], acc)
        collect_atoms(term[2], acc)
    elif k == "g":
        collect_atoms(term[1], acc)
        collect_atoms(term[2], acc)
        collect_atoms(term[3], acc)
    else:
        raise Inconclusive("comparison result built with %s" % k)


def evaluate(term, rel_of):
    if isinstance(term, bool):
        return term
    k = term[0]
    if k == "cmp":
        return rel_of(term)
    if k == "not":
        return not evaluate(term[1], rel_of)
    if k == "and":
        return evaluate(term[1], rel_of) and evaluate(term[2], rel_of)
    if k == "or":
        return evaluate(term[1], rel_of) or evaluate(term[2], rel_of)
    if k == "g":
        return evaluate(term[2], rel_of) if evaluate(term[1], rel_of) else evaluate(term[3], rel_of)
    raise Inconclusive("comparison result built with %s" % k)


def _feasible(pairs, sigma):
    """Is there an assignment of non-NaN values with var_a sigma_k var_b for every pair k?  Union the '=' pairs, then the
    strict relations must form an acyclic graph on the classes (a strict partial order extends to a linear one)."""
    parent = {}

    def find(x):
        parent.setdefault(x, x)
        while parent[x] != x:
            parent[x] = parent[parent[x]]
            x = parent[x]
        return x
    for (a, b), r in zip(pairs, sigma):
        find(a), find(b)
        if r == "=":
            parent[find(a)] = find(b)
    edges = {}
    for (a, b), r in zip(pairs, sigma):
        if r == "=":
            continue
        x, y = (find(a), find(b)) if r == "<" else (find(b), find(a))
        if x == y:
            return False
        edges.setdefault(x, set()).add(y)
    state = {}

    def cyc(u):
        state[u] = 1
        for v in edges.get(u, ()):
            if state.get(v) == 1 or (state.get(v) is None and cyc(v)):
                return True
        state[u] = 2
        return False
    return not any(state.get(u) is None and cyc(u) for u in list(edges))


def _is_zero(x):
    return x == 0 and not isinstance(x, bool) or (isinstance(x, tuple) and len(x) == 2 and x[0] == "c" and x[1] == 0)


def _difference(d):
    """(x, y, narrowed_to) if d is `x - y` of two component variables, possibly converted: narrowed_to names a signed type
    narrower than int that the difference was converted to (then its sign is no longer the order of x and y), else None."""
    narrowed = None
    while isinstance(d, tuple) and d and d[0] in ("icast", "cast"):
        if d[0] == "icast":
            w = ev.INT_WIDTH.get(d[1])
            if w and w[0] < 32:
                narrowed = d[1]
        d = d[2]
    if isinstance(d, tuple) and len(d) == 4 and d[0] in ("iop", "sub") and (d[0] == "sub" or d[1] == "-"):
        x, y = (d[2], d[3]) if d[0] == "iop" else (d[1], d[2])
        if _leafname(x) is not None and _leafname(y) is not None:
            return x, y, narrowed
    if isinstance(d, tuple) and len(d) == 3 and d[0] == "sub" and _leafname(d[1]) is not None and _leafname(d[2]) is not None:
        return d[1], d[2], narrowed
    return None


def rewrite_differences(term, narrowed):
    """`(x - y) op 0` is `x op y` for the small integer and the floating-point component types (no wrap-around, and for
    floating point x - y is zero exactly when x == y on finite values); a difference narrowed below int first is recorded."""
    if not isinstance(term, tuple) or not term:
        return term
    if term[0] == "cmp" and len(term) == 4:
        for a, b, flip in ((term[2], term[3], False), (term[3], term[2], True)):
            if _is_zero(b):
                d = _difference(a)
                if d is not None:
                    x, y, nar = d
                    if nar and term[1] not in ("==", "!="):      # (wrap-around keeps zero / non-zero: == and != survive the narrowing)
                        narrowed.append((nar, term))
                    op = term[1]
                    if flip:
                        op = {"<": ">", ">": "<", "<=": ">=", ">=": "<="}.get(op, op)
                    return ("cmp", op, x, y)
        return term
    if term[0] in ("not", "and", "or", "g"):
        return (term[0],) + tuple(rewrite_differences(x, narrowed) for x in term[1:])
    return term


def decide(term, left_slots, right_slots, op):
    """term: boolean term of `left op right`; slots: lists of leaf names in declared order.
    Returns (ok, detail, n_cases).  Spec: lexicographic order over the slots.

    Every atom compares two component variables.  Same-slot atoms (left_i ? right_i) are the n three-valued relations
    the specification is written in.  An atom comparing a variable with itself is a constant on non-NaN values.  Any
    other pair of variables is one more three-valued relation; all assignments are enumerated and the infeasible ones
    (no values realise them) dropped, so a reported disagreement is always realisable."""
    n = len(left_slots)
    lidx = {s: i for i, s in enumerate(left_slots)}
    ridx = {s: i for i, s in enumerate(right_slots)}
    atoms = []
    narrowed = []
    term = rewrite_differences(term, narrowed)
    if narrowed:
        return (False, "the result is decided by the sign of a difference of two components that was first converted to %s: the difference of two such values "
                       "does not fit, it wraps around when they differ by half the range or more, and then the sign is the opposite of their order (%s)"
                % (narrowed[0][0], ev.show(narrowed[0][1])[:160]), 0)
    collect_atoms(term, atoms)

    def var(name):
        if name in lidx:
            return ("L", lidx[name])
        if name in ridx:
            return ("R", ridx[name])
        return None
    pairs = [(("L", i), ("R", i)) for i in range(n)]
    pidx = {p: i for i, p in enumerate(pairs)}
    amap = {}
    for a in atoms:
        x, y = _leafname(a[2]), _leafname(a[3])
        if x is None or y is None:
            raise Inconclusive("comparison of non-component terms: %s" % ev.show(a))
        vx, vy = var(x), var(y)
        if vx is None or vy is None:
            raise Inconclusive("comparison of something that is not a component of an operand: %s" % ev.show(a))
        if vx == vy:
            amap[a] = ("const", None)
            continue
        if (vx, vy) in pidx:
            amap[a] = (pidx[(vx, vy)], False)
        elif (vy, vx) in pidx:
            amap[a] = (pidx[(vy, vx)], True)
        else:
            pidx[(vx, vy)] = len(pairs)
            pairs.append((vx, vy))
            amap[a] = (pidx[(vx, vy)], False)
    extra = len(pairs) - n
    if extra > 6:
        raise Inconclusive("%d cross-slot comparisons: enumeration too large" % extra)
    used = sorted({i for i, _ in amap.values() if i != "const" and i < n})
    cases = 0
    for sigma in itertools.product("<=>", repeat=len(pairs)):
        if extra and not _feasible(pairs, sigma):
            continue
        cases += 1

        def rel_of(a, sigma=sigma):
            i, flipped = amap[a]
            if i == "const":
                return REL[a[1]]["="]
            r = sigma[i]
            if flipped:
                r = FLIP[r]
            return REL[a[1]][r]
        got = evaluate(term, rel_of)
        # lexicographic spec
        lex = "="
        for r in sigma[:n]:
            if r != "=":
                lex = r
                break
        want = REL[op][lex]
        if got != want:
            more = ""
            if extra:
                more = "; other relations: " + ", ".join("%s%d %s %s%d" % (a[0], a[1], r, b[0], b[1]) for (a, b), r in zip(pairs[n:], sigma[n:]))
            return False, "with slot relations %s (first differing slot decides: left %s right)%s the operator returns %s, lexicographic %s gives %s" % (
                "".join(sigma[:n]), lex, more, got, op, want), cases
    return True, "%d slot-relation assignments agree with the lexicographic order (slots compared: %s of %d)" % (cases, used, n), cases
