"""Affine domain over Q(pi): value -> A*value + B with A, B in Q[pi, 1/pi], plus a rounding counter."""
from fractions import Fraction
from .ev import Inconclusive

MANT = {"float": 24, "double": 53, "long double": 64}


def num(q, k=0):
    q = Fraction(q)
    return {k: q} if q != 0 else {}


def n_add(a, b, sign=1):
    out = dict(a)
    for k, v in b.items():
        out[k] = out.get(k, 0) + sign * v
        if out[k] == 0:
            del out[k]
    return out


def n_mul(a, b):
    out = {}
    for k1, v1 in a.items():
        for k2, v2 in b.items():
            out[k1 + k2] = out.get(k1 + k2, 0) + v1 * v2
    return {k: v for k, v in out.items() if v != 0}


def n_inv(a):
    if len(a) != 1:
        raise Inconclusive("division by a non-monomial in pi")
    (k, v), = a.items()
    return {-k: 1 / v}


def n_is_zero(a):
    return not a


def n_show(a):
    if not a:
        return "0"
    return " + ".join("%s%s" % (v, "" if k == 0 else "*pi^%d" % k) for k, v in sorted(a.items()))


def n_float(a):
    import math
    return sum(float(v) * math.pi ** k for k, v in a.items())


def rounded_pi(T):
    """The value of pi rounded to nearest in a binary format with T's significand (exact rational)."""
    from fractions import Fraction as Fr
    # pi to 60 decimal places is ample for 64-bit significands
    PI = Fr("3.141592653589793238462643383279502884197169399375105820974944")
    p = MANT[T]
    e = 1   # 2 <= pi < 4  => exponent 1
    scale = Fr(2) ** (p - 1 - e)
    return Fr(round(PI * scale)) / scale


def round_to(q, T):
    """q rounded to nearest (ties away; irrelevant here) in a binary format with T's significand."""
    from fractions import Fraction as Fr
    q = Fr(q)
    if q == 0:
        return q
    p = MANT[T]
    a = abs(q)
    e = 0
    while a >= 2:
        a /= 2
        e += 1
    while a < 1:
        a *= 2
        e -= 1
    scale = Fr(2) ** (p - 1 - e)
    r = Fr(round(abs(q) * scale)) / scale
    return r if q > 0 else -r


def representable(q, T):
    """Is the rational q exactly a binary floating-point number with T's significand width?"""
    q = Fraction(q)
    if q == 0:
        return True
    d = q.denominator
    if d & (d - 1):
        return False
    n = abs(q.numerator)
    while n % 2 == 0:
        n //= 2
    return n.bit_length() <= MANT[T]


class Affine:
    """A*v + B, with operation/rounding statistics."""

    def __init__(self, A, B, roundings=0, addsub=0):
        self.A, self.B, self.roundings, self.addsub = A, B, roundings, addsub

    def is_const(self):
        return n_is_zero(self.A)


def affine_of(term, leaf, T):
    """Interpret a scalar term as an affine function of the single leaf `leaf`."""
    if not isinstance(term, tuple):
        if isinstance(term, int):
            return Affine({}, num(term))
        raise Inconclusive("non-scalar in conversion body: %r" % (term,))
    k = term[0]
    if k == "leaf":
        if term[1] != leaf:
            raise Inconclusive("conversion reads another input: " + term[1])
        return Affine(num(1), {})
    if k == "c":
        return Affine({}, num(term[1]), 0 if representable(term[1], T) else 1)
    if k == "pi":
        pt = term[1] if len(term) > 1 else T
        if pt in MANT and MANT[pt] < MANT[T]:
            # pi rounded to a *narrower* type used in a wider computation: a different constant, not pi to T's precision
            return Affine({}, num(rounded_pi(pt)), 1)
        return Affine({}, num(1, 1), 1)
    if k == "cast":
        inner = affine_of(term[2], leaf, T)
        X = term[1]
        if inner.is_const() and X in MANT and MANT[X] < MANT[T] and set(inner.B.keys()) == {0} and not representable(inner.B[0], X):
            # a constant that passed through a narrower type keeps only that type's precision
            return Affine({}, num(round_to(inner.B[0], X)), inner.roundings, inner.addsub)
        return inner
    if k == "neg":
        x = affine_of(term[1], leaf, T)
        return Affine(n_mul(x.A, num(-1)), n_mul(x.B, num(-1)), x.roundings, x.addsub)
    if k in ("add", "sub"):
        x, y = affine_of(term[1], leaf, T), affine_of(term[2], leaf, T)
        s = 1 if k == "add" else -1
        both_const = x.is_const() and y.is_const()
        return Affine(n_add(x.A, y.A, s), n_add(x.B, y.B, s), x.roundings + y.roundings + 1,
                      x.addsub + y.addsub + (0 if both_const else 1))
    if k == "mul":
        x, y = affine_of(term[1], leaf, T), affine_of(term[2], leaf, T)
        if not x.is_const() and not y.is_const():
            raise Inconclusive("conversion is not affine (value*value)")
        if x.is_const():
            x, y = y, x
        return Affine(n_mul(x.A, y.B), n_mul(x.B, y.B), x.roundings + y.roundings + 1, x.addsub + y.addsub)
    if k == "div":
        x, y = affine_of(term[1], leaf, T), affine_of(term[2], leaf, T)
        if not y.is_const():
            raise Inconclusive("conversion divides by the value")
        if n_is_zero(y.B):
            raise Inconclusive("conversion divides by zero")
        inv = n_inv(y.B)
        return Affine(n_mul(x.A, inv), n_mul(x.B, inv), x.roundings + y.roundings + 1, x.addsub + y.addsub)
    if k == "fn" and term[1] == "pow" and len(term) == 4:
        x, y = affine_of(term[2], leaf, T), affine_of(term[3], leaf, T)
        if x.is_const() and y.is_const() and len(y.B) == 1 and 0 in y.B and y.B[0].denominator == 1 and len(x.B) == 1:
            n = int(y.B[0])
            (kk, v), = x.B.items()
            # libm pow is assumed faithful (< 1 ulp): counted as two roundings to stay conservative
            return Affine({}, {kk * n: v ** n}, x.roundings + 2, x.addsub)
        raise Inconclusive("pow with non-constant arguments in a conversion body")
    if k == "g":
        x, y = affine_of(term[2], leaf, T), affine_of(term[3], leaf, T)
        if x.A == y.A and x.B == y.B:
            return Affine(x.A, x.B, max(x.roundings, y.roundings), max(x.addsub, y.addsub))
        from . import ev as _ev
        raise Inconclusive("PIECEWISE: the converted value is (%s)*v + (%s) when %s and (%s)*v + (%s) otherwise: a conversion between two units is one "
                           "affine map for every value" % (n_show(x.A), n_show(x.B), _ev.show(term[1])[:80], n_show(y.A), n_show(y.B)))
    raise Inconclusive("conversion body uses %s%s" % (k, ":" + str(term[1]) if k == "fn" else ""))


def compose(f, g):
    """f after g."""
    return Affine(n_mul(f.A, g.A), n_add(n_mul(f.A, g.B), f.B), f.roundings + g.roundings, f.addsub + g.addsub)


# ------------------------------------------------------------------------------------------------
# exact machine evaluation of the constant part of a multiplicative conversion (round-to-nearest model)

def _pi_machine(T, pt):
    return rounded_pi(pt if pt in MANT else T)


def machine_const(term, T):
    """Value (exact rational) that IEEE round-to-nearest arithmetic in type T produces for a constant sub-term."""
    from fractions import Fraction as Fr
    if isinstance(term, int):
        return Fr(term)
    k = term[0]
    if k == "c":
        return round_to(term[1], T)
    if k == "pi":
        pt = term[1] if len(term) > 1 else T
        v = rounded_pi(pt if pt in MANT else T)
        return round_to(v, T)
    if k == "cast":
        X = term[1]
        inner = term[2]
        if isinstance(inner, tuple) and inner and inner[0] == "c":
            v = round_to(inner[1], X) if X in MANT else inner[1]
        else:
            v = machine_const(inner, X if X in MANT else T)
        return round_to(v, T)
    if k == "neg":
        return -machine_const(term[1], T)
    if k in ("add", "sub", "mul", "div"):
        a, b = machine_const(term[1], T), machine_const(term[2], T)
        if k == "add":
            r = a + b
        elif k == "sub":
            r = a - b
        elif k == "mul":
            r = a * b
        else:
            if b == 0:
                raise Inconclusive("constant division by zero")
            r = a / b
        return round_to(r, T)
    if k == "fn" and term[1] == "pow" and len(term) == 4:
        a = machine_const(term[2], T)
        e = term[3]
        e = e if isinstance(e, int) else (int(e[1]) if isinstance(e, tuple) and e[0] == "c" and e[1].denominator == 1 else None)
        if e is None:
            raise Inconclusive("pow with non-integer exponent")
        return round_to(a ** e, T)   # libm pow assumed correctly rounded here; one extra ulp is added by the caller
    raise Inconclusive("constant sub-term of kind %s" % k)


def has_leaf(term, leaf):
    if isinstance(term, tuple) and term:
        if term[0] == "leaf":
            return term[1] == leaf
        return any(has_leaf(x, leaf) for x in term)
    return False


def uses_pow(term):
    if isinstance(term, tuple) and term:
        if term[0] == "fn" and term[1] == "pow":
            return True
        return any(uses_pow(x) for x in term)
    return False


def machine_factor(term, leaf, T):
    """For a purely multiplicative body (value op constants): (effective machine factor as exact rational,
    number of roundings on the value path, extra ulps for libm calls)."""
    from fractions import Fraction as Fr
    if not has_leaf(term, leaf):
        raise Inconclusive("no value")
    k = term[0]
    if k == "leaf":
        return Fr(1), 0, 0
    if k == "cast":
        return machine_factor(term[2], leaf, T)
    if k in ("mul", "div"):
        l, r = term[1], term[2]
        if has_leaf(l, leaf) and not has_leaf(r, leaf):
            f, n, x = machine_factor(l, leaf, T)
            c = machine_const(r, T)
            return (f * c if k == "mul" else f / c), n + 1, x + (1 if uses_pow(r) else 0)
        if has_leaf(r, leaf) and not has_leaf(l, leaf) and k == "mul":
            f, n, x = machine_factor(r, leaf, T)
            c = machine_const(l, T)
            return f * c, n + 1, x + (1 if uses_pow(l) else 0)
    raise Inconclusive("value path is not a chain of * and / by constants")


def value_path_prefixes(term, leaf, T):
    """Machine factors after each operation on the value path (in evaluation order) of a multiplicative body."""
    from fractions import Fraction as Fr
    if not has_leaf(term, leaf):
        raise Inconclusive("no value")
    k = term[0]
    if k == "leaf":
        return []
    if k == "cast":
        return value_path_prefixes(term[2], leaf, T)
    if k in ("mul", "div"):
        l, r = term[1], term[2]
        if has_leaf(l, leaf) and not has_leaf(r, leaf):
            pre = value_path_prefixes(l, leaf, T)
            c = machine_const(r, T)
            last = pre[-1] if pre else Fr(1)
            return pre + [last * c if k == "mul" else last / c]
        if has_leaf(r, leaf) and not has_leaf(l, leaf) and k == "mul":
            pre = value_path_prefixes(r, leaf, T)
            c = machine_const(l, T)
            last = pre[-1] if pre else Fr(1)
            return pre + [last * c]
    raise Inconclusive("value path is not a chain of * and / by constants")
