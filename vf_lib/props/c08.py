"""C08 — enumeration tables are total, unambiguous and parse to the unit meant."""
from .. import facts, ev, affine
from ..units_model import UnitModel, U
from ..facts import short, strip_cvref
from ..frontend import NUMERIC


def non_literal_texts(F, init):
    """Descriptions of the text arguments of the table's pair constructors that are not string literals."""
    from .. import cg
    out = []

    def strip(n):
        while isinstance(n, dict) and (n.get("k") == "cast" or (n.get("k") == "ctor" and "basic_string_view" in (F.T(n.get("t", -1)) or "") and len(n.get("a", [])) == 1)
                                       or (n.get("k") == "ilist" and len(n.get("e", [])) == 1)):
            n = n.get("e") if n.get("k") == "cast" else (n["a"][0] if n.get("k") == "ctor" else n["e"][0])
        return n

    def visit(n):
        if n.get("k") == "ctor" and strip_cvref(F.T(n.get("t", -1)) or "").startswith("std::pair<") and "basic_string_view" in (F.T(n["t"]) or ""):
            for a in n.get("a", []):
                b = strip(a)
                t = strip_cvref(F.T(b.get("t", -1)) or "") if isinstance(b, dict) else ""
                is_text = isinstance(b, dict) and (b.get("k") == "slit" or "basic_string" in t or t.startswith("const char") or t.startswith("char"))
                if is_text and b.get("k") != "slit":
                    g = F.fns.get(b.get("f", -1), {}) if isinstance(b, dict) else {}
                    out.append("a call of %s" % g.get("name", "?")[:60] if b.get("k") == "call" else "a %s expression" % b.get("k"))
    cg.walk(init, visit)
    return out


def run(chk):
    chk.level = "proof"
    chk.technique = ("table rules over the AST initialisers of Abbreviations/Spellings/MapOfConversions* versus the EnumDecls; "
                     "each spelling parsed by the independent unit grammar and compared in magnitude with its enumerator's symbol; "
                     "term evaluation of operator<<, Abbreviation, ParseEnumeration for the lookup idioms")
    chk.rule("R1", "enumerators of E = keys of Abbreviations<E> (and of both conversion maps for unit enums, each numeric type)")
    chk.rule("R2", "abbreviations are distinct within a type; no spelling key occurs twice with different enumerators")
    chk.rule("R3", "Spellings<E>[Abbreviation(e)] = e for every enumerator")
    chk.rule("R4", "every spelling the unit grammar can read denotes the magnitude (and offset) of the enumerator it maps to")
    chk.rule("R6", "every text stored in Abbreviations<E> / Spellings<E> (tables of std::string_view) is a string literal")
    chk.rule("R5", "operator<<(ostream, e) inserts exactly Abbreviation(e); ParseEnumeration is a checked find (nullopt when absent); Abbreviation reads Abbreviations<E>[e]")
    chk.assumptions += ["spellings containing an atom unknown to oracle/units.py are counted as undecided (never as violations); the decided fraction has a floor",
                        "std::map / std::unordered_map semantics: the first of several equal keys in an initializer_list wins"]
    F = facts.load("double", chk.tier)
    M = UnitModel(F)
    n_enums = n_enumerators = n_spell = n_decided = 0
    undecided = []
    def in_scope(et):
        return (et.startswith("PhQ::Unit::") or et in ("PhQ::UnitSystem", "PhQ::ConstitutiveModel::Type")
                or any(M.T.var(kind, et) is not None for kind in ("abbr", "spell")))

    for et in M.T.enum_types():
        if et.startswith("PhQ::Dimension"):
            continue
        if not (et.startswith("PhQ::Unit::") or et in ("PhQ::UnitSystem", "PhQ::ConstitutiveModel::Type")
                or any(M.T.var(kind, et) is not None for kind in ("abbr", "spell"))):
            # the statement is about the unit types, the unit-system type and the constitutive-model type (and, so that a
            # new table is never skipped, any enumeration an abbreviation or spelling table is specialised for): a helper
            # enumeration without tables that is never printed or parsed is outside it
            chk.observe("enumeration %s has no abbreviation/spelling table and is not a unit, unit-system or model type: outside C08" % et)
            continue
        n_enums += 1
        se = et.replace("PhQ::", "")
        names = M.T.enumerators(et)
        n_enumerators += len(names)
        eloc = short(F.enums[et]["loc"])
        arow = M.T.rows("abbr", et)
        avar = M.T.var("abbr", et)
        aloc = short(avar["loc"]) if avar else eloc
        if arow is None:
            chk.violated("R1", se + ":abbr", "no Abbreviations table for this enumeration (Abbreviation(e) dereferences end())", eloc)
            continue
        akeys = [k[2] for k, v in arow if isinstance(k, tuple)]
        missing = [n for n in names if n not in akeys]
        extra_dup = sorted({k for k in akeys if akeys.count(k) > 1})
        if missing or extra_dup:
            chk.violated("R1", se + ":abbr", "enumerators without abbreviation: %s; duplicated keys: %s" % (missing, extra_dup), aloc)
        else:
            chk.holds("R1", se + ":abbr", "%d enumerators, %d keys" % (len(names), len(akeys)), aloc)
        abbr = {}
        for k, v in arow:
            if isinstance(k, tuple) and isinstance(v, str):
                abbr.setdefault(k[2], v)
        # R2a distinct abbreviations
        seen = {}
        for n, a in abbr.items():
            seen.setdefault(a, []).append(n)
        clash = {a: ns for a, ns in seen.items() if len(ns) > 1}
        if clash:
            chk.violated("R2", se + ":abbr-unique", "abbreviations shared by several enumerators: %s" % clash, aloc)
        else:
            chk.holds("R2", se + ":abbr-unique", "%d distinct abbreviations" % len(seen), aloc)
        bad_chars = {n: a for n, a in abbr.items() if any(c in a for c in '"\\') or any(ord(c) < 32 for c in a) or a == ""}
        if bad_chars:
            chk.violated("R2", se + ":abbr-chars", "abbreviations that are empty or contain a quote, backslash or control character (break JSON/YAML output): %s" % bad_chars, aloc)
        # spellings
        srow = M.T.rows("spell", et)
        svar = M.T.var("spell", et)
        sloc = short(svar["loc"]) if svar else eloc
        if srow is None:
            chk.violated("R3", se, "no Spellings table: nothing parses", eloc)
            continue
        # R6: the string_view keys/values of the tables must refer to string literals (static storage)
        for var_ in (avar, svar):
            if var_ is None or var_.get("init") is None:
                continue
            bad = non_literal_texts(F, var_["init"])
            if bad:
                chk.violated("R6", "%s:%s" % (se, var_["name"].split("<")[0].split("::")[-1]),
                             "%d row(s) take their text from %s instead of a string literal: the table stores std::string_view, so text "
                             "computed into a std::string is gone when the initialiser finishes and the row can never be found" % (len(bad), bad[0]), short(var_["loc"]))
            else:
                chk.holds("R6", "%s:%s" % (se, var_["name"].split("<")[0].split("::")[-1]), "every text is a string literal", short(var_["loc"]), nontrivial=False)
        first = {}
        for k, v in srow:
            if not (isinstance(k, str) and isinstance(v, tuple)):
                chk.inconclusive("R2", se + ":row", "spelling row is not (string, enumerator): %r" % ((k, v),), sloc)
                continue
            if k in first and first[k] != v[2]:
                chk.violated("R2", "%s:spelling:%s" % (se, k), "key %r listed for %s and again for %s: unordered_map keeps only the first" % (k, first[k], v[2]), sloc)
            elif k in first:
                chk.observe("harmless duplicate spelling %r -> %s in %s" % (k, v[2], se))
            first.setdefault(k, v[2])
        chk.holds("R2", se + ":spellings", "%d keys, no conflicting duplicates" % len(first), sloc) if not any(o["rule"] == "R2" and o["status"] == "violated" and o["instance"].startswith(se + ":spelling:") for o in chk.obs) else None
        # R3 round trip
        for n in names:
            a = abbr.get(n)
            if a is None:
                continue
            if first.get(a) != n:
                chk.violated("R3", "%s::%s" % (se, n), "abbreviation %r parses to %s" % (a, first.get(a, "nothing")), sloc)
            else:
                chk.holds("R3", "%s::%s" % (se, n), "%r -> %s" % (a, n), sloc)
        # R4 meaning
        if et.startswith("PhQ::Unit::"):
            is_temp = se == "Unit::Temperature"
            for sp, target in first.items():
                n_spell += 1
                inst = "%s:%r" % (se, sp)
                ms_t, err_t = M.oracle_mag(et, abbr.get(target, ""))
                if err_t or not ms_t:
                    chk.inconclusive("R4", inst, "symbol of target %s: %s" % (target, err_t), sloc)
                    continue
                ms, err = M.oracle_mag(et, sp, primary_only=False)
                if ms is None:
                    undecided.append((se, sp, err))
                    continue
                n_decided += 1
                if not ms:
                    chk.violated("R4", inst, "spelling does not denote a unit of this type: %s (mapped to %s)" % (err, target), sloc)
                    continue
                want = (ms_t[0].q, ms_t[0].k)
                if not any((m.q, m.k) == want for m in ms):
                    others = [n for n in names if any((mm.q, mm.k) == (M.oracle_mag(et, abbr.get(n, ""))[0] or [U.Mag(0)])[0:1] and False for mm in ms)]
                    same = []
                    for n in names:
                        mm, e2 = M.oracle_mag(et, abbr.get(n, ""))
                        if mm and any((x.q, x.k) == (mm[0].q, mm[0].k) for x in ms):
                            same.append(n)
                    chk.violated("R4", inst, "spelling denotes %s x SI but is mapped to %s (%r = %s x SI; ratio %.6g)%s" % (
                        _fmt(ms[0]), target, abbr.get(target), _fmt(ms_t[0]), float(ms[0].q / ms_t[0].q) * (3.141592653589793 ** (ms[0].k - ms_t[0].k)),
                        "; it is the magnitude of " + ",".join(same) if same else ""), sloc)
                    continue
                if is_temp:
                    o1 = U.TEMPERATURE_OFFSETS.get(sp)
                    o2 = U.TEMPERATURE_OFFSETS.get(abbr.get(target))
                    if o1 is not None and o2 is not None and o1 != o2:
                        chk.violated("R4", inst, "temperature spelling with zero offset %s mapped to %s with zero offset %s" % (o1, target, o2), sloc)
                        continue
                chk.holds("R4", inst, "%s = %s x SI -> %s" % (sp, _fmt(ms[0]), target), sloc, nontrivial=(sp != abbr.get(target)))
    # R1 for conversion maps (all numeric types)
    for T in NUMERIC:
        FT = F if T == "double" else facts.load(T, chk.tier)
        MT = M if T == "double" else UnitModel(FT)
        for ut in MT.unit_types():
            names = MT.T.enumerators(ut)
            for kind in ("to_std", "from_std"):
                rows = MT.T.rows(kind, ut)
                var = MT.T.var(kind, ut)
                inst = "%s<%s,%s>" % (kind, MT.short(ut), T)
                loc = short(var["loc"]) if var else short(FT.enums[ut]["loc"])
                if rows is None:
                    chk.violated("R1", inst, "conversion map not defined", loc)
                    continue
                keys = [k[2] for k, v in rows if isinstance(k, tuple)]
                missing = [n for n in names if n not in keys]
                if missing:
                    chk.violated("R1", inst, "enumerators without a conversion entry: %s (find()->second dereferences end())" % missing, loc)
                else:
                    chk.holds("R1", inst, "%d keys" % len(keys), loc)
    # R5 idioms
    for et in M.T.enum_types():
        if et.startswith("PhQ::Dimension") or not in_scope(et):
            continue
        se = et.replace("PhQ::", "")
        avar = M.T.var("abbr", et)
        svar = M.T.var("spell", et)
        # Abbreviation<E>
        fs = F.by_name.get("PhQ::Abbreviation<%s>" % et, [])
        sym = None
        if len(fs) == 1 and avar is not None:
            try:
                E = ev.Evaluator(F)
                r, _, _ = E.run_symbolic(fs[0])
                sym = ("enumsym", et, "enumeration")
                ok = _unwrap_sv(r) == ("fn", "lookup", ("table", avar["id"]), sym)
                (chk.holds if ok else chk.violated)("R5", "Abbreviation<%s>" % se, "returns " + ev.show(r)[:200], short(fs[0]["loc"]))
            except ev.Inconclusive as x:
                chk.inconclusive("R5", "Abbreviation<%s>" % se, str(x), short(fs[0]["loc"]))
        else:
            chk.inconclusive("R5", "Abbreviation<%s>" % se, "not instantiated", "")
        # operator<<
        ops = [f for f in F.by_name.get("PhQ::operator<<", []) if len(f["params"]) == 2 and ev.strip_cvref(F.T(f["params"][1]["t"])) == et]
        if len(ops) == 1 and avar is not None:
            f = ops[0]
            try:
                E = ev.Evaluator(F)
                r, _, args = E.run_symbolic(f)
                st = E.load(args[0])
                pname = f["params"][1]["n"]
                want = ("fn", "lookup", ("table", avar["id"]), ("enumsym", et, pname))
                ok = isinstance(st, ev.Obj) and st.type == "std::ostream" and tuple(_unwrap_sv(x) for x in st.f["out"].items) == (want,) and isinstance(r, ev.LV) and r.loc == args[0].loc
                if not ok:
                    # not the lookup idiom (a switch, literals, ...): decide it enumerator by enumerator against the table
                    rows = dict((k[2], v) for k, v in (M.T.rows("abbr", et) or []) if isinstance(k, tuple))
                    wrong = []
                    for en in M.T.enumerators(et):
                        E2 = ev.Evaluator(F)
                        r2, _, a2 = E2.run_symbolic(f, concrete={1: ("enum", et, en)})
                        st2 = E2.load(a2[0])
                        items = [_unwrap_sv(x) for x in st2.f["out"].items] if isinstance(st2, ev.Obj) and st2.type == "std::ostream" else None
                        text = None
                        if items is not None and len(items) == 1:
                            it = items[0]
                            if isinstance(it, ev.Str) and all(isinstance(p_, str) for p_ in it.parts):
                                text = "".join(it.parts)
                            elif isinstance(it, str):
                                text = it
                        if text != rows.get(en) or not (isinstance(r2, ev.LV) and r2.loc == a2[0].loc):
                            wrong.append("%s inserts %r, Abbreviation gives %r" % (en, text if text is not None else ev.show(st2)[:80], rows.get(en)))
                    if wrong:
                        chk.violated("R5", "operator<<(%s)" % se, "; ".join(wrong[:3]), short(f["loc"]))
                    else:
                        chk.holds("R5", "operator<<(%s)" % se, "inserts the abbreviation of each of the %d enumerators (decided one by one)" % len(rows), short(f["loc"]))
                else:
                    chk.holds("R5", "operator<<(%s)" % se, "stream receives %s" % ev.show(st)[:300], short(f["loc"]))
            except ev.Inconclusive as x:
                chk.inconclusive("R5", "operator<<(%s)" % se, str(x), short(f["loc"]))
        elif et == "PhQ::ConstitutiveModel::Type" and not ops:
            chk.observe("no operator<< is declared for ConstitutiveModel::Type (streaming clause vacuous for it)")
        else:
            chk.violated("R5", "operator<<(%s)" % se, "expected exactly one stream insertion operator for this enumeration, found %d" % len(ops), short(F.enums[et]["loc"]))
        # ParseEnumeration<E>
        fs = F.by_name.get("PhQ::ParseEnumeration<%s>" % et, [])
        if len(fs) == 1 and svar is not None:
            f = fs[0]
            try:
                E = ev.Evaluator(F)
                r, _, _ = E.run_symbolic(f)
                key = ev.Str([("strsym", f["params"][0]["n"])])
                found = ("b", "found", svar["id"], key)
                ok = (isinstance(r, tuple) and r[0] == "opt" and ev.assume(r[1], found, True) is True and ev.assume(r[1], found, False) is False
                      and ev.assume(r[2], found, True) == ("fn", "lookup", ("table", svar["id"]), key))
                (chk.holds if ok else chk.violated)("R5", "ParseEnumeration<%s>" % se, "returns " + ev.show(r)[:300], short(f["loc"]))
            except ev.Inconclusive as x:
                mut = mutations_of_parameter(F, f, 0)
                if mut:
                    # the lookup is not on the string that was given: some string that is not an accepted spelling then parses
                    # (and an accepted spelling that the rewriting alters no longer does), whatever the rewriting is
                    chk.violated("R5", "ParseEnumeration<%s>" % se, "the spelling is modified before it is looked up (%s): the table is not searched for the string that was given, "
                                 "so strings that are not accepted spellings can parse to an enumerator and accepted spellings can stop parsing" % ", ".join(mut[:3]), short(f["loc"]))
                else:
                    chk.inconclusive("R5", "ParseEnumeration<%s>" % se, str(x), short(f["loc"]))
        else:
            chk.inconclusive("R5", "ParseEnumeration<%s>" % se, "not instantiated", "")
    chk.floor("enumeration types", n_enums, 39)
    chk.floor("enumerators", n_enumerators, 520)
    chk.floor("unit spellings", n_spell, 1800)
    chk.floor("spellings decided by the grammar (of %d)" % n_spell, n_decided, int(0.95 * n_spell))
    chk.coverage["spellings"] = n_spell
    chk.coverage["spellings_decided"] = n_decided
    chk.coverage["spellings_undecided"] = [{"type": a, "spelling": b, "why": c} for a, b, c in undecided[:60]]


def mutations_of_parameter(F, f, index):
    """Non-const member calls on, and assignments to, parameter `index` of f (through casts and parentheses)."""
    from .. import cg
    out = []

    def is_param(o):
        while isinstance(o, dict) and o.get("k") in ("cast", "paren"):
            o = o.get("e")
        return isinstance(o, dict) and o.get("k") == "parm" and o.get("i") == index and o.get("fn", f["id"]) == f["id"]

    def visit(n):
        k = n.get("k")
        if k == "call" and "obj" in n and is_param(n["obj"]):
            g = F.fns.get(n.get("f"))
            if g is not None and g.get("kind") == "method" and not g.get("const") and not g.get("static"):
                out.append("%s()" % g["sname"])
        if (k == "cassign" or (k == "bin" and n.get("op") == "=")) and is_param(n.get("l")):
            out.append("assignment")
        if k == "call" and "obj" not in n and n.get("a") and F.fns.get(n.get("f"), {}).get("op") in ("=", "+=") and is_param(n["a"][0]):
            out.append("operator%s" % F.fns[n["f"]]["op"])
    cg.walk(f.get("body"), visit)
    return out


def _unwrap_sv(v):
    if isinstance(v, ev.Str) and len(v.parts) == 1 and isinstance(v.parts[0], tuple) and v.parts[0][0] == "sv":
        return v.parts[0][1]
    return v


def _fmt(m):
    return "%s%s" % (m.q if m.q.denominator < 10 ** 6 else "%.12g" % float(m.q), "*pi^%d" % m.k if m.k else "")
