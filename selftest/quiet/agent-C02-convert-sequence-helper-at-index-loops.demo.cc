// Differential program for the C02q refactor: exercises every conversion entry point and prints
// every result in hexadecimal floating-point form.
#include <PhQ/Angle.hpp>
#include <PhQ/Energy.hpp>
#include <PhQ/Length.hpp>
#include <PhQ/Mass.hpp>
#include <PhQ/PlanarPosition.hpp>
#include <PhQ/Position.hpp>
#include <PhQ/Frequency.hpp>
#include <PhQ/Stress.hpp>
#include <PhQ/Temperature.hpp>
#include <PhQ/Time.hpp>
#include <PhQ/VelocityGradient.hpp>

#include <array>
#include <cmath>
#include <cstdint>
#include <cstdio>
#include <limits>
#include <random>
#include <string>
#include <vector>

namespace {

void Put(const float v) { std::printf(" %a", static_cast<double>(v)); }
void Put(const double v) { std::printf(" %a", v); }
void Put(const long double v) { std::printf(" %La", v); }

template <typename T, std::size_t N>
void Put(const std::array<T, N>& a) {
  for (const T v : a) Put(v);
}
template <typename T>
void Put(const std::vector<T>& a) {
  for (const T v : a) Put(v);
}
template <typename T> void Put(const PhQ::PlanarVector<T>& v) { Put(v.x_y()); }
template <typename T> void Put(const PhQ::Vector<T>& v) { Put(v.x_y_z()); }
template <typename T> void Put(const PhQ::SymmetricDyad<T>& v) { Put(v.xx_xy_xz_yy_yz_zz()); }
template <typename T> void Put(const PhQ::Dyad<T>& v) { Put(v.xx_xy_xz_yx_yy_yz_zx_zy_zz()); }

template <typename T> const char* Name();
template <> const char* Name<float>() { return "f"; }
template <> const char* Name<double>() { return "d"; }
template <> const char* Name<long double>() { return "ld"; }

template <typename T>
std::vector<T> Samples(const unsigned seed) {
  std::vector<T> s{
      static_cast<T>(0.0), static_cast<T>(-0.0), static_cast<T>(1.0), static_cast<T>(-1.0),
      std::numeric_limits<T>::min(), -std::numeric_limits<T>::min(),
      std::numeric_limits<T>::denorm_min(), std::numeric_limits<T>::max(),
      -std::numeric_limits<T>::max(), std::numeric_limits<T>::epsilon(),
      std::numeric_limits<T>::infinity(), -std::numeric_limits<T>::infinity(),
      static_cast<T>(273.15L), static_cast<T>(-459.67L), static_cast<T>(1.0e-20L),
      static_cast<T>(1.0e20L), static_cast<T>(0.1L), static_cast<T>(3.0L)};
  std::mt19937_64 gen(seed);
  std::uniform_real_distribution<double> mant(-10.0, 10.0);
  std::uniform_int_distribution<int> expo(-30, 30);
  for (int i = 0; i < 40; ++i) {
    s.push_back(static_cast<T>(std::ldexp(mant(gen), expo(gen))));
  }
  return s;
}

// Free convert functions on every container form, for every ordered pair of units.
template <typename U, typename T>
void FreeFunctions(const char* tag) {
  const std::vector<T> s = Samples<T>(12345U);
  std::vector<U> units;
  for (const auto& entry : PhQ::Internal::Abbreviations<U>) units.push_back(entry.first);
  for (const U a : units) {
    for (const U b : units) {
      std::printf("%s %s %d->%d\n", tag, Name<T>(), static_cast<int>(a), static_cast<int>(b));
      // scalars: copying and in-place
      std::printf("S");
      for (const T v : s) {
        const T copy = v;
        Put(PhQ::Convert(v, a, b));
        T w = v;
        PhQ::ConvertInPlace(w, a, b);
        Put(w);
        Put(copy);
      }
      std::printf("\n");
      // std::vector of all samples, also an empty one
      {
        const std::vector<T> in = s;
        std::printf("V");
        Put(PhQ::Convert(in, a, b));
        Put(in);
        std::vector<T> io = s;
        PhQ::ConvertInPlace(io, a, b);
        Put(io);
        std::vector<T> empty;
        PhQ::ConvertInPlace(empty, a, b);
        std::printf(" n=%zu n=%zu\n", PhQ::Convert(empty, a, b).size(), empty.size());
      }
      // fixed arrays and shapes built from sliding windows of distinct samples
      std::printf("A");
      for (std::size_t i = 0; i + 9 <= s.size(); i += 3) {
        const std::array<T, 1> a1{s[i]};
        const std::array<T, 2> a2{s[i], s[i + 1]};
        const std::array<T, 3> a3{s[i], s[i + 1], s[i + 2]};
        const std::array<T, 5> a5{s[i], s[i + 1], s[i + 2], s[i + 3], s[i + 4]};
        const std::array<T, 6> a6{s[i], s[i + 1], s[i + 2], s[i + 3], s[i + 4], s[i + 5]};
        const std::array<T, 9> a9{
            s[i], s[i + 1], s[i + 2], s[i + 3], s[i + 4], s[i + 5], s[i + 6], s[i + 7], s[i + 8]};
        Put(PhQ::Convert(a1, a, b));
        Put(PhQ::Convert(a2, a, b));
        Put(PhQ::Convert(a3, a, b));
        Put(PhQ::Convert(a5, a, b));
        Put(a5);
        std::array<T, 5> m5 = a5;
        PhQ::ConvertInPlace(m5, a, b);
        Put(m5);
        std::array<T, 0> a0{};
        PhQ::ConvertInPlace(a0, a, b);

        const PhQ::PlanarVector<T> pv{a2};
        const PhQ::Vector<T> vv{a3};
        const PhQ::SymmetricDyad<T> sd{a6};
        const PhQ::Dyad<T> dd{a9};
        Put(PhQ::Convert(pv, a, b));
        Put(pv);
        Put(PhQ::Convert(vv, a, b));
        Put(vv);
        Put(PhQ::Convert(sd, a, b));
        Put(sd);
        Put(PhQ::Convert(dd, a, b));
        Put(dd);
        PhQ::PlanarVector<T> mpv{pv};
        PhQ::Vector<T> mvv{vv};
        PhQ::SymmetricDyad<T> msd{sd};
        PhQ::Dyad<T> mdd{dd};
        PhQ::ConvertInPlace(mpv, a, b);
        PhQ::ConvertInPlace(mvv, a, b);
        PhQ::ConvertInPlace(msd, a, b);
        PhQ::ConvertInPlace(mdd, a, b);
        Put(mpv);
        Put(mvv);
        Put(msd);
        Put(mdd);
      }
      std::printf("\n");
    }
  }
}

// Quantity classes: construction in a unit, Value(unit), Print / JSON / XML / YAML in a unit.
template <template <typename> class Q, typename U, typename T>
void ScalarQuantity(const char* tag) {
  const std::vector<T> s = Samples<T>(777U);
  for (const auto& entry : PhQ::Internal::Abbreviations<U>) {
    const U u = entry.first;
    for (const auto& entry2 : PhQ::Internal::Abbreviations<U>) {
      const U r = entry2.first;
      std::printf("%s %s %d/%d", tag, Name<T>(), static_cast<int>(u), static_cast<int>(r));
      for (const T v : s) {
        const Q<T> q(v, u);
        Put(q.Value());
        Put(q.Value(r));
        Put(q.Value(u));
        std::printf(" [%s|%s|%s|%s|%s]", q.Print(r).c_str(), q.JSON(r).c_str(), q.XML(r).c_str(),
                    q.YAML(r).c_str(), q.Print().c_str());
      }
      std::printf("\n");
    }
  }
}

template <typename Q, typename Shape, typename U>
void ShapedQuantity(const char* tag, const char* type, const std::vector<Shape>& shapes) {
  for (const auto& entry : PhQ::Internal::Abbreviations<U>) {
    const U u = entry.first;
    for (const auto& entry2 : PhQ::Internal::Abbreviations<U>) {
      const U r = entry2.first;
      std::printf("%s %s %d/%d", tag, type, static_cast<int>(u), static_cast<int>(r));
      for (const Shape& shape : shapes) {
        const Q q(shape, u);
        Put(q.Value());
        Put(q.Value(r));
        Put(shape);
        std::printf(" [%s|%s|%s|%s]", q.Print(r).c_str(), q.JSON(r).c_str(), q.XML(r).c_str(),
                    q.YAML(r).c_str());
      }
      std::printf("\n");
    }
  }
}

template <typename T>
void Shaped() {
  const std::vector<T> s = Samples<T>(4242U);
  std::vector<PhQ::PlanarVector<T>> pvs;
  std::vector<PhQ::Vector<T>> vs;
  std::vector<PhQ::SymmetricDyad<T>> sds;
  std::vector<PhQ::Dyad<T>> ds;
  for (std::size_t i = 0; i + 9 <= s.size(); i += 4) {
    pvs.emplace_back(s[i], s[i + 1]);
    vs.emplace_back(s[i], s[i + 1], s[i + 2]);
    sds.emplace_back(s[i], s[i + 1], s[i + 2], s[i + 3], s[i + 4], s[i + 5]);
    ds.emplace_back(s[i], s[i + 1], s[i + 2], s[i + 3], s[i + 4], s[i + 5], s[i + 6], s[i + 7],
                    s[i + 8]);
  }
  ShapedQuantity<PhQ::PlanarPosition<T>, PhQ::PlanarVector<T>, PhQ::Unit::Length>(
      "PlanarPosition", Name<T>(), pvs);
  ShapedQuantity<PhQ::Position<T>, PhQ::Vector<T>, PhQ::Unit::Length>("Position", Name<T>(), vs);
  ShapedQuantity<PhQ::Stress<T>, PhQ::SymmetricDyad<T>, PhQ::Unit::Pressure>(
      "Stress", Name<T>(), sds);
  ShapedQuantity<PhQ::VelocityGradient<T>, PhQ::Dyad<T>, PhQ::Unit::Frequency>(
      "VelocityGradient", Name<T>(), ds);
}

// Compile-time paths.
template <typename T>
void Static() {
  using UL = PhQ::Unit::Length;
  using UT = PhQ::Unit::Temperature;
  using UP = PhQ::Unit::Pressure;
  using UF = PhQ::Unit::Frequency;
  const std::vector<T> s = Samples<T>(99U);
  std::printf("static %s", Name<T>());
  for (std::size_t i = 0; i + 9 <= s.size(); i += 2) {
    const T v = s[i];
    Put(PhQ::ConvertStatically<UL, UL::Foot, UL::Mile>(v));
    Put(PhQ::ConvertStatically<UL, UL::Metre, UL::Metre>(v));
    Put(PhQ::ConvertStatically<UL, UL::Inch, UL::Millimetre>(v));
    Put(PhQ::ConvertStatically<UT, UT::Fahrenheit, UT::Celsius>(v));
    Put(PhQ::ConvertStatically<UT, UT::Rankine, UT::Kelvin>(v));
    const std::array<T, 4> a4{s[i], s[i + 1], s[i + 2], s[i + 3]};
    Put(PhQ::ConvertStatically<UL, UL::Yard, UL::Centimetre>(a4));
    Put(PhQ::ConvertStatically<UT, UT::Celsius, UT::Fahrenheit>(a4));
    Put(a4);
    const PhQ::PlanarVector<T> pv{s[i], s[i + 1]};
    const PhQ::Vector<T> vv{s[i], s[i + 1], s[i + 2]};
    const PhQ::SymmetricDyad<T> sd{s[i], s[i + 1], s[i + 2], s[i + 3], s[i + 4], s[i + 5]};
    const PhQ::Dyad<T> dd{s[i],     s[i + 1], s[i + 2], s[i + 3], s[i + 4],
                          s[i + 5], s[i + 6], s[i + 7], s[i + 8]};
    Put(PhQ::ConvertStatically<UL, UL::Mile, UL::Kilometre>(pv));
    Put(PhQ::ConvertStatically<UL, UL::Micrometre, UL::Foot>(vv));
    Put(PhQ::ConvertStatically<UP, UP::PoundPerSquareInch, UP::Kilopascal>(sd));
    Put(PhQ::ConvertStatically<UF, UF::PerMinute, UF::Kilohertz>(dd));
    Put(pv);
    Put(vv);
    Put(sd);
    Put(dd);
    const auto length = PhQ::Length<T>::template Create<UL::Foot>(v);
    Put(length.Value());
    Put(length.template StaticValue<UL::Inch>());
    Put(length.Value(UL::Inch));
    const auto temperature = PhQ::Temperature<T>::template Create<UT::Fahrenheit>(v);
    Put(temperature.Value());
    Put(temperature.template StaticValue<UT::Celsius>());
    Put(temperature.Value(UT::Celsius));
    const auto position = PhQ::Position<T>::template Create<UL::Mile>(vv);
    Put(position.Value());
    Put(position.template StaticValue<UL::Yard>());
    Put(position.Value(UL::Yard));
    const auto stress = PhQ::Stress<T>::template Create<UP::Bar>(sd);
    Put(stress.Value());
    Put(stress.template StaticValue<UP::Atmosphere>());
    Put(stress.Value(UP::Atmosphere));
  }
  std::printf("\n");
}

constexpr double kStaticFootToInch =
    PhQ::ConvertStatically<PhQ::Unit::Length, PhQ::Unit::Length::Foot, PhQ::Unit::Length::Inch>(
        2.5);
constexpr std::array<double, 3> kStaticArray =
    PhQ::ConvertStatically<PhQ::Unit::Temperature, PhQ::Unit::Temperature::Celsius,
                           PhQ::Unit::Temperature::Fahrenheit>(
        std::array<double, 3>{-40.0, 0.0, 100.0});

template <typename T>
void All() {
  FreeFunctions<PhQ::Unit::Length, T>("Length");
  FreeFunctions<PhQ::Unit::Temperature, T>("Temperature");
  FreeFunctions<PhQ::Unit::Time, T>("Time");
  FreeFunctions<PhQ::Unit::Angle, T>("Angle");
  FreeFunctions<PhQ::Unit::Mass, T>("Mass");
  FreeFunctions<PhQ::Unit::Pressure, T>("Pressure");
  FreeFunctions<PhQ::Unit::Frequency, T>("Frequency");
  ScalarQuantity<PhQ::Length, PhQ::Unit::Length, T>("QLength");
  ScalarQuantity<PhQ::Temperature, PhQ::Unit::Temperature, T>("QTemperature");
  ScalarQuantity<PhQ::Time, PhQ::Unit::Time, T>("QTime");
  ScalarQuantity<PhQ::Angle, PhQ::Unit::Angle, T>("QAngle");
  ScalarQuantity<PhQ::Mass, PhQ::Unit::Mass, T>("QMass");
  ScalarQuantity<PhQ::Energy, PhQ::Unit::Energy, T>("QEnergy");
  Shaped<T>();
  Static<T>();
}

}  // namespace

int main() {
  All<float>();
  All<double>();
  All<long double>();
  std::printf("constexpr");
  Put(kStaticFootToInch);
  Put(kStaticArray);
  std::printf("\n");
  return 0;
}
