// Differential driver for the C09 refactor: prints every result as hexfloat.
#include <PhQ/Angle.hpp>
#include <PhQ/Direction.hpp>
#include <PhQ/Dyad.hpp>
#include <PhQ/PlanarDirection.hpp>
#include <PhQ/PlanarVector.hpp>
#include <PhQ/SymmetricDyad.hpp>
#include <PhQ/Vector.hpp>

#include <cstdint>
#include <cstdio>
#include <cstring>
#include <functional>
#include <limits>
#include <optional>
#include <random>
#include <string>
#include <vector>

namespace {

void P(const float v) { std::printf(" %a", static_cast<double>(v)); }
void P(const double v) { std::printf(" %a", v); }
void P(const long double v) { std::printf(" %La", v); }

template <typename T> void P(const PhQ::PlanarVector<T>& v) { P(v.x()); P(v.y()); }
template <typename T> void P(const PhQ::Vector<T>& v) { P(v.x()); P(v.y()); P(v.z()); }
template <typename T> void P(const PhQ::SymmetricDyad<T>& s) {
  P(s.xx()); P(s.xy()); P(s.xz()); P(s.yx()); P(s.yy()); P(s.yz()); P(s.zx()); P(s.zy()); P(s.zz());
}
template <typename T> void P(const PhQ::Dyad<T>& d) {
  P(d.xx()); P(d.xy()); P(d.xz()); P(d.yx()); P(d.yy()); P(d.yz()); P(d.zx()); P(d.zy()); P(d.zz());
}
template <typename U> void P(const std::optional<U>& o) {
  if (o.has_value()) { std::printf(" some"); P(o.value()); } else { std::printf(" none"); }
}
void P(const bool b) { std::printf(" %d", b ? 1 : 0); }
void P(const std::string& s) { std::printf(" [%s]", s.c_str()); }
void P(const std::size_t h) { std::printf(" %zu", h); }

template <typename X> void L(const char* tag, const X& x) {
  std::printf("%s", tag);
  P(x);
  std::printf("\n");
}

template <typename T> std::vector<T> EdgeValues() {
  using lim = std::numeric_limits<T>;
  return {static_cast<T>(0), -static_cast<T>(0), static_cast<T>(1), static_cast<T>(-1),
          static_cast<T>(2), static_cast<T>(-3), static_cast<T>(0.5), static_cast<T>(0.1L),
          static_cast<T>(-1.0L / 3.0L), lim::min(), -lim::min(), lim::denorm_min(), lim::epsilon(),
          lim::max(), -lim::max(), std::sqrt(lim::max()), static_cast<T>(1.0e10L),
          static_cast<T>(-7.25e-12L), lim::infinity(), -lim::infinity(), lim::quiet_NaN()};
}

template <typename T> struct Gen {
  std::mt19937_64 rng;
  std::vector<T> edges = EdgeValues<T>();
  explicit Gen(const std::uint64_t seed) : rng(seed) {}
  // mode 0: small integers; 1: real in [-10,10]; 2: wide log-uniform reals; 3: edge values;
  // 4: mixture.
  T Next(int mode) {
    if (mode == 4) { mode = static_cast<int>(rng() % 4); }
    switch (mode) {
      case 0:
        return static_cast<T>(static_cast<int>(rng() % 11) - 5);
      case 1: {
        const long double u = static_cast<long double>(rng() >> 11) / 9007199254740992.0L;
        return static_cast<T>(u * 20.0L - 10.0L);
      }
      case 2: {
        const long double u = static_cast<long double>(rng() >> 11) / 9007199254740992.0L;
        const long double e = (static_cast<long double>(rng() % 61) - 30.0L);
        const long double s = (rng() & 1U) ? 1.0L : -1.0L;
        return static_cast<T>(s * (1.0L + u) * std::pow(2.0L, e));
      }
      default:
        return edges[rng() % edges.size()];
    }
  }
};

template <typename T> void RunCase(Gen<T>& g, const int mode) {
  using PhQ::Dyad;
  using PhQ::PlanarVector;
  using PhQ::SymmetricDyad;
  using PhQ::Vector;
  auto n = [&]() { return g.Next(mode); };
  const PlanarVector<T> p{n(), n()};
  const PlanarVector<T> q{n(), n()};
  const Vector<T> u{n(), n(), n()};
  const Vector<T> v{n(), n(), n()};
  const SymmetricDyad<T> s{n(), n(), n(), n(), n(), n()};
  const SymmetricDyad<T> t{n(), n(), n(), n(), n(), n()};
  const Dyad<T> a{n(), n(), n(), n(), n(), n(), n(), n(), n()};
  const Dyad<T> b{n(), n(), n(), n(), n(), n(), n(), n(), n()};
  const T k = n();

  // Planar vectors.
  L("p.m2", p.MagnitudeSquared());
  L("p.m", p.Magnitude());
  L("p.dot", p.Dot(q));
  L("p.dotself", p.Dot(p));
  L("p.cross", p.Cross(q));
  L("p.dyadic", p.Dyadic(q));
  L("k*p", k * p);
  L("p*k", p * k);

  // Vectors.
  L("u.m2", u.MagnitudeSquared());
  L("u.m", u.Magnitude());
  L("u.dot", u.Dot(v));
  L("u.dotself", u.Dot(u));
  L("u.cross", u.Cross(v));
  L("v.cross", v.Cross(u));
  L("u.crossself", u.Cross(u));
  L("u.dyadic", u.Dyadic(v));
  L("k*u", k * u);
  L("u*k", u * k);
  L("u.angle", u.Angle(v).Value());
  L("p.angle", p.Angle(q).Value());

  // Symmetric dyads.
  L("s.tr", s.Trace());
  L("s.det", s.Determinant());
  L("s.T", s.Transpose());
  L("s.cof", s.Cofactors());
  L("s.adj", s.Adjugate());
  L("s.inv", s.Inverse());
  L("k*s", k * s);
  L("s*k", s * k);
  L("s/k", s / k);
  L("s*p", s * p);
  L("s*u", s * u);
  L("s*t", s * t);
  L("s*a", s * a);
  L("a*s", a * s);
  {
    const std::optional<SymmetricDyad<T>> inv = s.Inverse();
    if (inv.has_value()) { L("s*inv", s * inv.value()); }
  }

  // Dyads.
  L("a.sym", a.IsSymmetric());
  L("a.tr", a.Trace());
  L("a.det", a.Determinant());
  L("a.T", a.Transpose());
  L("a.cof", a.Cofactors());
  L("a.adj", a.Adjugate());
  L("a.inv", a.Inverse());
  L("k*a", k * a);
  L("a*k", a * k);
  L("a/k", a / k);
  L("a*p", a * p);
  L("a*u", a * u);
  L("a*b", a * b);
  L("b*a", b * a);
  {
    const std::optional<Dyad<T>> inv = a.Inverse();
    if (inv.has_value()) { L("a*inv", a * inv.value()); }
  }

  // Embeddings of symmetric dyads in general dyads.
  const Dyad<T> es{s};
  Dyad<T> as = a;
  as = t;
  L("es", es);
  L("as", as);
  L("es.det", es.Determinant());
  L("es.cof", es.Cofactors());
  L("es.inv", es.Inverse());
  L("as.det", as.Determinant());
  L("as.inv", as.Inverse());
  L("es*as", es * as);
  L("es*u", es * u);
  L("es==", es == Dyad<T>{s});
  L("as.sym", as.IsSymmetric());

  // Rank-deficient dyads: the inverse must be absent exactly when the determinant is zero.
  const Dyad<T> outer = u.Dyadic(v);
  L("outer.det", outer.Determinant());
  L("outer.inv", outer.Inverse());
  const SymmetricDyad<T> rank1{u.x() * u.x(), u.x() * u.y(), u.x() * u.z(),
                               u.y() * u.y(), u.y() * u.z(), u.z() * u.z()};
  L("rank1.det", rank1.Determinant());
  L("rank1.inv", rank1.Inverse());

  // Compound assignment and mixed numeric type of the scalar.
  Dyad<T> c = a;
  c *= 3;
  c += b;
  c /= 2.0F;
  L("c", c);
  L("2*a", 2 * a);
  L("2.5f*s", 2.5F * s);
  L("a*2.0L", a * 2.0L);
  L("s*3", s * 3);

  // Printing and hashing.
  L("a.print", a.Print());
  L("s.print", s.Print());
  L("u.print", u.Print());
  L("a.hash", std::hash<Dyad<T>>()(a.Inverse().value_or(a)));
  L("s.hash", std::hash<SymmetricDyad<T>>()(s.Inverse().value_or(s)));
}

template <typename T> void RunDirections(Gen<T>& g, const int mode) {
  auto n = [&]() { return g.Next(mode); };
  const PhQ::Vector<T> u{n(), n(), n()};
  const PhQ::Vector<T> v{n(), n(), n()};
  const PhQ::PlanarVector<T> p{n(), n()};
  const PhQ::PlanarVector<T> q{n(), n()};
  const PhQ::Direction<T> d{v};
  const PhQ::PlanarDirection<T> e{q};
  L("d", d.Value());
  L("d.m2", d.MagnitudeSquared());
  L("d.m", d.Magnitude());
  L("u.dot(d)", u.Dot(d));
  L("d.dot(u)", d.Dot(u));
  L("u.cross(d)", u.Cross(d));
  L("d.cross(u)", d.Cross(u));
  L("u.dyadic(d)", u.Dyadic(d));
  L("u.dir", u.Direction().Value());
  L("u.angle(d)", u.Angle(d).Value());
  L("e", e.Value());
  L("e.m2", e.MagnitudeSquared());
  L("e.m", e.Magnitude());
  L("p.dot(e)", p.Dot(e));
  L("p.cross(e)", p.Cross(e));
  L("p.dyadic(e)", p.Dyadic(e));
  L("p.dir", p.PlanarDirection().Value());
  L("p.angle(e)", p.Angle(e).Value());
}

template <typename T> void Grid() {
  // Exhaustive small-integer grid on a reduced set of slots.
  const int vals[3] = {-1, 0, 2};
  for (int i0 = 0; i0 < 3; ++i0)
    for (int i1 = 0; i1 < 3; ++i1)
      for (int i2 = 0; i2 < 3; ++i2)
        for (int i3 = 0; i3 < 3; ++i3)
          for (int i4 = 0; i4 < 3; ++i4)
            for (int i5 = 0; i5 < 3; ++i5) {
              const T c0 = static_cast<T>(vals[i0]), c1 = static_cast<T>(vals[i1]),
                      c2 = static_cast<T>(vals[i2]), c3 = static_cast<T>(vals[i3]),
                      c4 = static_cast<T>(vals[i4]), c5 = static_cast<T>(vals[i5]);
              const PhQ::SymmetricDyad<T> s{c0, c1, c2, c3, c4, c5};
              const PhQ::Dyad<T> a{c0, c1, c2, c5, c3, c4, c2, c0, c1 + c5};
              const PhQ::Vector<T> u{c0, c3, c5};
              const PhQ::Vector<T> v{c4, c1, c2};
              std::printf("g");
              P(s.Determinant());
              P(s.Inverse());
              P(a.Determinant());
              P(a.Inverse());
              P(a * u);
              P(s * v);
              P(u.Cross(v));
              P(u.MagnitudeSquared());
              P(PhQ::PlanarVector<T>{c1, c4}.MagnitudeSquared());
              std::printf("\n");
            }
}

template <typename T> void RunAll(const char* name, const std::uint64_t seed) {
  std::printf("=== %s ===\n", name);
  Gen<T> g{seed};
  for (int mode = 0; mode < 5; ++mode) {
    const int count = (mode == 3 || mode == 4) ? 400 : 250;
    for (int i = 0; i < count; ++i) {
      std::printf("# %s mode %d case %d\n", name, mode, i);
      RunCase<T>(g, mode);
    }
  }
  for (int mode = 0; mode < 3; ++mode) {
    for (int i = 0; i < 100; ++i) {
      // Directions normalize on construction; skip all-zero vectors produced in integer mode.
      RunDirections<T>(g, mode);
    }
  }
  Grid<T>();
}

}  // namespace

int main() {
  RunAll<float>("float", 0xC09F10A7ULL);
  RunAll<double>("double", 0xC09D0B1EULL);
  RunAll<long double>("long double", 0xC0910D0BULL);
  return 0;
}
