// Differential program for the C09 refactor: exercises the tensor algebra of PlanarVector, Vector,
// SymmetricDyad and Dyad for float, double and long double and prints every result exactly.
#include <PhQ/Dyad.hpp>
#include <PhQ/PlanarVector.hpp>
#include <PhQ/SymmetricDyad.hpp>
#include <PhQ/Vector.hpp>

#include <cmath>
#include <cstdint>
#include <cstdio>
#include <limits>
#include <optional>
#include <random>
#include <string>
#include <vector>

namespace {

std::uint64_t g_digest = 1469598103934665603ULL;
std::uint64_t g_count = 0;
bool g_verbose = true;
bool g_raw_nan = false;

template <typename T>
void Emit(const T value) {
  char buffer[128];
  const long double wide = static_cast<long double>(value);
  // The sign bit of a NaN produced by an arithmetic instruction depends on the operand order the
  // compiler happens to pick for commutative instructions (it even differs between optimisation
  // levels for code that is textually unchanged), so it is not a property of the library source.
  // NaNs are therefore printed without their sign unless --raw-nan is given.
  const int n = (std::isnan(value) && !g_raw_nan) ?
                    std::snprintf(buffer, sizeof(buffer), "nan") :
                    std::snprintf(
                        buffer, sizeof(buffer), "%La/%d", wide, std::signbit(value) ? 1 : 0);
  for (int i = 0; i < n; ++i) {
    g_digest = (g_digest ^ static_cast<unsigned char>(buffer[i])) * 1099511628211ULL;
  }
  ++g_count;
  if (g_verbose) {
    std::printf(" %s", buffer);
  }
}

void Label(const char* text) {
  for (const char* p = text; *p != '\0'; ++p) {
    g_digest = (g_digest ^ static_cast<unsigned char>(*p)) * 1099511628211ULL;
  }
  if (g_verbose) {
    std::printf("\n%s:", text);
  }
}

template <typename T>
void Emit(const PhQ::PlanarVector<T>& v) {
  Emit(v.x());
  Emit(v.y());
}

template <typename T>
void Emit(const PhQ::Vector<T>& v) {
  Emit(v.x());
  Emit(v.y());
  Emit(v.z());
}

template <typename T>
void Emit(const PhQ::SymmetricDyad<T>& s) {
  for (const T c : s.xx_xy_xz_yy_yz_zz()) {
    Emit(c);
  }
  Emit(s.yx());
  Emit(s.zx());
  Emit(s.zy());
}

template <typename T>
void Emit(const PhQ::Dyad<T>& d) {
  for (const T c : d.xx_xy_xz_yx_yy_yz_zx_zy_zz()) {
    Emit(c);
  }
}

template <typename D>
void Emit(const std::optional<D>& o) {
  if (o.has_value()) {
    Label("some");
    Emit(o.value());
  } else {
    Label("none");
  }
}

template <typename T>
std::vector<T> SpecialValues() {
  using L = std::numeric_limits<T>;
  return {static_cast<T>(0),
          -static_cast<T>(0),
          static_cast<T>(1),
          static_cast<T>(-1),
          static_cast<T>(2),
          static_cast<T>(-3),
          static_cast<T>(0.5),
          static_cast<T>(0.1L),
          static_cast<T>(-7.25),
          L::denorm_min(),
          -L::denorm_min(),
          L::min(),
          L::epsilon(),
          L::max(),
          -L::max(),
          L::max() / static_cast<T>(4),
          std::sqrt(L::max()),
          L::infinity(),
          -L::infinity(),
          L::quiet_NaN(),
          static_cast<T>(1e-20L),
          static_cast<T>(1e20L),
          static_cast<T>(123456789.125L)};
}

template <typename T>
class Source {
public:
  explicit Source(const std::uint64_t seed) : engine_(seed), specials_(SpecialValues<T>()) {}

  // mode 0: small integers; 1: reals in [-10, 10]; 2: wide-magnitude reals; 3: special values;
  // 4: mixture.
  T Next(int mode) {
    if (mode == 4) {
      mode = static_cast<int>(engine_() % 4);
    }
    switch (mode) {
      case 0:
        return static_cast<T>(static_cast<int>(engine_() % 11) - 5);
      case 1:
        return static_cast<T>(std::uniform_real_distribution<long double>(-10.0L, 10.0L)(engine_));
      case 2: {
        const long double mantissa =
            std::uniform_real_distribution<long double>(-1.0L, 1.0L)(engine_);
        const int exponent = static_cast<int>(engine_() % 61) - 30;
        return static_cast<T>(std::ldexp(mantissa, exponent));
      }
      default:
        return specials_[engine_() % specials_.size()];
    }
  }

  PhQ::PlanarVector<T> Planar(const int mode) {
    const T x = Next(mode);
    const T y = Next(mode);
    return PhQ::PlanarVector<T>{x, y};
  }

  PhQ::Vector<T> Vec(const int mode) {
    const T x = Next(mode);
    const T y = Next(mode);
    const T z = Next(mode);
    return PhQ::Vector<T>{x, y, z};
  }

  PhQ::SymmetricDyad<T> Sym(const int mode) {
    std::array<T, 6> a{};
    for (T& c : a) {
      c = Next(mode);
    }
    return PhQ::SymmetricDyad<T>{a};
  }

  PhQ::Dyad<T> Dy(const int mode) {
    std::array<T, 9> a{};
    for (T& c : a) {
      c = Next(mode);
    }
    return PhQ::Dyad<T>{a};
  }

private:
  std::mt19937_64 engine_;
  std::vector<T> specials_;
};

template <typename T>
void Exercise(const PhQ::PlanarVector<T>& p, const PhQ::PlanarVector<T>& q, const PhQ::Vector<T>& u,
              const PhQ::Vector<T>& v, const PhQ::SymmetricDyad<T>& s,
              const PhQ::SymmetricDyad<T>& t, const PhQ::Dyad<T>& a, const PhQ::Dyad<T>& b,
              const T number) {
  // Vectors.
  Label("p.msq"), Emit(p.MagnitudeSquared());
  Label("p.mag"), Emit(p.Magnitude());
  Label("p.dot"), Emit(p.Dot(q));
  Label("p.cross"), Emit(p.Cross(q));
  Label("q.cross"), Emit(q.Cross(p));
  Label("p.dyadic"), Emit(p.Dyadic(q));
  Label("q.dyadic"), Emit(q.Dyadic(p));
  Label("p.self"), Emit(p.Dyadic(p)), Emit(p.Cross(p));
  Label("u.msq"), Emit(u.MagnitudeSquared());
  Label("u.mag"), Emit(u.Magnitude());
  Label("u.dot"), Emit(u.Dot(v));
  Label("u.cross"), Emit(u.Cross(v));
  Label("v.cross"), Emit(v.Cross(u));
  Label("u.dyadic"), Emit(u.Dyadic(v));
  Label("v.dyadic"), Emit(v.Dyadic(u));
  Label("u.self"), Emit(u.Dyadic(u)), Emit(u.Cross(u));
  Label("embed"), Emit(PhQ::Vector<T>{p}.Cross(PhQ::Vector<T>{q}));
  Emit(PhQ::Vector<T>{p}.Dyadic(PhQ::Vector<T>{q}));
  Emit(PhQ::PlanarVector<T>{u});

  // Symmetric dyad.
  Label("s.trace"), Emit(s.Trace());
  Label("s.det"), Emit(s.Determinant());
  Label("s.transpose"), Emit(s.Transpose());
  Label("s.cof"), Emit(s.Cofactors());
  Label("s.adj"), Emit(s.Adjugate());
  Label("s.inv"), Emit(s.Inverse());
  Label("t.inv"), Emit(t.Inverse());
  Label("s*num"), Emit(s * number), Emit(number * s), Emit(s / number);
  Label("s*int"), Emit(s * 3), Emit(2 * s), Emit(s / 4);
  {
    PhQ::SymmetricDyad<T> w{s};
    w *= number;
    Label("s*="), Emit(w);
    w = s;
    w /= number;
    Label("s/="), Emit(w);
    w = s;
    w += t;
    Label("s+="), Emit(w);
    w -= s;
    Label("s-="), Emit(w);
  }

  // Dyad.
  Label("a.trace"), Emit(a.Trace());
  Label("a.det"), Emit(a.Determinant());
  Label("a.transpose"), Emit(a.Transpose());
  Label("a.cof"), Emit(a.Cofactors());
  Label("a.adj"), Emit(a.Adjugate());
  Label("a.inv"), Emit(a.Inverse());
  Label("b.inv"), Emit(b.Inverse());
  Label("a.sym"), Emit(static_cast<T>(a.IsSymmetric() ? 1 : 0));
  Label("a*num"), Emit(a * number), Emit(number * a), Emit(a / number);
  Label("a*int"), Emit(a * 3), Emit(2 * a), Emit(a / 4);
  Label("a*flt"), Emit(a * 1.5F), Emit(0.1 * a), Emit(a / 3.0L);
  {
    PhQ::Dyad<T> w{a};
    w *= number;
    Label("a*="), Emit(w);
    w = a;
    w /= number;
    Label("a/="), Emit(w);
    w = a;
    w *= 3;
    Label("a*=int"), Emit(w);
    w = a;
    w /= 7;
    Label("a/=int"), Emit(w);
    w = a;
    w *= 0.1F;
    Label("a*=f"), Emit(w);
    w = a;
    w /= 0.1;
    Label("a/=d"), Emit(w);
    w = a;
    w *= 0.1L;
    Label("a*=ld"), Emit(w);
    w = a;
    w /= 0.3L;
    Label("a/=ld"), Emit(w);
    w = a;
    w += b;
    Label("a+="), Emit(w);
    w -= a;
    Label("a-="), Emit(w);
  }

  // Embedded symmetric dyad.
  const PhQ::Dyad<T> es{s};
  Label("es.det"), Emit(es.Determinant());
  Label("es.cof"), Emit(es.Cofactors());
  Label("es.adj"), Emit(es.Adjugate());
  Label("es.inv"), Emit(es.Inverse());

  // The nine product overloads.
  Label("s*p"), Emit(s * p);
  Label("s*u"), Emit(s * u);
  Label("a*p"), Emit(a * p);
  Label("a*u"), Emit(a * u);
  Label("s*t"), Emit(s * t);
  Label("s*a"), Emit(s * a);
  Label("a*s"), Emit(a * s);
  Label("a*b"), Emit(a * b);
  Label("b*a"), Emit(b * a);
  Label("t*q"), Emit(t * q);
  Label("t*v"), Emit(t * v);
  Label("b*q"), Emit(b * q);
  Label("b*v"), Emit(b * v);
  Label("es*u"), Emit(es * u);
  Label("es*p"), Emit(es * p);
  Label("a*embed(p)"), Emit(a * PhQ::Vector<T>{p});

  // Inverse times original.
  const std::optional<PhQ::Dyad<T>> ai = a.Inverse();
  if (ai.has_value()) {
    Label("ai*a"), Emit(ai.value() * a), Emit(a * ai.value());
    Label("ai*u"), Emit(ai.value() * u);
  }
  const std::optional<PhQ::SymmetricDyad<T>> si = s.Inverse();
  if (si.has_value()) {
    Label("si*s"), Emit(si.value() * s), Emit(s * si.value());
    Label("si*u"), Emit(si.value() * u);
  }
}

template <typename T>
void Grid() {
  // Exhaustive small-integer grid on a reduced set of slots; the remaining slots cycle.
  const int values[3] = {-1, 0, 2};
  int k = 0;
  for (int i0 = 0; i0 < 3; ++i0) {
    for (int i1 = 0; i1 < 3; ++i1) {
      for (int i2 = 0; i2 < 3; ++i2) {
        for (int i3 = 0; i3 < 3; ++i3) {
          for (int i4 = 0; i4 < 3; ++i4) {
            const T c0 = static_cast<T>(values[i0]);
            const T c1 = static_cast<T>(values[i1]);
            const T c2 = static_cast<T>(values[i2]);
            const T c3 = static_cast<T>(values[i3]);
            const T c4 = static_cast<T>(values[i4]);
            const T c5 = static_cast<T>((k % 5) - 2);
            const T c6 = static_cast<T>((k % 7) - 3);
            const T c7 = static_cast<T>((k % 3) - 1);
            const T c8 = static_cast<T>((k % 4) - 1);
            ++k;
            const PhQ::Dyad<T> a{c0, c1, c2, c3, c4, c5, c6, c7, c8};
            const PhQ::Dyad<T> b{c8, c6, c4, c2, c0, c7, c5, c3, c1};
            const PhQ::SymmetricDyad<T> s{c0, c1, c2, c3, c4, c5};
            const PhQ::SymmetricDyad<T> t{c5, c3, c1, c8, c6, c4};
            const PhQ::Vector<T> u{c0, c3, c6};
            const PhQ::Vector<T> v{c1, c4, c7};
            const PhQ::PlanarVector<T> p{c2, c5};
            const PhQ::PlanarVector<T> q{c4, c1};
            Exercise(p, q, u, v, s, t, a, b, static_cast<T>(k % 9 - 4));
          }
        }
      }
    }
  }
}

template <typename T>
void Random(const std::uint64_t seed, const int rounds) {
  Source<T> source(seed);
  for (int mode = 0; mode < 5; ++mode) {
    for (int round = 0; round < rounds; ++round) {
      const PhQ::PlanarVector<T> p = source.Planar(mode);
      const PhQ::PlanarVector<T> q = source.Planar(mode);
      const PhQ::Vector<T> u = source.Vec(mode);
      const PhQ::Vector<T> v = source.Vec(mode);
      const PhQ::SymmetricDyad<T> s = source.Sym(mode);
      const PhQ::SymmetricDyad<T> t = source.Sym(mode);
      const PhQ::Dyad<T> a = source.Dy(mode);
      const PhQ::Dyad<T> b = source.Dy(mode);
      const T number = source.Next(mode);
      Exercise(p, q, u, v, s, t, a, b, number);
    }
  }
}

template <typename T>
void Singular() {
  // Exactly singular tensors: the inverse must be absent; negative-zero and zero determinants.
  const T z = static_cast<T>(0);
  const PhQ::Dyad<T> cases[] = {
    PhQ::Dyad<T>::Zero(),
    PhQ::Dyad<T>{1, 2, 3, 2, 4, 6, 7, 8, 9},
    PhQ::Dyad<T>{1, 2, 3, 4, 5, 6, 7, 8, 9},
    PhQ::Dyad<T>{-z, z, z, z, -z, z, z, z, -z},
    PhQ::Dyad<T>{1, 0, 0, 0, 1, 0, 0, 0, 1},
    PhQ::Dyad<T>{2, 0, 0, 0, 4, 0, 0, 0, 8},
    PhQ::Dyad<T>{0, 1, 0, 0, 0, 1, 1, 0, 0},
    PhQ::Dyad<T>{1, 2, 3, 0, 1, 4, 5, 6, 0},
  };
  for (const PhQ::Dyad<T>& a : cases) {
    Label("sing.det"), Emit(a.Determinant());
    Label("sing.inv"), Emit(a.Inverse());
    Label("sing.cof"), Emit(a.Cofactors());
  }
  const PhQ::SymmetricDyad<T> symmetric_cases[] = {
    PhQ::SymmetricDyad<T>::Zero(),
    PhQ::SymmetricDyad<T>{1, 2, 3, 4, 6, 9},
    PhQ::SymmetricDyad<T>{-z, z, -z, z, -z, z},
    PhQ::SymmetricDyad<T>{1, 0, 0, 1, 0, 1},
    PhQ::SymmetricDyad<T>{2, -1, 0, 2, -1, 2},
  };
  for (const PhQ::SymmetricDyad<T>& s : symmetric_cases) {
    Label("ssing.det"), Emit(s.Determinant());
    Label("ssing.inv"), Emit(s.Inverse());
    Label("ssing.cof"), Emit(s.Cofactors());
  }
}

// Constant evaluation must keep working and agree with run-time evaluation.
template <typename T>
void ConstantEvaluation() {
  constexpr PhQ::Dyad<T> a{static_cast<T>(1), static_cast<T>(-2), static_cast<T>(3),
                           static_cast<T>(-4), static_cast<T>(5), static_cast<T>(-6),
                           static_cast<T>(7), static_cast<T>(-8), static_cast<T>(10)};
  constexpr PhQ::Vector<T> u{static_cast<T>(1), static_cast<T>(-2), static_cast<T>(3)};
  constexpr PhQ::Vector<T> v{static_cast<T>(-4), static_cast<T>(5), static_cast<T>(0.5)};
  constexpr PhQ::PlanarVector<T> p{static_cast<T>(1.5), static_cast<T>(-2)};
  constexpr PhQ::SymmetricDyad<T> s{static_cast<T>(1), static_cast<T>(-2), static_cast<T>(3),
                                    static_cast<T>(-4), static_cast<T>(5), static_cast<T>(-6)};
  constexpr PhQ::Dyad<T> cofactors = a.Cofactors();
  constexpr std::optional<PhQ::Dyad<T>> inverse = a.Inverse();
  constexpr std::optional<PhQ::Dyad<T>> none = PhQ::Dyad<T>::Zero().Inverse();
  constexpr PhQ::Vector<T> au = a * u;
  constexpr PhQ::Vector<T> ap = a * p;
  constexpr PhQ::Vector<T> su = s * u;
  constexpr PhQ::Vector<T> sp = s * p;
  constexpr PhQ::Vector<T> cross = u.Cross(v);
  constexpr PhQ::Dyad<T> dyadic = u.Dyadic(v);
  constexpr PhQ::Dyad<T> planar_dyadic = p.Dyadic(p);
  constexpr PhQ::Vector<T> planar_cross = p.Cross(PhQ::PlanarVector<T>{v});
  Label("ce.cof"), Emit(cofactors);
  Label("ce.inv"), Emit(inverse), Emit(none);
  Label("ce.prod"), Emit(au), Emit(ap), Emit(su), Emit(sp);
  Label("ce.vec"), Emit(cross), Emit(dyadic), Emit(planar_dyadic), Emit(planar_cross);
}

template <typename T>
void All(const char* name, const std::uint64_t seed) {
  Label(name);
  g_verbose = true;
  ConstantEvaluation<T>();
  Singular<T>();
  Random<T>(seed, 40);
  // The bulk of the inputs is only digested, not printed.
  g_verbose = false;
  Grid<T>();
  Random<T>(seed + 1, 1500);
  g_verbose = true;
  std::printf("\n%s digest=%016llx count=%llu\n", name, static_cast<unsigned long long>(g_digest),
              static_cast<unsigned long long>(g_count));
}

}  // namespace

int main(int argc, char* argv[]) {
  g_raw_nan = argc > 1 && std::string(argv[1]) == "--raw-nan";
  All<float>("float", 1001);
  All<double>("double", 2002);
  All<long double>("long double", 3003);
  return 0;
}
