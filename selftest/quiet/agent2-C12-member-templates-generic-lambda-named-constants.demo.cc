// Differential program for the C12 refactor of ConstitutiveModel::ElasticIsotropicSolid.
// Prints the exact bit patterns of every result so that two builds can be compared with cmp.
#include <PhQ/ConstitutiveModel.hpp>
#include <PhQ/ConstitutiveModel/ElasticIsotropicSolid.hpp>
#include <PhQ/IsentropicBulkModulus.hpp>
#include <PhQ/IsothermalBulkModulus.hpp>
#include <PhQ/LameFirstModulus.hpp>
#include <PhQ/PWaveModulus.hpp>
#include <PhQ/PoissonRatio.hpp>
#include <PhQ/ShearModulus.hpp>
#include <PhQ/Strain.hpp>
#include <PhQ/StrainRate.hpp>
#include <PhQ/Stress.hpp>
#include <PhQ/Unit/Frequency.hpp>
#include <PhQ/Unit/Pressure.hpp>
#include <PhQ/YoungModulus.hpp>

#include <array>
#include <cmath>
#include <cstdint>
#include <cstdio>
#include <cstring>
#include <functional>
#include <limits>
#include <memory>
#include <random>
#include <sstream>
#include <string>
#include <vector>

using namespace PhQ;

static std::uint64_t digest = 1469598103934665603ULL;
static unsigned long long count_values = 0;

static void Mix(const unsigned char* bytes, std::size_t n) {
  for (std::size_t i = 0; i < n; ++i) {
    digest ^= bytes[i];
    digest *= 1099511628211ULL;
  }
}

template <typename T>
constexpr std::size_t SignificantBytes() {
  return sizeof(T);
}
template <>
constexpr std::size_t SignificantBytes<long double>() {
  return 10;  // x87 extended precision: the remaining bytes are padding.
}

static bool verbose = true;

template <typename T>
void Emit(const char* tag, const T value) {
  unsigned char bytes[sizeof(T)];
  std::memcpy(bytes, &value, sizeof(T));
  Mix(bytes, SignificantBytes<T>());
  ++count_values;
  if (verbose) {
    std::printf("%s=", tag);
    for (std::size_t i = SignificantBytes<T>(); i-- > 0;) {
      std::printf("%02x", bytes[i]);
    }
    std::printf(" ");
  }
}

static void EmitString(const char* tag, const std::string& s) {
  Mix(reinterpret_cast<const unsigned char*>(s.data()), s.size());
  if (verbose) {
    std::printf("%s=[%s] ", tag, s.c_str());
  }
}

template <typename T>
void EmitDyad(const char* tag, const SymmetricDyad<T>& d) {
  if (verbose) {
    std::printf("%s{", tag);
  }
  Emit("xx", d.xx());
  Emit("xy", d.xy());
  Emit("xz", d.xz());
  Emit("yy", d.yy());
  Emit("yz", d.yz());
  Emit("zz", d.zz());
  if (verbose) {
    std::printf("} ");
  }
}

static void Line() {
  if (verbose) {
    std::printf("\n");
  }
}

template <typename O>
std::vector<std::array<O, 6>> Tensors(std::mt19937_64& rng) {
  const O inf = std::numeric_limits<O>::infinity();
  const O nan = std::numeric_limits<O>::quiet_NaN();
  const O tiny = std::numeric_limits<O>::denorm_min();
  const O small = std::numeric_limits<O>::min();
  const O huge = std::numeric_limits<O>::max();
  std::vector<std::array<O, 6>> out{
    {O(0),             O(0),       O(0),        O(0),         O(0),         O(0)        },
    {-O(0),            -O(0),      -O(0),       -O(0),        -O(0),        -O(0)       },
    {O(0),             -O(0),      O(0),        -O(0),        O(0),         -O(0)       },
    {O(32),            O(-4),      O(-2),       O(16),        O(-1),        O(8)        },
    {O(1),             O(0),       O(0),        O(-1),        O(0),         -O(0)       },
    {O(1),             O(2),       O(3),        O(-0.5),      O(5),         O(-0.5)     },
    {tiny,             -tiny,      tiny,        tiny,         -tiny,        tiny        },
    {small,            small,      -small,      -small,       small,        small       },
    {huge,             huge,       huge,        huge,         huge,         huge        },
    {huge,             O(1),       O(1),        -huge,        O(1),         O(1)        },
    {huge / O(4),      O(0),       O(0),        huge / O(4),  O(0),         huge / O(4) },
    {inf,              O(1),       O(1),        O(1),         O(1),         O(1)        },
    {inf,              O(0),       O(0),        -inf,         O(0),         O(0)        },
    {nan,              O(1),       O(1),        O(1),         O(1),         O(1)        },
    {O(1),             nan,        O(1),        O(1),         O(1),         O(1)        },
    {O(1e-3),          O(2e-4),    O(-3e-4),    O(-5e-4),     O(7e-5),      O(-5e-4)    },
    {O(0.1),           O(0.2),     O(0.3),      O(0.7),       O(1) / O(3),  O(-0.8)     },
  };
  std::uniform_real_distribution<double> mantissa(-1.0, 1.0);
  std::uniform_int_distribution<int> exponent(-30, 30);
  for (int k = 0; k < 12; ++k) {
    std::array<O, 6> t{};
    for (auto& c : t) {
      c = static_cast<O>(mantissa(rng)) * static_cast<O>(std::pow(10.0, exponent(rng) / 3.0));
    }
    out.push_back(t);
  }
  return out;
}

// Exercises the five virtual functions for the numeric type O, both directly and through the
// abstract interface.
template <typename N, typename O>
void StressStrain(const ConstitutiveModel::ElasticIsotropicSolid<N>& model,
                  const std::vector<std::array<O, 6>>& tensors, const char* tag) {
  const ConstitutiveModel& base = model;
  for (const auto& t : tensors) {
    const PhQ::Strain<O> strain{t[0], t[1], t[2], t[3], t[4], t[5]};
    const PhQ::StrainRate<O> rate{
      {t[5], t[4], t[3], t[2], t[1], t[0]},
      Unit::Frequency::Hertz
    };
    const PhQ::Stress<O> given_stress{
      {t[0], t[1], t[2], t[3], t[4], t[5]},
      Unit::Pressure::Pascal
    };
    if (verbose) {
      std::printf("%s ", tag);
    }
    const PhQ::Stress<O> s1 = model.Stress(strain);
    const PhQ::Stress<O> s2 = base.Stress(strain);
    const PhQ::Stress<O> s3 = model.Stress(strain, rate);
    const PhQ::Stress<O> s4 = base.Stress(strain, rate);
    const PhQ::Stress<O> s5 = base.Stress(rate);
    EmitDyad("S", s1.Value());
    EmitDyad("Sb", s2.Value());
    EmitDyad("Sr", s3.Value());
    EmitDyad("Sbr", s4.Value());
    EmitDyad("S0", s5.Value());
    const PhQ::Strain<O> e1 = model.Strain(given_stress);
    const PhQ::Strain<O> e2 = base.Strain(given_stress);
    const PhQ::Strain<O> e3 = base.Strain(s1);
    const PhQ::StrainRate<O> r1 = base.StrainRate(given_stress);
    EmitDyad("E", e1.Value());
    EmitDyad("Eb", e2.Value());
    EmitDyad("Ert", e3.Value());
    EmitDyad("R0", r1.Value());
    Line();
  }
}

template <typename N>
void Report(const char* tag, const ConstitutiveModel::ElasticIsotropicSolid<N>& model,
            const std::vector<std::array<float, 6>>& tf,
            const std::vector<std::array<double, 6>>& td,
            const std::vector<std::array<long double, 6>>& tl, const bool tensors) {
  if (verbose) {
    std::printf("%s ", tag);
  }
  Emit("mu", model.ShearModulus().Value());
  Emit("la", model.LameFirstModulus().Value());
  Emit("E", model.YoungModulus().Value());
  Emit("Ks", model.IsentropicBulkModulus().Value());
  Emit("Kt", model.IsothermalBulkModulus().Value());
  Emit("M", model.PWaveModulus().Value());
  Emit("nu", model.PoissonRatio().Value());
  const std::hash<ConstitutiveModel::ElasticIsotropicSolid<N>> hasher;
  Emit("h", static_cast<std::uint64_t>(hasher(model)));
  Emit("t", static_cast<int>(model.GetType()));
  Line();
  if (tensors) {
    EmitString("print", model.Print());
    EmitString("json", model.JSON());
    EmitString("xml", model.XML());
    EmitString("yaml", model.YAML());
    std::ostringstream stream;
    stream << model;
    EmitString("stream", stream.str());
    Line();
    StressStrain<N, float>(model, tf, "f");
    StressStrain<N, double>(model, td, "d");
    StressStrain<N, long double>(model, tl, "l");
  }
}

template <typename N>
void Compare(const ConstitutiveModel::ElasticIsotropicSolid<N>& a,
             const ConstitutiveModel::ElasticIsotropicSolid<N>& b) {
  const int bits = (a == b ? 1 : 0) | (a != b ? 2 : 0) | (a < b ? 4 : 0) | (a > b ? 8 : 0)
                   | (a <= b ? 16 : 0) | (a >= b ? 32 : 0);
  Emit("cmp", bits);
}

template <typename N>
void RunAll(const char* type_tag, const std::uint64_t seed) {
  using Model = ConstitutiveModel::ElasticIsotropicSolid<N>;
  std::mt19937_64 rng(seed);
  const auto tf = Tensors<float>(rng);
  const auto td = Tensors<double>(rng);
  const auto tl = Tensors<long double>(rng);

  // Admissible materials (mu > 0, 0 <= nu < 0.5) over many orders of magnitude, plus edge cases.
  std::vector<std::pair<N, N>> materials;  // (mu, nu)
  const N nus[] = {N(0),    N(1e-6), N(0.05), N(0.1),  N(0.2),    N(0.25),
                   N(0.3),  N(1) / N(3), N(0.4),  N(0.45), N(0.49), N(0.499999)};
  const N mus[] = {N(1e-12), N(1e-6), N(1e-3), N(0.5), N(1),    N(4),
                   N(26e9),  N(79.3e9), N(1e12), N(1e15), N(3.7e18)};
  for (const N mu : mus) {
    for (const N nu : nus) {
      materials.emplace_back(mu, nu);
    }
  }
  std::uniform_real_distribution<double> u01(0.0, 1.0);
  for (int k = 0; k < 150; ++k) {
    const double mu = std::pow(10.0, -12.0 + 30.0 * u01(rng)) * (0.5 + u01(rng));
    const double nu = 0.4999 * u01(rng);
    materials.emplace_back(static_cast<N>(mu), static_cast<N>(nu));
  }
  // Inadmissible and degenerate inputs: results must still be bit-identical.
  const N inf = std::numeric_limits<N>::infinity();
  const N nan = std::numeric_limits<N>::quiet_NaN();
  const std::pair<N, N> odd[] = {
    {N(0),                                N(0)  },
    {-N(0),                               -N(0) },
    {N(0),                                N(0.3)},
    {N(1),                                N(0.5)},
    {N(1),                                N(-1) },
    {N(1),                                N(-0.3)},
    {N(-2),                               N(0.3)},
    {N(1),                                N(0.75)},
    {std::numeric_limits<N>::denorm_min(), N(0.25)},
    {std::numeric_limits<N>::min(),        N(0.25)},
    {std::numeric_limits<N>::max(),        N(0.25)},
    {std::numeric_limits<N>::max() / N(8), N(0.1) },
    {inf,                                 N(0.25)},
    {N(1),                                nan   },
    {nan,                                 N(0.25)},
  };
  for (const auto& o : odd) {
    materials.push_back(o);
  }

  const auto P = Unit::Pressure::Pascal;
  std::size_t index = 0;
  std::vector<Model> kept;
  for (const auto& [mu_value, nu_value] : materials) {
    // Reference material from (shear modulus, Poisson ratio); derive the other moduli from it.
    const Model reference{ShearModulus<N>(mu_value, P), PoissonRatio<N>(nu_value)};
    const bool tensors = (index % 7 == 0) || index >= materials.size() - 15;
    if (verbose) {
      std::printf("== %s material %zu\n", type_tag, index);
    }
    Report<N>("ref", reference, tf, td, tl, tensors);
    kept.push_back(reference);

    const YoungModulus<N> E = reference.YoungModulus();
    const ShearModulus<N> G = reference.ShearModulus();
    const LameFirstModulus<N> L = reference.LameFirstModulus();
    const IsentropicBulkModulus<N> Ks = reference.IsentropicBulkModulus();
    const IsothermalBulkModulus<N> Kt = reference.IsothermalBulkModulus();
    const PWaveModulus<N> M = reference.PWaveModulus();
    const PoissonRatio<N> nu = reference.PoissonRatio();

    const Model all[] = {
      Model{E, nu}, Model{E, G},  Model{E, Ks},  Model{E, Kt},  Model{E, L},
      Model{E, M},  Model{G, nu}, Model{G, Ks},  Model{G, Kt},  Model{G, L},
      Model{G, M},  Model{Ks, L}, Model{Kt, L},  Model{Ks, M},  Model{Kt, M},
      Model{Ks, nu}, Model{Kt, nu}, Model{L, M}, Model{L, nu},  Model{M, nu},
    };
    int c = 0;
    for (const Model& m : all) {
      char tag[16];
      std::snprintf(tag, sizeof(tag), "c%02d", c);
      // Tensors for a rotating subset of constructors keeps the output size reasonable.
      Report<N>(tag, m, tf, td, tl, tensors && (c % 5 == static_cast<int>(index % 5)));
      Compare<N>(reference, m);
      Compare<N>(m, reference);
      Line();
      // Rebuild from a reported pair.
      const Model again{m.YoungModulus(), m.PoissonRatio()};
      Report<N>("re", again, tf, td, tl, false);
      const Model again2{m.LameFirstModulus(), m.PWaveModulus()};
      Report<N>("re2", again2, tf, td, tl, false);
      ++c;
    }
    ++index;
  }
  // Comparison operators across different materials (includes NaN and signed zero members).
  if (verbose) {
    std::printf("== %s comparisons\n", type_tag);
  }
  for (std::size_t i = 0; i < kept.size(); i += 3) {
    for (std::size_t j = 0; j < kept.size(); j += 5) {
      Compare<N>(kept[i], kept[j]);
    }
    Line();
  }
  // Members that tie on the shear modulus so that the second key decides.
  const N keys[] = {N(0), -N(0), N(1), N(-1), N(2), nan, inf, -inf};
  for (const N g1 : keys) {
    for (const N g2 : keys) {
      for (const N l1 : keys) {
        for (const N l2 : keys) {
          const Model a{ShearModulus<N>(g1, P), LameFirstModulus<N>(l1, P)};
          const Model b{ShearModulus<N>(g2, P), LameFirstModulus<N>(l2, P)};
          Compare<N>(a, b);
        }
      }
    }
    Line();
  }
  // Default-constructed and copied/moved models.
  {
    Model a{ShearModulus<N>(N(4), P), LameFirstModulus<N>(N(1), P)};
    Model b{a};
    Model c{std::move(b)};
    Model d;
    d = c;
    Report<N>("copy", d, tf, td, tl, true);
    std::unique_ptr<ConstitutiveModel> p = std::make_unique<Model>(d);
    EmitString("pprint", p->Print());
    Line();
  }
}

int main(int argc, char** argv) {
  verbose = !(argc > 1 && std::string(argv[1]) == "--digest");
  RunAll<float>("float", 0xC12F);
  RunAll<double>("double", 0xC12D);
  RunAll<long double>("longdouble", 0xC12E);
  std::printf("values=%llu digest=%016llx\n", count_values,
              static_cast<unsigned long long>(digest));
  return 0;
}
