// Differential program for property C12 (elastic isotropic solid).
#include <PhQ/ConstitutiveModel.hpp>
#include <PhQ/ConstitutiveModel/ElasticIsotropicSolid.hpp>
#include <PhQ/IsentropicBulkModulus.hpp>
#include <PhQ/IsothermalBulkModulus.hpp>
#include <PhQ/LameFirstModulus.hpp>
#include <PhQ/PWaveModulus.hpp>
#include <PhQ/PoissonRatio.hpp>
#include <PhQ/ShearModulus.hpp>
#include <PhQ/Strain.hpp>
#include <PhQ/StrainRate.hpp>
#include <PhQ/Stress.hpp>
#include <PhQ/SymmetricDyad.hpp>
#include <PhQ/Unit/Frequency.hpp>
#include <PhQ/Unit/Pressure.hpp>
#include <PhQ/YoungModulus.hpp>

#include <cstdint>
#include <cstdio>
#include <functional>
#include <limits>
#include <memory>
#include <random>
#include <sstream>
#include <string>
#include <vector>

using namespace PhQ;

static void P(const char* tag, long double v) {
  std::printf(" %s=%La", tag, v);
}

template <typename T>
static void PrintDyad(const char* tag, const SymmetricDyad<T>& d) {
  std::printf(" %s=[", tag);
  for (const T x : d.xx_xy_xz_yy_yz_zz()) {
    std::printf("%La ", static_cast<long double>(x));
  }
  std::printf("]");
}

template <typename M>
using Model = ConstitutiveModel::ElasticIsotropicSolid<M>;

template <typename M, typename T>
static void Tensors(const Model<M>& model, const std::vector<std::array<long double, 6>>& tensors) {
  const ConstitutiveModel* base = &model;
  for (const auto& t : tensors) {
    const SymmetricDyad<T> d{static_cast<T>(t[0]), static_cast<T>(t[1]), static_cast<T>(t[2]),
                             static_cast<T>(t[3]), static_cast<T>(t[4]), static_cast<T>(t[5])};
    const Strain<T> strain{d};
    const Stress<T> stress_in{d, Unit::Pressure::Pascal};
    const StrainRate<T> rate{d, Unit::Frequency::Hertz};
    std::printf("   T%zu", sizeof(T));
    PrintDyad("s", model.Stress(strain).Value());
    PrintDyad("sb", base->Stress(strain).Value());
    PrintDyad("sr", base->Stress(strain, rate).Value());
    PrintDyad("s0", base->Stress(rate).Value());
    PrintDyad("e", model.Strain(stress_in).Value());
    PrintDyad("eb", base->Strain(stress_in).Value());
    PrintDyad("er", base->StrainRate(stress_in).Value());
    // round trips
    PrintDyad("rt1", base->Strain(base->Stress(strain)).Value());
    PrintDyad("rt2", base->Stress(base->Strain(stress_in)).Value());
    std::printf("\n");
  }
}

template <typename M>
static void Report(const char* name, const Model<M>& model,
                   const std::vector<std::array<long double, 6>>& tensors, const bool with_tensors) {
  std::printf("  %s:", name);
  P("G", model.ShearModulus().Value());
  P("L", model.LameFirstModulus().Value());
  P("E", model.YoungModulus().Value());
  P("Ks", model.IsentropicBulkModulus().Value());
  P("Kt", model.IsothermalBulkModulus().Value());
  P("M", model.PWaveModulus().Value());
  P("nu", model.PoissonRatio().Value());
  std::printf(" Ks_kPa=%La",
              static_cast<long double>(model.IsentropicBulkModulus().Value(Unit::Pressure::Kilopascal)));
  std::printf(" Kt_psi=%La", static_cast<long double>(model.IsothermalBulkModulus().Value(
                                 Unit::Pressure::PoundPerSquareInch)));
  std::printf(" hash=%zu", std::hash<Model<M>>()(model));
  std::printf("\n");
  if (with_tensors) {
    std::ostringstream stream;
    stream << model;
    std::printf("   %s | %s | %s | %s | %s\n", model.Print().c_str(), model.JSON().c_str(),
                model.XML().c_str(), model.YAML().c_str(), stream.str().c_str());
    Tensors<M, float>(model, tensors);
    Tensors<M, double>(model, tensors);
    Tensors<M, long double>(model, tensors);
  }
}

template <typename M>
static void Material(const long double mu_in, const long double nu_in,
                     const std::vector<std::array<long double, 6>>& tensors, const bool with_tensors,
                     const int depth) {
  const M mu = static_cast<M>(mu_in);
  const M nu = static_cast<M>(nu_in);
  std::printf(" material M%zu mu=%La nu=%La\n", sizeof(M), static_cast<long double>(mu),
              static_cast<long double>(nu));
  const ShearModulus<M> G{mu, Unit::Pressure::Pascal};
  const PoissonRatio<M> N{nu};
  const Model<M> ref{G, N};
  Report<M>("G,nu", ref, tensors, with_tensors);

  const YoungModulus<M> E = ref.YoungModulus();
  const IsentropicBulkModulus<M> Ks = ref.IsentropicBulkModulus();
  const IsothermalBulkModulus<M> Kt = ref.IsothermalBulkModulus();
  const LameFirstModulus<M> L = ref.LameFirstModulus();
  const PWaveModulus<M> Mw = ref.PWaveModulus();
  const PoissonRatio<M> Nu = ref.PoissonRatio();
  const ShearModulus<M> Gs = ref.ShearModulus();

  std::vector<std::pair<std::string, Model<M>>> models;
  models.emplace_back("E,nu", Model<M>{E, Nu});
  models.emplace_back("E,G", Model<M>{E, Gs});
  models.emplace_back("E,Ks", Model<M>{E, Ks});
  models.emplace_back("E,Kt", Model<M>{E, Kt});
  models.emplace_back("E,L", Model<M>{E, L});
  models.emplace_back("E,M", Model<M>{E, Mw});
  models.emplace_back("G,Ks", Model<M>{Gs, Ks});
  models.emplace_back("G,Kt", Model<M>{Gs, Kt});
  models.emplace_back("G,L", Model<M>{Gs, L});
  models.emplace_back("G,M", Model<M>{Gs, Mw});
  models.emplace_back("Ks,L", Model<M>{Ks, L});
  models.emplace_back("Kt,L", Model<M>{Kt, L});
  models.emplace_back("Ks,M", Model<M>{Ks, Mw});
  models.emplace_back("Kt,M", Model<M>{Kt, Mw});
  models.emplace_back("Ks,nu", Model<M>{Ks, Nu});
  models.emplace_back("Kt,nu", Model<M>{Kt, Nu});
  models.emplace_back("L,M", Model<M>{L, Mw});
  models.emplace_back("L,nu", Model<M>{L, Nu});
  models.emplace_back("M,nu", Model<M>{Mw, Nu});
  for (const auto& entry : models) {
    Report<M>(entry.first.c_str(), entry.second, tensors, with_tensors && depth > 0);
    std::printf("   cmp %d%d%d%d%d%d\n", entry.second == ref, entry.second != ref,
                entry.second < ref, entry.second > ref, entry.second <= ref, entry.second >= ref);
  }
  // The (E, M) constructor on raw, not necessarily consistent, pairs: exercises the discriminant.
  const M scales[] = {static_cast<M>(0.0), static_cast<M>(0.1), static_cast<M>(0.5),
                      static_cast<M>(1.0), static_cast<M>(1.0000001), static_cast<M>(3.0),
                      static_cast<M>(9.0), static_cast<M>(-2.0), static_cast<M>(1e10)};
  for (const M s : scales) {
    const PWaveModulus<M> m2{E.Value() * s, Unit::Pressure::Pascal};
    const Model<M> em{E, m2};
    std::printf("   EM s=%La", static_cast<long double>(s));
    P("G", em.ShearModulus().Value());
    P("L", em.LameFirstModulus().Value());
    P("Ks", em.IsentropicBulkModulus().Value());
    P("Kt", em.IsothermalBulkModulus().Value());
    std::printf("\n");
  }
}

template <typename M>
static void Direct(const long double g, const long double l,
                   const std::vector<std::array<long double, 6>>& tensors) {
  const Model<M> model{ShearModulus<M>{static_cast<M>(g), Unit::Pressure::Pascal},
                       LameFirstModulus<M>{static_cast<M>(l), Unit::Pressure::Pascal}};
  std::printf(" direct M%zu\n", sizeof(M));
  Report<M>("G,L", model, tensors, true);
}

int main() {
  std::mt19937_64 gen(20240912);
  std::uniform_real_distribution<long double> unit(-1.0L, 1.0L);
  std::uniform_real_distribution<long double> expo(-6.0L, 12.0L);
  std::uniform_real_distribution<long double> pr(0.0L, 0.5L);

  std::vector<std::array<long double, 6>> tensors;
  tensors.push_back({0.0L, 0.0L, 0.0L, 0.0L, 0.0L, 0.0L});
  tensors.push_back({-0.0L, -0.0L, -0.0L, -0.0L, -0.0L, -0.0L});
  tensors.push_back({1.0L, 0.0L, 0.0L, 1.0L, 0.0L, 1.0L});
  tensors.push_back({1.0L, 0.0L, 0.0L, -1.0L, 0.0L, 0.0L});
  tensors.push_back({32.0L, -4.0L, -2.0L, 16.0L, -1.0L, 8.0L});
  tensors.push_back({1e-30L, -2e-30L, 3e-30L, -4e-30L, 5e-30L, 6e-30L});
  tensors.push_back({1e-42L, 1e-44L, -1e-45L, 3e-40L, 0.0L, -2e-41L});
  tensors.push_back({1e30L, -2e30L, 3e30L, -4e30L, 5e30L, 6e30L});
  tensors.push_back({3e38L, 1e38L, -1e38L, 3e38L, 0.0L, 3e38L});
  tensors.push_back({0.1L, 0.2L, 0.3L, 0.4L, 0.5L, 0.6L});
  for (int i = 0; i < 12; ++i) {
    const long double scale = std::pow(10.0L, unit(gen) * 8.0L);
    std::array<long double, 6> t{};
    for (auto& x : t) {
      x = unit(gen) * scale;
    }
    tensors.push_back(t);
  }

  std::vector<std::pair<long double, long double>> materials = {
      {1.0L, 0.25L},   {4.0L, 0.0L},      {4.0L, -0.0L},    {26e9L, 0.33L},    {79.3e9L, 0.3L},
      {1e-20L, 0.1L},  {1e-38L, 0.4L},    {1e30L, 0.2L},    {1e37L, 0.45L},    {3.0L, 0.4999999L},
      {3.0L, 0.49999999999L}, {0.0L, 0.25L}, {-0.0L, 0.0L}, {2.5L, 0.5L},      {7.0L, -0.3L},
      {-5.0L, 0.2L},   {1.0L, 1e-30L},    {1.0L, 1.0L / 3.0L}};
  for (int i = 0; i < 60; ++i) {
    materials.emplace_back(std::pow(10.0L, expo(gen)), pr(gen));
  }

  int index = 0;
  for (const auto& m : materials) {
    std::printf("#%d\n", index);
    const bool with_tensors = index < 30;
    const int depth = (index % 5 == 0) ? 1 : 0;
    Material<float>(m.first, m.second, tensors, with_tensors, depth);
    Material<double>(m.first, m.second, tensors, with_tensors, depth);
    Material<long double>(m.first, m.second, tensors, with_tensors, depth);
    ++index;
  }

  // Directly specified (shear, Lamé) pairs, including degenerate ones for the inverse map.
  const std::vector<std::pair<long double, long double>> direct = {
      {4.0L, 1.0L},     {0.0L, 0.0L},   {-0.0L, 1.0L},  {1.0L, -2.0L / 3.0L}, {3.0L, -2.0L},
      {1e-25L, 1e-25L}, {1e25L, 1e25L}, {1e38L, 1e38L}, {1e-40L, 1e-44L},     {5.0L, 0.0L},
      {5.0L, -0.0L},    {0.1L, 0.7L},   {-3.0L, 9.0L}};
  for (const auto& d : direct) {
    Direct<float>(d.first, d.second, tensors);
    Direct<double>(d.first, d.second, tensors);
    Direct<long double>(d.first, d.second, tensors);
  }
  for (int i = 0; i < 25; ++i) {
    const long double g = std::pow(10.0L, expo(gen));
    const long double l = std::pow(10.0L, expo(gen)) * (unit(gen) < -0.7L ? -1.0L : 1.0L);
    Direct<float>(g, l, tensors);
    Direct<double>(g, l, tensors);
    Direct<long double>(g, l, tensors);
  }
  return 0;
}
