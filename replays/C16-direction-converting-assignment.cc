// C16 replay: converting *assignment* of a direction is not re-normalised (the converting constructor is).
#include <PhQ/Direction.hpp>
#include <PhQ/PlanarDirection.hpp>
#include <cmath>
#include <cstdio>
#include <limits>
int main() {
  int bad = 0;
  const PhQ::Direction<float> f{1.0F, 2.0F, 3.0F};
  PhQ::Direction<double> assigned = PhQ::Direction<double>::Zero();
  assigned = f;
  const PhQ::Direction<double> constructed{f};
  const double ea = std::abs(assigned.MagnitudeSquared() - 1.0), ec = std::abs(constructed.MagnitudeSquared() - 1.0);
  std::printf("Direction<double> from Direction<float>(1,2,3): | |v|^2 - 1 | assigned = %.3g (%.0f eps), constructed = %.3g (%.0f eps)\n", ea,
              ea / std::numeric_limits<double>::epsilon(), ec, ec / std::numeric_limits<double>::epsilon());
  if (ea > 8 * std::numeric_limits<double>::epsilon()) ++bad;
  const PhQ::PlanarDirection<float> pf{1.0F, 3.0F};
  PhQ::PlanarDirection<long double> pa = PhQ::PlanarDirection<long double>::Zero();
  pa = pf;
  const long double epa = std::abs(pa.MagnitudeSquared() - 1.0L);
  std::printf("PlanarDirection<long double> = PlanarDirection<float>(1,3): | |v|^2 - 1 | = %.3Lg (%.0Lf eps)\n", epa, epa / std::numeric_limits<long double>::epsilon());
  if (epa > 8 * std::numeric_limits<long double>::epsilon()) ++bad;
  return bad ? 1 : 0;
}
