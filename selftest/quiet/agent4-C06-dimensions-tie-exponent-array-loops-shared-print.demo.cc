// Differential program for the refactor of PhQ::Dimensions and the seven PhQ::Dimension::* classes:
// printing, streaming, comparison operators and hashing.
#include <PhQ/Acceleration.hpp>
#include <PhQ/Dimensions.hpp>
#include <PhQ/DynamicViscosity.hpp>
#include <PhQ/ElectricCharge.hpp>
#include <PhQ/Energy.hpp>
#include <PhQ/Force.hpp>
#include <PhQ/HeatFlux.hpp>
#include <PhQ/Length.hpp>
#include <PhQ/MassDensity.hpp>
#include <PhQ/StaticPressure.hpp>
#include <PhQ/SpecificGasConstant.hpp>
#include <PhQ/Speed.hpp>
#include <PhQ/Stress.hpp>
#include <PhQ/Temperature.hpp>
#include <PhQ/ThermalConductivity.hpp>
#include <PhQ/Time.hpp>
#include <PhQ/Velocity.hpp>

#include <cstdint>
#include <iostream>
#include <map>
#include <random>
#include <set>
#include <sstream>
#include <string>
#include <unordered_set>
#include <vector>

using PhQ::Dimensions;
namespace D = PhQ::Dimension;

// FNV-1a digest over bytes.
struct Digest {
  std::uint64_t state{1469598103934665603ULL};
  void Bytes(const void* data, std::size_t size) {
    const unsigned char* bytes = static_cast<const unsigned char*>(data);
    for (std::size_t i = 0; i < size; ++i) {
      state ^= bytes[i];
      state *= 1099511628211ULL;
    }
  }
  void String(const std::string& s) {
    Bytes(s.data(), s.size());
    const unsigned char separator = 0xFF;
    Bytes(&separator, 1);
  }
  void U64(std::uint64_t v) {
    Bytes(&v, sizeof(v));
  }
  void Bool(bool b) {
    const unsigned char c = b ? 1 : 0;
    Bytes(&c, 1);
  }
};

template <typename T>
std::string Streamed(const T& t) {
  std::ostringstream stream;
  stream << t;
  return stream.str();
}

template <typename Base>
void BaseDimension(const char* name) {
  Digest print_digest;
  Digest compare_digest;
  Digest hash_digest;
  std::cout << name << " label=" << Base::Label() << " abbreviation=" << Base::Abbreviation()
            << " default=[" << Base{}.Print() << "]\n";
  for (int i = -128; i <= 127; ++i) {
    const Base a{static_cast<int8_t>(i)};
    const std::string printed = a.Print();
    const std::string streamed = Streamed(a);
    print_digest.String(printed);
    print_digest.String(streamed);
    hash_digest.U64(std::hash<Base>()(a));
    if (i >= -12 && i <= 12) {
      std::cout << "  " << i << " [" << printed << "] [" << streamed << "] value=" << int{a.Value()}
                << " hash=" << std::hash<Base>()(a) << "\n";
    }
    for (int j = -128; j <= 127; ++j) {
      const Base b{static_cast<int8_t>(j)};
      compare_digest.Bool(a == b);
      compare_digest.Bool(a != b);
      compare_digest.Bool(a < b);
      compare_digest.Bool(a > b);
      compare_digest.Bool(a <= b);
      compare_digest.Bool(a >= b);
    }
  }
  std::cout << "  print_digest=" << print_digest.state << " compare_digest=" << compare_digest.state
            << " hash_digest=" << hash_digest.state << "\n";
}

Dimensions Make(const int8_t t, const int8_t l, const int8_t m, const int8_t i, const int8_t th,
                const int8_t n, const int8_t j) {
  return Dimensions{D::Time{t},        D::Length{l},          D::Mass{m},
                    D::ElectricCurrent{i}, D::Temperature{th}, D::SubstanceAmount{n},
                    D::LuminousIntensity{j}};
}

void Show(const char* name, const Dimensions& d) {
  std::cout << name << ": [" << d.Print() << "] [" << Streamed(d)
            << "] hash=" << std::hash<Dimensions>()(d) << " json=" << d.JSON() << " xml=" << d.XML()
            << " yaml=" << d.YAML() << "\n";
}

void Compare(Digest& digest, const Dimensions& a, const Dimensions& b) {
  digest.Bool(a == b);
  digest.Bool(a != b);
  digest.Bool(a < b);
  digest.Bool(a > b);
  digest.Bool(a <= b);
  digest.Bool(a >= b);
}

template <typename Quantity>
void QuantityDimensions(const char* name) {
  Show(name, Quantity::Dimensions());
}

template <typename Number>
void Quantities(const char* number) {
  std::cout << "numeric type " << number << "\n";
  QuantityDimensions<PhQ::Time<Number>>("Time");
  QuantityDimensions<PhQ::Length<Number>>("Length");
  QuantityDimensions<PhQ::Speed<Number>>("Speed");
  QuantityDimensions<PhQ::Velocity<Number>>("Velocity");
  QuantityDimensions<PhQ::Acceleration<Number>>("Acceleration");
  QuantityDimensions<PhQ::Force<Number>>("Force");
  QuantityDimensions<PhQ::Energy<Number>>("Energy");
  QuantityDimensions<PhQ::StaticPressure<Number>>("Pressure");
  QuantityDimensions<PhQ::Stress<Number>>("Stress");
  QuantityDimensions<PhQ::MassDensity<Number>>("MassDensity");
  QuantityDimensions<PhQ::DynamicViscosity<Number>>("DynamicViscosity");
  QuantityDimensions<PhQ::Temperature<Number>>("Temperature");
  QuantityDimensions<PhQ::ThermalConductivity<Number>>("ThermalConductivity");
  QuantityDimensions<PhQ::SpecificGasConstant<Number>>("SpecificGasConstant");
  QuantityDimensions<PhQ::HeatFlux<Number>>("HeatFlux");
  QuantityDimensions<PhQ::ElectricCharge<Number>>("ElectricCharge");
  const PhQ::Speed<Number> speed{static_cast<Number>(-0.0), PhQ::Unit::Speed::MetrePerSecond};
  std::cout << "  speed.Dimensions()=" << speed.Dimensions() << "\n";
}

int main() {
  // 1. The seven base physical dimensions, every exponent and every pair of exponents.
  BaseDimension<D::Time>("Time");
  BaseDimension<D::Length>("Length");
  BaseDimension<D::Mass>("Mass");
  BaseDimension<D::ElectricCurrent>("ElectricCurrent");
  BaseDimension<D::Temperature>("Temperature");
  BaseDimension<D::SubstanceAmount>("SubstanceAmount");
  BaseDimension<D::LuminousIntensity>("LuminousIntensity");

  // 2. A few hand-picked dimension sets printed in full.
  Show("dimensionless", PhQ::Dimensionless);
  Show("default", Dimensions{});
  Show("speed", Make(-1, 1, 0, 0, 0, 0, 0));
  Show("force", Make(-2, 1, 1, 0, 0, 0, 0));
  Show("all ones", Make(1, 1, 1, 1, 1, 1, 1));
  Show("all twos", Make(2, 2, 2, 2, 2, 2, 2));
  Show("all minus ones", Make(-1, -1, -1, -1, -1, -1, -1));
  Show("mixed", Make(2, -3, 0, 1, -1, 4, -5));
  Show("only J", Make(0, 0, 0, 0, 0, 0, 1));
  Show("only N negative", Make(0, 0, 0, 0, 0, -7, 0));
  Show("extremes", Make(-128, 127, -128, 127, -128, 127, -128));
  Show("extremes 2", Make(127, -128, 127, -128, 127, -128, 127));
  Show("max", Make(127, 127, 127, 127, 127, 127, 127));
  Show("min", Make(-128, -128, -128, -128, -128, -128, -128));
  for (int position = 0; position < 7; ++position) {
    for (const int value : {-128, -10, -2, -1, 1, 2, 10, 127}) {
      int8_t e[7] = {0, 0, 0, 0, 0, 0, 0};
      e[position] = static_cast<int8_t>(value);
      const std::string name = "single " + std::to_string(position) + " " + std::to_string(value);
      Show(name.c_str(), Make(e[0], e[1], e[2], e[3], e[4], e[5], e[6]));
    }
  }

  // 3. Every exponent 7-tuple in the box [-2, 2]^7: print, stream, hash; compared against its
  // predecessor in enumeration order, itself, and a handful of fixed sets.
  {
    std::vector<Dimensions> box;
    for (int t = -2; t <= 2; ++t)
      for (int l = -2; l <= 2; ++l)
        for (int m = -2; m <= 2; ++m)
          for (int i = -2; i <= 2; ++i)
            for (int th = -2; th <= 2; ++th)
              for (int n = -2; n <= 2; ++n)
                for (int j = -2; j <= 2; ++j)
                  box.push_back(Make(static_cast<int8_t>(t), static_cast<int8_t>(l),
                                     static_cast<int8_t>(m), static_cast<int8_t>(i),
                                     static_cast<int8_t>(th), static_cast<int8_t>(n),
                                     static_cast<int8_t>(j)));
    Digest print_digest;
    Digest hash_digest;
    Digest compare_digest;
    const std::vector<Dimensions> fixed{
        PhQ::Dimensionless, Make(-1, 1, 0, 0, 0, 0, 0), Make(0, 0, 0, 0, 0, 0, 1),
        Make(0, 0, 0, 0, 0, 0, -1), Make(2, 2, 2, 2, 2, 2, 2), Make(-2, -2, -2, -2, -2, -2, -2),
        Make(0, 0, 0, 1, 0, 0, 0)};
    for (std::size_t k = 0; k < box.size(); ++k) {
      print_digest.String(box[k].Print());
      print_digest.String(Streamed(box[k]));
      hash_digest.U64(std::hash<Dimensions>()(box[k]));
      Compare(compare_digest, box[k], box[k]);
      Compare(compare_digest, box[k], box[k == 0 ? box.size() - 1 : k - 1]);
      Compare(compare_digest, box[(k * 7919) % box.size()], box[k]);
      for (const Dimensions& f : fixed) {
        Compare(compare_digest, box[k], f);
        Compare(compare_digest, f, box[k]);
      }
    }
    std::cout << "box size=" << box.size() << " print_digest=" << print_digest.state
              << " hash_digest=" << hash_digest.state << " compare_digest=" << compare_digest.state
              << "\n";

    // All pairs in the smaller box [-1, 1]^7 restricted to a stride, full six operators.
    Digest pair_digest;
    std::vector<Dimensions> small;
    for (const Dimensions& d : box) {
      bool inside = true;
      const int values[7] = {d.Time().Value(), d.Length().Value(), d.Mass().Value(),
                             d.ElectricCurrent().Value(), d.Temperature().Value(),
                             d.SubstanceAmount().Value(), d.LuminousIntensity().Value()};
      for (const int v : values) inside = inside && v >= -1 && v <= 1;
      if (inside) small.push_back(d);
    }
    for (const Dimensions& a : small)
      for (const Dimensions& b : small) Compare(pair_digest, a, b);
    std::cout << "small box size=" << small.size() << " pair_digest=" << pair_digest.state << "\n";

    // Containers that rely on ordering and hashing.
    std::set<Dimensions> ordered(box.rbegin(), box.rend());
    Digest order_digest;
    for (const Dimensions& d : ordered) order_digest.String(d.Print());
    std::unordered_set<Dimensions> unordered(box.begin(), box.end());
    std::map<Dimensions, int> mapped;
    for (std::size_t k = 0; k < box.size(); ++k) mapped[box[(k * 7919) % box.size()]] += 1;
    std::cout << "set size=" << ordered.size() << " order_digest=" << order_digest.state
              << " first=" << ordered.begin()->Print() << " last=" << ordered.rbegin()->Print()
              << " unordered size=" << unordered.size() << " map size=" << mapped.size() << "\n";
  }

  // 4. Random exponent 7-tuples over the whole int8_t range, plus random near-equal pairs.
  {
    std::mt19937_64 generator(20260927);
    std::uniform_int_distribution<int> any(-128, 127);
    std::uniform_int_distribution<int> position(0, 6);
    Digest print_digest;
    Digest hash_digest;
    Digest compare_digest;
    for (int k = 0; k < 300000; ++k) {
      int8_t a[7];
      int8_t b[7];
      for (int p = 0; p < 7; ++p) {
        a[p] = static_cast<int8_t>(any(generator));
        b[p] = static_cast<int8_t>(any(generator));
      }
      // Make b share a prefix with a in most cases so that later positions decide.
      const int shared = position(generator) + (k % 3 == 0 ? 1 : 0);
      for (int p = 0; p < shared && p < 7; ++p) b[p] = a[p];
      const Dimensions da = Make(a[0], a[1], a[2], a[3], a[4], a[5], a[6]);
      const Dimensions db = Make(b[0], b[1], b[2], b[3], b[4], b[5], b[6]);
      print_digest.String(da.Print());
      print_digest.String(Streamed(db));
      hash_digest.U64(std::hash<Dimensions>()(da));
      hash_digest.U64(std::hash<Dimensions>()(db));
      Compare(compare_digest, da, db);
      Compare(compare_digest, db, da);
      if (k < 40) {
        std::cout << "random " << k << ": [" << da << "] vs [" << db << "] hash="
                  << std::hash<Dimensions>()(da) << " " << (da == db) << (da != db) << (da < db)
                  << (da > db) << (da <= db) << (da >= db) << "\n";
      }
    }
    std::cout << "random print_digest=" << print_digest.state
              << " hash_digest=" << hash_digest.state << " compare_digest=" << compare_digest.state
              << "\n";
  }

  // 5. Dimension sets declared for unit types and reported by quantities of all three numeric
  // types.
  Show("unit Time", PhQ::RelatedDimensions<PhQ::Unit::Time>);
  Show("unit Length", PhQ::RelatedDimensions<PhQ::Unit::Length>);
  Show("unit Speed", PhQ::RelatedDimensions<PhQ::Unit::Speed>);
  Show("unit Force", PhQ::RelatedDimensions<PhQ::Unit::Force>);
  Show("unit Energy", PhQ::RelatedDimensions<PhQ::Unit::Energy>);
  Show("unit Pressure", PhQ::RelatedDimensions<PhQ::Unit::Pressure>);
  Show("unit ThermalConductivity", PhQ::RelatedDimensions<PhQ::Unit::ThermalConductivity>);
  Show("unit ElectricCharge", PhQ::RelatedDimensions<PhQ::Unit::ElectricCharge>);
  Quantities<float>("float");
  Quantities<double>("double");
  Quantities<long double>("long double");
  std::cout << std::boolalpha
            << (PhQ::Speed<float>::Dimensions() == PhQ::Speed<long double>::Dimensions()) << " "
            << (PhQ::StaticPressure<double>::Dimensions() == PhQ::Stress<float>::Dimensions()) << " "
            << (PhQ::StaticPressure<double>::Dimensions() != PhQ::Energy<float>::Dimensions()) << " "
            << (PhQ::Force<double>::Dimensions() < PhQ::Energy<double>::Dimensions()) << " "
            << (PhQ::Force<double>::Dimensions() > PhQ::Energy<double>::Dimensions()) << "\n";
  return 0;
}
