// Differential program for property C13 (Newtonian fluid constitutive models).
// Prints every result as raw bytes so that the outputs of two builds can be compared bit for bit.
#include <PhQ/BulkDynamicViscosity.hpp>
#include <PhQ/ConstitutiveModel.hpp>
#include <PhQ/ConstitutiveModel/CompressibleNewtonianFluid.hpp>
#include <PhQ/ConstitutiveModel/IncompressibleNewtonianFluid.hpp>
#include <PhQ/DynamicViscosity.hpp>
#include <PhQ/Strain.hpp>
#include <PhQ/StrainRate.hpp>
#include <PhQ/Stress.hpp>
#include <PhQ/SymmetricDyad.hpp>
#include <PhQ/Unit/DynamicViscosity.hpp>
#include <PhQ/Unit/Frequency.hpp>
#include <PhQ/Unit/Pressure.hpp>

#include <cmath>
#include <cstdint>
#include <cstdio>
#include <cstring>
#include <functional>
#include <limits>
#include <memory>
#include <random>
#include <sstream>
#include <string>
#include <vector>

namespace {

std::uint64_t digest = 1469598103934665603ULL;
unsigned long long lines = 0;

void Mix(const unsigned char* bytes, const std::size_t count) {
  for (std::size_t i = 0; i < count; ++i) {
    digest ^= bytes[i];
    digest *= 1099511628211ULL;
  }
}

template <typename T>
constexpr std::size_t SignificantBytes() {
  return sizeof(T);
}
template <>
constexpr std::size_t SignificantBytes<long double>() {
  return 10;  // x87 extended precision; the remaining bytes are padding
}

template <typename T>
std::string Bits(const T value) {
  unsigned char bytes[sizeof(T)];
  std::memcpy(bytes, &value, sizeof(T));
  std::string text;
  char buffer[4];
  for (std::size_t i = SignificantBytes<T>(); i-- > 0;) {
    std::snprintf(buffer, sizeof(buffer), "%02x", bytes[i]);
    text += buffer;
  }
  return text;
}

bool verbose = false;
std::uint64_t group_digest = 1469598103934665603ULL;

// Every result line goes into the global digest and into the digest of the current group; the
// lines themselves are printed only in verbose mode (they amount to several hundred megabytes).
void Emit(const std::string& line, const bool always = false) {
  Mix(reinterpret_cast<const unsigned char*>(line.data()), line.size());
  for (const char c : line) {
    group_digest ^= static_cast<unsigned char>(c);
    group_digest *= 1099511628211ULL;
  }
  ++lines;
  if (verbose || always) {
    std::puts(line.c_str());
  }
}

void EndGroup(const std::string& name) {
  std::printf("%s group-digest %016llx\n", name.c_str(),
              static_cast<unsigned long long>(group_digest));
  group_digest = 1469598103934665603ULL;
}

template <typename T>
std::string Bits(const PhQ::SymmetricDyad<T>& dyad) {
  return Bits(dyad.xx()) + " " + Bits(dyad.xy()) + " " + Bits(dyad.xz()) + " " + Bits(dyad.yy())
         + " " + Bits(dyad.yz()) + " " + Bits(dyad.zz());
}

template <typename T>
const char* Name();
template <>
const char* Name<float>() {
  return "f";
}
template <>
const char* Name<double>() {
  return "d";
}
template <>
const char* Name<long double>() {
  return "l";
}

template <typename T>
std::vector<T> ViscosityValues(std::mt19937_64& generator) {
  using L = std::numeric_limits<T>;
  std::vector<T> values{static_cast<T>(0),
                        -static_cast<T>(0),
                        static_cast<T>(1),
                        static_cast<T>(-1),
                        static_cast<T>(0.5),
                        static_cast<T>(2),
                        static_cast<T>(3),
                        static_cast<T>(1.0e-3L),
                        static_cast<T>(1.8e-5L),
                        static_cast<T>(0.1L),
                        static_cast<T>(1.0L / 3.0L),
                        static_cast<T>(6.0),
                        static_cast<T>(-6.0),
                        static_cast<T>(1.0e6L),
                        static_cast<T>(1.0e-20L),
                        static_cast<T>(1.0e20L),
                        L::min(),
                        L::denorm_min(),
                        L::max(),
                        L::max() / static_cast<T>(2),
                        L::max() / static_cast<T>(4),
                        L::epsilon(),
                        L::infinity(),
                        -L::infinity(),
                        L::quiet_NaN(),
                        -L::quiet_NaN()};
  std::uniform_real_distribution<long double> exponent(-30.0L, 30.0L);
  std::uniform_real_distribution<long double> mantissa(1.0L, 10.0L);
  for (int i = 0; i < 14; ++i) {
    values.push_back(static_cast<T>(mantissa(generator) * std::pow(10.0L, exponent(generator))));
  }
  return values;
}

template <typename T>
std::vector<PhQ::SymmetricDyad<T>> Tensors(std::mt19937_64& generator) {
  using L = std::numeric_limits<T>;
  const T z{static_cast<T>(0)};
  const T nz{-static_cast<T>(0)};
  std::vector<PhQ::SymmetricDyad<T>> tensors{
    PhQ::SymmetricDyad<T>{z, z, z, z, z, z},
    PhQ::SymmetricDyad<T>{nz, nz, nz, nz, nz, nz},
    PhQ::SymmetricDyad<T>{z, nz, z, nz, z, nz},
    PhQ::SymmetricDyad<T>{static_cast<T>(1), z, z, static_cast<T>(1), z, static_cast<T>(1)},
    PhQ::SymmetricDyad<T>{static_cast<T>(1), z, z, static_cast<T>(-1), z, z},
    PhQ::SymmetricDyad<T>{static_cast<T>(1), z, z, static_cast<T>(-1), z, nz},
    PhQ::SymmetricDyad<T>{static_cast<T>(32), static_cast<T>(-4), static_cast<T>(-2),
                          static_cast<T>(16), static_cast<T>(-1), static_cast<T>(8)},
    PhQ::SymmetricDyad<T>{static_cast<T>(1), static_cast<T>(-2), static_cast<T>(3),
                          static_cast<T>(-4), static_cast<T>(5), static_cast<T>(-6)},
    PhQ::SymmetricDyad<T>{static_cast<T>(0.1L), static_cast<T>(0.2L), static_cast<T>(0.3L),
                          static_cast<T>(0.4L), static_cast<T>(0.5L), static_cast<T>(0.6L)},
    PhQ::SymmetricDyad<T>{static_cast<T>(2), static_cast<T>(7), static_cast<T>(-7),
                          static_cast<T>(-5), static_cast<T>(11), static_cast<T>(3)},
    PhQ::SymmetricDyad<T>{L::min(), L::denorm_min(), -L::denorm_min(), L::min(), z, -L::min()},
    PhQ::SymmetricDyad<T>{L::denorm_min(), L::denorm_min(), L::denorm_min(), L::denorm_min(),
                          L::denorm_min(), L::denorm_min()},
    PhQ::SymmetricDyad<T>{L::max(), L::max(), -L::max(), L::max(), z, L::max()},
    PhQ::SymmetricDyad<T>{L::max(), z, z, -L::max(), z, static_cast<T>(1)},
    PhQ::SymmetricDyad<T>{L::epsilon(), static_cast<T>(1), -L::epsilon(), static_cast<T>(1),
                          L::epsilon(), static_cast<T>(-1)},
    PhQ::SymmetricDyad<T>{L::infinity(), z, z, static_cast<T>(1), z, static_cast<T>(1)},
    PhQ::SymmetricDyad<T>{L::infinity(), z, z, -L::infinity(), z, static_cast<T>(1)},
    PhQ::SymmetricDyad<T>{L::quiet_NaN(), z, static_cast<T>(1), static_cast<T>(1), z,
                          static_cast<T>(1)},
    PhQ::SymmetricDyad<T>{static_cast<T>(1), -L::quiet_NaN(), z, static_cast<T>(2), z,
                          static_cast<T>(3)}};
  std::uniform_real_distribution<long double> unit(-1.0L, 1.0L);
  std::uniform_real_distribution<long double> exponent(-25.0L, 25.0L);
  for (int i = 0; i < 12; ++i) {
    tensors.emplace_back(static_cast<T>(unit(generator)), static_cast<T>(unit(generator)),
                         static_cast<T>(unit(generator)), static_cast<T>(unit(generator)),
                         static_cast<T>(unit(generator)), static_cast<T>(unit(generator)));
  }
  for (int i = 0; i < 12; ++i) {
    const long double scale{std::pow(10.0L, exponent(generator))};
    tensors.emplace_back(
        static_cast<T>(scale * unit(generator)), static_cast<T>(scale * unit(generator)),
        static_cast<T>(scale * unit(generator)), static_cast<T>(scale * unit(generator)),
        static_cast<T>(scale * unit(generator)), static_cast<T>(scale * unit(generator)));
  }
  for (int i = 0; i < 6; ++i) {
    // Each component with its own magnitude.
    tensors.emplace_back(static_cast<T>(unit(generator) * std::pow(10.0L, exponent(generator))),
                         static_cast<T>(unit(generator) * std::pow(10.0L, exponent(generator))),
                         static_cast<T>(unit(generator) * std::pow(10.0L, exponent(generator))),
                         static_cast<T>(unit(generator) * std::pow(10.0L, exponent(generator))),
                         static_cast<T>(unit(generator) * std::pow(10.0L, exponent(generator))),
                         static_cast<T>(unit(generator) * std::pow(10.0L, exponent(generator))));
  }
  return tensors;
}

// Exercises all overloads of one numeric type T through the abstract interface.
template <typename T>
void ExerciseOverloads(const std::string& tag, const PhQ::ConstitutiveModel& model,
                       const std::vector<PhQ::SymmetricDyad<T>>& tensors) {
  const std::string prefix{tag + " " + Name<T>() + " "};
  std::size_t index{0};
  for (const PhQ::SymmetricDyad<T>& tensor : tensors) {
    const std::string id{prefix + std::to_string(index) + " "};
    const PhQ::StrainRate<T> strain_rate{tensor, PhQ::Unit::Frequency::Hertz};
    const PhQ::Strain<T> strain{tensor};
    const PhQ::Stress<T> stress_in{tensor, PhQ::Unit::Pressure::Pascal};

    const PhQ::Stress<T> stress{model.Stress(strain_rate)};
    Emit(id + "S(D) " + Bits(stress.Value()));
    const PhQ::Stress<T> stress2{model.Stress(strain, strain_rate)};
    Emit(id + "S(E,D) " + Bits(stress2.Value()));
    const PhQ::Stress<T> stress3{model.Stress(strain)};
    Emit(id + "S(E) " + Bits(stress3.Value()));
    const PhQ::Strain<T> strain_out{model.Strain(stress_in)};
    Emit(id + "E(S) " + Bits(strain_out.Value()));
    const PhQ::StrainRate<T> rate{model.StrainRate(stress_in)};
    Emit(id + "D(S) " + Bits(rate.Value()));
    // Round trips and second applications.
    const PhQ::StrainRate<T> back{model.StrainRate(stress)};
    Emit(id + "D(S(D)) " + Bits(back.Value()));
    const PhQ::Stress<T> forth{model.Stress(rate)};
    Emit(id + "S(D(S)) " + Bits(forth.Value()));
    const PhQ::Stress<T> again{model.Stress(back)};
    Emit(id + "S(D(S(D))) " + Bits(again.Value()));
    // Linearity probes: scaled and summed inputs.
    const PhQ::StrainRate<T> doubled{strain_rate * static_cast<T>(2)};
    Emit(id + "S(2D) " + Bits(model.Stress(doubled).Value()));
    const PhQ::SymmetricDyad<T>& other{tensors[(index * 7 + 3) % tensors.size()]};
    const PhQ::StrainRate<T> sum{
      strain_rate + PhQ::StrainRate<T>{other, PhQ::Unit::Frequency::Hertz}};
    Emit(id + "S(D+D') " + Bits(model.Stress(sum).Value()));
    const PhQ::Stress<T> stress_sum{
      stress_in + PhQ::Stress<T>{other, PhQ::Unit::Pressure::Pascal}};
    Emit(id + "D(S+S') " + Bits(model.StrainRate(stress_sum).Value()));
    // Other units on input.
    const PhQ::StrainRate<T> kilo{tensor, PhQ::Unit::Frequency::Kilohertz};
    Emit(id + "S(D kHz) " + Bits(model.Stress(kilo).Value()));
    const PhQ::Stress<T> psi{tensor, PhQ::Unit::Pressure::PoundPerSquareInch};
    Emit(id + "D(S psi) " + Bits(model.StrainRate(psi).Value()));
    ++index;
  }
  EndGroup(prefix);
}

template <typename T>
void ExerciseText(const std::string& tag, const PhQ::ConstitutiveModel& model) {
  (void)sizeof(T);
  Emit(tag + " type " + std::to_string(static_cast<int>(model.GetType())), true);
  Emit(tag + " print " + model.Print(), true);
  Emit(tag + " json " + model.JSON(), true);
  Emit(tag + " xml " + model.XML(), true);
  Emit(tag + " yaml " + model.YAML(), true);
  std::ostringstream stream;
  stream << model;
  Emit(tag + " stream " + stream.str(), true);
}

template <typename N>
void ExerciseModels(std::mt19937_64& generator, const std::vector<PhQ::SymmetricDyad<float>>& tf,
                    const std::vector<PhQ::SymmetricDyad<double>>& td,
                    const std::vector<PhQ::SymmetricDyad<long double>>& tl) {
  using Incompressible = PhQ::ConstitutiveModel::IncompressibleNewtonianFluid<N>;
  using Compressible = PhQ::ConstitutiveModel::CompressibleNewtonianFluid<N>;
  const std::vector<N> viscosities{ViscosityValues<N>(generator)};
  const std::vector<N> bulk_viscosities{ViscosityValues<N>(generator)};

  std::size_t count{0};
  for (const N mu : viscosities) {
    const PhQ::DynamicViscosity<N> dynamic_viscosity{mu, PhQ::Unit::DynamicViscosity::PascalSecond};
    {
      const std::string tag{std::string{"I<"} + Name<N>() + "> mu=" + Bits(mu)};
      const std::unique_ptr<const PhQ::ConstitutiveModel> model{
        std::make_unique<const Incompressible>(dynamic_viscosity)};
      ExerciseText<N>(tag, *model);
      ExerciseOverloads<float>(tag, *model, tf);
      ExerciseOverloads<double>(tag, *model, td);
      ExerciseOverloads<long double>(tag, *model, tl);
      const Incompressible direct{dynamic_viscosity};
      Emit(tag + " accessor " + Bits(direct.DynamicViscosity().Value()));
      Emit(tag + " hash " + std::to_string(std::hash<Incompressible>()(direct)));
      // Direct (non-virtual-dispatch-through-base) calls as well.
      Emit(tag + " direct "
           + Bits(direct.Stress(PhQ::StrainRate<N>{PhQ::SymmetricDyad<N>{td[7]},
                                                   PhQ::Unit::Frequency::Hertz})
                      .Value()));
      Emit(tag + " direct "
           + Bits(direct.StrainRate(PhQ::Stress<N>{PhQ::SymmetricDyad<N>{td[7]},
                                                   PhQ::Unit::Pressure::Pascal})
                      .Value()));
    }
    {
      // One-argument constructor: zero bulk dynamic viscosity.
      const std::string tag{std::string{"C1<"} + Name<N>() + "> mu=" + Bits(mu)};
      const std::unique_ptr<const PhQ::ConstitutiveModel> model{
        std::make_unique<const Compressible>(dynamic_viscosity)};
      ExerciseText<N>(tag, *model);
      ExerciseOverloads<float>(tag, *model, tf);
      ExerciseOverloads<double>(tag, *model, td);
      ExerciseOverloads<long double>(tag, *model, tl);
      const Compressible direct{dynamic_viscosity};
      Emit(tag + " accessor " + Bits(direct.DynamicViscosity().Value()) + " "
           + Bits(direct.BulkDynamicViscosity().Value()));
      Emit(tag + " hash " + std::to_string(std::hash<Compressible>()(direct)));
    }
    // Two-argument constructor: a rotating selection of bulk viscosities to bound the run time,
    // plus every bulk viscosity for a few dynamic viscosities.
    std::size_t inner{0};
    for (const N mu_b : bulk_viscosities) {
      const bool selected{count % 13 == 2 || (inner + count) % 9 == 0};
      ++inner;
      if (!selected) {
        continue;
      }
      const PhQ::BulkDynamicViscosity<N> bulk_dynamic_viscosity{
        mu_b, PhQ::Unit::DynamicViscosity::PascalSecond};
      const std::string tag{
        std::string{"C2<"} + Name<N>() + "> mu=" + Bits(mu) + " mub=" + Bits(mu_b)};
      const std::unique_ptr<const PhQ::ConstitutiveModel> model{
        std::make_unique<const Compressible>(dynamic_viscosity, bulk_dynamic_viscosity)};
      ExerciseText<N>(tag, *model);
      ExerciseOverloads<float>(tag, *model, tf);
      ExerciseOverloads<double>(tag, *model, td);
      ExerciseOverloads<long double>(tag, *model, tl);
      const Compressible direct{dynamic_viscosity, bulk_dynamic_viscosity};
      Emit(tag + " accessor " + Bits(direct.DynamicViscosity().Value()) + " "
           + Bits(direct.BulkDynamicViscosity().Value()));
      Emit(tag + " hash " + std::to_string(std::hash<Compressible>()(direct)));
      Emit(tag + " direct "
           + Bits(direct.Stress(PhQ::StrainRate<N>{PhQ::SymmetricDyad<N>{td[7]},
                                                   PhQ::Unit::Frequency::Hertz})
                      .Value()));
      Emit(tag + " direct "
           + Bits(direct.StrainRate(PhQ::Stress<N>{PhQ::SymmetricDyad<N>{td[7]},
                                                   PhQ::Unit::Pressure::Pascal})
                      .Value()));
      const Compressible other{
        PhQ::DynamicViscosity<N>{viscosities[(count + 1) % viscosities.size()],
                                 PhQ::Unit::DynamicViscosity::PascalSecond},
        PhQ::BulkDynamicViscosity<N>{bulk_viscosities[(inner + 2) % bulk_viscosities.size()],
                                     PhQ::Unit::DynamicViscosity::PascalSecond}};
      Emit(tag + " cmp " + std::to_string(direct == other) + std::to_string(direct != other)
           + std::to_string(direct < other) + std::to_string(direct > other)
           + std::to_string(direct <= other) + std::to_string(direct >= other)
           + std::to_string(direct == direct));
    }
    {
      const Incompressible a{dynamic_viscosity};
      const Incompressible b{
        PhQ::DynamicViscosity<N>{viscosities[(count + 1) % viscosities.size()],
                                 PhQ::Unit::DynamicViscosity::PascalSecond}};
      Emit(std::string{"I<"} + Name<N>() + "> cmp " + std::to_string(a == b)
           + std::to_string(a != b) + std::to_string(a < b) + std::to_string(a > b)
           + std::to_string(a <= b) + std::to_string(a >= b) + std::to_string(a == a));
    }
    ++count;
  }
}

}  // namespace

int main(int argc, char** argv) {
  // With the argument "verbose" every single result line is printed as well.
  verbose = argc > 1 && std::string{argv[1]} == "verbose";
  std::mt19937_64 generator{20240913ULL};
  const std::vector<PhQ::SymmetricDyad<float>> tf{Tensors<float>(generator)};
  const std::vector<PhQ::SymmetricDyad<double>> td{Tensors<double>(generator)};
  const std::vector<PhQ::SymmetricDyad<long double>> tl{Tensors<long double>(generator)};
  ExerciseModels<float>(generator, tf, td, tl);
  ExerciseModels<double>(generator, tf, td, tl);
  ExerciseModels<long double>(generator, tf, td, tl);
  std::printf("lines %llu digest %016llx\n", lines, static_cast<unsigned long long>(digest));
  return 0;
}
