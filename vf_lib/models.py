"""Shared rules for the constitutive-model classes (C12, C13)."""
import re
import sys
import sympy

from . import ev, nf, shapes, facts as factsmod
from .facts import short, strip_cvref
from .frontend import NUMERIC, VERIF

sys.path.insert(0, VERIF)
from oracle import elasticity as EL  # noqa: E402


def model_self(F, E, mname):
    return E.symbolic(mname, "self")


def member_value(conv, selfv, field):
    """sympy symbol of a scalar member quantity of the symbolic model object."""
    return conv(ev.flatten(selfv.f[field])[0][1])


def eval_method(F, f, mname, arg_names):
    E = ev.Evaluator(F)
    this = E.new_loc(E.symbolic(mname, "self"), "this")
    args = []
    for p, nme in zip(f["params"], arg_names):
        pt = F.T(p["t"])
        v = E.symbolic(pt, nme)
        lv = E.new_loc(v, "arg")
        args.append(lv if factsmod.is_ref(pt) else v)
    res = E.call(f["id"], this, args)
    return E, E.rv(res)


def overrides_complete(chk, F, mname, rule):
    """Every pure virtual of ConstitutiveModel is overridden in model class mname."""
    base = "PhQ::ConstitutiveModel"
    pure = [f for f in F.methods(base) if f.get("pure")]
    if len(pure) < 15:
        chk.inconclusive(rule, mname + ":overrides", "only %d pure virtual functions found in ConstitutiveModel (anchor changed)" % len(pure), "")
        return
    overridden = set()
    for cls in class_chain(F, mname):
        if cls == base:
            continue
        for f in F.methods(cls):          # an intermediate base between the model and ConstitutiveModel may supply overriders
            stack = list(f.get("overrides", []))
            while stack:
                o = stack.pop()
                if o not in overridden:
                    overridden.add(o)
                    stack += F.fns[o].get("overrides", []) if o in F.fns else []
    missing = [f for f in pure if f["id"] not in overridden]
    rec = F.records.get(mname, {})
    if missing or rec.get("abstract"):
        chk.violated(rule, mname + ":overrides", "pure virtual functions not overridden: %s" % [m["name"] + str(F.param_types(m)) for m in missing][:4], short(rec.get("loc", "")))
    else:
        chk.holds(rule, mname + ":overrides", "%d pure virtual functions all overridden; class is concrete" % len(pure), short(rec.get("loc", "")))


def class_chain(F, mname):
    """mname and its bases, most-derived first."""
    out, todo = [], [mname]
    while todo:
        c = todo.pop(0)
        if c in out or c not in F.records:
            continue
        out.append(c)
        todo += [F.T(b["t"]) for b in F.records[c]["bases"]]
    return out


def tensor_methods(F, mname, sname, nparams):
    """The member functions `sname` with nparams parameters that an object of class mname answers with: its own and
    those inherited from a base that no more-derived class overrides (final overriders)."""
    out, hidden = [], set()
    for cls in class_chain(F, mname):
        for f in F.methods(cls, sname):
            if f["id"] in hidden:
                continue
            stack = list(f.get("overrides", []))
            while stack:
                o = stack.pop()
                if o not in hidden:
                    hidden.add(o)
                    stack += F.fns[o].get("overrides", []) if o in F.fns else []
            if "body" in f and len(f["params"]) == nparams:
                out.append(f)
    return [f for f in out if f["id"] not in hidden]


def numeric_of(t):
    m = re.search(r"<(float|double|long double)>", t)
    return m.group(1) if m else None


MANT = {"float": 24, "double": 53, "long double": 64}


def narrowing_casts(val, T, member_T=None):
    """Casts of a non-constant value to a type with fewer significand bits than T inside a computed value."""
    out = []

    def rec(t):
        if isinstance(t, tuple) and t:
            if t[0] == "cast" and t[1] in MANT and T in MANT and MANT[t[1]] < MANT[T]:
                inner = t[2]
                if ev.leaves(inner):
                    out.append((t[1], t))
                elif isinstance(inner, tuple) and inner and inner[0] == "c" and not ev._exact_in(inner[1], t[1]):
                    out.append((t[1], t))   # an inexact constant written in a narrower type than the computation
            # a value *computed* in a narrower type and then widened into the T computation carries only the narrower precision
            if t[0] == "cast" and len(t) > 3 and t[1] in MANT and t[3] in MANT and T in MANT and MANT[t[3]] < MANT[T] and MANT[t[1]] >= MANT[T]:
                inner = t[2]
                while isinstance(inner, tuple) and inner and inner[0] == "cast":
                    inner = inner[2]
                if isinstance(inner, tuple) and inner and inner[0] in ("add", "sub", "mul", "div", "fn") and not _exact_constant(inner, t[3]):
                    out.append((t[3], t))
            for x in t:
                rec(x)
        elif isinstance(t, ev.Obj):
            for v in t.f.values():
                rec(v)
        elif isinstance(t, ev.Arr):
            for v in t.items:
                rec(v)
    rec(val)
    return out


def _exact_constant(t, X):
    """Is t a constant expression whose exact value (and every intermediate) is representable in X?"""
    from fractions import Fraction
    def val(u):
        if isinstance(u, int):
            return Fraction(u)
        if isinstance(u, tuple) and u:
            if u[0] == "c":
                return u[1]
            if u[0] == "cast":
                return val(u[2])
            if u[0] == "neg":
                v = val(u[1])
                return None if v is None else -v
            if u[0] in ("add", "sub", "mul", "div"):
                a, b = val(u[1]), val(u[2])
                if a is None or b is None or (u[0] == "div" and b == 0):
                    return None
                r = {"add": a + b, "sub": a - b, "mul": a * b, "div": (a / b) if b else None}[u[0]]
                return r if r is not None and ev._exact_in(r, X) else None
        return None
    if ev.leaves(t):
        return False
    v = val(t)
    return v is not None and ev._exact_in(v, X)


def parameter_cases(res, depth=0):
    """[(description, {symbol: value}, value)]: the value split on its conditionals whose condition compares one leaf with a
    constant for (in)equality.  In the equal case the leaf is replaced by the constant in both sides of the comparison."""
    found = []

    def find(x):
        if found:
            return
        if isinstance(x, ev.Obj):
            for v in x.f.values():
                find(v)
        elif isinstance(x, ev.Arr):
            for v in x.items:
                find(v)
        elif isinstance(x, tuple) and x:
            if x[0] == "g" and isinstance(x[1], tuple) and x[1] and x[1][0] == "cmp" and x[1][1] in ("==", "!="):
                l, r = x[1][2], x[1][3]
                while isinstance(l, tuple) and l and l[0] == "cast":
                    l = l[2]
                while isinstance(r, tuple) and r and r[0] == "cast":
                    r = r[2]
                if isinstance(l, tuple) and l and l[0] == "leaf" and (isinstance(r, int) or (isinstance(r, tuple) and r and r[0] == "c")):
                    found.append((x[1], l, r))
                    return
            for v in x:
                if isinstance(v, (tuple, ev.Obj, ev.Arr)):
                    find(v)
    find(res)
    if not found or depth > 4:
        return [("", {}, res)]
    cond, leaf, const = found[0]
    cval = sympy.Integer(const) if isinstance(const, int) else sympy.Rational(const[1].numerator, const[1].denominator)
    eq_truth = cond[1] == "=="
    out = []
    for d2, s2, r2 in parameter_cases(ev.assume(res, cond, eq_truth), depth + 1):      # leaf == const
        sub = dict(s2)
        sub[nf.sym(leaf[1], True)] = cval
        out.append((("%s == %s" % (leaf[1], cval)) + (" and " + d2 if d2 else ""), sub, r2))
    for d2, s2, r2 in parameter_cases(ev.assume(res, cond, not eq_truth), depth + 1):  # leaf != const
        out.append((("%s != %s" % (leaf[1], cval)) + (" and " + d2 if d2 else ""), s2, r2))
    return out


def check_linear_map(chk, rule, F, mname, f, a, b, inverse, conv_fields, argname="x"):
    """f: X -> a X + b tr(X) I  (or its inverse) slot-wise; a, b sympy in the model's member symbols."""
    pt = strip_cvref(F.T(f["params"][0]["t"]))
    inst = "%s::%s(%s)" % (mname, f["sname"], pt.replace("PhQ::", ""))
    loc = short(f.get("def_loc", f["loc"]))
    try:
        E, res = eval_method(F, f, mname, [argname])
        if E.unknown_calls:
            chk.inconclusive(rule, inst, "unmodelled call " + E.unknown_calls[0], loc)
            return None
        Tp = numeric_of(pt)
        nar = narrowing_casts(res, Tp)
        if nar:
            chk.violated(rule, inst, "the %s overload narrows an intermediate to %s (%s): the result has only %s precision" % (Tp, nar[0][0], ev.show(nar[0][1])[:120], nar[0][0]), loc)
            return None
        conv = nf.Conv(positive=True)
        E0 = ev.Evaluator(F)
        X, _ = shapes.to_sympy(conv, F, pt, E0.symbolic(pt, argname))
        want0 = EL.linear_isotropic_inverse(a, b, X) if inverse else EL.linear_isotropic(a, b, X)
        got = None
        # special-case branches on a model parameter (`if (bulk_viscosity == 0) ...`) are decided case by case
        for desc, subst, case_res in parameter_cases(res):
            got, _ = shapes.to_sympy(conv, F, F.T(f["ret"]), case_res)
            want = want0.subs(subst) if subst else want0
            got = got.subs(subst) if subst else got
            for i in range(3):
                for j in range(3):
                    if not nf.equal(got[i, j], want[i, j]):
                        w = nf.witness(got[i, j], want[i, j])
                        chk.violated(rule, inst, "%scomponent %s%s is %s, expected %s%s" % (("when %s: " % desc) if desc else "", "xyz"[i], "xyz"[j], sympy.simplify(got[i, j]), sympy.simplify(want[i, j]), "; e.g. at %s" % w if w else ""), loc, witness=w)
                        return None
        chk.holds(rule, inst, "slot-wise equal to %s" % ("the inverse of a X + b tr(X) I" if inverse else "a X + b tr(X) I"), loc)
        return got
    except ev.Inconclusive as x:
        chk.inconclusive(rule, inst, str(x), loc)
        return None


def check_zero(chk, rule, F, mname, f):
    pt = strip_cvref(F.T(f["params"][0]["t"]))
    inst = "%s::%s(%s)" % (mname, f["sname"], pt.replace("PhQ::", ""))
    loc = short(f.get("def_loc", f["loc"]))
    try:
        E, res = eval_method(F, f, mname, ["x"])
        flat = ev.flatten(res)
        if all(t == ev.ZERO for _, t in flat) and len(flat) == 6:
            chk.holds(rule, inst, "returns Zero() and does not read its argument", loc)
        else:
            chk.violated(rule, inst, "expected a zero tensor independent of the argument, got %s" % ev.show(flat[0][1])[:120], loc)
    except ev.Inconclusive as x:
        chk.inconclusive(rule, inst, str(x), loc)


def check_two_arg(chk, rule, F, mname, f, used_index, one_arg):
    """Stress(strain, strain_rate): equals the one-argument overload on parameter `used_index`, ignores the other."""
    pts = [strip_cvref(t) for t in F.param_types(f)]
    inst = "%s::%s(%s)" % (mname, f["sname"], ", ".join(p.replace("PhQ::", "") for p in pts))
    loc = short(f.get("def_loc", f["loc"]))
    try:
        E, res = eval_method(F, f, mname, ["x0", "x1"])
        lv = ev.leaves(res)
        ignored = "x%d" % (1 - used_index)
        if any(n.startswith(ignored + ".") for n in lv):
            chk.violated(rule, inst, "the result depends on the %s argument, which must not matter" % pts[1 - used_index].replace("PhQ::", ""), loc)
            return
        g = [o for o in one_arg if strip_cvref(F.T(o["params"][0]["t"])) == pts[used_index]]
        if not g:
            chk.inconclusive(rule, inst, "no one-argument overload for " + pts[used_index], loc)
            return
        E2, res2 = eval_method(F, g[0], mname, ["x%d" % used_index])
        if res == res2:
            chk.holds(rule, inst, "same term as %s(%s); other argument unread" % (f["sname"], pts[used_index].replace("PhQ::", "")), loc)
        else:
            chk.violated(rule, inst, "differs from the one-argument overload", loc)
    except ev.Inconclusive as x:
        chk.inconclusive(rule, inst, str(x), loc)
