// Differential program for the C19q refactor: conversion dispatch (PhQ::ConvertInPlace / Convert
// for every shape), PhQ::ParseEnumeration, PhQ::RelatedUnitSystem, PhQ::ConsistentUnit,
// PhQ::Abbreviation and operator<< of PhQ::UnitSystem, both before main() (static initialisation)
// and inside main().

#include <PhQ/Force.hpp>
#include <PhQ/Length.hpp>
#include <PhQ/PlanarForce.hpp>
#include <PhQ/Stress.hpp>
#include <PhQ/Temperature.hpp>
#include <PhQ/Time.hpp>
#include <PhQ/VelocityGradient.hpp>

#include <PhQ/Unit/Acceleration.hpp>
#include <PhQ/Unit/Angle.hpp>
#include <PhQ/Unit/AngularAcceleration.hpp>
#include <PhQ/Unit/AngularSpeed.hpp>
#include <PhQ/Unit/Area.hpp>
#include <PhQ/Unit/Diffusivity.hpp>
#include <PhQ/Unit/DynamicViscosity.hpp>
#include <PhQ/Unit/ElectricCharge.hpp>
#include <PhQ/Unit/ElectricCurrent.hpp>
#include <PhQ/Unit/Energy.hpp>
#include <PhQ/Unit/EnergyFlux.hpp>
#include <PhQ/Unit/Force.hpp>
#include <PhQ/Unit/Frequency.hpp>
#include <PhQ/Unit/HeatCapacity.hpp>
#include <PhQ/Unit/Length.hpp>
#include <PhQ/Unit/Mass.hpp>
#include <PhQ/Unit/MassDensity.hpp>
#include <PhQ/Unit/MassRate.hpp>
#include <PhQ/Unit/Memory.hpp>
#include <PhQ/Unit/MemoryRate.hpp>
#include <PhQ/Unit/Power.hpp>
#include <PhQ/Unit/Pressure.hpp>
#include <PhQ/Unit/ReciprocalTemperature.hpp>
#include <PhQ/Unit/SolidAngle.hpp>
#include <PhQ/Unit/SpecificEnergy.hpp>
#include <PhQ/Unit/SpecificHeatCapacity.hpp>
#include <PhQ/Unit/SpecificPower.hpp>
#include <PhQ/Unit/Speed.hpp>
#include <PhQ/Unit/SubstanceAmount.hpp>
#include <PhQ/Unit/Temperature.hpp>
#include <PhQ/Unit/TemperatureDifference.hpp>
#include <PhQ/Unit/TemperatureGradient.hpp>
#include <PhQ/Unit/ThermalConductivity.hpp>
#include <PhQ/Unit/Time.hpp>
#include <PhQ/Unit/TransportEnergyConsumption.hpp>
#include <PhQ/Unit/Volume.hpp>
#include <PhQ/Unit/VolumeRate.hpp>

#include <algorithm>
#include <array>
#include <cstdint>
#include <cstdio>
#include <iostream>
#include <limits>
#include <random>
#include <sstream>
#include <string>
#include <vector>

namespace {

// The stream operators of the unit enumerations live in namespace PhQ rather than PhQ::Unit.
using PhQ::operator<<;

// ---------------------------------------------------------------------------------------------
// Objects with static storage duration, dynamically initialised before main(). Only facilities
// that are usable before main() with the pristine headers are used here (the tables that are
// explicit specialisations defined in the headers, and conversions to or from the standard unit).
// ---------------------------------------------------------------------------------------------

const PhQ::Time<double> static_time{2.5, PhQ::Unit::Time::Second};
const PhQ::Length<float> static_length{1.25F, PhQ::Unit::Length::Metre};
const PhQ::Temperature<long double> static_temperature{300.0L, PhQ::Unit::Temperature::Kelvin};
const PhQ::Force<double> static_force{
  {1.0, -2.0, 3.5},
  PhQ::Unit::Force::Newton
};
const std::string static_time_print{static_time.Print()};
const std::string static_time_print_unit{static_time.Print(PhQ::Unit::Time::Second)};
const std::string static_length_json{static_length.JSON()};
const std::string static_temperature_xml{static_temperature.XML()};
const std::string static_force_yaml{static_force.YAML()};
const std::string_view static_abbreviation_hour{PhQ::Abbreviation(PhQ::Unit::Time::Hour)};
const std::string_view static_abbreviation_system{
  PhQ::Abbreviation(PhQ::UnitSystem::FootPoundSecondRankine)};
const std::optional<PhQ::Unit::Time> static_parse_minutes{
  PhQ::ParseEnumeration<PhQ::Unit::Time>("minutes")};
const std::optional<PhQ::Unit::Time> static_parse_bad{
  PhQ::ParseEnumeration<PhQ::Unit::Time>("fortnight")};
const std::optional<PhQ::UnitSystem> static_parse_system{
  PhQ::ParseEnumeration<PhQ::UnitSystem>("in, lbf, s")};
const PhQ::Unit::Length static_consistent_length{
  PhQ::ConsistentUnit<PhQ::Unit::Length>(PhQ::UnitSystem::InchPoundSecondRankine)};
const PhQ::Unit::Force static_consistent_force{
  PhQ::ConsistentUnit<PhQ::Unit::Force>(PhQ::UnitSystem::MillimetreGramSecondKelvin)};
const std::optional<PhQ::UnitSystem> static_related_foot{
  PhQ::RelatedUnitSystem(PhQ::Unit::Length::Foot)};
const std::optional<PhQ::UnitSystem> static_related_mile{
  PhQ::RelatedUnitSystem(PhQ::Unit::Length::Mile)};
const std::optional<PhQ::UnitSystem> static_related_time{
  PhQ::RelatedUnitSystem(PhQ::Unit::Time::Second)};
const double static_convert_standard{
  PhQ::Convert(4.0, PhQ::Unit::Time::Second, PhQ::Unit::Time::Second)};
const std::string static_stream{[] {
  std::ostringstream stream;
  stream << PhQ::UnitSystem::MillimetreGramSecondKelvin << "|" << PhQ::Unit::Time::Millisecond
         << "|" << static_time << "|" << static_force;
  return stream.str();
}()};

// ---------------------------------------------------------------------------------------------
// Printing helpers.
// ---------------------------------------------------------------------------------------------

std::string Hex(const float value) {
  char buffer[64];
  std::snprintf(buffer, sizeof(buffer), "%a", static_cast<double>(value));
  return buffer;
}

std::string Hex(const double value) {
  char buffer[64];
  std::snprintf(buffer, sizeof(buffer), "%a", value);
  return buffer;
}

std::string Hex(const long double value) {
  char buffer[96];
  std::snprintf(buffer, sizeof(buffer), "%La", value);
  return buffer;
}

class Digest {
public:
  void Add(const std::string& text) {
    for (const char character : text) {
      state ^= static_cast<unsigned char>(character);
      state *= 1099511628211ULL;
    }
    state ^= 0xFFU;
    state *= 1099511628211ULL;
    ++count;
  }

  template <typename NumericType>
  void Add(const NumericType value) {
    Add(Hex(value));
  }

  std::string Result() const {
    char buffer[64];
    std::snprintf(buffer, sizeof(buffer), "%016llx/%llu", static_cast<unsigned long long>(state),
                  static_cast<unsigned long long>(count));
    return buffer;
  }

private:
  std::uint64_t state{14695981039346656037ULL};
  std::uint64_t count{0};
};

template <typename NumericType>
const char* TypeName();
template <>
const char* TypeName<float>() {
  return "float";
}
template <>
const char* TypeName<double>() {
  return "double";
}
template <>
const char* TypeName<long double>() {
  return "long double";
}

template <typename NumericType>
std::vector<NumericType> Inputs(const std::uint32_t seed) {
  using Limits = std::numeric_limits<NumericType>;
  std::vector<NumericType> inputs{
    static_cast<NumericType>(0.0L),
    -static_cast<NumericType>(0.0L),
    static_cast<NumericType>(1.0L),
    static_cast<NumericType>(-1.0L),
    static_cast<NumericType>(0.1L),
    static_cast<NumericType>(-273.15L),
    static_cast<NumericType>(459.67L),
    static_cast<NumericType>(32.0L),
    static_cast<NumericType>(1.0E-30L),
    static_cast<NumericType>(-1.0E30L),
    Limits::min(),
    -Limits::min(),
    Limits::denorm_min(),
    -Limits::denorm_min(),
    Limits::max(),
    Limits::lowest(),
    Limits::epsilon(),
    Limits::infinity(),
    -Limits::infinity(),
    Limits::quiet_NaN(),
  };
  std::mt19937_64 generator{seed};
  std::uniform_real_distribution<double> mantissa{-10.0, 10.0};
  std::uniform_int_distribution<int> exponent{-30, 30};
  for (int index = 0; index < 12; ++index) {
    const double m{mantissa(generator)};
    const int e{exponent(generator)};
    inputs.push_back(static_cast<NumericType>(std::ldexp(static_cast<long double>(m), e)));
  }
  return inputs;
}

// ---------------------------------------------------------------------------------------------
// Conversion dispatch: every unit pair, every shape, every numeric type.
// ---------------------------------------------------------------------------------------------

template <typename UnitType>
std::vector<UnitType> AllUnits() {
  std::vector<UnitType> units;
  for (const auto& entry : PhQ::Internal::Abbreviations<UnitType>) {
    units.push_back(entry.first);
  }
  return units;
}

template <typename UnitType, typename NumericType>
void TestConversions(const char* const name, const std::uint32_t seed) {
  const std::vector<UnitType> units{AllUnits<UnitType>()};
  const std::vector<NumericType> inputs{Inputs<NumericType>(seed)};
  Digest sequences;
  for (const UnitType from : units) {
    for (const UnitType to : units) {
      std::printf("convert %s<%s> %d->%d [%s -> %s]:", name, TypeName<NumericType>(),
                  static_cast<int>(from), static_cast<int>(to),
                  std::string{PhQ::Abbreviation(from)}.c_str(),
                  std::string{PhQ::Abbreviation(to)}.c_str());
      for (const NumericType input : inputs) {
        // Scalar, returning overload.
        const NumericType converted{PhQ::Convert(input, from, to)};
        std::printf(" %s", Hex(converted).c_str());
        // Scalar, in-place overload.
        NumericType in_place{input};
        PhQ::ConvertInPlace(in_place, from, to);
        sequences.Add(in_place);
      }
      std::printf("\n");

      // std::vector overloads, including the empty vector.
      std::vector<NumericType> vector_in_place{inputs};
      PhQ::ConvertInPlace(vector_in_place, from, to);
      for (const NumericType value : vector_in_place) {
        sequences.Add(value);
      }
      const std::vector<NumericType> vector_converted{PhQ::Convert(inputs, from, to)};
      for (const NumericType value : vector_converted) {
        sequences.Add(value);
      }
      std::vector<NumericType> empty;
      PhQ::ConvertInPlace(empty, from, to);
      sequences.Add(std::to_string(empty.size()));
      sequences.Add(std::to_string(PhQ::Convert(empty, from, to).size()));

      // std::array overloads of several sizes, and the shapes that forward to them.
      for (std::size_t offset = 0; offset + 9 <= inputs.size(); offset += 5) {
        const NumericType* const p{inputs.data() + offset};
        std::array<NumericType, 1> array1{p[0]};
        PhQ::ConvertInPlace(array1, from, to);
        sequences.Add(array1[0]);
        std::array<NumericType, 4> array4{p[0], p[1], p[2], p[3]};
        PhQ::ConvertInPlace(array4, from, to);
        for (const NumericType value : array4) {
          sequences.Add(value);
        }
        const std::array<NumericType, 4> array4_converted{
          PhQ::Convert(std::array<NumericType, 4>{p[3], p[2], p[1], p[0]}, from, to)};
        for (const NumericType value : array4_converted) {
          sequences.Add(value);
        }

        PhQ::PlanarVector<NumericType> planar_vector{p[0], p[1]};
        PhQ::ConvertInPlace(planar_vector, from, to);
        sequences.Add(planar_vector.x());
        sequences.Add(planar_vector.y());
        const PhQ::PlanarVector<NumericType> planar_vector_converted{
          PhQ::Convert(PhQ::PlanarVector<NumericType>{p[1], p[2]}, from, to)};
        sequences.Add(planar_vector_converted.x());
        sequences.Add(planar_vector_converted.y());

        PhQ::Vector<NumericType> vector{p[0], p[1], p[2]};
        PhQ::ConvertInPlace(vector, from, to);
        sequences.Add(vector.x());
        sequences.Add(vector.y());
        sequences.Add(vector.z());
        const PhQ::Vector<NumericType> vector_converted2{
          PhQ::Convert(PhQ::Vector<NumericType>{p[2], p[3], p[4]}, from, to)};
        sequences.Add(vector_converted2.x());
        sequences.Add(vector_converted2.y());
        sequences.Add(vector_converted2.z());

        PhQ::SymmetricDyad<NumericType> symmetric_dyad{p[0], p[1], p[2], p[3], p[4], p[5]};
        PhQ::ConvertInPlace(symmetric_dyad, from, to);
        for (const NumericType value : symmetric_dyad.xx_xy_xz_yy_yz_zz()) {
          sequences.Add(value);
        }
        const PhQ::SymmetricDyad<NumericType> symmetric_dyad_converted{PhQ::Convert(
            PhQ::SymmetricDyad<NumericType>{p[5], p[4], p[3], p[2], p[1], p[0]}, from, to)};
        for (const NumericType value : symmetric_dyad_converted.xx_xy_xz_yy_yz_zz()) {
          sequences.Add(value);
        }

        PhQ::Dyad<NumericType> dyad{p[0], p[1], p[2], p[3], p[4], p[5], p[6], p[7], p[8]};
        PhQ::ConvertInPlace(dyad, from, to);
        for (const NumericType value : dyad.xx_xy_xz_yx_yy_yz_zx_zy_zz()) {
          sequences.Add(value);
        }
        const PhQ::Dyad<NumericType> dyad_converted{PhQ::Convert(
            PhQ::Dyad<NumericType>{p[8], p[7], p[6], p[5], p[4], p[3], p[2], p[1], p[0]}, from,
            to)};
        for (const NumericType value : dyad_converted.xx_xy_xz_yx_yy_yz_zx_zy_zz()) {
          sequences.Add(value);
        }
      }
    }
  }
  std::printf("sequences %s<%s>: %s\n", name, TypeName<NumericType>(), sequences.Result().c_str());
}

// ---------------------------------------------------------------------------------------------
// Tables: abbreviations, spellings, consistent units, related unit systems.
// ---------------------------------------------------------------------------------------------

const std::vector<std::string> kNonSpellings{
  "",     " ",      "xyz",  "M",       "S",   "metre ", " m",    "m·kg·s·K ", "fortnight",
  "°",    "μ",      "kg/m", "m/s/s/s", "0",   "\t",     "N·m·s", "ft·lbf·s·°", "in·lb·s·°R·",
};

const std::vector<PhQ::UnitSystem> kUnitSystems{
  PhQ::UnitSystem::MetreKilogramSecondKelvin,
  PhQ::UnitSystem::MillimetreGramSecondKelvin,
  PhQ::UnitSystem::FootPoundSecondRankine,
  PhQ::UnitSystem::InchPoundSecondRankine,
};

template <typename Enumeration>
void TestSpellings(const char* const name) {
  std::vector<std::string> spellings;
  for (const auto& entry : PhQ::Internal::Spellings<Enumeration>) {
    spellings.emplace_back(entry.first);
  }
  std::sort(spellings.begin(), spellings.end());
  for (const std::string& spelling : spellings) {
    const std::optional<Enumeration> parsed{PhQ::ParseEnumeration<Enumeration>(spelling)};
    std::printf("parse %s \"%s\": %d\n", name, spelling.c_str(),
                parsed.has_value() ? static_cast<int>(parsed.value()) : -1);
    // Variations that must not be found unless they are spellings themselves.
    for (const std::string& variation :
         {spelling + " ", " " + spelling, PhQ::Uppercase(spelling), spelling + spelling}) {
      const std::optional<Enumeration> other{PhQ::ParseEnumeration<Enumeration>(variation)};
      std::printf("parse %s \"%s\": %d\n", name, variation.c_str(),
                  other.has_value() ? static_cast<int>(other.value()) : -1);
    }
  }
  for (const std::string& spelling : kNonSpellings) {
    const std::optional<Enumeration> parsed{PhQ::ParseEnumeration<Enumeration>(spelling)};
    std::printf("parse %s \"%s\": %d\n", name, spelling.c_str(),
                parsed.has_value() ? static_cast<int>(parsed.value()) : -1);
  }
  // A string_view that is not null-terminated.
  const std::string_view clipped{std::string_view{"seconds"}.substr(0, 1)};
  const std::optional<Enumeration> parsed{PhQ::ParseEnumeration<Enumeration>(clipped)};
  std::printf("parse %s clipped: %d\n", name,
              parsed.has_value() ? static_cast<int>(parsed.value()) : -1);
}

template <typename UnitType>
void TestTables(const char* const name) {
  for (const UnitType unit : AllUnits<UnitType>()) {
    std::ostringstream stream;
    stream << unit;
    const std::optional<PhQ::UnitSystem> system{PhQ::RelatedUnitSystem(unit)};
    std::ostringstream system_stream;
    if (system.has_value()) {
      system_stream << system.value();
    } else {
      system_stream << "none";
    }
    std::printf("unit %s %d: abbreviation \"%s\" stream \"%s\" related %d \"%s\"\n", name,
                static_cast<int>(unit), std::string{PhQ::Abbreviation(unit)}.c_str(),
                stream.str().c_str(), system.has_value() ? static_cast<int>(system.value()) : -1,
                system_stream.str().c_str());
  }
  for (const PhQ::UnitSystem system : kUnitSystems) {
    const UnitType unit{PhQ::ConsistentUnit<UnitType>(system)};
    std::ostringstream stream;
    stream << system << " -> " << unit;
    std::printf("consistent %s %d: %d \"%s\"\n", name, static_cast<int>(system),
                static_cast<int>(unit), stream.str().c_str());
  }
  TestSpellings<UnitType>(name);
}

template <typename UnitType>
void TestUnit(const char* const name, const std::uint32_t seed) {
  TestTables<UnitType>(name);
  TestConversions<UnitType, float>(name, seed);
  TestConversions<UnitType, double>(name, seed + 1000);
  TestConversions<UnitType, long double>(name, seed + 2000);
}

// ---------------------------------------------------------------------------------------------
// Quantities built on top of the dispatch.
// ---------------------------------------------------------------------------------------------

template <typename NumericType>
void TestQuantities() {
  const std::vector<NumericType> inputs{Inputs<NumericType>(77)};
  for (const PhQ::Unit::Time unit : AllUnits<PhQ::Unit::Time>()) {
    for (const NumericType input : inputs) {
      const PhQ::Time<NumericType> time{input, unit};
      std::ostringstream stream;
      stream << time;
      std::printf("time<%s> %d %s: %s | %s | %s | %s | %s | %s | %s\n", TypeName<NumericType>(),
                  static_cast<int>(unit), Hex(input).c_str(), Hex(time.Value()).c_str(),
                  Hex(time.Value(unit)).c_str(), time.Print().c_str(), time.Print(unit).c_str(),
                  time.JSON(unit).c_str(), time.XML(unit).c_str(), stream.str().c_str());
    }
  }
  for (const PhQ::Unit::Temperature unit : AllUnits<PhQ::Unit::Temperature>()) {
    for (const NumericType input : inputs) {
      const PhQ::Temperature<NumericType> temperature{input, unit};
      std::printf("temperature<%s> %d %s: %s | %s | %s | %s\n", TypeName<NumericType>(),
                  static_cast<int>(unit), Hex(input).c_str(), Hex(temperature.Value()).c_str(),
                  Hex(temperature.Value(PhQ::Unit::Temperature::Fahrenheit)).c_str(),
                  temperature.Print(unit).c_str(), temperature.YAML(unit).c_str());
    }
  }
  for (const PhQ::Unit::Length unit : AllUnits<PhQ::Unit::Length>()) {
    for (const NumericType input : inputs) {
      const PhQ::Length<NumericType> length{input, unit};
      std::printf("length<%s> %d %s: %s | %s | %s\n", TypeName<NumericType>(),
                  static_cast<int>(unit), Hex(input).c_str(), Hex(length.Value()).c_str(),
                  Hex(length.Value(PhQ::Unit::Length::Inch)).c_str(), length.Print(unit).c_str());
    }
  }
  for (const PhQ::Unit::Force unit : AllUnits<PhQ::Unit::Force>()) {
    for (std::size_t offset = 0; offset + 3 <= inputs.size(); offset += 3) {
      const NumericType* const p{inputs.data() + offset};
      const PhQ::Force<NumericType> force{
        {p[0], p[1], p[2]},
        unit
      };
      const PhQ::PlanarForce<NumericType> planar_force{
        {p[2], p[0]},
        unit
      };
      std::ostringstream stream;
      stream << force << " ; " << planar_force;
      std::printf("force<%s> %d: %s %s %s | %s | %s | %s | %s\n", TypeName<NumericType>(),
                  static_cast<int>(unit), Hex(force.Value().x()).c_str(),
                  Hex(force.Value().y()).c_str(), Hex(force.Value().z()).c_str(),
                  force.Print(unit).c_str(), planar_force.JSON(unit).c_str(),
                  Hex(planar_force.Value(PhQ::Unit::Force::Pound).y()).c_str(),
                  stream.str().c_str());
    }
  }
  for (const PhQ::Unit::Pressure unit : AllUnits<PhQ::Unit::Pressure>()) {
    for (std::size_t offset = 0; offset + 6 <= inputs.size(); offset += 6) {
      const NumericType* const p{inputs.data() + offset};
      const PhQ::Stress<NumericType> stress{
        {p[0], p[1], p[2], p[3], p[4], p[5]},
        unit
      };
      std::printf("stress<%s> %d: %s | %s | %s\n", TypeName<NumericType>(), static_cast<int>(unit),
                  stress.Print().c_str(), stress.Print(unit).c_str(),
                  Hex(stress.Value(PhQ::Unit::Pressure::PoundPerSquareInch).yz()).c_str());
    }
  }
  for (const PhQ::Unit::Frequency unit : AllUnits<PhQ::Unit::Frequency>()) {
    for (std::size_t offset = 0; offset + 9 <= inputs.size(); offset += 9) {
      const NumericType* const p{inputs.data() + offset};
      const PhQ::VelocityGradient<NumericType> velocity_gradient{
        {p[0], p[1], p[2], p[3], p[4], p[5], p[6], p[7], p[8]},
        unit
      };
      std::printf("velocity_gradient<%s> %d: %s | %s | %s\n", TypeName<NumericType>(),
                  static_cast<int>(unit), velocity_gradient.Print().c_str(),
                  velocity_gradient.XML(unit).c_str(),
                  Hex(velocity_gradient.Value(PhQ::Unit::Frequency::PerMinute).zx()).c_str());
    }
  }
}

template <typename Enumeration>
int AsInt(const std::optional<Enumeration>& value) {
  return value.has_value() ? static_cast<int>(value.value()) : -1;
}

}  // namespace

int main() {
  // Results computed before main().
  std::printf("static time: %s | %s | %s\n", Hex(static_time.Value()).c_str(),
              static_time_print.c_str(), static_time_print_unit.c_str());
  std::printf("static length: %s | %s\n", Hex(static_length.Value()).c_str(),
              static_length_json.c_str());
  std::printf("static temperature: %s | %s\n", Hex(static_temperature.Value()).c_str(),
              static_temperature_xml.c_str());
  std::printf("static force: %s\n", static_force_yaml.c_str());
  std::printf("static abbreviations: \"%s\" \"%s\"\n",
              std::string{static_abbreviation_hour}.c_str(),
              std::string{static_abbreviation_system}.c_str());
  std::printf("static parse: %d %d %d\n", AsInt(static_parse_minutes), AsInt(static_parse_bad),
              AsInt(static_parse_system));
  std::printf("static consistent: %d %d\n", static_cast<int>(static_consistent_length),
              static_cast<int>(static_consistent_force));
  std::printf("static related: %d %d %d\n", AsInt(static_related_foot), AsInt(static_related_mile),
              AsInt(static_related_time));
  std::printf("static convert: %s\n", Hex(static_convert_standard).c_str());
  std::printf("static stream: %s\n", static_stream.c_str());

  // The same expressions evaluated inside main().
  std::printf("main time: %s | %s\n", static_time.Print().c_str(),
              static_time.Print(PhQ::Unit::Time::Second).c_str());
  std::printf("main parse: %d %d %d\n", AsInt(PhQ::ParseEnumeration<PhQ::Unit::Time>("minutes")),
              AsInt(PhQ::ParseEnumeration<PhQ::Unit::Time>("fortnight")),
              AsInt(PhQ::ParseEnumeration<PhQ::UnitSystem>("in, lbf, s")));

  // Unit systems.
  for (const PhQ::UnitSystem system : kUnitSystems) {
    std::ostringstream stream;
    stream << system;
    std::ostringstream chained;
    chained << system << system << 1.5 << system;
    std::printf("unit system %d: \"%s\" \"%s\" \"%s\"\n", static_cast<int>(system),
                std::string{PhQ::Abbreviation(system)}.c_str(), stream.str().c_str(),
                chained.str().c_str());
  }
  TestSpellings<PhQ::UnitSystem>("UnitSystem");

  // Every unit type.
  TestUnit<PhQ::Unit::Acceleration>("Acceleration", 1);
  TestUnit<PhQ::Unit::Angle>("Angle", 2);
  TestUnit<PhQ::Unit::AngularAcceleration>("AngularAcceleration", 3);
  TestUnit<PhQ::Unit::AngularSpeed>("AngularSpeed", 4);
  TestUnit<PhQ::Unit::Area>("Area", 5);
  TestUnit<PhQ::Unit::Diffusivity>("Diffusivity", 6);
  TestUnit<PhQ::Unit::DynamicViscosity>("DynamicViscosity", 7);
  TestUnit<PhQ::Unit::ElectricCharge>("ElectricCharge", 8);
  TestUnit<PhQ::Unit::ElectricCurrent>("ElectricCurrent", 9);
  TestUnit<PhQ::Unit::Energy>("Energy", 10);
  TestUnit<PhQ::Unit::EnergyFlux>("EnergyFlux", 11);
  TestUnit<PhQ::Unit::Force>("Force", 12);
  TestUnit<PhQ::Unit::Frequency>("Frequency", 13);
  TestUnit<PhQ::Unit::HeatCapacity>("HeatCapacity", 14);
  TestUnit<PhQ::Unit::Length>("Length", 15);
  TestUnit<PhQ::Unit::Mass>("Mass", 16);
  TestUnit<PhQ::Unit::MassDensity>("MassDensity", 17);
  TestUnit<PhQ::Unit::MassRate>("MassRate", 18);
  TestUnit<PhQ::Unit::Memory>("Memory", 19);
  TestUnit<PhQ::Unit::MemoryRate>("MemoryRate", 20);
  TestUnit<PhQ::Unit::Power>("Power", 21);
  TestUnit<PhQ::Unit::Pressure>("Pressure", 22);
  TestUnit<PhQ::Unit::ReciprocalTemperature>("ReciprocalTemperature", 23);
  TestUnit<PhQ::Unit::SolidAngle>("SolidAngle", 24);
  TestUnit<PhQ::Unit::SpecificEnergy>("SpecificEnergy", 25);
  TestUnit<PhQ::Unit::SpecificHeatCapacity>("SpecificHeatCapacity", 26);
  TestUnit<PhQ::Unit::SpecificPower>("SpecificPower", 27);
  TestUnit<PhQ::Unit::Speed>("Speed", 28);
  TestUnit<PhQ::Unit::SubstanceAmount>("SubstanceAmount", 29);
  TestUnit<PhQ::Unit::Temperature>("Temperature", 30);
  TestUnit<PhQ::Unit::TemperatureDifference>("TemperatureDifference", 31);
  TestUnit<PhQ::Unit::TemperatureGradient>("TemperatureGradient", 32);
  TestUnit<PhQ::Unit::ThermalConductivity>("ThermalConductivity", 33);
  TestUnit<PhQ::Unit::Time>("Time", 34);
  TestUnit<PhQ::Unit::TransportEnergyConsumption>("TransportEnergyConsumption", 35);
  TestUnit<PhQ::Unit::Volume>("Volume", 36);
  TestUnit<PhQ::Unit::VolumeRate>("VolumeRate", 37);

  TestQuantities<float>();
  TestQuantities<double>();
  TestQuantities<long double>();
  return 0;
}
