// Differential program for the C05q refactor: period <-> frequency, planar <-> 3D embedding of
// vectors and velocities. Prints every result as the raw bytes of the value (hex), so that any
// last-bit difference (including the sign of zero and NaN payloads) is visible.
#include <PhQ/Frequency.hpp>
#include <PhQ/PlanarVector.hpp>
#include <PhQ/PlanarVelocity.hpp>
#include <PhQ/Time.hpp>
#include <PhQ/Vector.hpp>
#include <PhQ/Velocity.hpp>

#include <cmath>
#include <cstdint>
#include <cstdio>
#include <cstring>
#include <limits>
#include <random>
#include <string>
#include <type_traits>
#include <vector>

namespace {

template <typename T>
constexpr std::size_t SignificantBytes() {
  // long double on x86-64 has 10 significant bytes; the remaining 6 are padding.
  return std::is_same<T, long double>::value ? 10 : sizeof(T);
}

template <typename T>
std::string Bits(const T value) {
  unsigned char bytes[sizeof(T)];
  std::memcpy(bytes, &value, sizeof(T));
  std::string text;
  char buffer[4];
  for (std::size_t i = SignificantBytes<T>(); i-- > 0;) {
    std::snprintf(buffer, sizeof(buffer), "%02x", bytes[i]);
    text += buffer;
  }
  return text;
}

template <typename T>
const char* Name();
template <>
const char* Name<float>() {
  return "float";
}
template <>
const char* Name<double>() {
  return "double";
}
template <>
const char* Name<long double>() {
  return "long double";
}

template <typename T>
std::vector<T> Samples(const unsigned seed, const int count) {
  using L = std::numeric_limits<T>;
  std::vector<T> samples{
      static_cast<T>(0),
      -static_cast<T>(0),
      static_cast<T>(1),
      static_cast<T>(-1),
      static_cast<T>(2),
      static_cast<T>(0.5),
      static_cast<T>(3),
      static_cast<T>(1) / static_cast<T>(3),
      static_cast<T>(10),
      static_cast<T>(0.1L),
      static_cast<T>(-0.1L),
      static_cast<T>(60),
      static_cast<T>(3600),
      L::min(),
      -L::min(),
      L::denorm_min(),
      -L::denorm_min(),
      L::min() / static_cast<T>(2),
      L::max(),
      -L::max(),
      L::lowest(),
      L::max() / static_cast<T>(2),
      L::epsilon(),
      static_cast<T>(1) + L::epsilon(),
      static_cast<T>(1) - L::epsilon() / static_cast<T>(2),
      L::infinity(),
      -L::infinity(),
      L::quiet_NaN(),
      static_cast<T>(1.0e-30L),
      static_cast<T>(1.0e30L),
      static_cast<T>(123456.789L),
      static_cast<T>(-9.87654321e-7L),
  };
  std::mt19937_64 generator(seed);
  std::uniform_real_distribution<long double> mantissa(1.0L, 10.0L);
  const int max_exponent = L::max_exponent10 - 1;
  const int min_exponent = L::min_exponent10 - 3;  // reach into the subnormal range
  std::uniform_int_distribution<int> exponent(min_exponent, max_exponent);
  std::uniform_int_distribution<int> small_exponent(-12, 12);
  std::bernoulli_distribution negative(0.25);
  for (int i = 0; i < count; ++i) {
    const int e = (i % 2 == 0) ? exponent(generator) : small_exponent(generator);
    long double value = mantissa(generator) * std::pow(10.0L, static_cast<long double>(e));
    if (negative(generator)) {
      value = -value;
    }
    samples.push_back(static_cast<T>(value));
  }
  return samples;
}

template <typename T>
void PrintVector(const char* label, const PhQ::Vector<T>& v) {
  std::printf("%s %s %s %s", label, Bits(v.x()).c_str(), Bits(v.y()).c_str(), Bits(v.z()).c_str());
}

template <typename T>
void PrintPlanar(const char* label, const PhQ::PlanarVector<T>& v) {
  std::printf("%s %s %s", label, Bits(v.x()).c_str(), Bits(v.y()).c_str());
}

template <typename T>
void Run() {
  std::printf("==== %s ====\n", Name<T>());
  const std::vector<T> samples = Samples<T>(20240905U, 4000);

  const PhQ::Unit::Time time_units[] = {
      PhQ::Unit::Time::Nanosecond, PhQ::Unit::Time::Microsecond, PhQ::Unit::Time::Millisecond,
      PhQ::Unit::Time::Second,     PhQ::Unit::Time::Minute,      PhQ::Unit::Time::Hour};
  const PhQ::Unit::Frequency frequency_units[] = {
      PhQ::Unit::Frequency::Hertz,     PhQ::Unit::Frequency::Kilohertz,
      PhQ::Unit::Frequency::Megahertz, PhQ::Unit::Frequency::Gigahertz,
      PhQ::Unit::Frequency::PerMinute, PhQ::Unit::Frequency::PerHour};

  // Period <-> frequency, both directions, constructors and member functions, and round trips.
  std::size_t index = 0;
  for (const T sample : samples) {
    const PhQ::Unit::Time time_unit = time_units[index % 6];
    const PhQ::Unit::Frequency frequency_unit = frequency_units[(index / 6) % 6];
    ++index;

    const PhQ::Time<T> time(sample, time_unit);
    const PhQ::Frequency<T> from_time(time);
    const PhQ::Frequency<T> from_time_member = time.Frequency();
    const PhQ::Time<T> time_back(from_time);
    const PhQ::Time<T> time_back_member = from_time_member.Period();
    const PhQ::Frequency<T> twice = time_back_member.Frequency();

    const PhQ::Frequency<T> frequency(sample, frequency_unit);
    const PhQ::Time<T> from_frequency(frequency);
    const PhQ::Time<T> from_frequency_member = frequency.Period();
    const PhQ::Frequency<T> frequency_back(from_frequency);
    const PhQ::Frequency<T> frequency_back_member = from_frequency_member.Frequency();
    const PhQ::Time<T> twice_period = frequency_back_member.Period();

    std::printf(
        "TF %s | %s %s %s %s %s %s | %s %s %s %s %s %s | %s %s | %s %s\n", Bits(sample).c_str(),
        Bits(time.Value()).c_str(), Bits(from_time.Value()).c_str(),
        Bits(from_time_member.Value()).c_str(), Bits(time_back.Value()).c_str(),
        Bits(time_back_member.Value()).c_str(), Bits(twice.Value()).c_str(),
        Bits(frequency.Value()).c_str(), Bits(from_frequency.Value()).c_str(),
        Bits(from_frequency_member.Value()).c_str(), Bits(frequency_back.Value()).c_str(),
        Bits(frequency_back_member.Value()).c_str(), Bits(twice_period.Value()).c_str(),
        Bits(time * from_time).c_str(), Bits(from_time * time).c_str(),
        Bits(from_time.Value(frequency_unit)).c_str(), Bits(from_frequency.Value(time_unit)).c_str());
  }

  // Constant-expression use of the same relations.
  {
    constexpr PhQ::Time<T> time = PhQ::Time<T>::template Create<PhQ::Unit::Time::Second>(
        static_cast<T>(0.3L));
    constexpr PhQ::Frequency<T> frequency{time};
    constexpr PhQ::Time<T> period = frequency.Period();
    constexpr PhQ::Frequency<T> again = period.Frequency();
    constexpr PhQ::Time<T> once_more{again};
    std::printf("CE %s %s %s %s %s\n", Bits(time.Value()).c_str(), Bits(frequency.Value()).c_str(),
                Bits(period.Value()).c_str(), Bits(again.Value()).c_str(),
                Bits(once_more.Value()).c_str());
    std::printf("PR %s | %s | %s | %s\n", frequency.Print().c_str(), period.Print().c_str(),
                frequency.Print(PhQ::Unit::Frequency::PerMinute).c_str(),
                period.Print(PhQ::Unit::Time::Minute).c_str());
  }

  // Planar <-> three-dimensional embedding of vectors and velocities.
  const PhQ::Unit::Speed speed_units[] = {
      PhQ::Unit::Speed::MetrePerSecond, PhQ::Unit::Speed::MillimetrePerSecond,
      PhQ::Unit::Speed::FootPerSecond,  PhQ::Unit::Speed::InchPerSecond,
      PhQ::Unit::Speed::KilometrePerHour, PhQ::Unit::Speed::MilePerHour, PhQ::Unit::Speed::Knot};
  const std::size_t n = samples.size();
  for (std::size_t i = 0; i < n; ++i) {
    const T a = samples[i];
    const T b = samples[(i * 7 + 3) % n];
    const T c = samples[(i * 13 + 5) % n];
    const PhQ::Unit::Speed speed_unit = speed_units[i % 7];

    const PhQ::PlanarVector<T> planar(a, b);
    const PhQ::Vector<T> embedded(planar);
    const PhQ::PlanarVector<T> planar_back(embedded);
    const PhQ::Vector<T> full(a, b, c);
    const PhQ::PlanarVector<T> projected(full);
    const PhQ::Vector<T> re_embedded(projected);
    const PhQ::Vector<T> cross = planar.Cross(projected);

    PrintPlanar("PV", planar);
    PrintVector(" |", embedded);
    PrintPlanar(" |", planar_back);
    PrintPlanar(" |", projected);
    PrintVector(" |", re_embedded);
    PrintVector(" |", cross);
    std::printf(" | %d %d %s\n", static_cast<int>(planar == planar_back),
                static_cast<int>(embedded == re_embedded), Bits(embedded.Magnitude()).c_str());

    const PhQ::PlanarVelocity<T> planar_velocity(planar, speed_unit);
    const PhQ::Velocity<T> velocity(planar_velocity);
    const PhQ::PlanarVelocity<T> planar_velocity_back(velocity);
    const PhQ::Velocity<T> full_velocity(full, speed_unit);
    const PhQ::PlanarVelocity<T> projected_velocity(full_velocity);
    const PhQ::Velocity<T> re_embedded_velocity(projected_velocity);

    PrintPlanar("VV", planar_velocity.Value());
    PrintVector(" |", velocity.Value());
    PrintPlanar(" |", planar_velocity_back.Value());
    PrintVector(" |", full_velocity.Value());
    PrintPlanar(" |", projected_velocity.Value());
    PrintVector(" |", re_embedded_velocity.Value());
    PrintVector(" |", re_embedded_velocity.Value(speed_unit));
    std::printf(" | %d %s %s\n", static_cast<int>(planar_velocity == planar_velocity_back),
                Bits(velocity.Magnitude().Value()).c_str(),
                Bits(projected_velocity.Magnitude().Value()).c_str());
  }

  // Constant-expression embedding and printed forms.
  {
    constexpr PhQ::PlanarVector<T> planar(static_cast<T>(1.25L), static_cast<T>(-2.5L));
    constexpr PhQ::Vector<T> embedded{planar};
    constexpr PhQ::PlanarVector<T> back{embedded};
    constexpr PhQ::Vector<T> full(static_cast<T>(0.1L), static_cast<T>(-0.2L), static_cast<T>(0.3L));
    constexpr PhQ::PlanarVector<T> projected{full};
    static_assert(embedded.z() == static_cast<T>(0), "z");
    static_assert(back == planar, "round trip");
    std::printf("CV %s | %s | %s | %s\n", embedded.Print().c_str(), back.Print().c_str(),
                projected.Print().c_str(), embedded.JSON().c_str());

    constexpr PhQ::PlanarVelocity<T> planar_velocity =
        PhQ::PlanarVelocity<T>::template Create<PhQ::Unit::Speed::MetrePerSecond>(planar);
    constexpr PhQ::Velocity<T> velocity{planar_velocity};
    constexpr PhQ::PlanarVelocity<T> velocity_back{velocity};
    std::printf("CW %s | %s | %s | %s\n", velocity.Print().c_str(), velocity_back.Print().c_str(),
                velocity.XML().c_str(), velocity_back.YAML().c_str());
  }
}

}  // namespace

int main() {
  Run<float>();
  Run<double>();
  Run<long double>();
  return 0;
}
