"""C04 — arithmetic on quantities is exactly arithmetic on their SI values."""
from .. import facts, ev, relations, quant
from ..facts import short, strip_cvref
from ..frontend import NUMERIC
from .c03 import eval_relation

OPNAME = {"+": "add", "-": "sub", "*": "mul", "/": "div"}
MATH = ["abs", "cbrt", "exp", "log", "log2", "log10", "pow", "sqrt"]


def operand_values(F, r):
    """Evaluate r with operands named a (left) and b (right). Returns (E, result slots, left slots, right slots)."""
    f = r.f
    E = ev.Evaluator(F)
    if r.kind == "free_op":
        res, this_lv, args = E.run_symbolic(f, arg_prefixes=["a", "b"])
        left = E.load(args[0]) if isinstance(args[0], ev.LV) else args[0]
        right = E.load(args[1]) if isinstance(args[1], ev.LV) else args[1]
        # inputs as given (before the call): rebuild from the symbolic constructor to be independent of mutation
        E2 = ev.Evaluator(F)
        pts = F.param_types(f)
        left0, right0 = E2.symbolic(pts[0], "a"), E2.symbolic(pts[1], "b")
        val = E.rv(res)
    else:
        res, this_lv, args = E.run_symbolic(f, this_prefix="a", arg_prefixes=["b"])
        E2 = ev.Evaluator(F)
        left0 = E2.symbolic(F.T(f["parent"]), "a")
        right0 = E2.symbolic(F.param_types(f)[0], "b")
        val = E.load(this_lv) if r.kind == "cassign" else E.rv(res)
    return E, ev.flatten(val), ev.flatten(left0), ev.flatten(right0)


def eq_mod_comm(got, want):
    if got == want:
        return True
    if isinstance(got, tuple) and isinstance(want, tuple) and len(got) == 3 and len(want) == 3 and got[0] == want[0] and got[0] in ("add", "mul"):
        return got[1] == want[2] and got[2] == want[1]
    return False


def run(chk):
    chk.level = "proof"
    chk.technique = ("exact-tree domain: each operator, compound assignment and twin constructor is evaluated interprocedurally to the "
                     "operation tree of every result slot and compared with a single IEEE operation on the corresponding operand slots "
                     "in written order (a single IEEE-754 operation is correctly rounded by definition)")
    chk.rule("R1", "each result slot of a component-wise binary operator is one +,-,*,/ node on the corresponding operand slots, left operand left")
    chk.rule("R2", "the post-state of a op= b has the same exact tree as a op b")
    chk.rule("R3", "a relation constructor C(A,B) and its operator twin A op B -> C have identical exact trees")
    chk.rule("R5", "no relation function casts a computed value to a numeric type narrower than the quantity's own (no hidden loss of precision)")
    chk.rule("R6", "aliasing safety: a compound assignment or setter that takes an operand by reference gives the same result when the operand "
                   "is (a component of) the object itself as when it is a copy (`a -= a`, `q *= q.MutableValue()`)")
    chk.rule("R4", "std::abs/cbrt/exp/log/log2/log10/pow/sqrt on a dimensionless scalar is exactly that std function of the stored number")
    chk.assumptions += ["IEEE-754 evaluation of the source as written; the repository's own -ffast-math test build licenses re-association and is outside this claim",
                        "contraction operators (tensor . vector, tensor . tensor) are not component-wise and are decided by C09/C18 instead"]
    n_ops = n_tw = 0
    for T in NUMERIC:
        F = facts.load(T, chk.tier)
        rels = relations.relations(F)
        ctors = {}
        for r in rels:
            if r.kind == "ctor" and len(r.arg_q) == 2:
                ctors.setdefault((r.this_q, tuple(r.arg_q)), r)
        for r in rels:
            if r.kind not in ("op", "free_op", "cassign"):
                continue
            f = r.f
            sig = "%s(%s)" % (f["name"], ", ".join(strip_cvref(t).replace("PhQ::", "") for t in F.param_types(f)))
            loc = short(f.get("def_loc", f["loc"]))
            op = f["op"][0]
            try:
                E, res, L, R = operand_values(F, r)
            except ev.Inconclusive as x:
                chk.inconclusive("R1", sig, str(x), loc)
                continue
            nL, nR, nres = len(L), len(R), len(res)
            componentwise = (op in "+-" and nL == nR == nres) or (op == "*" and (nL == 1 or nR == 1) and nres == max(nL, nR)) or (op == "/" and nR == 1 and nres == nL)
            if not componentwise:
                chk.observe("not component-wise (contraction; see C09/C18): %s [%d,%d -> %d slots]" % (sig, nL, nR, nres))
                continue
            n_ops += 1
            bad = None
            for i, (path, got) in enumerate(res):
                a = L[i][1] if nL > 1 else L[0][1]
                b = R[i][1] if nR > 1 else R[0][1]
                want = (OPNAME[op], a, b)
                if not eq_mod_comm(got, want):
                    bad = "slot %s = %s, expected the single operation %s" % (path or "value", ev.show(got)[:300], ev.show(want))
                    break
            rule = "R2" if r.kind == "cassign" else "R1"
            if bad:
                chk.violated(rule, sig, bad, loc)
            else:
                chk.holds(rule, sig, "%d slot(s): slot = a %s b" % (nres, op), loc)
            # R3 twins
            if r.kind in ("op", "free_op") and r.ret_q not in ("num", "raw", "void", "other", "bool"):
                lq, rq = (r.arg_q if r.kind == "free_op" else (r.this_q, r.arg_q[0]))
                for key, names in (((r.ret_q, (lq, rq)), ["a", "b"]), ((r.ret_q, (rq, lq)), ["b", "a"])):
                    c = ctors.get(key)
                    if c is None or lq == rq and names == ["b", "a"]:
                        continue
                    n_tw += 1
                    tsig = "%s  ~  %s(%s)" % (sig, c.f["name"], ", ".join(x.replace("PhQ::", "") for x in key[1]))
                    try:
                        E3 = ev.Evaluator(F)
                        _, this_lv, _ = E3.run_symbolic(c.f, arg_prefixes=names)
                        cres = ev.flatten(E3.load(this_lv))
                        same = len(cres) == len(res) and all(eq_mod_comm(x[1], y[1]) for x, y in zip(cres, res))
                        if same:
                            chk.holds("R3", tsig, "identical trees", short(c.f.get("def_loc", c.f["loc"])))
                        else:
                            chk.violated("R3", tsig, "constructor computes %s, operator computes %s" % (ev.show(cres[0][1])[:200], ev.show(res[0][1])[:200]), short(c.f.get("def_loc", c.f["loc"])))
                    except ev.Inconclusive as x:
                        chk.inconclusive("R3", tsig, str(x), short(c.f["loc"]))
        # R5: no relation narrows an intermediate below the quantity's own numeric type
        from ..models import narrowing_casts
        from .c03 import eval_relation
        n5 = 0
        for r in rels:
            f = r.f
            sig = "%s(%s)" % (f["name"], ", ".join(strip_cvref(t).replace("PhQ::", "") for t in F.param_types(f)))
            try:
                E, flat, target, val = eval_relation(F, r)
                nar = narrowing_casts(val, T)
                n5 += 1
                if nar:
                    chk.violated("R5", sig, "an intermediate is narrowed to %s (%s) inside a %s relation" % (nar[0][0], ev.show(nar[0][1])[:120], T), short(f.get("def_loc", f["loc"])))
            except ev.Inconclusive:
                pass   # evaluated (and reported if inconclusive) by C03
        chk.holds("R5", "no narrowing detour <%s>" % T, "%d relation functions contain no cast of a computed value to a narrower type" % n5, "") if not any(o["rule"] == "R5" and o["status"] == "violated" and o["instance"].endswith("") and ("<%s>" % T) in o["instance"] for o in chk.obs) else None
        # the component-wise kernels of the four tensor classes themselves (the "value shapes")
        n_ops += tensor_kernels(chk, F, T)
        # R4
        dls = "PhQ::DimensionlessScalar<%s>" % T
        for name in MATH:
            fs = [f for f in F.by_qname.get("std::" + name, []) if "body" in f and f["params"] and strip_cvref(F.T(f["params"][0]["t"])) == dls]
            if not fs:
                chk.violated("R4", "std::%s(DimensionlessScalar<%s>)" % (name, T), "overload not found", "PhQ/DimensionlessScalar.hpp")
                continue
            for f in fs:
                inst = "std::%s(%s)" % (name, ", ".join(strip_cvref(t).replace("PhQ::", "") for t in F.param_types(f)))
                try:
                    E = ev.Evaluator(F)
                    res, _, args = E.run_symbolic(f, arg_prefixes=["x", "y"][:len(f["params"])])
                    res = E.rv(res)
                    want_args = [("leaf", "x.value")]
                    if len(f["params"]) == 2:
                        pt = strip_cvref(F.T(f["params"][1]["t"]))
                        want_args.append(("leaf", "y.value") if pt.startswith("PhQ::") else ("leaf", "y"))
                    want = ("fn", name) + tuple(want_args)
                    if isinstance(res, tuple) and res[0] == "cast" and res[1] == T and len(f["params"]) == 2:
                        res = res[2]   # mixed-type exponent: std::pow promotes, the declared return type narrows back
                    if res == want or (name == "pow" and isinstance(res, tuple) and res[:3] == want[:3] and ev.leaves(res) == ev.leaves(want)):
                        chk.holds("R4", inst, ev.show(res), short(f["loc"]))
                    else:
                        chk.violated("R4", inst, "returns %s, expected %s" % (ev.show(res)[:200], ev.show(want)), short(f["loc"]))
                except ev.Inconclusive as x:
                    chk.inconclusive("R4", inst, str(x), short(f["loc"]))
    # R6 aliasing safety of the mutating members of every quantity class
    from .. import alias, quant
    n_alias = 0
    for T in NUMERIC:
        F = facts.load(T, chk.tier)
        for qn, q in sorted(quant.inventory(F).items()):
            if q.kind == "base":
                continue
            for f, pts in alias.mutating_members_with_reference_params(F, qn):
                inst = "%s(%s)" % (f["name"], ", ".join(strip_cvref(p).replace("PhQ::", "") + ("&" if facts.is_ref(p) else "") for p in pts))
                loc = short(f.get("def_loc", f["loc"]))
                try:
                    probs = alias.check(F, f, qn, T)
                    n_alias += 1
                    (chk.violated if probs else chk.holds)("R6", inst, "; ".join(probs) or "same result whether a reference operand is a copy or lives inside the object", loc, nontrivial=False) \
                        if probs else chk.holds("R6", inst, "same result whether a reference operand is a copy or lives inside the object", loc, nontrivial=False)
                except ev.Inconclusive as x:
                    chk.inconclusive("R6", inst, str(x), loc)
    chk.coverage["alias_checked_members"] = n_alias
    if chk.tier == "thorough":
        # trusted-base reduction: the evaluator's terms agree with g++'s constant evaluator on every constexpr relation
        from .. import validate
        chk.rule("R0v", "(thorough) translation validation of the evaluator: for every constexpr relation the term evaluated at a rational sample point equals what g++'s constant evaluator computes (static_assert batch, -fsyntax-only)")
        summ = []
        for T in NUMERIC:
            r = validate.run(T)
            summ.append(r)
            if r["n_disagreements"] or r["n_other_errors"]:
                chk.inconclusive("R0v", "evaluator vs g++ <%s>" % T, "the evaluator's denotation disagrees with the compiler for %s %s" % (r["disagreements"][:2], r["other_errors"][:1]), "")
            else:
                chk.holds("R0v", "evaluator vs g++ <%s>" % T, "%d static_asserts over the slots of the constexpr relations agree (%d functions not expressible as constant expressions)" % (r["asserts"], r["skipped_functions"]), "")
        chk.coverage["evaluator_validation"] = [{k: v for k, v in r.items() if k != "disagreements"} for r in summ]
    chk.floor("component-wise operator instances (x3)", n_ops, 2700)
    chk.floor("constructor/operator twins (x3)", n_tw, 500)
    chk.coverage["operators"] = n_ops
    chk.coverage["twins"] = n_tw


TENSORS = ("PhQ::PlanarVector", "PhQ::Vector", "PhQ::SymmetricDyad", "PhQ::Dyad")


def tensor_kernels(chk, F, T):
    """+, -, *number, number*, /number and the compound assignments of the tensor classes: one operation per slot."""
    n = 0
    cands = []
    for f in F.fns.values():
        if "body" not in f or f.get("op") not in ("+", "-", "*", "/", "+=", "-=", "*=", "/="):
            continue
        if f["kind"] == "function" and len(f["params"]) == 2:
            pts = [strip_cvref(t) for t in F.param_types(f)]
            this = None
        elif f["kind"] == "method" and len(f["params"]) == 1:
            this = F.T(f["parent"])
            pts = [this, strip_cvref(F.param_types(f)[0])]
        else:
            continue
        def kind(t):
            r = F.records.get(t)
            if r is not None and r.get("template") in TENSORS and t.endswith("<%s>" % T):
                return "tensor"
            if t in ("float", "double", "long double"):
                return "num" if t == T else "numx"     # a plain number of another floating type (OtherNumericType forms)
            return None
        ks = [kind(t) for t in pts]
        if None in ks or "tensor" not in ks:
            continue
        cands.append((f, pts, ks, this))
    for f, pts, ks, this in cands:
        op = f["op"][0]
        sig = "%s(%s)" % (f["name"], ", ".join(p.replace("PhQ::", "") for p in pts))
        loc = short(f.get("def_loc", f["loc"]))
        try:
            E = ev.Evaluator(F)
            if this is None:
                res, _, args = E.run_symbolic(f, arg_prefixes=["a", "b"])
                val = E.rv(res)
            else:
                res, this_lv, _ = E.run_symbolic(f, this_prefix="a", arg_prefixes=["b"])
                val = E.load(this_lv) if f["op"].endswith("=") and len(f["op"]) == 2 else E.rv(res)
            E0 = ev.Evaluator(F)
            L = ev.flatten(E0.symbolic(pts[0], "a"))
            R = ev.flatten(E0.symbolic(pts[1], "b"))
            out = ev.flatten(val)
            nL, nR = len(L), len(R)
            if not ((op in "+-" and nL == nR == len(out)) or (op == "*" and (nL == 1 or nR == 1) and len(out) == max(nL, nR)) or (op == "/" and nR == 1 and len(out) == nL)):
                continue   # contraction (matrix product): C09
            n += 1
            bad = None
            for i, (path, got) in enumerate(out):
                a = L[i][1] if nL > 1 else L[0][1]
                b = R[i][1] if nR > 1 else R[0][1]
                # a number of another floating type is converted to the tensor's numeric type first, in the pure
                # operators and in the compound assignments alike (so that `v /= n` leaves what `v / n` returns)
                if ks[0] == "numx":
                    a = ("cast", T, a, pts[0])
                if ks[1] == "numx":
                    b = ("cast", T, b, pts[1])
                want = (OPNAME[op], a, b)
                if not eq_mod_comm(got, want):
                    bad = "slot %s = %s, expected the single operation %s" % (path, ev.show(got)[:200], ev.show(want))
                    break
            rule = "R2" if len(f["op"]) == 2 and f["op"].endswith("=") else "R1"
            (chk.violated if bad else chk.holds)(rule, sig, bad or "%d slot(s): slot = a %s b" % (len(out), op), loc)
        except ev.Inconclusive as x:
            chk.inconclusive("R1", sig, str(x), loc)
    return n
