"""C13 — Newtonian fluid models: linear viscous stress and its exact inverse."""
import sympy
from .. import facts, ev, nf, models
from ..facts import short, strip_cvref
from ..frontend import NUMERIC


def run(chk):
    chk.level = "other"
    chk.technique = ("term evaluation of every Stress/Strain/StrainRate overload of the two Newtonian fluid classes for each numeric type; "
                     "slot-wise algebraic comparison with sigma = 2 mu D (+ mu_b tr(D) I) and its inverse; argument-independence by leaf sets; "
                     "override completeness from the resolved virtual-function table")
    chk.rule("R1", "Stress(D) = 2 mu D (+ mu_b tr(D) I for the compressible model), slot-wise, for each of the three overloads")
    chk.rule("R2", "StrainRate(sigma) is the inverse map (so StrainRate(Stress(D)) = D); both maps are linear (degree 1, no constant term)")
    chk.rule("R3", "Stress(eps, D) ignores eps; Stress(eps) and Strain(sigma) are Zero(); the one-argument compressible constructor stores zero bulk viscosity")
    chk.rule("R4", "every pure virtual of ConstitutiveModel is overridden in both classes")
    chk.assumptions += ["accuracy in each precision is NOT decided; positive viscosities"]
    n = 0
    for T in NUMERIC:
        F = facts.load(T, chk.tier)
        for cls, compressible in (("CompressibleNewtonianFluid", True), ("IncompressibleNewtonianFluid", False)):
            mname = "PhQ::ConstitutiveModel::%s<%s>" % (cls, T)
            if mname not in F.records:
                chk.inconclusive("R1", mname, "class not instantiated", "")
                continue
            models.overrides_complete(chk, F, mname, "R4")
            mu = nf.sym("self.dynamic_viscosity.value", True)
            mub = nf.sym("self.bulk_dynamic_viscosity.value", True) if compressible else sympy.Integer(0)
            stress1 = models.tensor_methods(F, mname, "Stress", 1)
            for f in stress1:
                pt = strip_cvref(F.T(f["params"][0]["t"]))
                n += 1
                if pt.startswith("PhQ::StrainRate<"):
                    models.check_linear_map(chk, "R1", F, mname, f, 2 * mu, mub, False, None)
                elif pt.startswith("PhQ::Strain<"):
                    models.check_zero(chk, "R3", F, mname, f)
            for f in models.tensor_methods(F, mname, "StrainRate", 1):
                n += 1
                models.check_linear_map(chk, "R2", F, mname, f, 2 * mu, mub, True, None)
            for f in models.tensor_methods(F, mname, "Strain", 1):
                n += 1
                models.check_zero(chk, "R3", F, mname, f)
            for f in models.tensor_methods(F, mname, "Stress", 2):
                n += 1
                models.check_two_arg(chk, "R3", F, mname, f, 1, stress1)
            if compressible:
                cs = [f for f in F.methods(mname) if f["kind"] == "ctor" and "body" in f and len(f["params"]) == 1
                      and strip_cvref(F.T(f["params"][0]["t"])).startswith("PhQ::DynamicViscosity<")]
                inst = "%s(DynamicViscosity)" % mname.replace("PhQ::ConstitutiveModel::", "")
                if len(cs) != 1:
                    chk.violated("R3", inst, "constructor from a dynamic viscosity alone not found", short(F.records[mname]["loc"]))
                else:
                    f = cs[0]
                    try:
                        E = ev.Evaluator(F)
                        _, this_lv, _ = E.run_symbolic(f, arg_prefixes=["mu"])
                        obj = E.load(this_lv)
                        b = ev.flatten(obj.f["bulk_dynamic_viscosity"])[0][1]
                        m = ev.flatten(obj.f["dynamic_viscosity"])[0][1]
                        ok = b == ev.ZERO and m == ("leaf", "mu.value")
                        (chk.holds if ok else chk.violated)("R3", inst, "stores (mu, mu_b) = (%s, %s)" % (ev.show(m), ev.show(b)), short(f["loc"]))
                    except ev.Inconclusive as x:
                        chk.inconclusive("R3", inst, str(x), short(f["loc"]))
    chk.floor("overloads analysed", n, 80)
