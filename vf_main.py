import argparse
import importlib
import json
import os
import sys

sys.path.insert(0, os.path.dirname(os.path.abspath(__file__)))
sys.setrecursionlimit(20000)
from vf_lib import frontend, core  # noqa: E402


def main():
    ap = argparse.ArgumentParser()
    sub = ap.add_subparsers(dest="cmd")
    c = sub.add_parser("check")
    c.add_argument("pid")
    c.add_argument("--tier", default=os.environ.get("VERIF_TIER", "quick") or "quick")
    r = sub.add_parser("replay")
    r.add_argument("path")
    sub.add_parser("setup")
    sub.add_parser("validate-evaluator")
    st = sub.add_parser("selftest")
    st.add_argument("--only", default=None)
    a = ap.parse_args()
    if a.cmd == "setup":
        frontend.ensure_tool()
        frontend.build_facts()
        print("setup ok")
        return 0
    if a.cmd == "validate-evaluator":
        from vf_lib import validate
        bad = 0
        for T in frontend.NUMERIC:
            r = validate.run(T)
            print(json.dumps(r)[:600])
            bad += r["n_disagreements"] + r["n_other_errors"]
        return 2 if bad else 0
    if a.cmd == "selftest":
        from vf_lib import selftest
        return selftest.main(a.only)
    if a.cmd == "replay":
        rec = json.load(open(a.path))
        pid, key = rec["property"], rec["obligation"]["key"]
        mod = importlib.import_module("vf_lib.props." + pid.lower())
        chk = core.Check(pid, rec.get("tier", "quick"))
        chk.only_key = key
        try:
            if key.startswith("WF:"):
                chk.wellformedness()
            else:
                mod.run(chk)
        except frontend.AnalysisBroken as x:
            print("ANALYSIS-BROKEN property=%s %s" % (pid, x))
            return 2
        hits = [o for o in chk.obs if o["key"] == key]
        for o in hits:
            print(json.dumps(o, indent=1, ensure_ascii=False))
        if not hits:
            print("instance %s no longer exists on the current tree" % key)
            return 2
        return 1 if any(o["status"] == "violated" for o in hits) else 0
    if a.cmd == "check":
        pid = a.pid.upper()
        tier = a.tier if a.tier in ("quick", "thorough") else "quick"
        try:
            mod = importlib.import_module("vf_lib.props." + pid.lower())
            chk = core.Check(pid, tier)
            mod.run(chk)
            if tier == "thorough" and not os.environ.get("VF_NO_SELFTEST") and not os.environ.get("PHQ_REPO"):
                # detectability evidence: the kept seeded changes for this property must be reported, the
                # behaviour-preserving refactors must stay quiet (scratch copies of /repo/include; /repo untouched)
                from vf_lib import selftest
                res = selftest.cases_for(pid)
                chk.coverage["selftest"] = [{"case": l, "status": st, "detail": d[:160]} for l, _, st, d in res]
                for l, _, st, d in res:
                    if st == "UNEXPECTED":
                        print("SELFTEST-REGRESSION property=%s case=%s %s" % (pid, l, d[:200]))
            return chk.finish()
        except frontend.AnalysisBroken as x:
            try:
                if chk.wellformedness():      # the facts are unusable because /repo is ill-formed for a numeric type
                    chk.finish()
                    print("ANALYSIS-BROKEN property=%s %s" % (pid, x))
                    return 1
            except frontend.AnalysisBroken:
                pass
            print("ANALYSIS-BROKEN property=%s %s" % (pid, x))
            return 2
        except Exception as x:   # a crash of the checker is never a verdict
            import traceback
            traceback.print_exc()
            print("ANALYSIS-BROKEN property=%s internal error: %r" % (pid, x))
            return 2
    ap.print_help()
    return 2


if __name__ == "__main__":
    sys.exit(main())
