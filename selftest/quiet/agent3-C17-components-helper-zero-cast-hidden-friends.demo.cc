// Differential program for the C17 structural refactor (Components helper + hidden-friend comparisons).
#include <array>
#include <cmath>
#include <cstdint>
#include <cstdio>
#include <cstring>
#include <functional>
#include <iostream>
#include <limits>
#include <random>
#include <sstream>
#include <string>
#include <type_traits>
#include <unordered_set>
#include <vector>
#include <set>
#include <PhQ/Dyad.hpp>
#include <PhQ/PlanarVector.hpp>
#include <PhQ/SymmetricDyad.hpp>
#include <PhQ/Vector.hpp>
#include <PhQ/Acceleration.hpp>
#include <PhQ/Angle.hpp>
#include <PhQ/AngularSpeed.hpp>
#include <PhQ/Area.hpp>
#include <PhQ/BulkDynamicViscosity.hpp>
#include <PhQ/Direction.hpp>
#include <PhQ/Displacement.hpp>
#include <PhQ/DisplacementGradient.hpp>
#include <PhQ/DynamicKinematicPressure.hpp>
#include <PhQ/DynamicPressure.hpp>
#include <PhQ/DynamicViscosity.hpp>
#include <PhQ/ElectricCharge.hpp>
#include <PhQ/ElectricCurrent.hpp>
#include <PhQ/Energy.hpp>
#include <PhQ/Force.hpp>
#include <PhQ/Frequency.hpp>
#include <PhQ/GasConstant.hpp>
#include <PhQ/HeatCapacityRatio.hpp>
#include <PhQ/HeatFlux.hpp>
#include <PhQ/IsentropicBulkModulus.hpp>
#include <PhQ/IsobaricHeatCapacity.hpp>
#include <PhQ/IsochoricHeatCapacity.hpp>
#include <PhQ/IsothermalBulkModulus.hpp>
#include <PhQ/KinematicViscosity.hpp>
#include <PhQ/LameFirstModulus.hpp>
#include <PhQ/Length.hpp>
#include <PhQ/LinearThermalExpansionCoefficient.hpp>
#include <PhQ/MachNumber.hpp>
#include <PhQ/Mass.hpp>
#include <PhQ/MassDensity.hpp>
#include <PhQ/MassRate.hpp>
#include <PhQ/Memory.hpp>
#include <PhQ/MemoryRate.hpp>
#include <PhQ/PWaveModulus.hpp>
#include <PhQ/PlanarAcceleration.hpp>
#include <PhQ/PlanarDirection.hpp>
#include <PhQ/PlanarDisplacement.hpp>
#include <PhQ/PlanarForce.hpp>
#include <PhQ/PlanarHeatFlux.hpp>
#include <PhQ/PlanarPosition.hpp>
#include <PhQ/PlanarTemperatureGradient.hpp>
#include <PhQ/PlanarTraction.hpp>
#include <PhQ/PlanarVelocity.hpp>
#include <PhQ/PoissonRatio.hpp>
#include <PhQ/Position.hpp>
#include <PhQ/Power.hpp>
#include <PhQ/PrandtlNumber.hpp>
#include <PhQ/ReynoldsNumber.hpp>
#include <PhQ/ScalarAcceleration.hpp>
#include <PhQ/ScalarAngularAcceleration.hpp>
#include <PhQ/ScalarDisplacementGradient.hpp>
#include <PhQ/ScalarForce.hpp>
#include <PhQ/ScalarHeatFlux.hpp>
#include <PhQ/ScalarStrain.hpp>
#include <PhQ/ScalarStrainRate.hpp>
#include <PhQ/ScalarStress.hpp>
#include <PhQ/ScalarTemperatureGradient.hpp>
#include <PhQ/ScalarThermalConductivity.hpp>
#include <PhQ/ScalarTraction.hpp>
#include <PhQ/ScalarVelocityGradient.hpp>
#include <PhQ/ShearModulus.hpp>
#include <PhQ/SolidAngle.hpp>
#include <PhQ/SoundSpeed.hpp>
#include <PhQ/SpecificEnergy.hpp>
#include <PhQ/SpecificGasConstant.hpp>
#include <PhQ/SpecificIsobaricHeatCapacity.hpp>
#include <PhQ/SpecificIsochoricHeatCapacity.hpp>
#include <PhQ/SpecificPower.hpp>
#include <PhQ/Speed.hpp>
#include <PhQ/StaticKinematicPressure.hpp>
#include <PhQ/StaticPressure.hpp>
#include <PhQ/Strain.hpp>
#include <PhQ/StrainRate.hpp>
#include <PhQ/Stress.hpp>
#include <PhQ/SubstanceAmount.hpp>
#include <PhQ/Temperature.hpp>
#include <PhQ/TemperatureDifference.hpp>
#include <PhQ/TemperatureGradient.hpp>
#include <PhQ/ThermalConductivity.hpp>
#include <PhQ/ThermalDiffusivity.hpp>
#include <PhQ/Time.hpp>
#include <PhQ/TotalKinematicPressure.hpp>
#include <PhQ/TotalPressure.hpp>
#include <PhQ/Traction.hpp>
#include <PhQ/TransportEnergyConsumption.hpp>
#include <PhQ/VectorArea.hpp>
#include <PhQ/Velocity.hpp>
#include <PhQ/VelocityGradient.hpp>
#include <PhQ/Volume.hpp>
#include <PhQ/VolumeRate.hpp>
#include <PhQ/VolumetricThermalExpansionCoefficient.hpp>
#include <PhQ/YoungModulus.hpp>

#define PHQ_QUANTITIES(X) \
  X(Acceleration) \
  X(Angle) \
  X(AngularSpeed) \
  X(Area) \
  X(BulkDynamicViscosity) \
  X(Direction) \
  X(Displacement) \
  X(DisplacementGradient) \
  X(DynamicKinematicPressure) \
  X(DynamicPressure) \
  X(DynamicViscosity) \
  X(ElectricCharge) \
  X(ElectricCurrent) \
  X(Energy) \
  X(Force) \
  X(Frequency) \
  X(GasConstant) \
  X(HeatCapacityRatio) \
  X(HeatFlux) \
  X(IsentropicBulkModulus) \
  X(IsobaricHeatCapacity) \
  X(IsochoricHeatCapacity) \
  X(IsothermalBulkModulus) \
  X(KinematicViscosity) \
  X(LameFirstModulus) \
  X(Length) \
  X(LinearThermalExpansionCoefficient) \
  X(MachNumber) \
  X(Mass) \
  X(MassDensity) \
  X(MassRate) \
  X(Memory) \
  X(MemoryRate) \
  X(PWaveModulus) \
  X(PlanarAcceleration) \
  X(PlanarDirection) \
  X(PlanarDisplacement) \
  X(PlanarForce) \
  X(PlanarHeatFlux) \
  X(PlanarPosition) \
  X(PlanarTemperatureGradient) \
  X(PlanarTraction) \
  X(PlanarVelocity) \
  X(PoissonRatio) \
  X(Position) \
  X(Power) \
  X(PrandtlNumber) \
  X(ReynoldsNumber) \
  X(ScalarAcceleration) \
  X(ScalarAngularAcceleration) \
  X(ScalarDisplacementGradient) \
  X(ScalarForce) \
  X(ScalarHeatFlux) \
  X(ScalarStrain) \
  X(ScalarStrainRate) \
  X(ScalarStress) \
  X(ScalarTemperatureGradient) \
  X(ScalarThermalConductivity) \
  X(ScalarTraction) \
  X(ScalarVelocityGradient) \
  X(ShearModulus) \
  X(SolidAngle) \
  X(SoundSpeed) \
  X(SpecificEnergy) \
  X(SpecificGasConstant) \
  X(SpecificIsobaricHeatCapacity) \
  X(SpecificIsochoricHeatCapacity) \
  X(SpecificPower) \
  X(Speed) \
  X(StaticKinematicPressure) \
  X(StaticPressure) \
  X(Strain) \
  X(StrainRate) \
  X(Stress) \
  X(SubstanceAmount) \
  X(Temperature) \
  X(TemperatureDifference) \
  X(TemperatureGradient) \
  X(ThermalConductivity) \
  X(ThermalDiffusivity) \
  X(Time) \
  X(TotalKinematicPressure) \
  X(TotalPressure) \
  X(Traction) \
  X(TransportEnergyConsumption) \
  X(VectorArea) \
  X(Velocity) \
  X(VelocityGradient) \
  X(Volume) \
  X(VolumeRate) \
  X(VolumetricThermalExpansionCoefficient) \
  X(YoungModulus) \

namespace {

// FNV-1a digest that only consumes the value bytes of a number (long double has padding bytes).
struct Digest {
  std::uint64_t h = 1469598103934665603ULL;
  void Bytes(const void* p, std::size_t n) {
    const unsigned char* c = static_cast<const unsigned char*>(p);
    for (std::size_t i = 0; i < n; ++i) { h ^= c[i]; h *= 1099511628211ULL; }
  }
  template <typename N> void Num(N x) {
    static_assert(std::is_floating_point<N>::value, "");
    unsigned char buf[sizeof(N)];
    std::memcpy(buf, &x, sizeof(N));
    Bytes(buf, std::is_same<N, long double>::value ? 10 : sizeof(N));
  }
  void Int(std::uint64_t x) { Bytes(&x, sizeof(x)); }
  void Str(const std::string& s) { Bytes(s.data(), s.size()); Int(s.size()); }
};

template <typename N> const char* TypeName();
template <> const char* TypeName<float>() { return "float"; }
template <> const char* TypeName<double>() { return "double"; }
template <> const char* TypeName<long double>() { return "long double"; }

template <typename N> std::string Hex(N x) {
  char buf[128];
  std::snprintf(buf, sizeof(buf), "%La", static_cast<long double>(x));
  return std::string(buf) + (std::signbit(x) ? "[-]" : "[+]");
}

std::mt19937_64 rng(20240917ULL);

template <typename N> std::vector<N> EdgeValues() {
  using L = std::numeric_limits<N>;
  return {static_cast<N>(0), -static_cast<N>(0), static_cast<N>(1), static_cast<N>(-1), L::min(),
          -L::min(), L::denorm_min(), -L::denorm_min(), L::max(), L::lowest(), L::epsilon(),
          L::infinity(), -L::infinity(), L::quiet_NaN(), static_cast<N>(0.1L),
          static_cast<N>(-1.0e30L), static_cast<N>(3.0e38L), static_cast<N>(1.0e-40L),
          static_cast<N>(1.0e300L), static_cast<N>(-1.0e-310L), static_cast<N>(16777217.0L),
          static_cast<N>(9007199254740993.0L)};
}

template <typename N> N Random() {
  static std::vector<N> edges = EdgeValues<N>();
  const std::uint64_t r = rng();
  switch (r % 8) {
    case 0: return edges[(r >> 8) % edges.size()];
    case 1: return static_cast<N>(static_cast<std::int64_t>((r >> 8) % 21) - 10);
    case 2: {
      const long double m = std::ldexp(static_cast<long double>(rng() >> 1), -62) - 1.0L;
      const int e = static_cast<int>((r >> 8) % 2400) - 1200;
      return static_cast<N>(std::ldexp(m, e));
    }
    default: {
      const long double m = std::ldexp(static_cast<long double>(rng() >> 1), -62) - 1.0L;
      const int e = static_cast<int>((r >> 8) % 80) - 40;
      return static_cast<N>(std::ldexp(m, e));
    }
  }
}

// ---- generic handling of the five value shapes ----
template <typename V> struct Shape;
template <> struct Shape<float> { using N = float; static constexpr std::size_t K = 1; };
template <> struct Shape<double> { using N = double; static constexpr std::size_t K = 1; };
template <> struct Shape<long double> { using N = long double; static constexpr std::size_t K = 1; };
template <typename T> struct Shape<PhQ::PlanarVector<T>> { using N = T; static constexpr std::size_t K = 2; };
template <typename T> struct Shape<PhQ::Vector<T>> { using N = T; static constexpr std::size_t K = 3; };
template <typename T> struct Shape<PhQ::SymmetricDyad<T>> { using N = T; static constexpr std::size_t K = 6; };
template <typename T> struct Shape<PhQ::Dyad<T>> { using N = T; static constexpr std::size_t K = 9; };

template <typename V> V Make(const std::array<typename Shape<V>::N, Shape<V>::K>& a) {
  if constexpr (Shape<V>::K == 1) {
    return a[0];
  } else {
    return V{a};
  }
}

template <typename V> V MakeRandom() {
  std::array<typename Shape<V>::N, Shape<V>::K> a;
  for (auto& x : a) x = Random<typename Shape<V>::N>();
  return Make<V>(a);
}

// Feeds any trivially copyable object that is claimed to be K bare numbers of type N.
template <typename N, typename T> void FeedRaw(Digest& d, const T& object) {
  static_assert(sizeof(T) % sizeof(N) == 0, "");
  constexpr std::size_t K = sizeof(T) / sizeof(N);
  N numbers[K];
  std::memcpy(numbers, &object, sizeof(T));
  for (std::size_t i = 0; i < K; ++i) d.Num(numbers[i]);
}

template <typename N, typename T> std::string RawHex(const T& object) {
  constexpr std::size_t K = sizeof(T) / sizeof(N);
  N numbers[K];
  std::memcpy(numbers, &object, sizeof(T));
  std::string s;
  for (std::size_t i = 0; i < K; ++i) { s += (i ? " " : ""); s += Hex(numbers[i]); }
  return s;
}

template <typename T, typename = void> struct HasSetValue : std::false_type {};
template <typename T>
struct HasSetValue<T, std::void_t<decltype(std::declval<T&>().SetValue(std::declval<T&>().Value()))>>
  : std::true_type {};
template <typename T, typename = void> struct HasMutableValue : std::false_type {};
template <typename T>
struct HasMutableValue<T, std::void_t<decltype(std::declval<T&>().MutableValue())>> : std::true_type {};

// ---- quantities ----
template <template <typename> class Q, typename N, typename M> void CrossType(Digest& d, const Q<N>& q) {
  if constexpr (std::is_constructible<Q<M>, const Q<N>&>::value) {
    const Q<M> converted{q};
    FeedRaw<M>(d, converted);
    FeedRaw<M>(d, converted.Value());
    d.Str(converted.Print());
    if constexpr (std::is_assignable<Q<M>&, const Q<N>&>::value) {
      Q<M> assigned = Q<M>::Zero();
      assigned = q;
      FeedRaw<M>(d, assigned);
      d.Int(assigned == converted ? 1 : 0);
      d.Int(assigned != converted ? 1 : 0);
      d.Int(assigned < converted ? 1 : 0);
      d.Int(assigned >= converted ? 1 : 0);
    } else {
      d.Int(77);
    }
  } else {
    d.Int(99);
  }
}

template <template <typename> class Q, typename N> void Quantity(const char* name) {
  using T = Q<N>;
  using V = std::decay_t<decltype(std::declval<const T&>().Value())>;
  static_assert(std::is_same<typename Shape<V>::N, N>::value, "");
  constexpr std::size_t K = Shape<V>::K;
  Digest d;
  const T zero = T::Zero();
  std::printf("%s<%s> sizeof=%zu alignof=%zu numbers=%zu rem=%zu K=%zu tc=%d sl=%d td=%d tcc=%d tca=%d tdc=%d nx=%d zero={%s}",
              name, TypeName<N>(), sizeof(T), alignof(T), sizeof(T) / sizeof(N), sizeof(T) % sizeof(N), K,
              int(std::is_trivially_copyable<T>::value), int(std::is_standard_layout<T>::value),
              int(std::is_trivially_destructible<T>::value),
              int(std::is_trivially_copy_constructible<T>::value),
              int(std::is_trivially_copy_assignable<T>::value),
              int(std::is_trivially_default_constructible<T>::value),
              int(std::is_nothrow_move_constructible<T>::value), RawHex<N>(zero).c_str());
  constexpr bool can_set = HasSetValue<T>::value;
  constexpr bool can_mutate = HasMutableValue<T>::value;
  T q = T::Zero();
  T previous = T::Zero();
  T block[4] = {T::Zero(), T::Zero(), T::Zero(), T::Zero()};
  for (int iteration = 0; iteration < 120; ++iteration) {
    const V v = MakeRandom<V>();
    const V w = MakeRandom<V>();
    if constexpr (can_set) {
      q.SetValue(v);
      FeedRaw<N>(d, q);
      FeedRaw<N>(d, q.Value());
    }
    if constexpr (can_mutate) {
      q.MutableValue() = w;
      FeedRaw<N>(d, q);
      const V& reference = q.MutableValue();
      FeedRaw<N>(d, reference);
      d.Int(reinterpret_cast<const char*>(&reference) == reinterpret_cast<const char*>(&q) ? 1 : 0);
    }
    if constexpr (!can_set && !can_mutate) {
      // Directions: only raw access is generic; write numbers straight into the object.
      std::array<N, K> numbers;
      for (auto& x : numbers) x = Random<N>();
      static_assert(sizeof(numbers) == sizeof(T), "");
      std::memcpy(static_cast<void*>(&q), numbers.data(), sizeof(T));
      FeedRaw<N>(d, q.Value());
    }
    d.Str(q.Print());
    d.Str(q.JSON());
    d.Str(q.XML());
    d.Str(q.YAML());
    {
      std::ostringstream stream;
      stream << q;
      d.Str(stream.str());
    }
    d.Int(q == previous ? 1 : 0);
    d.Int(q != previous ? 1 : 0);
    d.Int(q < previous ? 1 : 0);
    d.Int(q > previous ? 1 : 0);
    d.Int(q <= previous ? 1 : 0);
    d.Int(q >= previous ? 1 : 0);
    d.Int(q == q ? 1 : 0);
    d.Int(static_cast<std::uint64_t>(std::hash<T>()(q)));
    CrossType<Q, N, float>(d, q);
    CrossType<Q, N, double>(d, q);
    CrossType<Q, N, long double>(d, q);
    // Arrays of quantities handled as arrays of numbers.
    block[iteration % 4] = q;
    N flat[4 * K];
    static_assert(sizeof(flat) == sizeof(block), "");
    std::memcpy(flat, block, sizeof(block));
    for (const N x : flat) d.Num(x);
    previous = q;
  }
  std::printf(" set=%d mut=%d digest=%016llx\n", int(can_set), int(can_mutate),
              static_cast<unsigned long long>(d.h));
}

// ---- mathematical value classes ----
template <typename V> void CompareAll(Digest& d, const V& a, const V& b) {
  d.Int((a == b ? 1 : 0) | (a != b ? 2 : 0) | (a < b ? 4 : 0) | (a > b ? 8 : 0) | (a <= b ? 16 : 0)
        | (a >= b ? 32 : 0));
}

template <template <typename> class C, typename N, typename M> void CastValue(Digest& d, const C<N>& v, bool verbose) {
  const C<M> constructed{v};
  C<M> assigned = C<M>::Zero();
  assigned = v;
  FeedRaw<M>(d, constructed);
  FeedRaw<M>(d, assigned);
  d.Str(constructed.Print());
  CompareAll(d, constructed, assigned);
  const C<N> back{constructed};
  FeedRaw<N>(d, back);
  CompareAll(d, back, v);
  if (verbose) {
    std::printf("    -> %s ctor {%s} assign {%s}\n", TypeName<M>(), RawHex<M>(constructed).c_str(),
                RawHex<M>(assigned).c_str());
  }
}

template <template <typename> class C, typename N> void ValueClass(const char* name) {
  using V = C<N>;
  constexpr std::size_t K = Shape<V>::K;
  Digest d;
  constexpr V constexpr_zero = V::Zero();
  const V zero = V::Zero();
  std::printf("%s<%s> sizeof=%zu alignof=%zu tc=%d sl=%d td=%d tdc=%d zero={%s} constexpr_zero={%s} print=%s\n", name,
              TypeName<N>(), sizeof(V), alignof(V), int(std::is_trivially_copyable<V>::value),
              int(std::is_standard_layout<V>::value), int(std::is_trivially_destructible<V>::value),
              int(std::is_trivially_default_constructible<V>::value), RawHex<N>(zero).c_str(),
              RawHex<N>(constexpr_zero).c_str(), zero.Print().c_str());
  // Edge cases, printed in full.
  const std::vector<N> edges = EdgeValues<N>();
  for (std::size_t i = 0; i < edges.size(); ++i) {
    std::array<N, K> a;
    for (std::size_t k = 0; k < K; ++k) a[k] = edges[(i + k * 7) % edges.size()];
    const V v{a};
    std::printf("  edge %zu {%s} print=%s\n", i, RawHex<N>(v).c_str(), v.Print().c_str());
    CastValue<C, N, float>(d, v, true);
    CastValue<C, N, double>(d, v, true);
    CastValue<C, N, long double>(d, v, true);
    for (std::size_t j = 0; j < edges.size(); ++j) {
      std::array<N, K> b = a;
      b[(i + j) % K] = edges[j];
      const V other{b};
      CompareAll(d, v, other);
      CompareAll(d, other, v);
      d.Int(static_cast<std::uint64_t>(std::hash<V>()(other)));
    }
  }
  // Random bulk.
  V previous = V::Zero();
  std::set<V> ordered;
  for (int iteration = 0; iteration < 4000; ++iteration) {
    const V v = MakeRandom<V>();
    FeedRaw<N>(d, v);
    CastValue<C, N, float>(d, v, false);
    CastValue<C, N, double>(d, v, false);
    CastValue<C, N, long double>(d, v, false);
    CompareAll(d, v, previous);
    CompareAll(d, previous, v);
    CompareAll(d, v, v);
    V mixed = previous;
    // Share a prefix of components with the previous value to reach the later comparisons.
    {
      std::array<N, K> a;
      std::array<N, K> p;
      std::memcpy(a.data(), &v, sizeof(V));
      std::memcpy(p.data(), &previous, sizeof(V));
      const std::size_t prefix = static_cast<std::size_t>(iteration) % (K + 1);
      for (std::size_t k = 0; k < prefix; ++k) a[k] = p[k];
      mixed = a;
    }
    CompareAll(d, mixed, previous);
    CompareAll(d, previous, mixed);
    d.Int(static_cast<std::uint64_t>(std::hash<V>()(v)));
    d.Str(v.Print());
    d.Str(v.JSON());
    d.Str(v.XML());
    d.Str(v.YAML());
    {
      std::ostringstream stream;
      stream << v;
      d.Str(stream.str());
    }
    const N scale = Random<N>();
    FeedRaw<N>(d, v + previous);
    FeedRaw<N>(d, v - previous);
    FeedRaw<N>(d, v * scale);
    FeedRaw<N>(d, scale * v);
    FeedRaw<N>(d, v / scale);
    V accumulated = v;
    accumulated += previous;
    FeedRaw<N>(d, accumulated);
    accumulated -= mixed;
    FeedRaw<N>(d, accumulated);
    accumulated *= scale;
    FeedRaw<N>(d, accumulated);
    accumulated /= static_cast<N>(3);
    FeedRaw<N>(d, accumulated);
    if (v == v) {  // keep NaN out of the ordered set
      bool has_nan = false;
      std::array<N, K> a;
      std::memcpy(a.data(), &v, sizeof(V));
      for (const N x : a) has_nan = has_nan || std::isnan(x);
      if (!has_nan) ordered.insert(v);
    }
    previous = v;
  }
  d.Int(ordered.size());
  for (const V& v : ordered) FeedRaw<N>(d, v);
  std::printf("  bulk digest=%016llx ordered=%zu\n", static_cast<unsigned long long>(d.h), ordered.size());
}

template <typename N> void VectorSpecific() {
  Digest d;
  for (int iteration = 0; iteration < 3000; ++iteration) {
    const N x = Random<N>(), y = Random<N>(), z = Random<N>();
    PhQ::Vector<N> v{x, y, z};
    FeedRaw<N>(d, v);
    d.Num(v.x()); d.Num(v.y()); d.Num(v.z());
    for (const N c : v.x_y_z()) d.Num(c);
    v.Mutable_x() = z; v.Mutable_z() = x; v.Mutable_y() = -y;
    FeedRaw<N>(d, v);
    v.Mutable_x_y_z()[1] = x;
    FeedRaw<N>(d, v);
    v.Set_x(y); FeedRaw<N>(d, v);
    v.Set_y(z); FeedRaw<N>(d, v);
    v.Set_z(x); FeedRaw<N>(d, v);
    v.Set_x_y_z(z, y, x); FeedRaw<N>(d, v);
    v.Set_x_y_z(std::array<N, 3>{x, z, y}); FeedRaw<N>(d, v);
    v = std::array<N, 3>{y, y, x}; FeedRaw<N>(d, v);
    d.Num(v.MagnitudeSquared()); d.Num(v.Magnitude());
    const PhQ::PlanarVector<N> p{v};
    FeedRaw<N>(d, p);
    const PhQ::Vector<N> lifted{p};
    FeedRaw<N>(d, lifted);
    FeedRaw<N>(d, p.Cross(PhQ::PlanarVector<N>{z, x}));
    PhQ::PlanarVector<N> planar{x, y};
    planar.Mutable_x() = y; planar.Mutable_y() = z; FeedRaw<N>(d, planar);
    planar.Set_x(z); planar.Set_y(x); FeedRaw<N>(d, planar);
    planar.Set_x_y(x, x); FeedRaw<N>(d, planar);
    planar = std::array<N, 2>{y, z}; FeedRaw<N>(d, planar);
    const PhQ::SymmetricDyad<N> s{x, y, z, z, y, x};
    const PhQ::Dyad<N> full{s};
    FeedRaw<N>(d, full);
    PhQ::Dyad<N> assigned_full = PhQ::Dyad<N>::Zero();
    assigned_full = s;
    FeedRaw<N>(d, assigned_full);
    d.Int(full == assigned_full ? 1 : 0);
    PhQ::Direction<N> direction;
    direction.Set(x, y, z);
    FeedRaw<N>(d, direction);
    direction.Set(static_cast<N>(0), -static_cast<N>(0), static_cast<N>(0));
    FeedRaw<N>(d, direction);
    PhQ::PlanarDirection<N> planar_direction;
    planar_direction.Set(x, y);
    FeedRaw<N>(d, planar_direction);
    planar_direction.Set(-static_cast<N>(0), static_cast<N>(0));
    FeedRaw<N>(d, planar_direction);
  }
  PhQ::Direction<N> zero_direction{static_cast<N>(0), static_cast<N>(0), -static_cast<N>(0)};
  PhQ::PlanarDirection<N> zero_planar_direction{-static_cast<N>(0), static_cast<N>(0)};
  std::printf("VectorSpecific<%s> digest=%016llx zero_direction={%s} zero_planar_direction={%s}\n",
              TypeName<N>(), static_cast<unsigned long long>(d.h), RawHex<N>(zero_direction).c_str(),
              RawHex<N>(zero_planar_direction).c_str());
}

// Compile-time checks that must hold with both sets of headers.
static_assert(PhQ::Vector<float>::Zero() == PhQ::Vector<float>{0.0F, 0.0F, 0.0F}, "");
static_assert(PhQ::PlanarVector<long double>::Zero() == PhQ::PlanarVector<long double>{0.0L, 0.0L}, "");
static_assert(PhQ::Vector<double>{PhQ::Vector<float>{1.5F, -2.0F, 0.25F}}.y() == -2.0, "");
static_assert(PhQ::Dyad<float>{PhQ::Dyad<double>{1.0, 2.0, 3.0, 4.0, 5.0, 6.0, 7.0, 8.0, 9.0}}.zy() == 8.0F, "");
static_assert(PhQ::SymmetricDyad<long double>{PhQ::SymmetricDyad<float>{1.0F, 2.0F, 3.0F, 4.0F, 5.0F, 6.0F}}.yz() == 5.0L, "");
static_assert(PhQ::Vector<double>{1.0, 2.0, 3.0} < PhQ::Vector<double>{1.0, 2.0, 4.0}, "");
static_assert(PhQ::PlanarVector<float>{1.0F, 2.0F} >= PhQ::PlanarVector<float>{1.0F, 2.0F}, "");

}  // namespace

int main() {
#define PHQ_RUN(Name)                       \
  Quantity<PhQ::Name, float>(#Name);        \
  Quantity<PhQ::Name, double>(#Name);       \
  Quantity<PhQ::Name, long double>(#Name);
  PHQ_QUANTITIES(PHQ_RUN)
#undef PHQ_RUN
#define PHQ_RUN_VALUE(Name)                   \
  ValueClass<PhQ::Name, float>(#Name);        \
  ValueClass<PhQ::Name, double>(#Name);       \
  ValueClass<PhQ::Name, long double>(#Name);
  PHQ_RUN_VALUE(PlanarVector)
  PHQ_RUN_VALUE(Vector)
  PHQ_RUN_VALUE(SymmetricDyad)
  PHQ_RUN_VALUE(Dyad)
#undef PHQ_RUN_VALUE
  VectorSpecific<float>();
  VectorSpecific<double>();
  VectorSpecific<long double>();
  return 0;
}
