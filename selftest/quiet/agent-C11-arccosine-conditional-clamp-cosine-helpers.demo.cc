// Differential program for property C11: angles between vectors, directions and vector quantities.
#include <PhQ/Acceleration.hpp>
#include <PhQ/Angle.hpp>
#include <PhQ/Direction.hpp>
#include <PhQ/Displacement.hpp>
#include <PhQ/Force.hpp>
#include <PhQ/HeatFlux.hpp>
#include <PhQ/PlanarAcceleration.hpp>
#include <PhQ/PlanarDirection.hpp>
#include <PhQ/PlanarDisplacement.hpp>
#include <PhQ/PlanarForce.hpp>
#include <PhQ/PlanarHeatFlux.hpp>
#include <PhQ/PlanarPosition.hpp>
#include <PhQ/PlanarTemperatureGradient.hpp>
#include <PhQ/PlanarTraction.hpp>
#include <PhQ/PlanarVector.hpp>
#include <PhQ/PlanarVelocity.hpp>
#include <PhQ/Position.hpp>
#include <PhQ/TemperatureGradient.hpp>
#include <PhQ/Traction.hpp>
#include <PhQ/Vector.hpp>
#include <PhQ/VectorArea.hpp>
#include <PhQ/Velocity.hpp>

#include <cmath>
#include <cstdint>
#include <cstdio>
#include <cstring>
#include <limits>
#include <random>
#include <string>
#include <vector>

namespace {

std::uint64_t digest = 1469598103934665603ULL;
std::uint64_t count = 0;
std::uint64_t nan_count = 0;

template <typename T>
void Emit(const char* tag, const T value, const bool print) {
  unsigned char bytes[sizeof(long double)] = {};
  // Only the value bytes: long double has 10 significant bytes on x86-64.
  const std::size_t n = (sizeof(T) == sizeof(long double) && sizeof(T) > 10) ? 10 : sizeof(T);
  std::memcpy(bytes, &value, n);
  for (std::size_t i = 0; i < n; ++i) {
    digest ^= bytes[i];
    digest *= 1099511628211ULL;
  }
  for (const char* c = tag; *c != 0; ++c) {
    digest ^= static_cast<unsigned char>(*c);
    digest *= 1099511628211ULL;
  }
  ++count;
  if (value != value) {
    ++nan_count;
  }
  if (print) {
    std::printf("%s %La\n", tag, static_cast<long double>(value));
  }
}

template <typename T>
const char* TypeName();
template <>
const char* TypeName<float>() {
  return "float";
}
template <>
const char* TypeName<double>() {
  return "double";
}
template <>
const char* TypeName<long double>() {
  return "longdouble";
}

// Angles between two 3D vector quantities of kind Q expressed in unit u.
template <template <typename> class Q, typename U, typename T>
void Quantity3(const char* name, const U u1, const U u2, const PhQ::Vector<T>& a,
               const PhQ::Vector<T>& b, const bool print) {
  const std::string tag = std::string(TypeName<T>()) + " " + name;
  const Q<T> q1(a, u1);
  const Q<T> q2(b, u1);
  const Q<T> q3(a, u2);
  const Q<T> q4(b, u2);
  Emit((tag + " ctor").c_str(), PhQ::Angle<T>(q1, q2).Value(), print);
  Emit((tag + " ctor-swapped").c_str(), PhQ::Angle<T>(q2, q1).Value(), print);
  Emit((tag + " member").c_str(), q1.Angle(q2).Value(), print);
  Emit((tag + " unit2").c_str(), PhQ::Angle<T>(q3, q4).Value(), print);
  Emit((tag + " unit2-member").c_str(), q4.Angle(q3).Value(), print);
  Emit((tag + " mixed").c_str(), PhQ::Angle<T>(q1, q4).Value(), print);
  Emit((tag + " self").c_str(), q1.Angle(q1).Value(), print);
  Emit((tag + " dir").c_str(), q1.Direction().Angle(q2.Direction()).Value(), print);
}

template <template <typename> class Q, typename U, typename T>
void Quantity2(const char* name, const U u1, const U u2, const PhQ::PlanarVector<T>& a,
               const PhQ::PlanarVector<T>& b, const bool print) {
  const std::string tag = std::string(TypeName<T>()) + " " + name;
  const Q<T> q1(a, u1);
  const Q<T> q2(b, u1);
  const Q<T> q3(a, u2);
  const Q<T> q4(b, u2);
  Emit((tag + " ctor").c_str(), PhQ::Angle<T>(q1, q2).Value(), print);
  Emit((tag + " ctor-swapped").c_str(), PhQ::Angle<T>(q2, q1).Value(), print);
  Emit((tag + " member").c_str(), q1.Angle(q2).Value(), print);
  Emit((tag + " unit2").c_str(), PhQ::Angle<T>(q3, q4).Value(), print);
  Emit((tag + " unit2-member").c_str(), q4.Angle(q3).Value(), print);
  Emit((tag + " mixed").c_str(), PhQ::Angle<T>(q1, q4).Value(), print);
  Emit((tag + " self").c_str(), q1.Angle(q1).Value(), print);
  Emit((tag + " dir").c_str(), q1.PlanarDirection().Angle(q2.PlanarDirection()).Value(), print);
}

template <typename T>
void Pair3(const PhQ::Vector<T>& a, const PhQ::Vector<T>& b, const bool print,
           const bool quantities) {
  const std::string t = TypeName<T>();
  // Kernels on plain vectors.
  Emit((t + " V-V ctor").c_str(), PhQ::Angle<T>(a, b).Value(), print);
  Emit((t + " V-V ctor-swapped").c_str(), PhQ::Angle<T>(b, a).Value(), print);
  Emit((t + " V-V member").c_str(), a.Angle(b).Value(), print);
  Emit((t + " V-V member-swapped").c_str(), b.Angle(a).Value(), print);
  Emit((t + " V-V self").c_str(), a.Angle(a).Value(), print);
  Emit((t + " V-V neg").c_str(), a.Angle(a * static_cast<T>(-1)).Value(), print);
  Emit((t + " V-V scaled").c_str(), a.Angle(a * static_cast<T>(3)).Value(), print);
  Emit((t + " V-V scaled-third").c_str(), a.Angle(a / static_cast<T>(-3)).Value(), print);
  // Directions.
  const PhQ::Direction<T> da(a);
  const PhQ::Direction<T> db(b);
  const PhQ::Direction<T> dc(a.x(), a.y(), a.z());
  Emit((t + " V-D ctor").c_str(), PhQ::Angle<T>(a, db).Value(), print);
  Emit((t + " V-D member").c_str(), a.Angle(db).Value(), print);
  Emit((t + " V-D self").c_str(), a.Angle(da).Value(), print);
  Emit((t + " V-D b-da").c_str(), b.Angle(da).Value(), print);
  Emit((t + " D-V ctor").c_str(), PhQ::Angle<T>(da, b).Value(), print);
  Emit((t + " D-V member").c_str(), da.Angle(b).Value(), print);
  Emit((t + " D-V self").c_str(), da.Angle(a).Value(), print);
  Emit((t + " D-V db-a").c_str(), db.Angle(a).Value(), print);
  Emit((t + " D-D ctor").c_str(), PhQ::Angle<T>(da, db).Value(), print);
  Emit((t + " D-D ctor-swapped").c_str(), PhQ::Angle<T>(db, da).Value(), print);
  Emit((t + " D-D member").c_str(), da.Angle(db).Value(), print);
  Emit((t + " D-D self").c_str(), da.Angle(da).Value(), print);
  Emit((t + " D-D xyz").c_str(), dc.Angle(db).Value(), print);
  // Building blocks, to detect any change there too.
  Emit((t + " V.V dot").c_str(), a.Dot(b), print);
  Emit((t + " V.D dot").c_str(), a.Dot(db), print);
  Emit((t + " D.V dot").c_str(), da.Dot(b), print);
  Emit((t + " D.D dot").c_str(), da.Dot(db), print);
  Emit((t + " V mag").c_str(), a.Magnitude(), print);
  // Angle in other units (goes through the same constructor then a conversion).
  Emit((t + " V-V degree").c_str(), PhQ::Angle<T>(a, b).Value(PhQ::Unit::Angle::Degree), print);
  if (!quantities) {
    return;
  }
  using namespace PhQ;
  Quantity3<Acceleration>("Acceleration", Unit::Acceleration::MetrePerSquareSecond,
                          Unit::Acceleration::MetrePerSquareMinute, a, b, print);
  Quantity3<VectorArea>(
      "VectorArea", Unit::Area::SquareMetre, Unit::Area::SquareMile, a, b, print);
  Quantity3<Displacement>(
      "Displacement", Unit::Length::Metre, Unit::Length::NauticalMile, a, b, print);
  Quantity3<Force>("Force", Unit::Force::Newton, Unit::Force::Kilonewton, a, b, print);
  Quantity3<HeatFlux>("HeatFlux", Unit::EnergyFlux::WattPerSquareMetre,
                      Unit::EnergyFlux::NanowattPerSquareMillimetre, a, b, print);
  Quantity3<Position>("Position", Unit::Length::Metre, Unit::Length::Mile, a, b, print);
  Quantity3<TemperatureGradient>(
      "TemperatureGradient", Unit::TemperatureGradient::KelvinPerMetre,
      Unit::TemperatureGradient::KelvinPerMillimetre, a, b, print);
  Quantity3<Traction>("Traction", Unit::Pressure::Pascal, Unit::Pressure::Kilopascal, a, b, print);
  Quantity3<Velocity>(
      "Velocity", Unit::Speed::MetrePerSecond, Unit::Speed::MetrePerMinute, a, b, print);
}

template <typename T>
void Pair2(const PhQ::PlanarVector<T>& a, const PhQ::PlanarVector<T>& b, const bool print,
           const bool quantities) {
  const std::string t = TypeName<T>();
  Emit((t + " PV-PV ctor").c_str(), PhQ::Angle<T>(a, b).Value(), print);
  Emit((t + " PV-PV ctor-swapped").c_str(), PhQ::Angle<T>(b, a).Value(), print);
  Emit((t + " PV-PV member").c_str(), a.Angle(b).Value(), print);
  Emit((t + " PV-PV member-swapped").c_str(), b.Angle(a).Value(), print);
  Emit((t + " PV-PV self").c_str(), a.Angle(a).Value(), print);
  Emit((t + " PV-PV neg").c_str(), a.Angle(a * static_cast<T>(-1)).Value(), print);
  Emit((t + " PV-PV scaled").c_str(), a.Angle(a * static_cast<T>(3)).Value(), print);
  Emit((t + " PV-PV scaled-third").c_str(), a.Angle(a / static_cast<T>(-3)).Value(), print);
  const PhQ::PlanarDirection<T> da(a);
  const PhQ::PlanarDirection<T> db(b);
  const PhQ::PlanarDirection<T> dc(a.x(), a.y());
  Emit((t + " PV-PD ctor").c_str(), PhQ::Angle<T>(a, db).Value(), print);
  Emit((t + " PV-PD member").c_str(), a.Angle(db).Value(), print);
  Emit((t + " PV-PD self").c_str(), a.Angle(da).Value(), print);
  Emit((t + " PV-PD b-da").c_str(), b.Angle(da).Value(), print);
  Emit((t + " PD-PV ctor").c_str(), PhQ::Angle<T>(da, b).Value(), print);
  Emit((t + " PD-PV member").c_str(), da.Angle(b).Value(), print);
  Emit((t + " PD-PV self").c_str(), da.Angle(a).Value(), print);
  Emit((t + " PD-PV db-a").c_str(), db.Angle(a).Value(), print);
  Emit((t + " PD-PD ctor").c_str(), PhQ::Angle<T>(da, db).Value(), print);
  Emit((t + " PD-PD ctor-swapped").c_str(), PhQ::Angle<T>(db, da).Value(), print);
  Emit((t + " PD-PD member").c_str(), da.Angle(db).Value(), print);
  Emit((t + " PD-PD self").c_str(), da.Angle(da).Value(), print);
  Emit((t + " PD-PD xy").c_str(), dc.Angle(db).Value(), print);
  Emit((t + " PV.PV dot").c_str(), a.Dot(b), print);
  Emit((t + " PV.PD dot").c_str(), a.Dot(db), print);
  Emit((t + " PD.PV dot").c_str(), da.Dot(b), print);
  Emit((t + " PD.PD dot").c_str(), da.Dot(db), print);
  Emit((t + " PV mag").c_str(), a.Magnitude(), print);
  Emit((t + " PV-PV degree").c_str(), PhQ::Angle<T>(a, b).Value(PhQ::Unit::Angle::Degree), print);
  if (!quantities) {
    return;
  }
  using namespace PhQ;
  Quantity2<PlanarAcceleration>("PlanarAcceleration", Unit::Acceleration::MetrePerSquareSecond,
                                Unit::Acceleration::MetrePerSquareMinute, a, b, print);
  Quantity2<PlanarDisplacement>(
      "PlanarDisplacement", Unit::Length::Metre, Unit::Length::NauticalMile, a, b, print);
  Quantity2<PlanarForce>(
      "PlanarForce", Unit::Force::Newton, Unit::Force::Kilonewton, a, b, print);
  Quantity2<PlanarHeatFlux>("PlanarHeatFlux", Unit::EnergyFlux::WattPerSquareMetre,
                            Unit::EnergyFlux::NanowattPerSquareMillimetre, a, b, print);
  Quantity2<PlanarPosition>(
      "PlanarPosition", Unit::Length::Metre, Unit::Length::Mile, a, b, print);
  Quantity2<PlanarTemperatureGradient>(
      "PlanarTemperatureGradient", Unit::TemperatureGradient::KelvinPerMetre,
      Unit::TemperatureGradient::KelvinPerMillimetre, a, b, print);
  Quantity2<PlanarTraction>(
      "PlanarTraction", Unit::Pressure::Pascal, Unit::Pressure::Kilopascal, a, b, print);
  Quantity2<PlanarVelocity>(
      "PlanarVelocity", Unit::Speed::MetrePerSecond, Unit::Speed::MetrePerMinute, a, b, print);
}

template <typename T>
void ArcCosineSweep() {
  const std::string t = std::string(TypeName<T>()) + " ArcCosine";
  const T one = static_cast<T>(1);
  const T eps = std::numeric_limits<T>::epsilon();
  const T inf = std::numeric_limits<T>::infinity();
  const T nan = std::numeric_limits<T>::quiet_NaN();
  const std::vector<T> inputs = {static_cast<T>(0), -static_cast<T>(0), one, -one, one + eps,
      -one - eps, one - eps / 2, -one + eps / 2, one + 4 * eps, -one - 4 * eps,
      std::nextafter(one, static_cast<T>(2)), std::nextafter(-one, static_cast<T>(-2)),
      std::nextafter(one, static_cast<T>(0)), std::nextafter(-one, static_cast<T>(0)),
      static_cast<T>(0.5), static_cast<T>(-0.5), static_cast<T>(2), static_cast<T>(-2), inf, -inf,
      nan, -nan, std::numeric_limits<T>::min(), -std::numeric_limits<T>::min(),
      std::numeric_limits<T>::denorm_min(), std::numeric_limits<T>::max(),
      std::numeric_limits<T>::lowest()};
  for (const T input : inputs) {
    const T result = PhQ::Internal::ArcCosine(input);
    Emit(t.c_str(), result, true);
    // Also record the sign bit (distinguishes +0 from -0 and the NaN sign).
    Emit((t + " signbit").c_str(), static_cast<T>(std::signbit(result) ? 1 : 0), true);
  }
  std::mt19937_64 rng(12345);
  std::uniform_real_distribution<double> uniform(-1.25, 1.25);
  for (int i = 0; i < 20000; ++i) {
    Emit(t.c_str(), PhQ::Internal::ArcCosine(static_cast<T>(uniform(rng))), false);
  }
}

template <typename T>
void Run() {
  const T zero = static_cast<T>(0);
  const T tiny = std::numeric_limits<T>::min();
  const T denorm = std::numeric_limits<T>::denorm_min();
  const T huge = std::sqrt(std::numeric_limits<T>::max()) / static_cast<T>(4);
  const T over = std::numeric_limits<T>::max() / static_cast<T>(2);
  const T inf = std::numeric_limits<T>::infinity();
  const T nan = std::numeric_limits<T>::quiet_NaN();
  const std::vector<T> specials = {zero, -zero, static_cast<T>(1), static_cast<T>(-1),
      static_cast<T>(0.1), static_cast<T>(-3), static_cast<T>(1e-20), tiny, -tiny, denorm, huge,
      -huge, over, inf, nan};

  ArcCosineSweep<T>();

  // Edge-case grid, printed in full (includes zero, non-finite, underflow and overflow vectors:
  // not covered by the property but the refactor must not change them either).
  std::vector<PhQ::Vector<T>> edge3;
  std::vector<PhQ::PlanarVector<T>> edge2;
  for (std::size_t i = 0; i < specials.size(); ++i) {
    for (std::size_t j = 0; j < specials.size(); j += 2) {
      edge2.emplace_back(specials[i], specials[(i + j) % specials.size()]);
      edge3.emplace_back(specials[i], specials[(i + j) % specials.size()],
                         specials[(i + 2 * j + 1) % specials.size()]);
    }
  }
  for (std::size_t i = 0; i < edge3.size(); ++i) {
    for (std::size_t j = 0; j < edge3.size(); j += 7) {
      Pair3<T>(edge3[i], edge3[(i + j) % edge3.size()], true, (i % 5 == 0) && (j % 3 == 0));
    }
  }
  for (std::size_t i = 0; i < edge2.size(); ++i) {
    for (std::size_t j = 0; j < edge2.size(); j += 7) {
      Pair2<T>(edge2[i], edge2[(i + j) % edge2.size()], true, (i % 5 == 0) && (j % 3 == 0));
    }
  }

  // Random pairs over many scales, with emphasis on parallel / antiparallel and nearly so.
  std::mt19937_64 rng(20240611);
  std::uniform_real_distribution<double> uniform(-1.0, 1.0);
  std::uniform_int_distribution<int> exponent(-30, 30);
  std::uniform_int_distribution<int> kind(0, 5);
  for (int n = 0; n < 6000; ++n) {
    const T s1 = static_cast<T>(std::ldexp(1.0, exponent(rng)));
    const T s2 = static_cast<T>(std::ldexp(1.0, exponent(rng)));
    const PhQ::Vector<T> a(static_cast<T>(uniform(rng)) * s1, static_cast<T>(uniform(rng)) * s1,
                           static_cast<T>(uniform(rng)) * s1);
    PhQ::Vector<T> b(static_cast<T>(uniform(rng)) * s2, static_cast<T>(uniform(rng)) * s2,
                     static_cast<T>(uniform(rng)) * s2);
    const T k = static_cast<T>(uniform(rng) * 5.0 + 5.5);
    switch (kind(rng)) {
      case 0:
        b = a * k;
        break;
      case 1:
        b = a * (-k);
        break;
      case 2:
        b = a * k + b * (std::numeric_limits<T>::epsilon() * static_cast<T>(8) * s1 / s2);
        break;
      case 3:
        b = a * (-k) + b * (std::numeric_limits<T>::epsilon() * static_cast<T>(8) * s1 / s2);
        break;
      default:
        break;
    }
    const bool quantities = (n % 4 == 0);
    const bool print = (n % 200 == 0);
    Pair3<T>(a, b, print, quantities);
    Pair2<T>(PhQ::PlanarVector<T>(a.x(), a.y()), PhQ::PlanarVector<T>(b.x(), b.y()), print,
             quantities);
  }
}

}  // namespace

int main() {
  Run<float>();
  std::printf("after float: count=%llu nan=%llu digest=%016llx\n",
              static_cast<unsigned long long>(count), static_cast<unsigned long long>(nan_count),
              static_cast<unsigned long long>(digest));
  Run<double>();
  std::printf("after double: count=%llu nan=%llu digest=%016llx\n",
              static_cast<unsigned long long>(count), static_cast<unsigned long long>(nan_count),
              static_cast<unsigned long long>(digest));
  Run<long double>();
  std::printf("after long double: count=%llu nan=%llu digest=%016llx\n",
              static_cast<unsigned long long>(count), static_cast<unsigned long long>(nan_count),
              static_cast<unsigned long long>(digest));
  return 0;
}
