// Differential program for the C15 refactor: prints numbers, vectors, planar vectors and quantities
// built on them in every textual form.
#include <PhQ/Base.hpp>
#include <PhQ/Direction.hpp>
#include <PhQ/Force.hpp>
#include <PhQ/Length.hpp>
#include <PhQ/PlanarDirection.hpp>
#include <PhQ/PlanarForce.hpp>
#include <PhQ/PlanarPosition.hpp>
#include <PhQ/PlanarVector.hpp>
#include <PhQ/Position.hpp>
#include <PhQ/Vector.hpp>
#include <PhQ/Velocity.hpp>

#include <cmath>
#include <cstdint>
#include <cstring>
#include <iostream>
#include <limits>
#include <random>
#include <sstream>
#include <string>
#include <vector>

namespace {

std::uint64_t digest = 1469598103934665603ULL;
std::uint64_t count = 0;

void Absorb(const std::string& text) {
  for (const char character : text) {
    digest ^= static_cast<unsigned char>(character);
    digest *= 1099511628211ULL;
  }
  digest ^= 0xffU;
  digest *= 1099511628211ULL;
  ++count;
}

template <typename T>
const char* Name();
template <>
const char* Name<float>() {
  return "float";
}
template <>
const char* Name<double>() {
  return "double";
}
template <>
const char* Name<long double>() {
  return "long double";
}

template <typename T>
std::vector<T> EdgeValues() {
  using L = std::numeric_limits<T>;
  std::vector<T> values{static_cast<T>(0.0), -static_cast<T>(0.0), L::min(), -L::min(), L::denorm_min(),
                        -L::denorm_min(), L::max(), L::lowest(), L::epsilon(), L::infinity(),
                        -L::infinity(), L::quiet_NaN(), static_cast<T>(1.0), static_cast<T>(-1.0),
                        static_cast<T>(1.0) / static_cast<T>(3.0), static_cast<T>(-2.0) / static_cast<T>(3.0),
                        static_cast<T>(123456.789L), static_cast<T>(-0.000123456789L)};
  // Neighbourhoods of every notation boundary, approached both from the decimal literal in the
  // numeric type and from the double literal that the library compares against.
  const long double boundaries[] = {0.001L, 0.01L, 0.1L, 1.0L, 10.0L, 100.0L, 1000.0L, 10000.0L};
  const double double_boundaries[] = {0.001, 0.01, 0.1, 1.0, 10.0, 100.0, 1000.0, 10000.0};
  for (int index = 0; index < 8; ++index) {
    for (const T start : {static_cast<T>(boundaries[index]), static_cast<T>(double_boundaries[index])}) {
      T up = start;
      T down = start;
      for (int step = 0; step < 6; ++step) {
        values.push_back(up);
        values.push_back(-up);
        values.push_back(down);
        values.push_back(-down);
        up = std::nextafter(up, L::infinity());
        down = std::nextafter(down, -L::infinity());
      }
    }
  }
  for (int exponent = -60; exponent <= 60; ++exponent) {
    values.push_back(static_cast<T>(std::pow(10.0L, exponent) * 1.2345678901234567890123L));
    values.push_back(static_cast<T>(-std::pow(10.0L, exponent) * 9.9999999999999999999999L));
    values.push_back(static_cast<T>(std::pow(10.0L, exponent)));
  }
  return values;
}

template <typename T>
T RandomValue(std::mt19937_64& generator) {
  // Stratified over magnitudes: a random mantissa times a random power of ten or of two.
  std::uniform_real_distribution<long double> mantissa(-10.0L, 10.0L);
  std::uniform_int_distribution<int> decimal_exponent(-12, 12);
  std::uniform_int_distribution<int> binary_exponent(
      std::numeric_limits<T>::min_exponent - 5, std::numeric_limits<T>::max_exponent - 4);
  std::uniform_int_distribution<int> kind(0, 3);
  const long double m = mantissa(generator);
  switch (kind(generator)) {
    case 0:
      return static_cast<T>(m);
    case 1:
      return static_cast<T>(m * std::pow(10.0L, decimal_exponent(generator)));
    case 2:
      return static_cast<T>(std::ldexp(m, binary_exponent(generator)));
    default:
      return static_cast<T>(m * std::pow(10.0L, decimal_exponent(generator) / 3));
  }
}

template <typename T>
void ShowNumber(const T value, const bool print) {
  const std::string text = PhQ::Print(value);
  Absorb(text);
  if (print) {
    std::cout << "  " << std::hexfloat << static_cast<long double>(value) << std::defaultfloat << " -> "
              << text << "\n";
  }
}

template <typename Object>
void ShowObject(const char* label, const Object& object, const bool print) {
  std::ostringstream stream;
  stream << object;
  const std::string forms[] = {object.Print(), object.JSON(), object.XML(), object.YAML(), stream.str()};
  for (const std::string& form : forms) {
    Absorb(form);
  }
  if (print) {
    std::cout << "  " << label << ": " << forms[0] << " | " << forms[1] << " | " << forms[2] << " | "
              << forms[3] << " | " << forms[4] << "\n";
  }
}

template <typename Object, typename Unit>
void ShowInUnit(const char* label, const Object& object, const Unit unit, const bool print) {
  const std::string forms[] = {object.Print(unit), object.JSON(unit), object.XML(unit), object.YAML(unit)};
  for (const std::string& form : forms) {
    Absorb(form);
  }
  if (print) {
    std::cout << "  " << label << "[" << static_cast<int>(unit) << "]: " << forms[0] << " | " << forms[1]
              << " | " << forms[2] << " | " << forms[3] << "\n";
  }
}

template <typename T>
void ShowComposites(const T a, const T b, const T c, const bool print) {
  const PhQ::Vector<T> vector{a, b, c};
  const PhQ::PlanarVector<T> planar{b, c};
  ShowObject("Vector", vector, print);
  ShowObject("PlanarVector", planar, print);
  if (std::isfinite(a) && std::isfinite(b) && std::isfinite(c)) {
    ShowObject("Direction", PhQ::Direction<T>{a, b, c}, print);
    ShowObject("PlanarDirection", PhQ::PlanarDirection<T>{a, b}, print);
  }
  const PhQ::Position<T> position{vector, PhQ::Unit::Length::Metre};
  const PhQ::Force<T> force{vector, PhQ::Unit::Force::Newton};
  const PhQ::Velocity<T> velocity{vector, PhQ::Unit::Speed::MetrePerSecond};
  const PhQ::PlanarPosition<T> planar_position{planar, PhQ::Unit::Length::Foot};
  const PhQ::PlanarForce<T> planar_force{planar, PhQ::Unit::Force::Pound};
  ShowObject("Position", position, print);
  ShowObject("Force", force, print);
  ShowObject("Velocity", velocity, print);
  ShowObject("PlanarPosition", planar_position, print);
  ShowObject("PlanarForce", planar_force, print);
  for (int unit = 0; unit <= static_cast<int>(PhQ::Unit::Length::Microinch); ++unit) {
    ShowInUnit("Position", position, static_cast<PhQ::Unit::Length>(unit), print);
    ShowInUnit("PlanarPosition", planar_position, static_cast<PhQ::Unit::Length>(unit), print);
  }
  for (int unit = 0; unit <= static_cast<int>(PhQ::Unit::Force::Pound); ++unit) {
    ShowInUnit("Force", force, static_cast<PhQ::Unit::Force>(unit), print);
    ShowInUnit("PlanarForce", planar_force, static_cast<PhQ::Unit::Force>(unit), print);
  }
  for (int unit = 0; unit <= static_cast<int>(PhQ::Unit::Speed::MicroinchPerHour); unit += 7) {
    ShowInUnit("Velocity", velocity, static_cast<PhQ::Unit::Speed>(unit), print);
  }
}

template <typename T>
void Run() {
  std::cout << "== " << Name<T>() << " ==\n";
  const std::vector<T> edges = EdgeValues<T>();
  std::cout << "edge numbers: " << edges.size() << "\n";
  for (const T value : edges) {
    ShowNumber(value, true);
  }
  // Composite forms on rotating triples of the edge values.
  for (std::size_t index = 0; index + 2 < edges.size(); ++index) {
    ShowComposites(edges[index], edges[(index * 7 + 3) % edges.size()],
                   edges[(index * 13 + 5) % edges.size()], index % 9 == 0);
  }
  std::mt19937_64 generator(20260926U);
  for (int trial = 0; trial < 200000; ++trial) {
    ShowNumber(RandomValue<T>(generator), trial % 2000 == 0);
  }
  for (int trial = 0; trial < 3000; ++trial) {
    const T a = RandomValue<T>(generator);
    const T b = RandomValue<T>(generator);
    const T c = RandomValue<T>(generator);
    ShowComposites(a, b, c, trial % 300 == 0);
  }
  // Random bit patterns for float and double (all exponents, subnormals, NaN payloads included).
  if (sizeof(T) <= 8) {
    for (int trial = 0; trial < 300000; ++trial) {
      const std::uint64_t bits = generator();
      T value;
      std::memcpy(&value, &bits, sizeof(T));
      ShowNumber(value, trial % 5000 == 0);
    }
  }
  std::cout << "digest after " << Name<T>() << ": " << std::hex << digest << std::dec << " over " << count
            << " strings\n";
}

}  // namespace

int main() {
  Run<float>();
  Run<double>();
  Run<long double>();
  return 0;
}
