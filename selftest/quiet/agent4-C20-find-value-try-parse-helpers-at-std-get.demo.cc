// Differential program for the C20t refactor: parsers, abbreviation and unit-system lookups,
// element accesses of PlanarVector and Vector.
#include <PhQ/Base.hpp>
#include <PhQ/ConstitutiveModel.hpp>
#include <PhQ/PlanarVector.hpp>
#include <PhQ/Unit/Acceleration.hpp>
#include <PhQ/Unit/Angle.hpp>
#include <PhQ/Unit/AngularAcceleration.hpp>
#include <PhQ/Unit/AngularSpeed.hpp>
#include <PhQ/Unit/Area.hpp>
#include <PhQ/Unit/Diffusivity.hpp>
#include <PhQ/Unit/DynamicViscosity.hpp>
#include <PhQ/Unit/ElectricCharge.hpp>
#include <PhQ/Unit/ElectricCurrent.hpp>
#include <PhQ/Unit/Energy.hpp>
#include <PhQ/Unit/EnergyFlux.hpp>
#include <PhQ/Unit/Force.hpp>
#include <PhQ/Unit/Frequency.hpp>
#include <PhQ/Unit/HeatCapacity.hpp>
#include <PhQ/Unit/Length.hpp>
#include <PhQ/Unit/Mass.hpp>
#include <PhQ/Unit/MassDensity.hpp>
#include <PhQ/Unit/MassRate.hpp>
#include <PhQ/Unit/Memory.hpp>
#include <PhQ/Unit/MemoryRate.hpp>
#include <PhQ/Unit/Power.hpp>
#include <PhQ/Unit/Pressure.hpp>
#include <PhQ/Unit/ReciprocalTemperature.hpp>
#include <PhQ/Unit/SolidAngle.hpp>
#include <PhQ/Unit/SpecificEnergy.hpp>
#include <PhQ/Unit/SpecificHeatCapacity.hpp>
#include <PhQ/Unit/SpecificPower.hpp>
#include <PhQ/Unit/Speed.hpp>
#include <PhQ/Unit/SubstanceAmount.hpp>
#include <PhQ/Unit/Temperature.hpp>
#include <PhQ/Unit/TemperatureDifference.hpp>
#include <PhQ/Unit/TemperatureGradient.hpp>
#include <PhQ/Unit/ThermalConductivity.hpp>
#include <PhQ/Unit/Time.hpp>
#include <PhQ/Unit/TransportEnergyConsumption.hpp>
#include <PhQ/Unit/Volume.hpp>
#include <PhQ/Unit/VolumeRate.hpp>
#include <PhQ/UnitSystem.hpp>
#include <PhQ/Vector.hpp>

#include <cstdint>
#include <cstdio>
#include <cstring>
#include <functional>
#include <iostream>
#include <limits>
#include <random>
#include <sstream>
#include <string>
#include <vector>

namespace {

// FNV-1a digest of everything that is not printed verbatim.
struct Digest {
  std::uint64_t h = 1469598103934665603ULL;
  std::uint64_t count = 0;
  void bytes(const void* p, std::size_t n) {
    const unsigned char* c = static_cast<const unsigned char*>(p);
    for (std::size_t i = 0; i < n; ++i) {
      h ^= c[i];
      h *= 1099511628211ULL;
    }
    ++count;
  }
  void str(const std::string& s) {
    bytes(s.data(), s.size());
    const unsigned char sep = 0xFF;
    bytes(&sep, 1);
  }
  void u64(std::uint64_t v) {
    bytes(&v, sizeof v);
  }
};

template <typename T>
std::string Hex(const T v) {
  char buf[128];
  if (v != v) {
    return std::signbit(v) ? "-nan" : "nan";
  }
  std::snprintf(buf, sizeof buf, "%La", static_cast<long double>(v));
  return buf;
}

template <typename T>
const char* TypeName();
template <>
const char* TypeName<float>() {
  return "float";
}
template <>
const char* TypeName<double>() {
  return "double";
}
template <>
const char* TypeName<long double>() {
  return "long double";
}

std::string Escape(const std::string& s) {
  std::string out;
  char buf[8];
  for (unsigned char c : s) {
    if (c >= 0x20 && c < 0x7F && c != '\\') {
      out += static_cast<char>(c);
    } else {
      std::snprintf(buf, sizeof buf, "\\x%02X", c);
      out += buf;
    }
  }
  return out;
}

// ---------------------------------------------------------------- ParseNumber

template <typename T>
std::string ParseNumberResult(const std::string& s) {
  try {
    const std::optional<T> r = PhQ::ParseNumber<T>(s);
    if (!r.has_value()) {
      return "nullopt";
    }
    return Hex(r.value());
  } catch (const std::exception& e) {
    return std::string("THROW:") + e.what();
  } catch (...) {
    return "THROW:?";
  }
}

std::vector<std::string> HandPickedNumberStrings() {
  std::vector<std::string> v{
    "", " ", "0", "-0", "+0", "0.0", "-0.0", "1", "-1", "+1", "1.5", "-1.5", ".5", "5.", ".", "-", "+",
    "e", "e5", "1e", "1e+", "1e5", "1E5", "1e-5", "1e+5", "1e400", "-1e400", "1e-400", "-1e-400",
    "1e39", "1e-39", "1e-46", "3.4028235e38", "3.4028236e38", "3.5e38", "1.17549435e-38",
    "1.4e-45", "0.7e-45", "1.7976931348623157e308", "1.7976931348623159e308", "1.8e308",
    "2.2250738585072014e-308", "4.9406564584124654e-324", "2.4e-324", "1.18973149535723176502e4932",
    "1.2e4932", "3.6451995318824746025e-4951", "1e-4951", "1e-4966", "1e5000", "1e-5000",
    "inf", "-inf", "+inf", "INF", "Inf", "infinity", "-infinity", "INFINITY", "infinit", "in",
    "nan", "-nan", "NaN", "NAN", "nan()", "nan(123)", "nan(abc)", "nan(", "na",
    "0x", "0x1", "0x1p3", "0x1.8p1", "0X1P-2", "-0x1.fffffep127", "0x1p-1074", "0x1p-1075",
    "0x1p1024", "0x.p1", "0xg", "1 ", " 1", "\t1", "\n1", "\v1", "\f1", "\r1", "1\n", " 1 2",
    "1,5", "1.5.5", "1..5", "--1", "+-1", "-+1", "1-", "1+1", "1e5e5", "1.5f", "1.5L", "1d5",
    "abc", "a1", "1a", "0.1", "0.2", "0.3", "0.1e1", "123456789", "1234567890123456789012345",
    "0.000000000000000000000000000000000000000000001", "00000001", "000.000", "-000.000",
    "3.14159265358979323846264338327950288", "2.718281828459045235360287471352662",
    "9007199254740993", "16777217", "18446744073709551617", "0.30000000000000004",
    "1.0000000000000002", "1.00000011920928955078125", "4.35", "1e23", "8.41e21",
    "\xC2\xB5", "1\xC2\xB5", "\xFF", "\x80\x81", "1\xFF", "\xE2\x88\x92" "1", "\xEF\xBC\x91",
    "１", "٣", "1·5", "−1", "1e−5", "°", "∞",
  };
  // Embedded NUL and other control bytes.
  v.push_back(std::string("\0", 1));
  v.push_back(std::string("1\0", 2));
  v.push_back(std::string("1\0" "2", 3));
  v.push_back(std::string("\0" "1", 2));
  v.push_back(std::string("1.5\0e5", 6));
  v.push_back(std::string("in\0f", 4));
  v.push_back(std::string(" \0 1", 4));
  v.push_back(std::string(1000, '9'));
  v.push_back(std::string(5000, '9'));
  v.push_back("0." + std::string(1000, '0') + "1");
  v.push_back("0." + std::string(5000, '0') + "1");
  v.push_back("1" + std::string(400, '0') + "e-400");
  v.push_back(std::string(200, ' ') + "7.25");
  v.push_back(std::string(200, '-') + "7.25");
  return v;
}

void TestParseNumber(Digest& d) {
  const std::vector<std::string> picked = HandPickedNumberStrings();
  std::cout << "== ParseNumber hand-picked (" << picked.size() << ")\n";
  for (const std::string& s : picked) {
    const std::string shown = s.size() > 48 ? Escape(s.substr(0, 20)) + "...[" + std::to_string(s.size()) + "]" : Escape(s);
    std::cout << "\"" << shown << "\" -> " << ParseNumberResult<float>(s) << " | "
              << ParseNumberResult<double>(s) << " | " << ParseNumberResult<long double>(s) << "\n";
  }

  std::mt19937_64 rng(20200920);
  // Arbitrary byte strings.
  for (int i = 0; i < 60000; ++i) {
    const std::size_t n = rng() % 12;
    std::string s(n, '\0');
    for (char& c : s) {
      c = static_cast<char>(rng() & 0xFF);
    }
    d.str(ParseNumberResult<float>(s));
    d.str(ParseNumberResult<double>(s));
    d.str(ParseNumberResult<long double>(s));
  }
  std::cout << "random bytes digest " << std::hex << d.h << std::dec << " n=" << d.count << "\n";
  // Strings over a numeric-looking alphabet.
  const std::string alphabet = "0123456789+-.eExXpPinfaNIF \t";
  for (int i = 0; i < 150000; ++i) {
    const std::size_t n = 1 + rng() % 14;
    std::string s(n, '\0');
    for (char& c : s) {
      c = alphabet[rng() % alphabet.size()];
    }
    d.str(ParseNumberResult<float>(s));
    d.str(ParseNumberResult<double>(s));
    d.str(ParseNumberResult<long double>(s));
  }
  std::cout << "numeric alphabet digest " << std::hex << d.h << std::dec << " n=" << d.count << "\n";
  // Well-formed decimal numbers over a huge exponent range.
  for (int i = 0; i < 100000; ++i) {
    std::ostringstream o;
    if (rng() & 1) {
      o << '-';
    }
    o << (rng() % 10) << '.' << (rng() % 1000000000ULL) << (rng() % 1000000000ULL) << 'e'
      << (static_cast<long>(rng() % 10200) - 5100);
    const std::string s = o.str();
    d.str(ParseNumberResult<float>(s));
    d.str(ParseNumberResult<double>(s));
    d.str(ParseNumberResult<long double>(s));
  }
  std::cout << "well-formed digest " << std::hex << d.h << std::dec << " n=" << d.count << "\n";
  // Round trip through Print.
  std::uniform_real_distribution<double> mant(-10.0, 10.0);
  for (int i = 0; i < 30000; ++i) {
    const double m = mant(rng);
    const int e = static_cast<int>(rng() % 80) - 40;
    const double x = m * std::pow(10.0, e);
    d.str(ParseNumberResult<float>(PhQ::Print(static_cast<float>(x))));
    d.str(ParseNumberResult<double>(PhQ::Print(x)));
    d.str(ParseNumberResult<long double>(PhQ::Print(static_cast<long double>(x) * 1.0000000000000000001L)));
  }
  std::cout << "round-trip digest " << std::hex << d.h << std::dec << " n=" << d.count << "\n";
}

// ------------------------------------------------- enumerations and unit systems

template <typename E>
std::string ParseEnumResult(const std::string_view s) {
  try {
    const std::optional<E> r = PhQ::ParseEnumeration<E>(s);
    if (!r.has_value()) {
      return "nullopt";
    }
    return std::to_string(static_cast<int>(r.value()));
  } catch (const std::exception& e) {
    return std::string("THROW:") + e.what();
  } catch (...) {
    return "THROW:?";
  }
}

const PhQ::UnitSystem kSystems[4] = {
  PhQ::UnitSystem::MetreKilogramSecondKelvin, PhQ::UnitSystem::MillimetreGramSecondKelvin,
  PhQ::UnitSystem::FootPoundSecondRankine, PhQ::UnitSystem::InchPoundSecondRankine};

template <typename E>
void TestEnumeration(const char* name, Digest& d, std::mt19937_64& rng, const bool verbose) {
  std::ostringstream line;
  line << "== " << name << ":";
  // Abbreviation of every enumerator (all enumerators are keys of the table), also through <<.
  for (const auto& entry : PhQ::Internal::Abbreviations<E>) {
    const E value = entry.first;
    const std::string_view abbreviation = PhQ::Abbreviation(value);
    line << " " << static_cast<int>(value) << "=" << abbreviation;
    // The abbreviation must parse back.
    line << "/" << ParseEnumResult<E>(abbreviation);
  }
  if (verbose) {
    std::cout << line.str() << "\n";
  } else {
    d.str(line.str());
  }
  // Every spelling, and mutations of every spelling.
  Digest local;
  std::vector<std::string> spellings;
  for (const auto& entry : PhQ::Internal::Spellings<E>) {
    spellings.emplace_back(entry.first);
  }
  std::sort(spellings.begin(), spellings.end());
  for (const std::string& s : spellings) {
    local.str(s);
    local.str(ParseEnumResult<E>(s));
    local.str(ParseEnumResult<E>(s + " "));
    local.str(ParseEnumResult<E>(" " + s));
    local.str(ParseEnumResult<E>(s + std::string(1, '\0')));
    local.str(ParseEnumResult<E>(PhQ::Uppercase(s)));
    local.str(ParseEnumResult<E>(PhQ::Lowercase(s)));
    local.str(ParseEnumResult<E>(PhQ::SnakeCase(s)));
    if (!s.empty()) {
      local.str(ParseEnumResult<E>(s.substr(0, s.size() - 1)));
      local.str(ParseEnumResult<E>(s.substr(1)));
      local.str(ParseEnumResult<E>(std::string_view(s.data(), s.size() - 1)));
      std::string t = s;
      t[rng() % t.size()] = static_cast<char>(rng() & 0xFF);
      local.str(ParseEnumResult<E>(t));
    }
  }
  local.str(ParseEnumResult<E>(""));
  local.str(ParseEnumResult<E>(std::string_view()));
  local.str(ParseEnumResult<E>(std::string("\0", 1)));
  for (int i = 0; i < 2000; ++i) {
    const std::size_t n = rng() % 6;
    std::string s(n, '\0');
    for (char& c : s) {
      c = static_cast<char>(rng() & 0xFF);
    }
    local.str(ParseEnumResult<E>(s));
  }
  const std::string alphabet = "abcdfgiklmnorstKRNJWP ·-*/^2305°μ";
  for (int i = 0; i < 4000; ++i) {
    const std::size_t n = 1 + rng() % 5;
    std::string s;
    for (std::size_t k = 0; k < n; ++k) {
      s += alphabet[rng() % alphabet.size()];
    }
    local.str(ParseEnumResult<E>(s));
  }
  std::cout << "   " << name << " spellings=" << spellings.size() << " parse digest " << std::hex
            << local.h << std::dec << " n=" << local.count << "\n";
}

template <typename U>
void TestUnit(const char* name, Digest& d, std::mt19937_64& rng) {
  TestEnumeration<U>(name, d, rng, true);
  std::ostringstream line;
  line << "   " << name << " consistent:";
  for (const PhQ::UnitSystem system : kSystems) {
    const U unit = PhQ::ConsistentUnit<U>(system);
    line << " " << PhQ::Abbreviation(system) << "->" << static_cast<int>(unit) << "("
         << PhQ::Abbreviation(unit) << ")";
    const std::optional<PhQ::UnitSystem> back = PhQ::RelatedUnitSystem(unit);
    line << (back.has_value() ? std::to_string(static_cast<int>(back.value())) : std::string("none"));
  }
  line << " related:";
  for (const auto& entry : PhQ::Internal::Abbreviations<U>) {
    const std::optional<PhQ::UnitSystem> system = PhQ::RelatedUnitSystem(entry.first);
    const std::optional<PhQ::UnitSystem> again = PhQ::RelatedUnitSystem<U>(entry.first);
    line << " " << static_cast<int>(entry.first) << ":";
    if (system.has_value()) {
      line << static_cast<int>(system.value()) << "[" << system.value() << "]";
    } else {
      line << "none";
    }
    if (system != again) {
      line << "MISMATCH";
    }
  }
  // Enumeration values that are not enumerators are absent from the table of unit systems.
  for (int raw = -3; raw < 0; ++raw) {
    const std::optional<PhQ::UnitSystem> system = PhQ::RelatedUnitSystem(static_cast<U>(raw));
    line << " raw" << raw << ":" << (system.has_value() ? static_cast<int>(system.value()) : -1);
  }
  for (int raw = 100; raw < 103; ++raw) {
    const std::optional<PhQ::UnitSystem> system = PhQ::RelatedUnitSystem(static_cast<U>(raw));
    line << " raw" << raw << ":" << (system.has_value() ? static_cast<int>(system.value()) : -1);
  }
  std::cout << line.str() << "\n";
}

void TestEnumerations(Digest& d) {
  std::mt19937_64 rng(777);
  TestEnumeration<PhQ::UnitSystem>("UnitSystem", d, rng, true);
  TestEnumeration<PhQ::ConstitutiveModel::Type>("ConstitutiveModel::Type", d, rng, true);
#define PHQ_DEMO_UNIT(U) TestUnit<PhQ::Unit::U>(#U, d, rng)
  PHQ_DEMO_UNIT(Acceleration);
  PHQ_DEMO_UNIT(Angle);
  PHQ_DEMO_UNIT(AngularAcceleration);
  PHQ_DEMO_UNIT(AngularSpeed);
  PHQ_DEMO_UNIT(Area);
  PHQ_DEMO_UNIT(Diffusivity);
  PHQ_DEMO_UNIT(DynamicViscosity);
  PHQ_DEMO_UNIT(ElectricCharge);
  PHQ_DEMO_UNIT(ElectricCurrent);
  PHQ_DEMO_UNIT(Energy);
  PHQ_DEMO_UNIT(EnergyFlux);
  PHQ_DEMO_UNIT(Force);
  PHQ_DEMO_UNIT(Frequency);
  PHQ_DEMO_UNIT(HeatCapacity);
  PHQ_DEMO_UNIT(Length);
  PHQ_DEMO_UNIT(Mass);
  PHQ_DEMO_UNIT(MassDensity);
  PHQ_DEMO_UNIT(MassRate);
  PHQ_DEMO_UNIT(Memory);
  PHQ_DEMO_UNIT(MemoryRate);
  PHQ_DEMO_UNIT(Power);
  PHQ_DEMO_UNIT(Pressure);
  PHQ_DEMO_UNIT(ReciprocalTemperature);
  PHQ_DEMO_UNIT(SolidAngle);
  PHQ_DEMO_UNIT(SpecificEnergy);
  PHQ_DEMO_UNIT(SpecificHeatCapacity);
  PHQ_DEMO_UNIT(SpecificPower);
  PHQ_DEMO_UNIT(Speed);
  PHQ_DEMO_UNIT(SubstanceAmount);
  PHQ_DEMO_UNIT(Temperature);
  PHQ_DEMO_UNIT(TemperatureDifference);
  PHQ_DEMO_UNIT(TemperatureGradient);
  PHQ_DEMO_UNIT(ThermalConductivity);
  PHQ_DEMO_UNIT(Time);
  PHQ_DEMO_UNIT(TransportEnergyConsumption);
  PHQ_DEMO_UNIT(Volume);
  PHQ_DEMO_UNIT(VolumeRate);
#undef PHQ_DEMO_UNIT
  // ConsistentUnit on a unit-system value that is not an enumerator: must still throw
  // std::out_of_range exactly as before.
  for (int raw : {-1, 4, 17, 127}) {
    try {
      const PhQ::Unit::Length unit = PhQ::ConsistentUnit<PhQ::Unit::Length>(static_cast<PhQ::UnitSystem>(raw));
      std::cout << "ConsistentUnit raw " << raw << " -> " << static_cast<int>(unit) << "\n";
    } catch (const std::out_of_range&) {
      std::cout << "ConsistentUnit raw " << raw << " -> out_of_range\n";
    } catch (...) {
      std::cout << "ConsistentUnit raw " << raw << " -> other exception\n";
    }
  }
}

// ------------------------------------------------------------- value classes

template <typename T>
std::vector<T> EdgeValues() {
  using L = std::numeric_limits<T>;
  return {static_cast<T>(0),
          -static_cast<T>(0),
          static_cast<T>(1),
          static_cast<T>(-1),
          static_cast<T>(0.1L),
          static_cast<T>(-3.75L),
          L::min(),
          -L::min(),
          L::denorm_min(),
          -L::denorm_min(),
          L::max(),
          L::lowest(),
          L::epsilon(),
          static_cast<T>(1) + L::epsilon(),
          static_cast<T>(1e-30L),
          static_cast<T>(-1e30L),
          static_cast<T>(123456.789L),
          L::infinity(),
          -L::infinity()};
}

template <typename T>
void Put(Digest& d, const T v) {
  d.str(Hex(v));
}

template <typename T>
void PutPlanar(Digest& d, const PhQ::PlanarVector<T>& v) {
  Put(d, v.x());
  Put(d, v.y());
  Put(d, v.x_y()[0]);
  Put(d, v.x_y()[1]);
}

template <typename T>
void PutVector(Digest& d, const PhQ::Vector<T>& v) {
  Put(d, v.x());
  Put(d, v.y());
  Put(d, v.z());
  Put(d, v.x_y_z()[0]);
  Put(d, v.x_y_z()[1]);
  Put(d, v.x_y_z()[2]);
}

template <typename T, typename O>
void ExercisePlanar(Digest& d, const T a, const T b, const T c, const T e, const O number, const bool strings) {
  PhQ::PlanarVector<T> u{a, b};
  const PhQ::PlanarVector<T> w{std::array<T, 2>{c, e}};
  PutPlanar(d, u);
  PutPlanar(d, w);
  PhQ::PlanarVector<T> m = PhQ::PlanarVector<T>::Zero();
  PutPlanar(d, m);
  m.Set_x_y(a, e);
  PutPlanar(d, m);
  m.Set_x_y(std::array<T, 2>{c, b});
  PutPlanar(d, m);
  m.Set_x(e);
  PutPlanar(d, m);
  m.Set_y(a);
  PutPlanar(d, m);
  m.Mutable_x() = b;
  PutPlanar(d, m);
  m.Mutable_y() = c;
  PutPlanar(d, m);
  m.Mutable_x_y()[1] = a;
  PutPlanar(d, m);
  m = std::array<T, 2>{e, c};
  PutPlanar(d, m);
  // Converting copy constructor and converting assignment, from each numeric type.
  const PhQ::PlanarVector<O> other{static_cast<O>(c), number};
  const PhQ::PlanarVector<T> converted{other};
  PutPlanar(d, converted);
  m = other;
  PutPlanar(d, m);
  m = w;
  PutPlanar(d, m);
  // Compound assignment, including self-aliasing.
  m = u;
  m += w;
  PutPlanar(d, m);
  m -= u;
  PutPlanar(d, m);
  m += m;
  PutPlanar(d, m);
  m = w;
  m -= m;
  PutPlanar(d, m);
  m = u;
  m *= number;
  PutPlanar(d, m);
  m = u;
  m /= number;
  PutPlanar(d, m);
  PutPlanar(d, u + w);
  PutPlanar(d, u - w);
  PutPlanar(d, u * number);
  PutPlanar(d, number * u);
  PutPlanar(d, u / number);
  Put(d, u.MagnitudeSquared());
  Put(d, u.Magnitude());
  Put(d, u.Dot(w));
  PutVector(d, u.Cross(w));
  d.u64((u == w) | ((u != w) << 1) | ((u < w) << 2) | ((u > w) << 3) | ((u <= w) << 4) | ((u >= w) << 5));
  d.u64(std::hash<PhQ::PlanarVector<T>>()(u));
  const PhQ::Vector<T> lifted{u};
  PutVector(d, lifted);
  const PhQ::PlanarVector<T> projected{PhQ::Vector<T>{a, c, e}};
  PutPlanar(d, projected);
  if (strings) {
    d.str(u.Print());
    d.str(u.JSON());
    d.str(u.XML());
    d.str(u.YAML());
    std::ostringstream o;
    o << w;
    d.str(o.str());
  }
}

template <typename T, typename O>
void ExerciseVector(Digest& d, const T a, const T b, const T c, const T e, const T f, const T g, const O number, const bool strings) {
  PhQ::Vector<T> u{a, b, c};
  const PhQ::Vector<T> w{std::array<T, 3>{e, f, g}};
  PutVector(d, u);
  PutVector(d, w);
  PhQ::Vector<T> m = PhQ::Vector<T>::Zero();
  PutVector(d, m);
  m.Set_x_y_z(g, a, f);
  PutVector(d, m);
  m.Set_x_y_z(std::array<T, 3>{c, e, b});
  PutVector(d, m);
  m.Set_x(f);
  PutVector(d, m);
  m.Set_y(g);
  PutVector(d, m);
  m.Set_z(a);
  PutVector(d, m);
  m.Mutable_x() = b;
  PutVector(d, m);
  m.Mutable_y() = c;
  PutVector(d, m);
  m.Mutable_z() = e;
  PutVector(d, m);
  m.Mutable_x_y_z()[2] = a;
  PutVector(d, m);
  m = std::array<T, 3>{e, c, a};
  PutVector(d, m);
  const PhQ::Vector<O> other{static_cast<O>(c), number, static_cast<O>(f)};
  const PhQ::Vector<T> converted{other};
  PutVector(d, converted);
  m = other;
  PutVector(d, m);
  m = w;
  PutVector(d, m);
  m = u;
  m += w;
  PutVector(d, m);
  m -= u;
  PutVector(d, m);
  m += m;
  PutVector(d, m);
  m = w;
  m -= m;
  PutVector(d, m);
  m = u;
  m *= number;
  PutVector(d, m);
  m = u;
  m /= number;
  PutVector(d, m);
  PutVector(d, u + w);
  PutVector(d, u - w);
  PutVector(d, u * number);
  PutVector(d, number * u);
  PutVector(d, u / number);
  Put(d, u.MagnitudeSquared());
  Put(d, u.Magnitude());
  Put(d, u.Dot(w));
  PutVector(d, u.Cross(w));
  d.u64((u == w) | ((u != w) << 1) | ((u < w) << 2) | ((u > w) << 3) | ((u <= w) << 4) | ((u >= w) << 5));
  d.u64(std::hash<PhQ::Vector<T>>()(u));
  if (strings) {
    d.str(u.Print());
    d.str(u.JSON());
    d.str(u.XML());
    d.str(u.YAML());
    std::ostringstream o;
    o << w;
    d.str(o.str());
  }
}

template <typename T>
void TestValueClasses() {
  Digest d;
  const std::vector<T> edges = EdgeValues<T>();
  const std::size_t n = edges.size();
  // Edge cases: all pairs in the two leading slots, rotating values elsewhere.
  std::size_t k = 0;
  for (std::size_t i = 0; i < n; ++i) {
    for (std::size_t j = 0; j < n; ++j) {
      const T a = edges[i];
      const T b = edges[j];
      const T c = edges[(k + 3) % n];
      const T e = edges[(k + 7) % n];
      const T f = edges[(k * 5 + 1) % n];
      const T g = edges[(k * 11 + 2) % n];
      ++k;
      ExercisePlanar<T, float>(d, a, b, c, e, static_cast<float>(edges[(k + 2) % n]), true);
      ExercisePlanar<T, double>(d, a, b, c, e, static_cast<double>(edges[(k + 4) % n]), false);
      ExercisePlanar<T, long double>(d, a, b, c, e, static_cast<long double>(edges[(k + 6) % n]), false);
      ExerciseVector<T, float>(d, a, b, c, e, f, g, static_cast<float>(edges[(k + 2) % n]), true);
      ExerciseVector<T, double>(d, a, b, c, e, f, g, static_cast<double>(edges[(k + 4) % n]), false);
      ExerciseVector<T, long double>(d, a, b, c, e, f, g, static_cast<long double>(edges[(k + 6) % n]), false);
    }
  }
  std::cout << "== value classes <" << TypeName<T>() << "> edge digest " << std::hex << d.h << std::dec
            << " n=" << d.count << "\n";
  std::mt19937_64 rng(424242);
  std::uniform_real_distribution<long double> mant(-10.0L, 10.0L);
  auto draw = [&]() {
    const int range = std::numeric_limits<T>::max_exponent10 / 2 - 2;
    const int e = static_cast<int>(rng() % (2 * range + 1)) - range;
    return static_cast<T>(mant(rng) * std::pow(10.0L, static_cast<long double>(e)));
  };
  for (int i = 0; i < 6000; ++i) {
    const T a = draw(), b = draw(), c = draw(), e = draw(), f = draw(), g = draw();
    const bool strings = (i % 8) == 0;
    ExercisePlanar<T, float>(d, a, b, c, e, static_cast<float>(mant(rng)), strings);
    ExercisePlanar<T, double>(d, a, b, c, e, static_cast<double>(mant(rng)), false);
    ExercisePlanar<T, long double>(d, a, b, c, e, mant(rng), false);
    ExerciseVector<T, float>(d, a, b, c, e, f, g, static_cast<float>(mant(rng)), strings);
    ExerciseVector<T, double>(d, a, b, c, e, f, g, static_cast<double>(mant(rng)), false);
    ExerciseVector<T, long double>(d, a, b, c, e, f, g, mant(rng), false);
  }
  std::cout << "== value classes <" << TypeName<T>() << "> random digest " << std::hex << d.h << std::dec
            << " n=" << d.count << "\n";
  // A few results verbatim.
  PhQ::Vector<T> v{static_cast<T>(1.25L), -static_cast<T>(0), static_cast<T>(1e-7L)};
  v += PhQ::Vector<T>{static_cast<T>(0.1L), static_cast<T>(0), static_cast<T>(3)};
  std::cout << v.Print() << " " << v.JSON() << " " << Hex(v.x()) << " " << Hex(v.y()) << " " << Hex(v.z())
            << "\n";
  PhQ::PlanarVector<T> p{static_cast<T>(-2.5L), static_cast<T>(1e20L)};
  p -= PhQ::PlanarVector<T>{static_cast<T>(0.3L), static_cast<T>(7)};
  std::cout << p.Print() << " " << p.YAML() << " " << Hex(p.x()) << " " << Hex(p.y()) << "\n";
  // Constant evaluation of the accessors and of the compound assignments.
  constexpr PhQ::Vector<T> cv{static_cast<T>(1), static_cast<T>(2), static_cast<T>(3)};
  static_assert(cv.x() == static_cast<T>(1) && cv.y() == static_cast<T>(2) && cv.z() == static_cast<T>(3), "");
  constexpr PhQ::PlanarVector<T> cp{static_cast<T>(4), static_cast<T>(5)};
  static_assert(cp.x() == static_cast<T>(4) && cp.y() == static_cast<T>(5), "");
  static_assert(noexcept(cv.x()) && noexcept(cp.y()), "");
  static_assert(noexcept(std::declval<PhQ::Vector<T>&>() += cv), "");
  static_assert(noexcept(std::declval<PhQ::PlanarVector<T>&>() -= cp), "");
  static_assert(noexcept(std::declval<PhQ::Vector<T>&>().Set_x_y_z(cv.x(), cv.y(), cv.z())), "");
  static_assert(noexcept(std::declval<PhQ::PlanarVector<T>&>().Mutable_x()), "");
}

}  // namespace

int main() {
  Digest d;
  TestParseNumber(d);
  TestEnumerations(d);
  std::cout << "enumeration digest " << std::hex << d.h << std::dec << " n=" << d.count << "\n";
  TestValueClasses<float>();
  TestValueClasses<double>();
  TestValueClasses<long double>();
  return 0;
}
