// Differential program for the C07 refactor: exercises ConsistentUnit, RelatedUnitSystem and every
// run-time conversion overload for all unit types, units, unit systems and numeric types.

#include <PhQ/Unit/Acceleration.hpp>
#include <PhQ/Unit/Angle.hpp>
#include <PhQ/Unit/AngularAcceleration.hpp>
#include <PhQ/Unit/AngularSpeed.hpp>
#include <PhQ/Unit/Area.hpp>
#include <PhQ/Unit/Diffusivity.hpp>
#include <PhQ/Unit/DynamicViscosity.hpp>
#include <PhQ/Unit/ElectricCharge.hpp>
#include <PhQ/Unit/ElectricCurrent.hpp>
#include <PhQ/Unit/Energy.hpp>
#include <PhQ/Unit/EnergyFlux.hpp>
#include <PhQ/Unit/Force.hpp>
#include <PhQ/Unit/Frequency.hpp>
#include <PhQ/Unit/HeatCapacity.hpp>
#include <PhQ/Unit/Length.hpp>
#include <PhQ/Unit/Mass.hpp>
#include <PhQ/Unit/MassDensity.hpp>
#include <PhQ/Unit/MassRate.hpp>
#include <PhQ/Unit/Memory.hpp>
#include <PhQ/Unit/MemoryRate.hpp>
#include <PhQ/Unit/Power.hpp>
#include <PhQ/Unit/Pressure.hpp>
#include <PhQ/Unit/ReciprocalTemperature.hpp>
#include <PhQ/Unit/SolidAngle.hpp>
#include <PhQ/Unit/SpecificEnergy.hpp>
#include <PhQ/Unit/SpecificHeatCapacity.hpp>
#include <PhQ/Unit/SpecificPower.hpp>
#include <PhQ/Unit/Speed.hpp>
#include <PhQ/Unit/SubstanceAmount.hpp>
#include <PhQ/Unit/Temperature.hpp>
#include <PhQ/Unit/TemperatureDifference.hpp>
#include <PhQ/Unit/TemperatureGradient.hpp>
#include <PhQ/Unit/ThermalConductivity.hpp>
#include <PhQ/Unit/Time.hpp>
#include <PhQ/Unit/TransportEnergyConsumption.hpp>
#include <PhQ/Unit/Volume.hpp>
#include <PhQ/Unit/VolumeRate.hpp>
#include <array>
#include <cmath>
#include <cstdint>
#include <cstdio>
#include <cstring>
#include <limits>
#include <optional>
#include <random>
#include <stdexcept>
#include <string>
#include <vector>

namespace {

const std::array<PhQ::UnitSystem, 4> kSystems{
  PhQ::UnitSystem::MetreKilogramSecondKelvin, PhQ::UnitSystem::MillimetreGramSecondKelvin,
  PhQ::UnitSystem::FootPoundSecondRankine, PhQ::UnitSystem::InchPoundSecondRankine};

template <typename T>
struct Name;
template <>
struct Name<float> {
  static constexpr const char* value = "f";
};
template <>
struct Name<double> {
  static constexpr const char* value = "d";
};
template <>
struct Name<long double> {
  static constexpr const char* value = "ld";
};

template <typename T>
std::string Hex(const T value) {
  char buffer[128];
  if constexpr (std::is_same<T, long double>::value) {
    std::snprintf(buffer, sizeof(buffer), "%La", value);
  } else {
    std::snprintf(buffer, sizeof(buffer), "%a", static_cast<double>(value));
  }
  return buffer;
}

// FNV-1a digest over the textual hexfloat representation of values.
struct Digest {
  std::uint64_t state{1469598103934665603ULL};
  void Add(const std::string& text) {
    for (const char c : text) {
      state ^= static_cast<unsigned char>(c);
      state *= 1099511628211ULL;
    }
    state ^= 0xffU;
    state *= 1099511628211ULL;
  }
  template <typename T>
  void AddValue(const T value) {
    Add(Hex(value));
  }
};

template <typename T>
std::vector<T> Inputs() {
  using L = std::numeric_limits<T>;
  std::vector<T> values{
    static_cast<T>(0),
    -static_cast<T>(0),
    static_cast<T>(1),
    static_cast<T>(-1),
    L::denorm_min(),
    -L::denorm_min(),
    L::min(),
    L::max(),
    -L::max(),
    L::epsilon(),
    L::infinity(),
    -L::infinity(),
    L::quiet_NaN(),
    static_cast<T>(273.15L),
    static_cast<T>(-459.67L),
    static_cast<T>(0.1L),
    static_cast<T>(1.0e-30L),
    static_cast<T>(1.0e30L),
  };
  std::mt19937_64 generator(20240907ULL + sizeof(T));
  std::uniform_real_distribution<long double> mantissa(-1.0L, 1.0L);
  std::uniform_int_distribution<int> exponent(-40, 40);
  for (int i = 0; i < 14; ++i) {
    values.push_back(static_cast<T>(std::ldexp(mantissa(generator), exponent(generator))));
  }
  return values;
}

template <typename U>
std::vector<U> AllUnits() {
  std::vector<U> units;
  for (const auto& entry : PhQ::Internal::Abbreviations<U>) {
    units.push_back(entry.first);
  }
  return units;
}

template <typename U, typename T>
void Conversions(const char* type_name, const std::vector<U>& units) {
  const std::vector<T> inputs{Inputs<T>()};
  for (const U from : units) {
    for (const U to : units) {
      // Scalar overloads: printed in full.
      std::string line{type_name};
      line += " ";
      line += Name<T>::value;
      line += " ";
      line += std::string{PhQ::Abbreviation(from)};
      line += " -> ";
      line += std::string{PhQ::Abbreviation(to)};
      line += ":";
      Digest digest;
      for (const T input : inputs) {
        const T converted{PhQ::Convert<U, T>(input, from, to)};
        T in_place{input};
        PhQ::ConvertInPlace<U, T>(in_place, from, to);
        line += " " + Hex(converted);
        digest.AddValue(in_place);
      }
      // Array overloads of several sizes (including the empty array).
      {
        std::array<T, 0> empty{};
        PhQ::ConvertInPlace<U, 0, T>(empty, from, to);
        const std::array<T, 0> empty_copy{PhQ::Convert<U, 0, T>(empty, from, to)};
        digest.Add(std::to_string(empty_copy.size()));
        std::array<T, 5> five{inputs[2], inputs[13], inputs[18], inputs[19], inputs[20]};
        const std::array<T, 5> five_copy{PhQ::Convert<U, 5, T>(five, from, to)};
        PhQ::ConvertInPlace<U, 5, T>(five, from, to);
        for (std::size_t i = 0; i < 5; ++i) {
          digest.AddValue(five[i]);
          digest.AddValue(five_copy[i]);
        }
      }
      // std::vector overloads (including the empty vector).
      {
        std::vector<T> empty;
        PhQ::ConvertInPlace<U, T>(empty, from, to);
        digest.Add(std::to_string(PhQ::Convert<U, T>(empty, from, to).size()));
        std::vector<T> all{inputs};
        const std::vector<T> all_copy{PhQ::Convert<U, T>(all, from, to)};
        PhQ::ConvertInPlace<U, T>(all, from, to);
        for (std::size_t i = 0; i < all.size(); ++i) {
          digest.AddValue(all[i]);
          digest.AddValue(all_copy[i]);
        }
      }
      // Geometric shapes.
      {
        PhQ::PlanarVector<T> planar{inputs[18], inputs[19]};
        const PhQ::PlanarVector<T> planar_copy{PhQ::Convert<U, T>(planar, from, to)};
        PhQ::ConvertInPlace<U, T>(planar, from, to);
        for (const T v : planar.x_y()) digest.AddValue(v);
        for (const T v : planar_copy.x_y()) digest.AddValue(v);

        PhQ::Vector<T> vector{inputs[20], inputs[21], inputs[22]};
        const PhQ::Vector<T> vector_copy{PhQ::Convert<U, T>(vector, from, to)};
        PhQ::ConvertInPlace<U, T>(vector, from, to);
        for (const T v : vector.x_y_z()) digest.AddValue(v);
        for (const T v : vector_copy.x_y_z()) digest.AddValue(v);

        PhQ::SymmetricDyad<T> symmetric{
          inputs[23], inputs[24], inputs[25], inputs[26], inputs[27], inputs[28]};
        const PhQ::SymmetricDyad<T> symmetric_copy{PhQ::Convert<U, T>(symmetric, from, to)};
        PhQ::ConvertInPlace<U, T>(symmetric, from, to);
        for (const T v : symmetric.xx_xy_xz_yy_yz_zz()) digest.AddValue(v);
        for (const T v : symmetric_copy.xx_xy_xz_yy_yz_zz()) digest.AddValue(v);

        PhQ::Dyad<T> dyad{inputs[18], inputs[19], inputs[20], inputs[21], inputs[22],
                          inputs[23], inputs[24], inputs[25], inputs[26]};
        const PhQ::Dyad<T> dyad_copy{PhQ::Convert<U, T>(dyad, from, to)};
        PhQ::ConvertInPlace<U, T>(dyad, from, to);
        for (const T v : dyad.xx_xy_xz_yx_yy_yz_zx_zy_zz()) digest.AddValue(v);
        for (const T v : dyad_copy.xx_xy_xz_yx_yy_yz_zx_zy_zz()) digest.AddValue(v);
      }
      char tail[64];
      std::snprintf(tail, sizeof(tail), " | digest %016llx",
                    static_cast<unsigned long long>(digest.state));
      line += tail;
      std::puts(line.c_str());
    }
  }
}

template <typename U, typename T>
void ConsistentMagnitudes(const char* type_name) {
  for (const PhQ::UnitSystem system : kSystems) {
    const U unit{PhQ::ConsistentUnit<U>(system)};
    const T to_si{PhQ::Convert<U, T>(static_cast<T>(1), unit, PhQ::Standard<U>)};
    const T from_si{PhQ::Convert<U, T>(static_cast<T>(1), PhQ::Standard<U>, unit)};
    std::printf("%s %s magnitude [%s] %s: to_si=%s from_si=%s\n", type_name, Name<T>::value,
                std::string{PhQ::Abbreviation(system)}.c_str(),
                std::string{PhQ::Abbreviation(unit)}.c_str(), Hex(to_si).c_str(),
                Hex(from_si).c_str());
  }
}

template <typename U>
void Run(const char* type_name) {
  const std::vector<U> units{AllUnits<U>()};
  std::printf("== %s: %zu units, standard=%d\n", type_name, units.size(),
              static_cast<int>(PhQ::Standard<U>));

  // Forward lookup, for every system, plus an out-of-range system value.
  for (const PhQ::UnitSystem system : kSystems) {
    const U unit{PhQ::ConsistentUnit<U>(system)};
    std::printf("%s consistent[%d %s] = %d %s\n", type_name, static_cast<int>(system),
                std::string{PhQ::Abbreviation(system)}.c_str(), static_cast<int>(unit),
                std::string{PhQ::Abbreviation(unit)}.c_str());
  }
  for (const int bad : {-1, 4, 100}) {
    try {
      const U unit{PhQ::ConsistentUnit<U>(static_cast<PhQ::UnitSystem>(bad))};
      std::printf("%s consistent[%d] = %d\n", type_name, bad, static_cast<int>(unit));
    } catch (const std::out_of_range&) {
      std::printf("%s consistent[%d] throws std::out_of_range\n", type_name, bad);
    }
  }
  std::printf("%s table sizes: consistent=%zu related=%zu\n", type_name,
              PhQ::Internal::ConsistentUnits<U>.size(),
              PhQ::Internal::RelatedUnitSystems<U>.size());
  for (const auto& entry : PhQ::Internal::ConsistentUnits<U>) {
    std::printf("%s consistent-table %d -> %d\n", type_name, static_cast<int>(entry.first),
                static_cast<int>(entry.second));
  }
  for (const auto& entry : PhQ::Internal::RelatedUnitSystems<U>) {
    std::printf("%s related-table %d -> %d\n", type_name, static_cast<int>(entry.first),
                static_cast<int>(entry.second));
  }

  // Reverse lookup, for every unit and for values outside the enumeration.
  std::vector<U> probes{units};
  probes.push_back(static_cast<U>(-1));
  probes.push_back(static_cast<U>(static_cast<int>(units.size())));
  probes.push_back(static_cast<U>(127));
  for (const U unit : probes) {
    const std::optional<PhQ::UnitSystem> system{PhQ::RelatedUnitSystem(unit)};
    const std::optional<PhQ::UnitSystem> explicit_system{PhQ::RelatedUnitSystem<U>(unit)};
    std::printf("%s related[%d] = %s %d / %s %d\n", type_name, static_cast<int>(unit),
                system.has_value() ? "some" : "none",
                system.has_value() ? static_cast<int>(system.value()) : -1,
                explicit_system.has_value() ? "some" : "none",
                explicit_system.has_value() ? static_cast<int>(explicit_system.value()) : -1);
  }

  ConsistentMagnitudes<U, float>(type_name);
  ConsistentMagnitudes<U, double>(type_name);
  ConsistentMagnitudes<U, long double>(type_name);

  Conversions<U, float>(type_name, units);
  Conversions<U, double>(type_name, units);
  Conversions<U, long double>(type_name, units);
}

}  // namespace

#define RUN(TYPE) Run<PhQ::Unit::TYPE>(#TYPE)

int main() {
  RUN(Acceleration);
  RUN(Angle);
  RUN(AngularAcceleration);
  RUN(AngularSpeed);
  RUN(Area);
  RUN(Diffusivity);
  RUN(DynamicViscosity);
  RUN(ElectricCharge);
  RUN(ElectricCurrent);
  RUN(Energy);
  RUN(EnergyFlux);
  RUN(Force);
  RUN(Frequency);
  RUN(HeatCapacity);
  RUN(Length);
  RUN(Mass);
  RUN(MassDensity);
  RUN(MassRate);
  RUN(Memory);
  RUN(MemoryRate);
  RUN(Power);
  RUN(Pressure);
  RUN(ReciprocalTemperature);
  RUN(SolidAngle);
  RUN(SpecificEnergy);
  RUN(SpecificHeatCapacity);
  RUN(SpecificPower);
  RUN(Speed);
  RUN(SubstanceAmount);
  RUN(Temperature);
  RUN(TemperatureDifference);
  RUN(TemperatureGradient);
  RUN(ThermalConductivity);
  RUN(Time);
  RUN(TransportEnergyConsumption);
  RUN(Volume);
  RUN(VolumeRate);

  // A few compile-time conversions that share the Conversion<> specialisations.
  std::printf("static lbf->N %s\n",
              Hex(PhQ::ConvertStatically<PhQ::Unit::Force, PhQ::Unit::Force::Pound,
                                         PhQ::Unit::Force::Newton>(1.0)).c_str());
  std::printf("static ft->mm %s\n",
              Hex(PhQ::ConvertStatically<PhQ::Unit::Length, PhQ::Unit::Length::Foot,
                                         PhQ::Unit::Length::Millimetre>(1.0L)).c_str());
  std::printf("static in->m %s\n",
              Hex(PhQ::ConvertStatically<PhQ::Unit::Length, PhQ::Unit::Length::Inch,
                                         PhQ::Unit::Length::Metre>(1.0F)).c_str());
  return 0;
}
