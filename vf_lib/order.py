"""Ordering enumeration: decide comparison operators over the finite abstraction
'each slot pair is <, = or >' (complete on non-NaN values when the operator touches components only
through same-slot comparisons)."""
import itertools
from . import ev
from .ev import Inconclusive

REL = {"<": {"<": True, "=": False, ">": False},
       ">": {"<": False, "=": False, ">": True},
       "<=": {"<": True, "=": True, ">": False},
       ">=": {"<": False, "=": True, ">": True},
       "==": {"<": False, "=": True, ">": False},
       "!=": {"<": True, "=": False, ">": True}}
FLIP = {"<": ">", ">": "<", "=": "="}


def _leafname(t):
    if isinstance(t, tuple) and t and t[0] in ("leaf", "isym"):
        return t[1]
    if isinstance(t, tuple) and t and t[0] == "cast":
        return _leafname(t[2])
    return None


def collect_atoms(term, acc):
    """All ('cmp', op, a, b) atoms of a boolean term."""
    if isinstance(term, bool):
        return
    if not isinstance(term, tuple) or not term:
        raise Inconclusive("non-boolean term in comparison: %r" % (term,))
    k = term[0]
    if k == "cmp":
        acc.append(term)
    elif k in ("not",):
        collect_atoms(term[1], acc)
    elif k in ("and", "or"):
        collect_atoms(term[1], acc)
        collect_atoms(term[2], acc)
    elif k == "g":
        collect_atoms(term[1], acc)
        collect_atoms(term[2], acc)
        collect_atoms(term[3], acc)
    else:
        raise Inconclusive("comparison result built with %s" % k)


def evaluate(term, rel_of):
    if isinstance(term, bool):
        return term
    k = term[0]
    if k == "cmp":
        return rel_of(term)
    if k == "not":
        return not evaluate(term[1], rel_of)
    if k == "and":
        return evaluate(term[1], rel_of) and evaluate(term[2], rel_of)
    if k == "or":
        return evaluate(term[1], rel_of) or evaluate(term[2], rel_of)
    if k == "g":
        return evaluate(term[2], rel_of) if evaluate(term[1], rel_of) else evaluate(term[3], rel_of)
    raise Inconclusive("comparison result built with %s" % k)


def decide(term, left_slots, right_slots, op):
    """term: boolean term of `left op right`; slots: lists of leaf names in declared order.
    Returns (ok, detail, n_cases).  Spec: lexicographic order over the slots."""
    n = len(left_slots)
    lidx = {s: i for i, s in enumerate(left_slots)}
    ridx = {s: i for i, s in enumerate(right_slots)}
    atoms = []
    collect_atoms(term, atoms)
    amap = {}
    for a in atoms:
        x, y = _leafname(a[2]), _leafname(a[3])
        if x is None or y is None:
            raise Inconclusive("comparison of non-component terms: %s" % ev.show(a))
        if x in lidx and y in ridx:
            i, j, flipped = lidx[x], ridx[y], False
        elif x in ridx and y in lidx:
            i, j, flipped = lidx[y], ridx[x], True
        else:
            raise Inconclusive("comparison between components of the same operand: %s" % ev.show(a))
        if i != j:
            raise Inconclusive("cross-slot comparison %s (slot %d vs %d): the 3^n abstraction is not complete" % (ev.show(a), i, j))
        amap[a] = (i, flipped)
    used = sorted({i for i, _ in amap.values()})
    cases = 0
    for sigma in itertools.product("<=>", repeat=n):
        cases += 1

        def rel_of(a, sigma=sigma):
            i, flipped = amap[a]
            r = sigma[i]
            if flipped:
                r = FLIP[r]
            return REL[a[1]][r]
        got = evaluate(term, rel_of)
        # lexicographic spec
        lex = "="
        for r in sigma:
            if r != "=":
                lex = r
                break
        want = REL[op][lex]
        if got != want:
            return False, "with slot relations %s (first differing slot decides: left %s right) the operator returns %s, lexicographic %s gives %s" % (
                "".join(sigma), lex, got, op, want), cases
    return True, "%d slot-relation assignments agree with the lexicographic order (slots compared: %s of %d)" % (cases, used, n), cases
