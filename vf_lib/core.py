"""Check bookkeeping: obligations, verdicts, evidence, known findings, replay files."""
import json
import os
import re
import sys
import time

from .frontend import VERIF, AnalysisBroken

KNOWN_FILE = os.path.join(VERIF, "known_findings.txt")

TRUSTED = [
    "clang 14 parser/Sema (via /verif/tool/phqx.cc) for the instantiated AST",
    "the term evaluator and rules in /verif/vf_lib (exercised by /verif/seeded and /verif/selftest mutants)",
    "ISO C++17 / IEEE-754 semantics of the source as written (not -ffast-math)",
]


def load_known():
    known, fixed = [], []
    if os.path.exists(KNOWN_FILE):
        for line in open(KNOWN_FILE, encoding="utf-8"):
            line = line.strip()
            if not line or line.startswith("#"):
                continue
            m = re.match(r"known:\s+property=(\S+)\s+key=(\S+)\s*(.*)", line)
            if m:
                known.append({"property": m.group(1), "key": m.group(2), "what": m.group(3)})
                continue
            m = re.match(r"fixed:\s+property=(\S+)\s+(\S+)\s*(.*)", line)
            if m:
                fixed.append({"property": m.group(1), "commit": m.group(2), "what": m.group(3)})
    return known, fixed


class Check:
    def __init__(self, pid, tier="quick", level="other", technique=""):
        self.pid = pid
        self.tier = tier
        self.level = level
        self.technique = technique
        self.seed = int(os.environ.get("VERIF_SEED", "0") or 0)
        self.t0 = time.time()
        self.obs = []            # obligations
        self.coverage = {}
        self.assumptions = []
        self.observations = []
        self.samples = []
        self.floors = []         # (name, measured, floor)
        self.only_key = None     # replay filter
        self.rules = {}

    # -------------------------------------------------------------- obligations
    def rule(self, name, text):
        self.rules[name] = text

    def ob(self, rule, instance, status, detail="", loc="", nontrivial=True, witness=None):
        """status: True (holds) / False (violated) / None (inconclusive)."""
        key = "%s:%s" % (rule, re.sub(r"\s+", "", str(instance)))
        o = {"rule": rule, "instance": str(instance), "key": key,
             "status": "holds" if status is True else ("violated" if status is False else "inconclusive"),
             "detail": detail, "loc": loc, "nontrivial": nontrivial}
        if witness is not None:
            o["witness"] = witness
        self.obs.append(o)
        return status

    def holds(self, rule, instance, detail="", loc="", nontrivial=True):
        return self.ob(rule, instance, True, detail, loc, nontrivial)

    def violated(self, rule, instance, detail="", loc="", witness=None):
        return self.ob(rule, instance, False, detail, loc, True, witness)

    def inconclusive(self, rule, instance, detail="", loc=""):
        if "uninitialised value in term" in str(detail) or "uninitialised value reaches a result" in str(detail):
            return self.ob(rule, instance, False, "the result is computed from a value that is not initialised at that point (e.g. a member "
                                                  "read in the initialiser of a member declared before it)", loc, True)
        if "PIECEWISE:" in str(detail):
            # a unit conversion whose result depends on a condition on the value is not the affine map of the units
            return self.ob(rule, instance, False, str(detail).replace("PIECEWISE: ", ""), loc, True)
        if "HISTORY:" in str(detail):
            # the evaluated function keeps state between calls: its result is not a function of its inputs
            return self.ob(rule, instance, False, str(detail).replace("HISTORY: ", ""), loc, True)
        return self.ob(rule, instance, None, detail, loc)

    def floor(self, name, measured, floor):
        self.floors.append((name, measured, floor))

    def observe(self, text):
        self.observations.append(text)

    def sample(self, s):
        if len(self.samples) < 12:
            self.samples.append(s)

    # -------------------------------------------------------------- finish
    def wellformedness(self, incomplete=True):
        """Rule WF.  Every property quantifies over float, double and long double.  When clang reports an error located
        in one of the property's own anchor files while instantiating /repo for one of the three types, and either the
        check could not complete (inconclusive obligations, a floor not reached, facts unusable) or the function the
        error is in is one this check has obligations about (for any numeric type), the construct that is ill-formed for
        that type is reported: the property cannot hold for a numeric type the code does not compile for.  A tree
        without such errors (today's tree, any refactor that compiles for all three types) never reaches the violation
        branch of this rule."""
        import fnmatch
        from . import frontend
        if getattr(self, "_wf_done", False):
            return 0
        self._wf_done = True
        anchors = []
        for line in open(os.path.join(VERIF, "properties.jsonl"), encoding="utf-8"):
            p = json.loads(line)
            if p["id"] == self.pid:
                anchors = p.get("anchors", {}).get("files", [])
        work = frontend.build_facts(self.tier)
        self.rule("WF", "code in this property's anchor files that the check has obligations about is well-formed when "
                        "instantiated for float, double and long double (clang error located in /repo/include)")
        errs = []
        for T, tag in (("float", "f"), ("double", "d"), ("long double", "ld")):
            side = os.path.join(work, "diag_%s.json" % tag)
            try:
                diags = json.load(open(side))
            except (OSError, ValueError):
                try:
                    diags = json.load(open(os.path.join(work, "facts_%s.json" % tag))).get("diagnostics", [])
                except OSError:
                    continue
                try:
                    with open(side + ".%d" % os.getpid(), "w") as f:
                        json.dump(diags, f)
                    os.replace(side + ".%d" % os.getpid(), side)
                except OSError:
                    pass
            for d in diags:
                if d.get("level", "error") != "error" or not d["loc"].startswith(frontend.INC):
                    continue
                rel = "include/" + os.path.relpath(d["loc"].rsplit(":", 2)[0], frontend.INC)
                if any(fnmatch.fnmatch(rel, a) for a in anchors):
                    errs.append((T, d))
        if not errs:
            return 0
        # the function each error is in: the last function of that file that starts at or before the error line
        starts = {}
        for tag in ("f", "d", "ld"):
            try:
                fns = json.load(open(os.path.join(work, "facts_%s.json" % tag)))["functions"]
            except (OSError, KeyError):
                continue
            for f in (fns.values() if isinstance(fns, dict) else fns):
                for k in ("loc", "def_loc"):
                    l = f.get(k) or ""
                    if l.startswith(frontend.INC) and l.count(":") >= 1:
                        path, line = l.split(":")[0], int(l.split(":")[1])
                        starts.setdefault(path, set()).add(line)
        my_locs = {o["loc"] for o in self.obs if o["loc"]}
        n = 0
        for T, d in errs:
            path, line = d["loc"].split(":")[0], int(d["loc"].split(":")[1])
            before = [x for x in starts.get(path, ()) if x <= line]
            relevant = incomplete
            if before:
                # (declaration line and definition line of the same function are both starts: look at the last two)
                for st in sorted(before)[-2:]:
                    if "%s:%d" % (os.path.relpath(path, frontend.INC), st) in my_locs:
                        relevant = True
            if not relevant:
                continue
            where = " ".join(x for x in d.get("notes", []) if "requested here" in x)[:300]
            loc = os.path.relpath(d["loc"], frontend.INC)
            self.violated("WF", "%s|%s" % (loc, T), "ill-formed for %s: %s %s" % (T, d["msg"], where), loc)
            n += 1
        return n

    def finish(self):
        self.wellformedness(incomplete=any(o["status"] == "inconclusive" for o in self.obs) or any(m < fl for _, m, fl in self.floors))
        known, fixed = load_known()
        known_keys = {k["key"]: k for k in known if k["property"] == self.pid}
        viol = [o for o in self.obs if o["status"] == "violated"]
        inc = [o for o in self.obs if o["status"] == "inconclusive"]
        new_viol, known_hit = [], []
        for o in viol:
            if o["key"] in known_keys:
                known_hit.append(o)
            else:
                new_viol.append(o)
        broken = []
        for name, measured, fl in self.floors:
            if measured < fl:
                broken.append("instance count %s = %d below floor %d" % (name, measured, fl))
        wall = time.time() - self.t0
        nobs = len(self.obs)
        discharged = sum(1 for o in self.obs if o["status"] == "holds")
        distinct_nt = len({o["key"] for o in self.obs if o["nontrivial"]})
        # pick samples deterministically from the seed
        if not self.samples and self.obs:
            step = max(1, len(self.obs) // 8)
            start = self.seed % step if step > 1 else 0
            for o in self.obs[start::step][:8]:
                self.samples.append({k: o[k] for k in ("rule", "instance", "status", "loc", "detail")})
        cov = {
            "evaluations": nobs,
            "distinct_nontrivial": distinct_nt,
            "rule": "one obligation per (rule, instance) enumerated from the instantiated AST of /repo; "
                    "non-trivial = the instance's denotation is not a bare constant/leaf or the table row is non-empty; rules: "
                    + "; ".join("%s = %s" % kv for kv in sorted(self.rules.items())),
            "samples": self.samples,
            "obligations": nobs,
            "discharged": discharged + len(known_hit),
            "inconclusive": len(inc),
            "known_findings_matched": len(known_hit),
            "checker_cmd": "./vf check %s --tier %s" % (self.pid, self.tier),
            "trusted_base": TRUSTED,
            "explanation": self.technique,
            "floors": [{"name": n, "measured": m, "floor": f} for n, m, f in self.floors],
            "observations": self.observations[:40],
            "per_rule": {},
            "rules": dict(self.rules),
            "exhaustive": True,
        }
        for o in self.obs:
            d = cov["per_rule"].setdefault(o["rule"], {"holds": 0, "violated": 0, "inconclusive": 0})
            d[o["status"]] += 1
        cov.update(self.coverage)
        ev = {"property_id": self.pid, "tier": self.tier, "seed": self.seed, "level": self.level,
              "coverage": cov, "assumptions": self.assumptions, "wall_s": round(wall, 3),
              "violations": len(new_viol)}
        os.makedirs(os.path.join(VERIF, "evidence"), exist_ok=True)
        if self.only_key is None and not os.environ.get("VF_NO_EVIDENCE"):
            with open(os.path.join(VERIF, "evidence", self.pid + ".json"), "w") as f:
                json.dump(ev, f, indent=1, ensure_ascii=False)
        for o in known_hit:
            print("KNOWN-FINDING: property=%s %s %s [%s] %s" % (self.pid, o["key"], known_keys[o["key"]]["what"], o["loc"], o["detail"][:200]))
        rc = 0
        if new_viol:
            rdir = os.path.join(os.environ.get("VF_REPLAY_DIR") or os.path.join(VERIF, "replay"), self.pid)
            os.makedirs(rdir, exist_ok=True)
            for i, o in enumerate(new_viol):
                path = os.path.join(rdir, "%d.json" % i)
                with open(path, "w") as f:
                    json.dump({"property": self.pid, "tier": self.tier, "obligation": o,
                               "rule_text": self.rules.get(o["rule"], "")}, f, indent=1, ensure_ascii=False)
                print("VIOLATION property=%s replay=%s" % (self.pid, path))
                print("  rule %s (%s)\n  instance %s\n  at %s\n  %s" % (o["rule"], self.rules.get(o["rule"], ""), o["instance"], o["loc"], o["detail"][:1500]))
            rc = 1
        if inc or broken:
            for o in inc[:20]:
                print("INCONCLUSIVE property=%s rule=%s instance=%s at %s: %s" % (self.pid, o["rule"], o["instance"], o["loc"], o["detail"][:400]))
            for b in broken:
                print("ANALYSIS-BROKEN property=%s %s" % (self.pid, b))
            if rc == 0:
                rc = 2
        print("%s %s: %d obligations, %d hold, %d violated (%d known), %d inconclusive, %.1fs"
              % (self.pid, self.tier, nobs, discharged, len(viol), len(known_hit), len(inc), wall))
        return rc
