// Differential program for the C11 structural refactor: exercises every angle kernel, every
// Angle member function of the vector-like classes and every quantity-level angle constructor, for
// float, double and long double, and prints every result in hexfloat.
#include <PhQ/Acceleration.hpp>
#include <PhQ/Angle.hpp>
#include <PhQ/Direction.hpp>
#include <PhQ/Displacement.hpp>
#include <PhQ/Force.hpp>
#include <PhQ/HeatFlux.hpp>
#include <PhQ/PlanarAcceleration.hpp>
#include <PhQ/PlanarDirection.hpp>
#include <PhQ/PlanarDisplacement.hpp>
#include <PhQ/PlanarForce.hpp>
#include <PhQ/PlanarHeatFlux.hpp>
#include <PhQ/PlanarPosition.hpp>
#include <PhQ/PlanarTemperatureGradient.hpp>
#include <PhQ/PlanarTraction.hpp>
#include <PhQ/PlanarVector.hpp>
#include <PhQ/PlanarVelocity.hpp>
#include <PhQ/Position.hpp>
#include <PhQ/TemperatureGradient.hpp>
#include <PhQ/Traction.hpp>
#include <PhQ/Vector.hpp>
#include <PhQ/VectorArea.hpp>
#include <PhQ/Velocity.hpp>

#include <cmath>
#include <cstdint>
#include <cstdio>
#include <limits>
#include <random>
#include <string>
#include <type_traits>
#include <vector>

namespace {

std::uint64_t digest = 1469598103934665603ULL;
std::uint64_t count = 0;

template <typename T>
void Emit(const char* tag, const T value, const bool print) {
  char buffer[128];
  if constexpr (std::is_same_v<T, long double>) {
    std::snprintf(buffer, sizeof buffer, "%La", value);
  } else {
    std::snprintf(buffer, sizeof buffer, "%a", static_cast<double>(value));
  }
  for (const char* c = tag; *c != 0; ++c) {
    digest = (digest ^ static_cast<unsigned char>(*c)) * 1099511628211ULL;
  }
  for (const char* c = buffer; *c != 0; ++c) {
    digest = (digest ^ static_cast<unsigned char>(*c)) * 1099511628211ULL;
  }
  ++count;
  if (print) {
    std::printf("%s %s\n", tag, buffer);
  }
}

template <typename T>
const char* TypeName() {
  if constexpr (std::is_same_v<T, float>) {
    return "f";
  } else if constexpr (std::is_same_v<T, double>) {
    return "d";
  } else {
    return "l";
  }
}

template <typename T>
void Pair3(const PhQ::Vector<T>& a, const PhQ::Vector<T>& b, const bool print) {
  const std::string prefix = std::string(TypeName<T>()) + "3.";
  const auto tag = [&prefix](const char* name) { return prefix + name; };

  // Kernels: constructors of PhQ::Angle.
  Emit((tag("VV")).c_str(), PhQ::Angle<T>(a, b).Value(), print);
  Emit((tag("VV'")).c_str(), PhQ::Angle<T>(b, a).Value(), print);
  Emit((tag("VV=")).c_str(), PhQ::Angle<T>(a, a).Value(), print);
  Emit((tag("V.Angle(V)")).c_str(), a.Angle(b).Value(), print);
  Emit((tag("V.Angle(V)'")).c_str(), b.Angle(a).Value(), print);

  const bool a_nonzero = a.x() != 0 || a.y() != 0 || a.z() != 0;
  const bool b_nonzero = b.x() != 0 || b.y() != 0 || b.z() != 0;
  if (a_nonzero && b_nonzero && std::isfinite(a.MagnitudeSquared())
      && std::isfinite(b.MagnitudeSquared()) && a.MagnitudeSquared() > 0
      && b.MagnitudeSquared() > 0) {
    const PhQ::Direction<T> da(a);
    const PhQ::Direction<T> db(b);
    Emit((tag("VD")).c_str(), PhQ::Angle<T>(a, db).Value(), print);
    Emit((tag("DV")).c_str(), PhQ::Angle<T>(da, b).Value(), print);
    Emit((tag("DD")).c_str(), PhQ::Angle<T>(da, db).Value(), print);
    Emit((tag("DD'")).c_str(), PhQ::Angle<T>(db, da).Value(), print);
    Emit((tag("DD=")).c_str(), PhQ::Angle<T>(da, da).Value(), print);
    Emit((tag("V.Angle(D)")).c_str(), a.Angle(db).Value(), print);
    Emit((tag("D.Angle(V)")).c_str(), da.Angle(b).Value(), print);
    Emit((tag("D.Angle(D)")).c_str(), da.Angle(db).Value(), print);
  }

  // Quantity-level constructors and member functions.
  {
    const PhQ::Acceleration<T> p(a, PhQ::Unit::Acceleration::MetrePerSquareSecond);
    const PhQ::Acceleration<T> q(b, PhQ::Unit::Acceleration::MetrePerSquareSecond);
    Emit((tag("Acceleration")).c_str(), PhQ::Angle<T>(p, q).Value(), print);
    Emit((tag("Acceleration.Angle")).c_str(), p.Angle(q).Value(), print);
  }
  {
    const PhQ::VectorArea<T> p(a, PhQ::Unit::Area::SquareMetre);
    const PhQ::VectorArea<T> q(b, PhQ::Unit::Area::SquareMetre);
    Emit((tag("VectorArea")).c_str(), PhQ::Angle<T>(p, q).Value(), print);
    Emit((tag("VectorArea.Angle")).c_str(), p.Angle(q).Value(), print);
  }
  {
    const PhQ::Displacement<T> p(a, PhQ::Unit::Length::Metre);
    const PhQ::Displacement<T> q(b, PhQ::Unit::Length::Foot);
    Emit((tag("Displacement")).c_str(), PhQ::Angle<T>(p, q).Value(), print);
    Emit((tag("Displacement.Angle")).c_str(), p.Angle(q).Value(), print);
  }
  {
    const PhQ::Force<T> p(a, PhQ::Unit::Force::Newton);
    const PhQ::Force<T> q(b, PhQ::Unit::Force::Pound);
    Emit((tag("Force")).c_str(), PhQ::Angle<T>(p, q).Value(), print);
    Emit((tag("Force.Angle")).c_str(), p.Angle(q).Value(), print);
  }
  {
    const PhQ::HeatFlux<T> p(a, PhQ::Unit::EnergyFlux::WattPerSquareMetre);
    const PhQ::HeatFlux<T> q(b, PhQ::Unit::EnergyFlux::WattPerSquareMetre);
    Emit((tag("HeatFlux")).c_str(), PhQ::Angle<T>(p, q).Value(), print);
    Emit((tag("HeatFlux.Angle")).c_str(), p.Angle(q).Value(), print);
  }
  {
    const PhQ::Position<T> p(a, PhQ::Unit::Length::Metre);
    const PhQ::Position<T> q(b, PhQ::Unit::Length::Metre);
    Emit((tag("Position")).c_str(), PhQ::Angle<T>(p, q).Value(), print);
    Emit((tag("Position.Angle")).c_str(), p.Angle(q).Value(), print);
  }
  {
    const PhQ::TemperatureGradient<T> p(a, PhQ::Unit::TemperatureGradient::KelvinPerMetre);
    const PhQ::TemperatureGradient<T> q(b, PhQ::Unit::TemperatureGradient::KelvinPerMetre);
    Emit((tag("TemperatureGradient")).c_str(), PhQ::Angle<T>(p, q).Value(), print);
    Emit((tag("TemperatureGradient.Angle")).c_str(), p.Angle(q).Value(), print);
  }
  {
    const PhQ::Traction<T> p(a, PhQ::Unit::Pressure::Pascal);
    const PhQ::Traction<T> q(b, PhQ::Unit::Pressure::Pascal);
    Emit((tag("Traction")).c_str(), PhQ::Angle<T>(p, q).Value(), print);
    Emit((tag("Traction.Angle")).c_str(), p.Angle(q).Value(), print);
  }
  {
    const PhQ::Velocity<T> p(a, PhQ::Unit::Speed::MetrePerSecond);
    const PhQ::Velocity<T> q(b, PhQ::Unit::Speed::MetrePerSecond);
    Emit((tag("Velocity")).c_str(), PhQ::Angle<T>(p, q).Value(), print);
    Emit((tag("Velocity.Angle")).c_str(), p.Angle(q).Value(), print);
  }
}

template <typename T>
void Pair2(const PhQ::PlanarVector<T>& a, const PhQ::PlanarVector<T>& b, const bool print) {
  const std::string prefix = std::string(TypeName<T>()) + "2.";
  const auto tag = [&prefix](const char* name) { return prefix + name; };

  Emit((tag("VV")).c_str(), PhQ::Angle<T>(a, b).Value(), print);
  Emit((tag("VV'")).c_str(), PhQ::Angle<T>(b, a).Value(), print);
  Emit((tag("VV=")).c_str(), PhQ::Angle<T>(a, a).Value(), print);
  Emit((tag("V.Angle(V)")).c_str(), a.Angle(b).Value(), print);
  Emit((tag("V.Angle(V)'")).c_str(), b.Angle(a).Value(), print);

  if (std::isfinite(a.MagnitudeSquared()) && std::isfinite(b.MagnitudeSquared())
      && a.MagnitudeSquared() > 0 && b.MagnitudeSquared() > 0) {
    const PhQ::PlanarDirection<T> da(a);
    const PhQ::PlanarDirection<T> db(b);
    Emit((tag("VD")).c_str(), PhQ::Angle<T>(a, db).Value(), print);
    Emit((tag("DV")).c_str(), PhQ::Angle<T>(da, b).Value(), print);
    Emit((tag("DD")).c_str(), PhQ::Angle<T>(da, db).Value(), print);
    Emit((tag("DD'")).c_str(), PhQ::Angle<T>(db, da).Value(), print);
    Emit((tag("DD=")).c_str(), PhQ::Angle<T>(da, da).Value(), print);
    Emit((tag("V.Angle(D)")).c_str(), a.Angle(db).Value(), print);
    Emit((tag("D.Angle(V)")).c_str(), da.Angle(b).Value(), print);
    Emit((tag("D.Angle(D)")).c_str(), da.Angle(db).Value(), print);
  }

  {
    const PhQ::PlanarAcceleration<T> p(a, PhQ::Unit::Acceleration::MetrePerSquareSecond);
    const PhQ::PlanarAcceleration<T> q(b, PhQ::Unit::Acceleration::MetrePerSquareSecond);
    Emit((tag("PlanarAcceleration")).c_str(), PhQ::Angle<T>(p, q).Value(), print);
    Emit((tag("PlanarAcceleration.Angle")).c_str(), p.Angle(q).Value(), print);
  }
  {
    const PhQ::PlanarDisplacement<T> p(a, PhQ::Unit::Length::Metre);
    const PhQ::PlanarDisplacement<T> q(b, PhQ::Unit::Length::Foot);
    Emit((tag("PlanarDisplacement")).c_str(), PhQ::Angle<T>(p, q).Value(), print);
    Emit((tag("PlanarDisplacement.Angle")).c_str(), p.Angle(q).Value(), print);
  }
  {
    const PhQ::PlanarForce<T> p(a, PhQ::Unit::Force::Newton);
    const PhQ::PlanarForce<T> q(b, PhQ::Unit::Force::Pound);
    Emit((tag("PlanarForce")).c_str(), PhQ::Angle<T>(p, q).Value(), print);
    Emit((tag("PlanarForce.Angle")).c_str(), p.Angle(q).Value(), print);
  }
  {
    const PhQ::PlanarHeatFlux<T> p(a, PhQ::Unit::EnergyFlux::WattPerSquareMetre);
    const PhQ::PlanarHeatFlux<T> q(b, PhQ::Unit::EnergyFlux::WattPerSquareMetre);
    Emit((tag("PlanarHeatFlux")).c_str(), PhQ::Angle<T>(p, q).Value(), print);
    Emit((tag("PlanarHeatFlux.Angle")).c_str(), p.Angle(q).Value(), print);
  }
  {
    const PhQ::PlanarPosition<T> p(a, PhQ::Unit::Length::Metre);
    const PhQ::PlanarPosition<T> q(b, PhQ::Unit::Length::Metre);
    Emit((tag("PlanarPosition")).c_str(), PhQ::Angle<T>(p, q).Value(), print);
    Emit((tag("PlanarPosition.Angle")).c_str(), p.Angle(q).Value(), print);
  }
  {
    const PhQ::PlanarTemperatureGradient<T> p(a, PhQ::Unit::TemperatureGradient::KelvinPerMetre);
    const PhQ::PlanarTemperatureGradient<T> q(b, PhQ::Unit::TemperatureGradient::KelvinPerMetre);
    Emit((tag("PlanarTemperatureGradient")).c_str(), PhQ::Angle<T>(p, q).Value(), print);
    Emit((tag("PlanarTemperatureGradient.Angle")).c_str(), p.Angle(q).Value(), print);
  }
  {
    const PhQ::PlanarTraction<T> p(a, PhQ::Unit::Pressure::Pascal);
    const PhQ::PlanarTraction<T> q(b, PhQ::Unit::Pressure::Pascal);
    Emit((tag("PlanarTraction")).c_str(), PhQ::Angle<T>(p, q).Value(), print);
    Emit((tag("PlanarTraction.Angle")).c_str(), p.Angle(q).Value(), print);
  }
  {
    const PhQ::PlanarVelocity<T> p(a, PhQ::Unit::Speed::MetrePerSecond);
    const PhQ::PlanarVelocity<T> q(b, PhQ::Unit::Speed::MetrePerSecond);
    Emit((tag("PlanarVelocity")).c_str(), PhQ::Angle<T>(p, q).Value(), print);
    Emit((tag("PlanarVelocity.Angle")).c_str(), p.Angle(q).Value(), print);
  }
}

template <typename T>
void ArcCosineDirect(const bool print) {
  const std::string name = std::string(TypeName<T>()) + ".ArcCosine";
  const T eps = std::numeric_limits<T>::epsilon();
  const T values[] = {static_cast<T>(0),
                      -static_cast<T>(0),
                      static_cast<T>(1),
                      static_cast<T>(-1),
                      static_cast<T>(1) + eps,
                      static_cast<T>(-1) - eps,
                      static_cast<T>(1) - eps / 2,
                      static_cast<T>(-1) + eps / 2,
                      static_cast<T>(2),
                      static_cast<T>(-2),
                      static_cast<T>(0.5),
                      static_cast<T>(-0.5),
                      std::numeric_limits<T>::infinity(),
                      -std::numeric_limits<T>::infinity(),
                      std::numeric_limits<T>::min(),
                      std::numeric_limits<T>::denorm_min(),
                      std::numeric_limits<T>::max()};
  for (const T value : values) {
    Emit(name.c_str(), PhQ::Internal::ArcCosine(value), print);
  }
}

template <typename T>
void Run() {
  ArcCosineDirect<T>(true);

  // Edge-case component values.
  const T tiny = std::numeric_limits<T>::min();
  const T denorm = std::numeric_limits<T>::denorm_min();
  const T huge = std::sqrt(std::numeric_limits<T>::max()) / 4;
  const T big = std::numeric_limits<T>::max();
  const std::vector<T> edges = {static_cast<T>(0), -static_cast<T>(0), static_cast<T>(1),
                                static_cast<T>(-1), static_cast<T>(3), static_cast<T>(-0.1),
                                tiny, -tiny, denorm, huge, -huge, big,
                                static_cast<T>(1e-20), static_cast<T>(1e18)};

  // All pairs of planar vectors whose components are edge values.
  std::vector<PhQ::PlanarVector<T>> planar;
  for (const T x : edges) {
    for (const T y : edges) {
      planar.emplace_back(x, y);
    }
  }
  for (std::size_t i = 0; i < planar.size(); ++i) {
    for (std::size_t j = 0; j < planar.size(); j += 3) {
      Pair2<T>(planar[i], planar[j], false);
    }
  }

  // A subset of the pairs of three-dimensional vectors whose components are edge values.
  std::vector<PhQ::Vector<T>> spatial;
  for (const T x : edges) {
    for (const T y : edges) {
      for (const T z : edges) {
        spatial.emplace_back(x, y, z);
      }
    }
  }
  for (std::size_t i = 0; i < spatial.size(); i += 7) {
    for (std::size_t j = 0; j < spatial.size(); j += 41) {
      Pair3<T>(spatial[i], spatial[j], false);
    }
  }

  // A few printed edge cases.
  Pair2<T>({static_cast<T>(1), static_cast<T>(0)}, {static_cast<T>(0), static_cast<T>(1)}, true);
  Pair2<T>({static_cast<T>(1), static_cast<T>(0)}, {static_cast<T>(-1), -static_cast<T>(0)}, true);
  Pair2<T>({static_cast<T>(0), static_cast<T>(0)}, {static_cast<T>(1), static_cast<T>(2)}, true);
  Pair3<T>({static_cast<T>(1), static_cast<T>(2), static_cast<T>(3)},
           {static_cast<T>(-3), static_cast<T>(0.5), static_cast<T>(7)}, true);
  Pair3<T>({static_cast<T>(0.1), static_cast<T>(0.7), static_cast<T>(-0.3)},
           {static_cast<T>(0.3), static_cast<T>(2.1), static_cast<T>(-0.9)}, true);
  Pair3<T>({static_cast<T>(0), static_cast<T>(0), static_cast<T>(0)},
           {static_cast<T>(0), -static_cast<T>(0), static_cast<T>(1)}, true);

  // Random pairs: general, parallel, antiparallel and nearly so, over many scales.
  std::mt19937_64 generator(20260927);
  std::uniform_real_distribution<double> uniform(-1.0, 1.0);
  std::uniform_int_distribution<int> exponent(-30, 30);
  std::uniform_int_distribution<int> kind(0, 5);
  for (int n = 0; n < 40000; ++n) {
    const bool print = n < 40;
    const T sa = static_cast<T>(std::ldexp(1.0, exponent(generator)));
    const T sb = static_cast<T>(std::ldexp(1.0, exponent(generator)));
    const T ax = static_cast<T>(uniform(generator)) * sa;
    const T ay = static_cast<T>(uniform(generator)) * sa;
    const T az = static_cast<T>(uniform(generator)) * sa;
    T bx = static_cast<T>(uniform(generator)) * sb;
    T by = static_cast<T>(uniform(generator)) * sb;
    T bz = static_cast<T>(uniform(generator)) * sb;
    const T k = static_cast<T>(uniform(generator) + 1.5) * sb;
    const T perturbation = static_cast<T>(uniform(generator))
                           * std::numeric_limits<T>::epsilon() * static_cast<T>(8);
    switch (kind(generator)) {
      case 0:  // parallel
        bx = ax * k;
        by = ay * k;
        bz = az * k;
        break;
      case 1:  // antiparallel
        bx = -ax * k;
        by = -ay * k;
        bz = -az * k;
        break;
      case 2:  // nearly parallel
        bx = ax * k * (static_cast<T>(1) + perturbation);
        by = ay * k;
        bz = az * k;
        break;
      case 3:  // nearly antiparallel
        bx = -ax * k;
        by = -ay * k * (static_cast<T>(1) + perturbation);
        bz = -az * k;
        break;
      default:  // general
        break;
    }
    Pair3<T>({ax, ay, az}, {bx, by, bz}, print);
    Pair2<T>({ax, ay}, {bx, by}, print);
  }
}

}  // namespace

int main() {
  Run<float>();
  Run<double>();
  Run<long double>();
  std::printf("count %llu\n", static_cast<unsigned long long>(count));
  std::printf("digest %016llx\n", static_cast<unsigned long long>(digest));
  return 0;
}
