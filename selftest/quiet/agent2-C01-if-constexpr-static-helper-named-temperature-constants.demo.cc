// Differential program for the C01 refactor: exercises PhQ::Convert, PhQ::ConvertInPlace and
// PhQ::ConvertStatically (scalar, array, vector, PlanarVector, Vector, SymmetricDyad, Dyad) for all
// unit types, all ordered unit pairs and float/double/long double, printing digests of the raw bits
// of every result, plus every result in hexfloat for the temperature-related unit types.

#include <array>
#include <cfloat>
#include <cmath>
#include <cstdint>
#include <cstdio>
#include <cstring>
#include <limits>
#include <random>
#include <string>
#include <utility>
#include <vector>

#include <PhQ/Dyad.hpp>
#include <PhQ/Length.hpp>
#include <PhQ/PlanarVector.hpp>
#include <PhQ/SymmetricDyad.hpp>
#include <PhQ/Temperature.hpp>
#include <PhQ/TemperatureDifference.hpp>
#include <PhQ/Unit/Acceleration.hpp>
#include <PhQ/Unit/Angle.hpp>
#include <PhQ/Unit/AngularAcceleration.hpp>
#include <PhQ/Unit/AngularSpeed.hpp>
#include <PhQ/Unit/Area.hpp>
#include <PhQ/Unit/Diffusivity.hpp>
#include <PhQ/Unit/DynamicViscosity.hpp>
#include <PhQ/Unit/ElectricCharge.hpp>
#include <PhQ/Unit/ElectricCurrent.hpp>
#include <PhQ/Unit/Energy.hpp>
#include <PhQ/Unit/EnergyFlux.hpp>
#include <PhQ/Unit/Force.hpp>
#include <PhQ/Unit/Frequency.hpp>
#include <PhQ/Unit/HeatCapacity.hpp>
#include <PhQ/Unit/Length.hpp>
#include <PhQ/Unit/Mass.hpp>
#include <PhQ/Unit/MassDensity.hpp>
#include <PhQ/Unit/MassRate.hpp>
#include <PhQ/Unit/Memory.hpp>
#include <PhQ/Unit/MemoryRate.hpp>
#include <PhQ/Unit/Power.hpp>
#include <PhQ/Unit/Pressure.hpp>
#include <PhQ/Unit/ReciprocalTemperature.hpp>
#include <PhQ/Unit/SolidAngle.hpp>
#include <PhQ/Unit/SpecificEnergy.hpp>
#include <PhQ/Unit/SpecificHeatCapacity.hpp>
#include <PhQ/Unit/SpecificPower.hpp>
#include <PhQ/Unit/Speed.hpp>
#include <PhQ/Unit/SubstanceAmount.hpp>
#include <PhQ/Unit/Temperature.hpp>
#include <PhQ/Unit/TemperatureDifference.hpp>
#include <PhQ/Unit/TemperatureGradient.hpp>
#include <PhQ/Unit/ThermalConductivity.hpp>
#include <PhQ/Unit/Time.hpp>
#include <PhQ/Unit/TransportEnergyConsumption.hpp>
#include <PhQ/Unit/Volume.hpp>
#include <PhQ/Unit/VolumeRate.hpp>
#include <PhQ/Vector.hpp>

namespace {

template <typename T>
constexpr std::size_t kBytes = sizeof(T);
template <>
constexpr std::size_t kBytes<long double> = 10;  // x87 extended: 6 bytes of padding are unspecified

template <typename T>
const char* TypeName();
template <>
const char* TypeName<float>() {
  return "float";
}
template <>
const char* TypeName<double>() {
  return "double";
}
template <>
const char* TypeName<long double>() {
  return "long double";
}

struct Digest {
  std::uint64_t hash = 1469598103934665603ULL;
  std::uint64_t count = 0;
  template <typename T>
  void Add(const T value) {
    unsigned char bytes[sizeof(T)];
    std::memcpy(bytes, &value, sizeof(T));
    for (std::size_t i = 0; i < kBytes<T>; ++i) {
      hash ^= bytes[i];
      hash *= 1099511628211ULL;
    }
    ++count;
  }
};

template <typename T>
void PrintHex(const T value) {
  if constexpr (std::is_same_v<T, long double>) {
    std::printf("%La", value);
  } else {
    std::printf("%a", static_cast<double>(value));
  }
}

template <typename T>
std::vector<T> Inputs() {
  using L = std::numeric_limits<T>;
  std::vector<T> inputs{
    static_cast<T>(0.0L),
    -static_cast<T>(0.0L),
    L::denorm_min(),
    -L::denorm_min(),
    L::min(),
    -L::min(),
    L::min() * static_cast<T>(3.0L),
    L::epsilon(),
    static_cast<T>(1.0L),
    static_cast<T>(-1.0L),
    static_cast<T>(1.2345678901234567890L),
    static_cast<T>(-1.2345678901234567890L),
    static_cast<T>(273.15L),
    static_cast<T>(-273.15L),
    static_cast<T>(459.67L),
    static_cast<T>(-459.67L),
    static_cast<T>(491.67L),
    static_cast<T>(32.0L),
    static_cast<T>(100.0L),
    static_cast<T>(1.8L),
    static_cast<T>(0.1L),
    static_cast<T>(1.0e10L),
    static_cast<T>(-1.0e-10L),
    static_cast<T>(1.0e30L),
    static_cast<T>(-1.0e-30L),
    L::max(),
    L::lowest(),
    L::max() / static_cast<T>(1000.0L),
    L::lowest() / static_cast<T>(1.0e12L),
    L::infinity(),
    -L::infinity(),
  };
  std::mt19937_64 generator(20240601ULL + sizeof(T));
  std::uniform_real_distribution<long double> mantissa(-2.0L, 2.0L);
  std::uniform_int_distribution<int> exponent(L::min_exponent - 5, L::max_exponent - 2);
  for (int i = 0; i < 24; ++i) {
    inputs.push_back(static_cast<T>(std::ldexp(mantissa(generator), exponent(generator))));
  }
  std::uniform_real_distribution<long double> ordinary(-1000.0L, 1000.0L);
  for (int i = 0; i < 16; ++i) {
    inputs.push_back(static_cast<T>(ordinary(generator)));
  }
  return inputs;
}

// One ordered pair of units known at compile time: static and run-time conversions of all shapes.
template <typename U, U From, U To, typename T, bool Verbose>
void Pair(Digest& digest, std::uint64_t& mismatches) {
  const std::vector<T> inputs = Inputs<T>();
  const std::size_t n = inputs.size();
  for (std::size_t i = 0; i < n; ++i) {
    const T x = inputs[i];
    // Scalar.
    const T s = PhQ::ConvertStatically<U, From, To>(x);
    const T r = PhQ::Convert<U, T>(x, From, To);
    T p = x;
    PhQ::ConvertInPlace<U, T>(p, From, To);
    digest.Add(s);
    digest.Add(r);
    digest.Add(p);
    if (std::memcmp(&s, &r, kBytes<T>) != 0 || std::memcmp(&s, &p, kBytes<T>) != 0) {
      ++mismatches;
    }
    if constexpr (Verbose) {
      std::printf("  %d->%d ", static_cast<int>(From), static_cast<int>(To));
      PrintHex(x);
      std::printf(" : ");
      PrintHex(s);
      std::printf(" ");
      PrintHex(r);
      std::printf(" ");
      PrintHex(p);
      std::printf("\n");
    }
    // Shapes, filled with consecutive inputs.
    const auto at = [&](const std::size_t k) { return inputs[(i + k) % n]; };
    const std::array<T, 2> a2{at(0), at(1)};
    const std::array<T, 3> a3{at(0), at(1), at(2)};
    const std::array<T, 5> a5{at(0), at(1), at(2), at(3), at(4)};
    const std::array<T, 6> a6{at(0), at(1), at(2), at(3), at(4), at(5)};
    const std::array<T, 9> a9{at(0), at(1), at(2), at(3), at(4), at(5), at(6), at(7), at(8)};
    const auto add_all = [&](const auto& sequence) {
      for (const T value : sequence) {
        digest.Add(value);
        if constexpr (Verbose) {
          std::printf(" ");
          PrintHex(value);
        }
      }
    };
    if constexpr (Verbose) {
      std::printf("   shapes:");
    }
    add_all(PhQ::ConvertStatically<U, From, To>(a5));
    add_all(PhQ::Convert<U, 5, T>(a5, From, To));
    {
      std::array<T, 5> q{a5};
      PhQ::ConvertInPlace<U, 5, T>(q, From, To);
      add_all(q);
    }
    {
      const std::vector<T> v(inputs.begin() + i, inputs.begin() + std::min(n, i + 7));
      add_all(PhQ::Convert<U, T>(v, From, To));
      std::vector<T> w{v};
      PhQ::ConvertInPlace<U, T>(w, From, To);
      add_all(w);
      std::vector<T> empty;
      PhQ::ConvertInPlace<U, T>(empty, From, To);
      digest.Add(static_cast<T>(empty.size()));
    }
    {
      const PhQ::PlanarVector<T> q{a2};
      add_all(PhQ::ConvertStatically<U, From, To>(q).x_y());
      add_all(PhQ::Convert<U, T>(q, From, To).x_y());
      PhQ::PlanarVector<T> m{q};
      PhQ::ConvertInPlace<U, T>(m, From, To);
      add_all(m.x_y());
    }
    {
      const PhQ::Vector<T> q{a3};
      add_all(PhQ::ConvertStatically<U, From, To>(q).x_y_z());
      add_all(PhQ::Convert<U, T>(q, From, To).x_y_z());
      PhQ::Vector<T> m{q};
      PhQ::ConvertInPlace<U, T>(m, From, To);
      add_all(m.x_y_z());
    }
    {
      const PhQ::SymmetricDyad<T> q{a6};
      add_all(PhQ::ConvertStatically<U, From, To>(q).xx_xy_xz_yy_yz_zz());
      add_all(PhQ::Convert<U, T>(q, From, To).xx_xy_xz_yy_yz_zz());
      PhQ::SymmetricDyad<T> m{q};
      PhQ::ConvertInPlace<U, T>(m, From, To);
      add_all(m.xx_xy_xz_yy_yz_zz());
    }
    {
      const PhQ::Dyad<T> q{a9};
      add_all(PhQ::ConvertStatically<U, From, To>(q).xx_xy_xz_yx_yy_yz_zx_zy_zz());
      add_all(PhQ::Convert<U, T>(q, From, To).xx_xy_xz_yx_yy_yz_zx_zy_zz());
      PhQ::Dyad<T> m{q};
      PhQ::ConvertInPlace<U, T>(m, From, To);
      add_all(m.xx_xy_xz_yx_yy_yz_zx_zy_zz());
    }
    if constexpr (Verbose) {
      std::printf("\n");
    }
  }
}

// Scalar-only variant, used for the large unit types to keep the compile time reasonable.
template <typename U, U From, U To, typename T>
void ScalarPair(Digest& digest, std::uint64_t& mismatches) {
  const std::vector<T> inputs = Inputs<T>();
  for (const T x : inputs) {
    const T s = PhQ::ConvertStatically<U, From, To>(x);
    const T r = PhQ::Convert<U, T>(x, From, To);
    const std::array<T, 3> a =
        PhQ::ConvertStatically<U, From, To>(std::array<T, 3>{x, static_cast<T>(-x), x});
    digest.Add(s);
    digest.Add(r);
    digest.Add(a[0]);
    digest.Add(a[1]);
    digest.Add(a[2]);
    if (std::memcmp(&s, &r, kBytes<T>) != 0) {
      ++mismatches;
    }
  }
}

template <typename U, typename T, int N, bool Full, bool Verbose, int I, int... J>
void Row(Digest& digest, std::uint64_t& mismatches, std::integer_sequence<int, J...>) {
  if constexpr (Full) {
    (Pair<U, static_cast<U>(I), static_cast<U>(J), T, Verbose>(digest, mismatches), ...);
  } else {
    (ScalarPair<U, static_cast<U>(I), static_cast<U>(J), T>(digest, mismatches), ...);
  }
}

template <typename U, typename T, int N, bool Full, bool Verbose, int... I>
void Rows(Digest& digest, std::uint64_t& mismatches, std::integer_sequence<int, I...>) {
  (Row<U, T, N, Full, Verbose, I>(digest, mismatches, std::make_integer_sequence<int, N>{}), ...);
}

template <typename U, typename T, int N, bool Full, bool Verbose>
void TypeAndNumeric(const char* name) {
  Digest digest;
  std::uint64_t mismatches = 0;
  if constexpr (Verbose) {
    std::printf("%s %s verbose\n", name, TypeName<T>());
  }
  Rows<U, T, N, Full, Verbose>(digest, mismatches, std::make_integer_sequence<int, N>{});
  std::printf("%s %s units=%d values=%llu digest=%016llx static_vs_runtime_mismatches=%llu\n", name,
              TypeName<T>(), N, static_cast<unsigned long long>(digest.count),
              static_cast<unsigned long long>(digest.hash),
              static_cast<unsigned long long>(mismatches));
}

template <typename U, int N, bool Full, bool Verbose = false>
void UnitType(const char* name) {
  TypeAndNumeric<U, float, N, Full, Verbose>(name);
  TypeAndNumeric<U, double, N, Full, Verbose>(name);
  TypeAndNumeric<U, long double, N, Full, Verbose>(name);
}

// Physical-quantity classes built on the conversions.
template <typename T>
void Quantities() {
  using TU = PhQ::Unit::Temperature;
  using DU = PhQ::Unit::TemperatureDifference;
  using LU = PhQ::Unit::Length;
  Digest digest;
  for (const T x : Inputs<T>()) {
    const PhQ::Temperature<T> celsius(x, TU::Celsius);
    const PhQ::Temperature<T> fahrenheit(x, TU::Fahrenheit);
    const PhQ::Temperature<T> rankine(x, TU::Rankine);
    for (const PhQ::Temperature<T>& t : {celsius, fahrenheit, rankine}) {
      for (const T value :
           {t.Value(), t.Value(TU::Kelvin), t.Value(TU::Celsius), t.Value(TU::Rankine),
            t.Value(TU::Fahrenheit), t.template StaticValue<TU::Kelvin>(),
            t.template StaticValue<TU::Celsius>(), t.template StaticValue<TU::Rankine>(),
            t.template StaticValue<TU::Fahrenheit>()}) {
        digest.Add(value);
        std::printf(" ");
        PrintHex(value);
      }
    }
    for (const T value : {PhQ::Temperature<T>::template Create<TU::Kelvin>(x).Value(),
                          PhQ::Temperature<T>::template Create<TU::Celsius>(x).Value(),
                          PhQ::Temperature<T>::template Create<TU::Rankine>(x).Value(),
                          PhQ::Temperature<T>::template Create<TU::Fahrenheit>(x).Value(),
                          PhQ::TemperatureDifference<T>::template Create<DU::Kelvin>(x).Value(),
                          PhQ::TemperatureDifference<T>::template Create<DU::Celsius>(x).Value(),
                          PhQ::TemperatureDifference<T>::template Create<DU::Rankine>(x).Value(),
                          PhQ::TemperatureDifference<T>::template Create<DU::Fahrenheit>(x).Value(),
                          PhQ::TemperatureDifference<T>(x, DU::Fahrenheit).Value(DU::Rankine),
                          PhQ::TemperatureDifference<T>(x, DU::Rankine).Value(DU::Celsius),
                          PhQ::TemperatureDifference<T>(x, DU::Celsius)
                              .template StaticValue<DU::Fahrenheit>(),
                          PhQ::Length<T>::template Create<LU::Foot>(x).Value(),
                          PhQ::Length<T>::template Create<LU::Metre>(x).Value(LU::Mile),
                          PhQ::Length<T>(x, LU::Inch).template StaticValue<LU::Yard>()}) {
      digest.Add(value);
      std::printf(" ");
      PrintHex(value);
    }
    std::printf("\n");
  }
  std::printf("quantities %s values=%llu digest=%016llx\n", TypeName<T>(),
              static_cast<unsigned long long>(digest.count),
              static_cast<unsigned long long>(digest.hash));
}

// Constant evaluation must keep working.
constexpr double kBoiling = PhQ::ConvertStatically<PhQ::Unit::Temperature,
                                                   PhQ::Unit::Temperature::Celsius,
                                                   PhQ::Unit::Temperature::Fahrenheit>(100.0);
constexpr float kSame = PhQ::ConvertStatically<PhQ::Unit::Temperature,
                                               PhQ::Unit::Temperature::Rankine,
                                               PhQ::Unit::Temperature::Rankine>(0.1F);
constexpr std::array<long double, 3> kArray =
    PhQ::ConvertStatically<PhQ::Unit::TemperatureDifference,
                           PhQ::Unit::TemperatureDifference::Fahrenheit,
                           PhQ::Unit::TemperatureDifference::Kelvin>(
        std::array<long double, 3>{1.0L, -0.0L, 1.2345678901234567890L});
constexpr PhQ::Vector<double> kVector =
    PhQ::ConvertStatically<PhQ::Unit::Length, PhQ::Unit::Length::Mile, PhQ::Unit::Length::Foot>(
        PhQ::Vector<double>{1.0, -2.5, 0.1});
constexpr PhQ::Temperature<double> kTemperature =
    PhQ::Temperature<double>::Create<PhQ::Unit::Temperature::Fahrenheit>(68.0);

}  // namespace

int main() {
  std::printf("constexpr:");
  std::printf(" ");
  PrintHex(kBoiling);
  std::printf(" ");
  PrintHex(kSame);
  for (const long double value : kArray) {
    std::printf(" ");
    PrintHex(value);
  }
  for (const double value : kVector.x_y_z()) {
    std::printf(" ");
    PrintHex(value);
  }
  std::printf(" ");
  PrintHex(kTemperature.Value());
  std::printf(" ");
  PrintHex(kTemperature.StaticValue<PhQ::Unit::Temperature::Celsius>());
  std::printf("\n");

  namespace U = PhQ::Unit;
  // Temperature-related and small unit types: every shape, every ordered pair.
  UnitType<U::Temperature, 4, true, true>("Temperature");
  UnitType<U::TemperatureDifference, 4, true, true>("TemperatureDifference");
  UnitType<U::ReciprocalTemperature, 3, true>("ReciprocalTemperature");
  UnitType<U::ThermalConductivity, 3, true>("ThermalConductivity");
  UnitType<U::HeatCapacity, 4, true>("HeatCapacity");
  UnitType<U::SpecificHeatCapacity, 4, true>("SpecificHeatCapacity");
  UnitType<U::Angle, 5, true>("Angle");
  UnitType<U::Mass, 5, true>("Mass");
  UnitType<U::Time, 6, true>("Time");
  // Everything else: scalar and small-array conversions for every ordered pair.
  UnitType<U::Acceleration, 39, false>("Acceleration");
  UnitType<U::AngularAcceleration, 15, false>("AngularAcceleration");
  UnitType<U::AngularSpeed, 15, false>("AngularSpeed");
  UnitType<U::Area, 15, false>("Area");
  UnitType<U::Diffusivity, 15, false>("Diffusivity");
  UnitType<U::DynamicViscosity, 7, false>("DynamicViscosity");
  UnitType<U::ElectricCharge, 25, false>("ElectricCharge");
  UnitType<U::ElectricCurrent, 11, false>("ElectricCurrent");
  UnitType<U::Energy, 32, false>("Energy");
  UnitType<U::EnergyFlux, 4, false>("EnergyFlux");
  UnitType<U::Force, 9, false>("Force");
  UnitType<U::Frequency, 6, false>("Frequency");
  UnitType<U::Length, 13, false>("Length");
  UnitType<U::MassDensity, 6, false>("MassDensity");
  UnitType<U::MassRate, 15, false>("MassRate");
  UnitType<U::Memory, 22, false>("Memory");
  UnitType<U::MemoryRate, 66, false>("MemoryRate");
  UnitType<U::Power, 9, false>("Power");
  UnitType<U::Pressure, 8, false>("Pressure");
  UnitType<U::SolidAngle, 4, false>("SolidAngle");
  UnitType<U::SpecificEnergy, 4, false>("SpecificEnergy");
  UnitType<U::SpecificPower, 4, false>("SpecificPower");
  UnitType<U::Speed, 39, false>("Speed");
  UnitType<U::SubstanceAmount, 5, false>("SubstanceAmount");
  UnitType<U::TemperatureGradient, 8, false>("TemperatureGradient");
  UnitType<U::TransportEnergyConsumption, 19, false>("TransportEnergyConsumption");
  UnitType<U::Volume, 15, false>("Volume");
  UnitType<U::VolumeRate, 45, false>("VolumeRate");

  Quantities<float>();
  Quantities<double>();
  Quantities<long double>();
  return 0;
}
