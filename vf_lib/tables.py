"""Structured view of PhQ's namespace-scope tables, read from the instantiated AST."""
import re
from . import ev
from .frontend import AnalysisBroken

TABLE_TEMPLATES = {
    "abbr": "PhQ::Internal::Abbreviations",
    "spell": "PhQ::Internal::Spellings",
    "consistent": "PhQ::Internal::ConsistentUnits",
    "related": "PhQ::Internal::RelatedUnitSystems",
    "to_std": "PhQ::Internal::MapOfConversionsToStandard",
    "from_std": "PhQ::Internal::MapOfConversionsFromStandard",
}


def _s(v):
    if isinstance(v, ev.Str) and all(isinstance(p, str) for p in v.parts):
        return "".join(v.parts)
    return None


class Tables:
    def __init__(self, F):
        self.F = F
        self.E = ev.Evaluator(F)
        self.vars = {}   # (kind, enum type) -> variable
        for v in F.vars.values():
            for kind, tmpl in TABLE_TEMPLATES.items():
                if v.get("template") == tmpl:
                    if kind in ("to_std", "from_std") and v["targs"][1] != F.numeric:
                        continue
                    self.vars[(kind, v["targs"][0])] = v
        self.standard = {}   # enum type -> enumerator name
        self.dims = {}       # unit enum type -> variable
        for v in F.vars.values():
            if v.get("template") == "PhQ::Standard":
                val = self.E.rv(self.E.global_value(v))
                if isinstance(val, tuple) and val[0] == "enum":
                    self.standard[v["targs"][0]] = val[2]
            if v.get("template") == "PhQ::RelatedDimensions":
                self.dims[v["targs"][0]] = v

    def enum_types(self):
        return sorted(self.F.enums)

    def unit_types(self):
        return sorted(e for e in self.F.enums if e.startswith("PhQ::Unit::"))

    def enumerators(self, et):
        return [e["n"] for e in self.F.enums[et]["enumerators"]]

    def var(self, kind, et):
        return self.vars.get((kind, et))

    def rows(self, kind, et):
        """[(key, value)] in source order, duplicates preserved; enumerators as names, strings as str,
        functions as fn dicts."""
        v = self.var(kind, et)
        if v is None:
            return None
        out = []
        for k, val in self.E.table_entries(v["id"]):
            out.append((self._norm(k), self._norm(val)))
        return out

    def _norm(self, x):
        s = _s(x)
        if s is not None:
            return s
        if isinstance(x, tuple) and x and x[0] == "enum":
            return ("enum", x[1], x[2])
        if isinstance(x, tuple) and x and x[0] == "fnref":
            return ("fn", self.F.fn(x[1]))
        return ("other", x)

    def dimensions(self, ut):
        """Seven exponents (T, L, M, I, Theta, N, J) declared by RelatedDimensions<ut>, by field name."""
        v = self.dims.get(ut)
        if v is None:
            return None
        lv = self.E.global_value(v)
        val = self.E.rv(lv)
        return dims_of_value(val)


DIM_FIELDS = ["time", "length", "mass", "electric_current", "temperature", "substance_amount", "luminous_intensity"]


def dims_of_value(val):
    """Dimensions object -> dict field -> int exponent."""
    if not isinstance(val, ev.Obj):
        raise AnalysisBroken("RelatedDimensions initialiser is not an object: %r" % (val,))
    out = {}
    for k, sub in val.f.items():
        name = k.rstrip("_")
        x = sub
        while isinstance(x, ev.Obj):
            if len(x.f) != 1:
                raise AnalysisBroken("dimension member %s has %d fields" % (k, len(x.f)))
            x = list(x.f.values())[0]
        if not isinstance(x, int):
            raise AnalysisBroken("dimension exponent %s is not a constant: %r" % (k, x))
        out[name] = x
    return out
