"""C20 — no exceptions and no undefined behaviour on any finite input (the clauses the statement names)."""
import re
from .. import facts, ev, cg, tables, quant, frontend
from ..facts import short, strip_cvref
from ..frontend import NUMERIC

# external callees that are not declared noexcept, classified on their *resolved* qualified names
ALLOC_ONLY = [
    r"std::basic_string<.*>::(append|basic_string|operator=|operator\+=)$", r"std::operator\+$", r"std::to_string$",
    r"std::basic_ostringstream<.*>::(basic_ostringstream|str|~basic_ostringstream)$", r"std::basic_ostream<.*>::operator<<$", r"std::operator<<$",
    r"std::vector<.*>::vector$", r"std::(unordered_)?map<.*>::(unordered_)?map$", r"std::function<.*>::function$",
    r"std::pair<.*>::pair$", r"std::initializer_list<.*>",
]
NO_THROW_IN_PRACTICE = [
    r"std::(abs|pow|sqrt|cbrt|exp|log|log2|log10|acos|clamp|min|max|fixed|scientific|setprecision|replace|transform|move|forward)$",
    r"std::(unordered_)?map<.*>::(find|end|cend|begin|cbegin)$",   # comparing / hashing enum and string_view keys does not throw
    # <algorithm>/<numeric>/<iterator>/<utility> templates: they throw only what the element operations or the callable
    # throw, and the callable is library code (a lambda body is a function of the library, examined like any other)
    r"std::(find_if|find_if_not|distance|transform|equal|all_of|any_of|none_of|accumulate|inner_product|copy|copy_n|fill|fill_n|for_each|begin|end|cbegin|cend|size|data|get|tie|make_tuple|forward_as_tuple|exchange|swap|make_optional|make_pair|as_const|addressof)$",
    r"std::(tuple|pair|reference_wrapper)<.*>",
    r"std::operator(==|!=|<|>|<=|>=)$",   # of tuples of references / arithmetic values (std::tie comparisons)
    r"std::(less|greater|less_equal|greater_equal|equal_to|not_equal_to)<.*>::operator\(\)$",   # the built-in comparison of the arguments
    r"std::(less|greater|less_equal|greater_equal|equal_to|not_equal_to)<.*>::(less|greater|less_equal|greater_equal|equal_to|not_equal_to)$",
    r"(acos|sqrt|pow|cbrt|exp|log|log2|log10|tolower|toupper|abs|fabs)$",
    # <cmath>: report errors through errno / floating-point exceptions, never by throwing
    r"(std::)?(a?sin|a?cos|a?tan|atan2|sinh|cosh|tanh|asinh|acosh|atanh|hypot|fabs|fmin|fmax|fdim|fma|floor|ceil|round|trunc|fmod|remainder|exp2|expm1|log1p|"
    r"isnan|isinf|isfinite|isnormal|copysign|signbit|nextafter|ldexp|frexp|modf|erf|erfc|tgamma|lgamma)[fl]?$",
]
MAY_THROW = {
    r"std::(unordered_)?map<.*>::at$": "std::out_of_range when the key is absent",
    r"std::function<.*>::operator\(\)$": "std::bad_function_call when empty",
    r"std::sto(f|d|ld|i|l|ll|ul|ull)$": "std::invalid_argument / std::out_of_range",
    r"std::optional<.*>::value$": "std::bad_optional_access",
    r"std::(vector|array|basic_string|basic_string_view)<.*>::at$": "std::out_of_range",
}
SIGNED = {"int", "long", "long long", "short", "signed char", "char", "int8_t"}


ARITH_SEQ = re.compile(r"(const )?std::(array<(float|double|long double|int|unsigned long|char), \d+>|basic_string<char.*>|basic_string_view<char.*>) ?&?$")


def classify_extern(g, F=None):
    if g.get("nothrow") is True:
        return "noexcept", None
    qn = g.get("qname", g["name"])
    if F is not None and re.match(r"std::operator(==|!=|<=|>=|<|>)$", qn) and g.get("params") \
            and all(ARITH_SEQ.match(F.T(p["t"])) for p in g["params"]):
        return "nothrow_in_practice", None    # element-wise comparison of arithmetic / character sequences cannot throw
    for pat, why in MAY_THROW.items():
        if re.search(pat, qn):
            return "may_throw", why
    for pat in ALLOC_ONLY:
        if re.search(pat, qn):
            return "alloc_only", None
    for pat in NO_THROW_IN_PRACTICE:
        if re.search(pat, qn):
            return "nothrow_in_practice", None
    return "unclassified", None


def calls_with_context(f):
    """Yield (call node, inside_try_with_catch_all) for every call/ctor node in f's body."""
    out = []

    def rec(n, guarded):
        if isinstance(n, dict):
            if n.get("k") == "try":
                g = guarded or any(h.get("catch_all") and not has_throw(h.get("body")) for h in n.get("handlers", []))
                rec(n.get("body"), g)
                for h in n.get("handlers", []):
                    rec(h.get("body"), guarded)
                return
            if n.get("k") in ("call", "ctor") and "f" in n:
                out.append((n, guarded))
            for v in n.values():
                rec(v, guarded)
        elif isinstance(n, list):
            for v in n:
                rec(v, guarded)
    rec(f.get("body"), False)
    rec(f.get("inits"), False)
    return out


def is_local_helper(g):
    """A lambda's call operator or a PhQ::Internal function: code that only the library itself calls."""
    qn = g.get("qname", g.get("name", ""))
    return "(anonymous class)::operator()" in qn or "(lambda" in qn or qn.startswith("PhQ::Internal::")


_SITE_GUARDS = {}


def site_guards(F):
    """callee id -> [guarded?] over every call site in a library body."""
    key = id(F)
    if key not in _SITE_GUARDS:
        m = {}
        for f in F.fns.values():
            if "body" in f and f["loc"].startswith(frontend.INC):
                for n, g in calls_with_context(f):
                    m.setdefault(n["f"], []).append((f["id"], g))
        _SITE_GUARDS.clear()
        _SITE_GUARDS[key] = m
    return _SITE_GUARDS[key]


def always_called_guarded(F, f, seen=None):
    """Is every call of the local helper f (transitively through local helpers) inside a try with a non-rethrowing catch(...)?"""
    seen = seen or set()
    if f["id"] in seen or not is_local_helper(f):
        return False
    seen.add(f["id"])
    sites = site_guards(F).get(f["id"], [])
    if not sites:
        return False
    for caller_id, g in sites:
        if g:
            continue
        caller = F.fns.get(caller_id)
        if caller is None or not always_called_guarded(F, caller, seen):
            return False
    return True


def deep_calls(F, f, guarded0=False, depth=0):
    """Calls of f together with the calls of the local helpers it invokes (a helper's calls are guarded if the helper's call site is)."""
    out = []
    for n, g in calls_with_context(f):
        out.append((n, g or guarded0))
        callee = F.fns.get(n["f"])
        if callee is not None and "body" in callee and is_local_helper(callee) and depth < 4:
            out += deep_calls(F, callee, g or guarded0, depth + 1)
    return out


def function_tables(F, f, depth=0):
    """Tables of stored std::function objects that f looks up - in its own body or, when it has none, inside the local
    helpers (PhQ::Internal functions, lambdas) it calls that hand a stored function out."""
    aliases = reference_aliases(F, f)
    cs = calls_with_context(f)
    tabs = [t for m, _ in cs for t in tables_of_call(F, m, aliases, f) if "function<" in F.T(t["t"])]
    if tabs or depth > 3:
        return tabs
    for m, _ in cs:
        h = F.fns.get(m["f"])
        if h is not None and "body" in h and is_local_helper(h) and h["id"] != f["id"]:
            tabs += function_tables(F, h, depth + 1)
    return tabs


INT_BITS = {"int": 32, "long": 64, "long long": 64, "short": 16, "signed char": 8, "char": 8, "int8_t": 8}


def int_range(F, n, depth=0):
    """(lo, hi) of an integer expression whose value is confined by its form: a constant, or an element of a
    namespace-scope / static-member constexpr std::array of constants (whatever the index), through casts.  None otherwise."""
    if not isinstance(n, dict) or depth > 6:
        return None
    if "cv" in n:
        try:
            return int(n["cv"]), int(n["cv"])
        except (TypeError, ValueError):
            return None
    k = n.get("k")
    if k == "ilit":
        return int(n["val"]), int(n["val"])
    if k in ("cast", "paren") or (k == "ilist" and len(n.get("e", [])) == 1):
        inner = int_range(F, n.get("e") if k != "ilist" else n["e"][0], depth + 1)
        if inner is None and k == "cast" and n.get("ck") == "IntegralCast":
            # an operand promoted from a narrower integer type can only hold that type's values
            w = ev.INT_WIDTH.get(strip_cvref(F.T(n.get("from", -1)) or ""))
            if w and w[0] < 32:
                return (-(1 << (w[0] - 1)), (1 << (w[0] - 1)) - 1) if w[1] else (0, (1 << w[0]) - 1)
        return inner
    if k == "call" and "f" in n:
        g = F.fns.get(n["f"])
        if g is not None and g["sname"] in ("operator[]", "at") and re.match(r"std::array<", g.get("qname", "")):
            o = _strip(n.get("obj"))
            if isinstance(o, dict) and o.get("k") == "gvar" and o["v"] in F.vars and F.vars[o["v"]].get("init") is not None:
                try:
                    E = ev.Evaluator(F)
                    val = E.rv(E.eval(o, {"f": {"name": "range"}, "params": [], "locals": {}, "this": None}))
                    items = [t for _, t in ev.flatten(val)]
                    if items and all(isinstance(t, int) and not isinstance(t, bool) for t in items):
                        return min(items), max(items)
                except ev.Inconclusive:
                    return None
    return None


def contains_oob(t):
    if isinstance(t, tuple):
        return bool(t) and (t[0] == "oob" or any(contains_oob(x) for x in t))
    if isinstance(t, ev.Obj):
        return any(contains_oob(v) for v in t.f.values())
    if isinstance(t, ev.Arr):
        return any(contains_oob(v) for v in t.items)
    if isinstance(t, ev.Str):
        return any(contains_oob(v) for v in t.parts)
    return False


def index_bounded_by_callers(F, f, depth=0, seen=None):
    """A local helper indexes an array with a parameter: decided at its call sites.  Every library caller is evaluated
    (the helper is inlined there with the caller's - conditional or concrete - argument); (True, n callers) if every
    element access on every path of every caller is inside its array, (False, why) if one leaves it, (None, why) if
    undecided (no caller, or a caller that cannot be evaluated)."""
    seen = seen or set()
    if f["id"] in seen or depth > 3 or not is_local_helper(f):
        return None, "not a helper that only the library calls"
    seen.add(f["id"])
    callers = sorted({cid for cid, _ in site_guards(F).get(f["id"], [])})
    if not [c for c in callers if c != f["id"]]:
        return None, "no call site in the library"
    for cid in callers:
        if cid in seen:
            continue      # the helper's own recursive call: followed concretely when the outer callers are evaluated
        c = F.fns.get(cid)
        if c is None or "body" not in c:
            return None, "caller without body"
        try:
            E = ev.Evaluator(F)
            res, _, _ = E.run_symbolic(c)
            if contains_oob(E.rv(res) if res is not None else None):
                return False, "called from %s with an index that can lie outside the array" % c["name"]
        except ev.Inconclusive as x:
            if str(x).startswith("bad array"):
                return False, "called from %s: %s" % (c["name"], x)
            if "symbolic array index" in str(x):
                ok, why = index_bounded_by_callers(F, c, depth + 1, seen)
                if ok is not True:
                    return ok, why
                continue
            return None, "caller %s could not be evaluated (%s)" % (c["name"], str(x)[:80])
    return True, "%d caller(s)" % len(callers)


def has_throw(tree):
    found = []
    cg.walk(tree, lambda n: found.append(1) if n.get("k") == "throw" else None)
    return bool(found)


def _strip(o):
    while isinstance(o, dict) and (o.get("k") == "cast" or (o.get("k") == "ilist" and len(o.get("e", [])) == 1)):
        o = o.get("e") if o.get("k") == "cast" else o["e"][0]
    return o


def reference_aliases(F, f):
    """Locals of f declared as references and bound to a namespace-scope variable: {local id: variable id}."""
    out = {}

    def visit(n):
        if n.get("k") == "decl":
            for d in n.get("d", []):
                if (F.T(d["t"]) or "").rstrip().endswith("&"):
                    o = _strip(d.get("init"))
                    if isinstance(o, dict) and o.get("k") == "gvar":
                        out[d["i"]] = o["v"]
    cg.walk(f.get("body"), visit)
    return out


_CALLSITES = {}


def call_sites(F):
    """callee id -> [call nodes] over all library bodies (for tables handed to a local lambda / helper as an argument)."""
    key = id(F)
    if key not in _CALLSITES:
        sites = {}
        for f in F.fns.values():
            if "body" not in f:
                continue

            def visit(n):
                if n.get("k") in ("call", "ctor") and "f" in n:
                    sites.setdefault(n["f"], []).append(n)
            cg.walk(f.get("body"), visit)
        _CALLSITES.clear()
        _CALLSITES[key] = sites
    return _CALLSITES[key]


def table_of_call(F, n, aliases=None, owner=None):
    """If call node n is a member call on a namespace-scope table - directly, through a local reference to it, or through a
    reference parameter of `owner` that every call site of `owner` binds to such a table - return that variable (the
    first one; all of them must be total for R1/R2, see tables_of_call)."""
    ts = tables_of_call(F, n, aliases, owner)
    return ts[0] if ts else None


def tables_of_call(F, n, aliases=None, owner=None):
    o = _strip(n.get("obj"))
    if isinstance(o, dict) and o.get("k") == "gvar":
        v = F.vars.get(o["v"])
        return [v] if v is not None else []
    if isinstance(o, dict) and o.get("k") == "local" and aliases and o.get("i") in aliases:
        v = F.vars.get(aliases[o["i"]])
        return [v] if v is not None else []
    if isinstance(o, dict) and o.get("k") == "parm" and owner is not None and o.get("fn", owner["id"]) == owner["id"]:
        out = []
        sites = call_sites(F).get(owner["id"], [])
        for c in sites:
            args = c.get("a", [])
            if o["i"] >= len(args):
                return []
            a = _strip(args[o["i"]])
            if not (isinstance(a, dict) and a.get("k") == "gvar" and a["v"] in F.vars):
                return []
            out.append(F.vars[a["v"]])
        return out
    return []


def run(chk):
    chk.level = "other"
    chk.technique = ("structural rules over all instantiated bodies: every external callee classified by its resolved declaration (noexcept / "
                     "allocation-only / may-throw); may-throw calls must be discharged by table totality or an enclosing catch(...); unchecked "
                     "find()/at()/std::function calls tied to total tables; definite-initialisation via the term evaluator; scans for casts to "
                     "enumeration types and signed integer arithmetic; positive controls compiled with every run")
    chk.rule("R1", "every unchecked find()->second, every .at() and every call through a stored std::function is on a table that is total over its key enumeration with non-empty targets")
    chk.rule("R2", "every call from the library to a non-library function is noexcept, allocation-only (std::bad_alloc), or a may-throw call that is discharged by R1 or lies in a try with a non-rethrowing catch(...)")
    chk.rule("R3", "ParseNumber<T>: the throwing strto* call is inside try/catch(...), every path returns a value or nullopt; ParseEnumeration is a checked find")
    chk.rule("R4", "no local declared without initialiser reaches a result unassigned; every constructor with arguments leaves every stored slot assigned")
    chk.rule("R5", "no cast to an enumeration type; no non-constant signed integer arithmetic")
    chk.rule("R6", "no element access (operator[], front, back) on a std::vector of unknown size; every std::array index is a constant inside the array")
    chk.rule("R8", "no library function writes a variable with static storage duration and no function-local static is non-const (no hidden mutable state)")
    chk.rule("R7", "no reference variable or returned reference is bound to the result of a call that returns a reference when an argument of that call is a temporary (std::clamp/min/max idiom)")
    chk.rule("R9", "no operator* / operator-> on a std::optional in a function that never tests it (has_value / bool); no integer division or remainder by a non-constant divisor")
    chk.rule("R10", "no unbounded recursion: the resolved call graph of the instantiated library functions has no cycle, or every function on a cycle, evaluated on "
                    "symbolic inputs, returns on every path within the evaluator's call depth (a path that keeps re-entering the cycle without progress exhausts the stack)")
    chk.rule("R0", "positive controls: the scanners fire on a control TU fragment containing each forbidden construct")
    chk.assumptions += ["static analysis decides the clauses the statement names (lookups hit, exception escape, parser totality, definite initialisation inside "
                        "the library, integer/enum discipline); general memory safety beyond these clauses is NOT decided",
                        "std::tolower/toupper on negative char values (non-ASCII input to Lowercase/Uppercase/SnakeCase) is formally UB and is recorded as an observation, not armed; these helpers are not on the parsing paths",
                        "default constructors leave values uninitialised by documented design"]
    controls = {"cast": 0, "signed": 0, "unchecked": 0, "uninit": 0, "throw": 0, "vector_element": 0, "array_element": 0, "dangling": 0, "state": 0, "optional_deref": 0, "int_div": 0}
    n_calls = 0
    helper_discharged, helper_deferred = set(), {}
    var_index_fns = set()
    n_array_idx = [0]
    for T in NUMERIC:
        F = facts.load(T, chk.tier)
        TT = tables.Tables(F)
        total_cache = {}

        def table_total(v):
            """(ok, why) : keys of the table = all enumerators of its key enum; std::function values are function references."""
            if v["id"] in total_cache:
                return total_cache[v["id"]]
            m = re.match(r"(?:const )?std::(?:unordered_)?map<([^,]+),", F.T(v["t"]))
            key_t = m.group(1).strip() if m else None
            if key_t not in F.enums:
                r = (None, "key type %s is not an enumeration" % key_t)
            else:
                rows = TT.E.table_entries(v["id"])
                keys = {k[2] for k, _ in rows if isinstance(k, tuple) and k[0] == "enum"}
                missing = [e["n"] for e in F.enums[key_t]["enumerators"] if e["n"] not in keys]
                empty = [k for k, val in rows if "function<" in F.T(v["t"]) and not (isinstance(val, tuple) and val[0] == "fnref")]
                if missing:
                    r = (False, "table %s has no entry for %s" % (v["name"], missing[:4]))
                elif empty:
                    r = (False, "table %s stores a non-function target for %s" % (v["name"], empty[:2]))
                else:
                    r = (True, "%d keys = all enumerators of %s" % (len(keys), key_t))
            total_cache[v["id"]] = r
            return r

        for f in F.fns.values():
            if "body" not in f:
                continue
            is_control = f["name"].startswith("phq_verif_control")
            if not is_control and not f["loc"].startswith(frontend.INC):
                continue   # standard-library bodies dumped for other checks are not library code
            qn = f.get("qname", f["name"])
            loc = short(f.get("def_loc", f["loc"]))
            calls = calls_with_context(f)
            aliases = reference_aliases(F, f)
            # which tables does f compare against end()?
            checked_tables = set()
            for n, _ in calls:
                g = F.fns.get(n["f"])
                if g is not None and g["sname"] in ("end", "cend"):
                    for v in tables_of_call(F, n, aliases, f):
                        checked_tables.add(v["id"])
            opt_tested = any(F.fns.get(n["f"], {}).get("sname") in ("has_value", "operator bool") and "std::optional<" in F.fns.get(n["f"], {}).get("qname", "") for n, _ in calls)
            for n, _ in calls:
                g = F.fns.get(n["f"])
                if g is not None and g["sname"] in ("operator*", "operator->") and re.match(r"std::optional<", g.get("qname", "")) and not opt_tested:
                    if is_control:
                        controls["optional_deref"] += 1
                    else:
                        chk.violated("R9", "%s: optional dereference" % f["name"], "%s on a std::optional that this function never tests: undefined behaviour when it is empty" % g["sname"], loc)
            checked_any_end = any(F.fns.get(n["f"], {}).get("sname") in ("end", "cend") for n, _ in calls)
            iter_derefs = any(F.fns.get(n["f"], {}).get("sname") in ("operator->", "operator*") and "iterator" in F.fns.get(n["f"], {}).get("qname", "") for n, _ in calls)
            for n, guarded in calls:
                g = F.fns.get(n["f"])
                if g is None or not g.get("extern") or g["loc"].startswith(frontend.INC):
                    continue
                n_calls += 1
                kind, why = classify_extern(g, F)
                gq = g.get("qname", g["name"])
                inst = "%s -> %s" % (f["name"], re.sub(r"<.*", "<..>", gq) + "::" + g["sname"] if "::" + g["sname"] not in gq else re.sub(r"<.*>", "<..>", gq))
                # R1: table reads
                tabs_here = tables_of_call(F, n, aliases, f)
                v = tabs_here[0] if tabs_here else None
                is_map_lookup = g["sname"] in ("find", "at") and re.match(r"std::(unordered_)?map<", gq or "")
                if v is not None and g["sname"] in ("find", "at"):
                    unchecked = g["sname"] == "at" or (not all(t["id"] in checked_tables for t in tabs_here) and iter_derefs)
                    if unchecked:
                        for t in tabs_here:
                            ok, tw = table_total(t)
                            if ok is True:
                                chk.holds("R1", "%s reads %s" % (f["name"], t["name"]), "unchecked %s; %s" % (g["sname"], tw), loc)
                            elif ok is False:
                                chk.violated("R1", "%s reads %s" % (f["name"], t["name"]), "unchecked %s but %s" % (g["sname"], tw), loc)
                            else:
                                chk.inconclusive("R1", "%s reads %s" % (f["name"], t["name"]), tw, loc)
                    else:
                        chk.holds("R1", "%s reads %s" % (f["name"], v["name"]), "checked find (compared with end())", loc, nontrivial=False)
                elif is_map_lookup and not is_control and (g["sname"] == "at" or (iter_derefs and not checked_any_end)) and not guarded:
                    chk.violated("R1", "%s: lookup in an unknown map" % f["name"],
                                 "unchecked %s on a map that is not one of the library's total tables (nor a parameter that every caller binds to one)" % g["sname"], loc)
                elif g["sname"] == "find" and is_control and "map<" in gq:
                    controls["unchecked"] += 1
                # R6: element access must be in bounds
                if re.search(r"std::vector<.*>::(operator\[\]|front|back)$", gq) or re.search(r"std::vector<.*>::operator\[\]", g["name"]):
                    if is_control:
                        controls["vector_element"] += 1
                    else:
                        chk.violated("R6", "%s: std::vector element access" % f["name"],
                                     "%s on a std::vector of unknown size: undefined behaviour for an empty sequence (use data() for a possibly empty range)" % g["sname"], loc)
                elif g["sname"] == "operator[]" and re.search(r"std::array<", gq):
                    idx = n["a"][0] if n.get("a") else None
                    m = re.search(r"std::array<.*, (\d+)>", F.T(g.get("parent", -1)) or "")
                    N = int(m.group(1)) if m else None
                    iv = None
                    if isinstance(idx, dict):
                        iv = int(idx["cv"]) if "cv" in idx else (int(idx["val"]) if idx.get("k") == "ilit" else None)
                    if is_control:
                        controls["array_element"] += 1 if iv is None else 0
                    elif iv is not None and N is not None and 0 <= iv < N:
                        n_array_idx[0] += 1
                    elif iv is not None:
                        chk.violated("R6", "%s: std::array index" % f["name"], "index %s is not inside [0, %s)" % (iv, N), loc)
                    elif f["id"] not in var_index_fns:
                        # a computed index (loop variable): decided path-sensitively - the evaluator unrolls loops with
                        # concrete bounds and refuses any element access that is not a concrete index inside the array
                        var_index_fns.add(f["id"])
                        try:
                            E = ev.Evaluator(F)
                            E.run_symbolic(f)
                            chk.holds("R6", "%s: computed std::array index" % f["name"], "every index evaluated on every path is a concrete value inside the array (loops unrolled)", loc)
                        except ev.Inconclusive as x:
                            if str(x).startswith("bad array"):
                                chk.violated("R6", "%s: std::array index" % f["name"], "an element access leaves the array: %s" % x, loc)
                            elif "symbolic array index" in str(x) and is_local_helper(f):
                                ok, why = index_bounded_by_callers(F, f)
                                if ok is True:
                                    chk.holds("R6", "%s: std::array index" % f["name"], "the index is a parameter of a helper only the library calls; at every call site (%s, evaluated with the helper inlined) every access is inside the array" % why, loc)
                                elif ok is False:
                                    chk.violated("R6", "%s: std::array index" % f["name"], why, loc)
                                else:
                                    chk.inconclusive("R6", "%s: std::array index" % f["name"], "the index is a parameter and the call sites do not bound it: %s" % why, loc)
                            else:
                                chk.inconclusive("R6", "%s: std::array index" % f["name"], "index is not a constant and the function could not be evaluated to bound it (%s)" % str(x)[:120], loc)
                if kind == "unclassified":
                    chk.inconclusive("R2", inst, "external callee %s is not in the classification table (noexcept=%s): add it with a reason" % (gq, g.get("nothrow")), loc)
                elif kind == "may_throw":
                    if is_control:
                        controls["throw"] += 1
                        continue
                    discharged = None
                    if guarded:
                        discharged = "inside try { } catch (...) that does not rethrow"
                    elif always_called_guarded(F, f):
                        discharged = "in a local helper whose every call site lies inside try { } catch (...) that does not rethrow"
                    elif g["sname"] == "at" and tabs_here and all(table_total(t)[0] is True for t in tabs_here):
                        discharged = "key always present: " + table_total(tabs_here[0])[1]
                    elif g["sname"] == "operator()" and "std::function" in gq:
                        # the std::function comes out of a conversion table lookup in the same function
                        tabs = function_tables(F, f)
                        if tabs and all(table_total(t)[0] is True for t in tabs):
                            discharged = "target read from total table(s) of function references: %s" % ", ".join(sorted({re.sub(r"<.*", "", t["name"]) for t in tabs}))
                    if discharged:
                        chk.holds("R2", inst, "%s; %s" % (why, discharged), loc)
                        if is_local_helper(f):
                            helper_discharged.add(inst)
                    elif is_local_helper(f) and not site_guards(F).get(f["id"]):
                        # a non-template helper (an explicit specialisation for another numeric type) that nothing in
                        # *this* instantiation set calls: decided where it is called (the instantiation for its own type)
                        helper_deferred.setdefault(inst, ("may throw %s" % why, loc))
                    else:
                        chk.violated("R2", inst, "may throw %s and nothing discharges it (no enclosing catch(...), table not proved total)" % why, loc)
            # R5 scans
            def visit(n, f=f, is_control=is_control, loc=loc):
                k = n.get("k")
                if k == "throw" and not is_control:
                    chk.violated("R2", "%s: throw" % f["name"], "the library itself throws an exception", loc)
                if k == "cast" and n.get("nttp"):
                    return      # the compiler's own conversion of a non-type template argument (a converted constant expression)
                if k == "cast" and n.get("ck") in ("IntegralCast",) and F.T(n.get("t", -1)) and strip_cvref(F.T(n["t"])) in F.enums or \
                        (k == "cast" and n.get("ck") == "IntegralCast" and strip_cvref(F.T(n.get("t", -1)) or "").startswith("phq_verif_control::E")):
                    if is_control:
                        controls["cast"] += 1
                    else:
                        chk.violated("R5", "%s: cast to %s" % (f["name"], F.T(n["t"])), "a cast to an enumeration type can produce an invalid enumerator, which then misses every table", loc)
                if k in ("bin", "cassign") and n.get("op", "").rstrip("=") in ("+", "-", "*") and "cv" not in n:
                    t = strip_cvref(F.T(n.get("t", -1)) or "")
                    if t in SIGNED:
                        ra, rb = int_range(F, n.get("l")), int_range(F, n.get("r"))
                        bits = INT_BITS.get(t, 32)
                        fits = False
                        if ra and rb and k == "bin":
                            combos = [x + y if n["op"] == "+" else x - y if n["op"] == "-" else x * y for x in ra for y in rb]
                            fits = -(1 << (max(bits, 32) - 1)) <= min(combos) and max(combos) < (1 << (max(bits, 32) - 1))
                        if not fits and not is_control:
                            # not confined by its form: decided by evaluation - every value this operation takes on every path
                            # the evaluator follows must be a concrete integer (or a choice among concrete integers) in range
                            if "_int_ops" not in f:
                                E_ = ev.Evaluator(F)
                                E_.record_int_ops = {}
                                try:
                                    E_.run_symbolic(f)
                                except ev.Inconclusive:
                                    pass
                                f["_int_ops"] = E_.record_int_ops
                            seen_vals = f["_int_ops"].get(id(n))

                            def leaves_(x):
                                if isinstance(x, tuple) and len(x) == 4 and x[0] == "g":
                                    return leaves_(x[2]) + leaves_(x[3])
                                return [x]
                            if seen_vals and all(ev._int_choice(v) for v in seen_vals):
                                allv = [y for v in seen_vals for y in leaves_(v)]
                                fits = all(-(1 << (max(bits, 32) - 1)) <= y < (1 << (max(bits, 32) - 1)) for y in allv)
                                ra, rb = ("evaluated", (min(allv), max(allv))), ""
                        if is_control:
                            controls["signed"] += 1
                        elif fits:
                            chk.holds("R5", "%s: signed %s" % (f["name"], n.get("op")), "operands confined to %s and %s by their form (constants / elements of constant tables): cannot overflow" % (ra, rb), loc)
                        else:
                            chk.violated("R5", "%s: signed %s" % (f["name"], n.get("op")), "non-constant signed integer arithmetic of type %s can overflow" % t, loc)
            cg.walk(f.get("body"), visit)

            def visit_div(n, f=f, is_control=is_control, loc=loc):
                if n.get("k") in ("bin", "cassign") and n.get("op", "").rstrip("=") in ("/", "%") and "cv" not in n:
                    t = strip_cvref(F.T(n.get("t", -1)) or "")
                    r = n.get("r")
                    if (t in SIGNED or t.startswith("unsigned") or t in ("size_t", "std::size_t")) and not (isinstance(r, dict) and ("cv" in r or r.get("k") == "ilit")):
                        if is_control:
                            controls["int_div"] += 1
                        else:
                            chk.violated("R9", "%s: integer %s" % (f["name"], n.get("op")), "integer division by a divisor that is not a constant: undefined behaviour when it is zero", loc)
            cg.walk(f.get("body"), visit_div)
            # R8: no hidden mutable state (results must be functions of the inputs, for every history of calls)
            def visit_state(n, f=f, is_control=is_control, loc=loc):
                k = n.get("k")
                tgt = None
                if k == "cassign" or (k == "bin" and n.get("op") == "="):
                    tgt = n.get("l")
                elif k == "un" and n.get("op") in ("++", "--"):
                    tgt = n.get("e")
                if isinstance(tgt, dict) and (tgt.get("k") == "gvar" or (tgt.get("k") == "local" and tgt.get("static"))):
                    if is_control:
                        controls["state"] += 1
                    else:
                        what = F.vars[tgt["v"]]["name"] if tgt.get("k") == "gvar" and tgt.get("v") in F.vars else tgt.get("n", "?")
                        chk.violated("R8", "%s: writes %s" % (f["name"], what), "a library function modifies a variable with static storage duration: results depend on the history of calls", loc)
                if k == "decl":
                    for d in n.get("d", []):
                        if d.get("static") and not (F.T(d["t"]) or "").startswith("const "):
                            if is_control:
                                controls["state"] += 1
                            else:
                                chk.violated("R8", "%s: static %s" % (f["name"], d["n"]), "non-const function-local static: hidden mutable state shared by all calls", loc)
            cg.walk(f.get("body"), visit_state)
            # R7: a reference that outlives the temporary it (may) refer to
            def unwrap(n):
                while isinstance(n, dict) and n.get("k") == "ilist" and len(n.get("e", [])) == 1:
                    n = n["e"][0]
                return n

            def returns_ref(n):
                n = unwrap(n)
                if not isinstance(n, dict) or n.get("k") != "call" or "f" not in n:
                    return False
                g = F.fns.get(n["f"])
                return g is not None and (F.T(g["ret"]) or "").rstrip().endswith("&")

            def temp_args(n):
                """Temporaries whose lifetime the returned reference may depend on: for a free function any reference
                argument (std::min/max/clamp return one of them); for a non-static member function only the object
                itself (members return *this or a part of it: `return *this = T(other);` is fine)."""
                n = unwrap(n)
                g = F.fns.get(n.get("f"))
                o = n.get("obj")
                if g is not None and g.get("kind") == "method" and not g.get("static") and isinstance(o, dict):
                    if g.get("sname") in ("operator*", "operator->", "get") and re.search(r"iterator|reference_wrapper|_ptr<", g.get("qname", "")):
                        return []      # dereferencing a temporary iterator / handle yields a reference to the pointee, which outlives it
                    return [o] if o.get("mat") == "tmp" else []
                out = [a for a in n.get("a", []) if isinstance(a, dict) and a.get("mat") == "tmp"]
                if isinstance(o, dict) and o.get("mat") == "tmp":
                    out.append(o)
                return out

            def visit_ref(n, f=f, is_control=is_control, loc=loc):
                k = n.get("k")
                cands = []
                if k == "decl":
                    for d in n.get("d", []):
                        if (F.T(d["t"]) or "").rstrip().endswith("&") and returns_ref(d.get("init")) and temp_args(d["init"]):
                            cands.append(("local reference `%s`" % d["n"], unwrap(d["init"])))
                if k == "ret" and (F.T(f["ret"]) or "").rstrip().endswith("&") and returns_ref(n.get("e")) and temp_args(n["e"]):
                    cands.append(("returned reference", unwrap(n["e"])))
                for what, call in cands:
                    g = F.fns.get(call["f"])
                    if is_control:
                        controls["dangling"] += 1
                    else:
                        chk.violated("R7", "%s: %s" % (f["name"], what),
                                     "%s is bound to the reference returned by %s, one of whose reference arguments is a temporary destroyed at the end of the "
                                     "declaration: reading it afterwards is undefined behaviour (stack-use-after-scope)" % (what, g["name"]), loc)
            cg.walk(f.get("body"), visit_ref)
            # R4 uninitialised locals
            uninit = []
            cg.walk(f.get("body"), lambda n: uninit.extend(d for d in n.get("d", []) if "init" not in d and not (F.T(d["t"]) or "").startswith("std::")) if n.get("k") == "decl" else None)
            if uninit:
                inst = "%s: local %s" % (f["name"], ",".join(d["n"] for d in uninit))
                try:
                    E = ev.Evaluator(F)
                    res, this_lv, args = E.run_symbolic(f)
                    vals = [E.rv(res)] if res is not None else []
                    if this_lv is not None:
                        vals.append(E.load(this_lv))
                    bad = contains_undef(vals)
                    if is_control:
                        controls["uninit"] += 1 if bad else 0
                    elif bad:
                        chk.violated("R4", inst, "declared without initialiser and read before assignment on some path", loc)
                    else:
                        chk.holds("R4", inst, "assigned on every path before it is read", loc)
                except ev.Inconclusive as x:
                    if not is_control:
                        chk.inconclusive("R4", inst, str(x), loc)
        # R4 constructors leave every slot assigned
        inv = quant.inventory(F)
        # quantity classes, the four tensor classes, Dimensions and the constitutive models: every class with state
        ctor_classes = [name for name, q in sorted(inv.items()) if q.kind != "base"]
        ctor_classes += sorted(n for n, r in F.records.items()
                               if n.startswith("PhQ::") and n not in inv and r.get("fields") and r["loc"].startswith(frontend.INC)
                               and (n.endswith("<%s>" % T) or "<" not in n) and not n.startswith("PhQ::Internal"))
        for name in ctor_classes:
            for f in F.methods(name):
                if f["kind"] != "ctor" or "body" not in f or not f["params"] or f.get("copy_ctor") or f.get("move_ctor"):
                    continue
                pts = F.param_types(f)
                conc = {}
                skip = False
                for i, t in enumerate(pts):
                    st = strip_cvref(t)
                    if st in F.enums:
                        std = TT.standard.get(st)
                        if std is None:
                            skip = True
                        conc[i] = ("enum", st, std)
                if skip:
                    continue
                inst = "%s(%s)" % (f["name"], ", ".join(strip_cvref(t).replace("PhQ::", "") for t in pts))
                try:
                    E = ev.Evaluator(F)
                    _, this_lv, _ = E.run_symbolic(f, concrete=conc)
                    if contains_undef([E.load(this_lv)]):
                        chk.violated("R4", inst, "constructor leaves a stored component unassigned, or computes it from a member that is not initialised yet "
                                                 "(members are initialised in declaration order, whatever the order of the initialiser list)", short(f.get("def_loc", f["loc"])))
                    else:
                        chk.holds("R4", inst, "all slots assigned", short(f.get("def_loc", f["loc"])), nontrivial=False)
                except ev.Inconclusive as x:
                    chk.inconclusive("R4", inst, str(x), short(f["loc"]))
        # R7 (views): a std::string_view that outlives the std::string it was made from
        def view_of_temporary(tree):
            hits = []

            def visit(n):
                if n.get("k") == "call" and "f" in n:
                    g = F.fns.get(n["f"])
                    if g is not None and g.get("sname", "").startswith("operator basic_string_view"):
                        o = n.get("obj")
                        while isinstance(o, dict) and o.get("k") == "cast":
                            o = o.get("e")
                        if isinstance(o, dict) and o.get("mat") == "tmp":
                            hits.append(("a temporary std::string", n))
                        elif isinstance(o, dict) and o.get("k") == "local" and not o.get("static"):
                            hits.append(("the local std::string `%s`" % o.get("n", "?"), n))
                if n.get("k") == "ctor" and "basic_string_view" in (F.T(n.get("t", -1)) or ""):
                    # e.g. std::pair<const string_view, E>{std::string temporary, e}: the conversion to the view happens
                    # inside the standard library's constructor, the temporary dies at the end of the full-expression
                    for a in n.get("a", []):
                        b = a
                        while isinstance(b, dict) and b.get("k") == "cast":
                            b = b.get("e")
                        if isinstance(b, dict) and (a.get("mat") == "tmp" or b.get("mat") == "tmp") \
                                and strip_cvref(F.T(b.get("t", -1)) or "").startswith("std::basic_string<"):
                            hits.append(("a temporary std::string", n))
            cg.walk(tree, visit)
            return hits
        if T == "double":
            for v in F.vars.values():
                if not v.get("under_root") or v.get("init") is None:
                    continue
                tv = F.T(v["t"]) or ""
                if "basic_string_view" not in tv:
                    continue
                for what, _ in [h for h in view_of_temporary(v["init"]) if h[0].startswith("a temporary")]:
                    chk.violated("R7", "%s: string_view of a temporary" % v["name"],
                                 "the initialiser of %s stores a std::string_view made from %s, which is destroyed at the end of the "
                                 "initialisation: every later use of the view (lookups in this table included) reads freed memory" % (v["name"], what), short(v["loc"]))
            for f in F.fns.values():
                if "body" not in f or not f["loc"].startswith(frontend.INC):
                    continue
                if "basic_string_view" in (F.T(f["ret"]) or ""):
                    rets = []
                    cg.walk(f.get("body"), lambda n: rets.append(n) if n.get("k") == "ret" and n.get("e") is not None else None)
                    for r_ in rets:
                        for what, _ in view_of_temporary(r_["e"]):
                            chk.violated("R7", "%s: returned string_view" % f["name"], "returns a std::string_view of %s, which does not outlive the call" % what, short(f.get("def_loc", f["loc"])))
                decls = []
                cg.walk(f.get("body"), lambda n: decls.extend(n.get("d", [])) if n.get("k") == "decl" else None)
                for d in decls:
                    if "basic_string_view" in (F.T(d["t"]) or "") and d.get("init") is not None:
                        for what, _ in [h for h in view_of_temporary(d["init"]) if h[0].startswith("a temporary")]:
                            chk.violated("R7", "%s: string_view `%s`" % (f["name"], d["n"]), "the view is made from %s that is destroyed at the end of the declaration" % what, short(f.get("def_loc", f["loc"])))
        # R3 parsers
        for f in F.by_qname.get("PhQ::ParseNumber", []):
            if "body" not in f:
                continue
            calls = deep_calls(F, f)
            aliases = reference_aliases(F, f)
            sto = [(n, g) for n, g in calls if F.fns.get(n["f"], {}).get("sname", "").startswith("sto")]
            inst = f["name"]
            if not sto:
                chk.inconclusive("R3", inst, "no strto* call found (anchor changed)", short(f["loc"]))
            elif all(g for _, g in sto):
                try:
                    E = ev.Evaluator(F)
                    res, _, _ = E.run_symbolic(f)
                    r = E.rv(res)
                    ok = isinstance(r, tuple) and r[0] == "opt"
                    # handler returns nullopt
                    (chk.holds if ok else chk.violated)("R3", inst, "strto* inside try with a non-rethrowing catch(...); the function returns an optional on every path", short(f["loc"]))
                except ev.Inconclusive as x:
                    chk.inconclusive("R3", inst, str(x), short(f["loc"]))
            else:
                chk.violated("R3", inst, "a strto* call is not enclosed by a try with a non-rethrowing catch(...): arbitrary byte strings make it throw", short(f["loc"]))
    if not any(o["rule"] == "R5" for o in chk.obs):
        chk.holds("R5", "all library bodies", "no cast to an enumeration type and no non-constant signed integer arithmetic in any instantiated body (controls matched: see R0)", "")
    if not any(o["rule"] == "R8" for o in chk.obs):
        chk.holds("R8", "all library bodies", "no write to static storage, no non-const function-local static", "")
    if not any(o["rule"] == "R7" for o in chk.obs):
        chk.holds("R7", "all library bodies", "no reference outlives a temporary it may refer to", "")
    for k, v in controls.items():
        (chk.holds if v > 0 else chk.inconclusive)("R0", "control:" + k, "scanner matched the control construct %d time(s)" % v, "driver")
    # R10: recursion
    n_fns = 0
    for T in NUMERIC:
        F = facts.load(T, chk.tier)
        lib = lambda f: f["loc"].startswith(frontend.INC) and not f["name"].startswith("phq_verif_control")
        n_fns += sum(1 for f in F.fns.values() if "body" in f and lib(f))
        groups = cg.recursive_groups(F, lib)
        for comp in groups:
            names = [F.fns[i]["name"] for i in comp]
            inst = "cycle<%s>: %s" % (T, " -> ".join(re.sub(r"PhQ::", "", n)[:60] for n in names[:4]) + (" ..." if len(names) > 4 else ""))
            loc = short(F.fns[comp[0]].get("def_loc", F.fns[comp[0]]["loc"]))
            verdict, why = True, "every function of the cycle returns on every path"
            # entry points of the cycle: its members that anyone may call, and - for members that only the library calls
            # (PhQ::Internal helpers, lambdas: their parameters are whatever the callers pass) - the callers outside the cycle
            entries, seen_e = [], set()
            for i in comp:
                f = F.fns[i]
                if not is_local_helper(f):
                    entries.append(i)
                else:
                    for cid, _g in site_guards(F).get(i, []):
                        if cid not in comp and cid in F.fns and "body" in F.fns[cid]:
                            entries.append(cid)
            entries = [i for i in entries if not (i in seen_e or seen_e.add(i))]
            if not entries:
                verdict, why = None, "no entry point into the cycle found"
            for i in entries:
                f = F.fns[i]
                try:
                    E = ev.Evaluator(F)
                    E.run_symbolic(f)
                except ev.Inconclusive as x:
                    if "call depth exceeded" in str(x):
                        verdict, why = False, "%s re-enters the cycle without making progress on some path (%s): unbounded recursion, the stack is exhausted" % (f["name"], x)
                        break
                    verdict, why = None, "%s could not be evaluated (%s)" % (f["name"], str(x)[:100])
            if verdict is True:
                chk.holds("R10", inst, why, loc)
            elif verdict is False:
                chk.violated("R10", inst, why, loc)
            else:
                chk.inconclusive("R10", inst, why, loc)
        if not groups:
            chk.holds("R10", "call graph <%s>" % T, "acyclic over the instantiated library functions", "", nontrivial=True)
    chk.floor("library functions in the call graph (x3)", n_fns, 30000)
    for inst, (why, loc) in sorted(helper_deferred.items()):
        if inst not in helper_discharged:
            chk.violated("R2", inst, "%s and no instantiation (float, double, long double) calls this helper from inside try { } catch (...)" % why, loc)
    chk.floor("external call sites examined", n_calls, 9000)
    chk.coverage["external_call_sites"] = n_calls
    chk.coverage["constant_array_indices_checked"] = n_array_idx[0]
    chk.holds("R6", "element access", "%d std::array indices are constants in range; no std::vector element access" % n_array_idx[0], "") if not any(o["rule"] == "R6" for o in chk.obs) else None


def any_return(tree):
    found = []
    cg.walk(tree, lambda n: found.append(1) if n.get("k") == "ret" else None)
    return bool(found)


def contains_undef(vals):
    def rec(t):
        if isinstance(t, tuple) and t:
            if t[0] == "undef":
                return True
            return any(rec(x) for x in t)
        if isinstance(t, ev.Obj):
            return any(rec(v) for v in t.f.values())
        if isinstance(t, ev.Arr):
            return any(rec(v) for v in t.items)
        if isinstance(t, ev.Str):
            return any(rec(p) for p in t.parts)
        return False
    return any(rec(v) for v in vals)
