// Differential program for the C14 refactor: comparison operators and hashes of PlanarVector,
// Vector, SymmetricDyad, Dyad, Dimensions, and of quantities built on them.
#include <PhQ/Dimensions.hpp>
#include <PhQ/Dyad.hpp>
#include <PhQ/PlanarVector.hpp>
#include <PhQ/PlanarVelocity.hpp>
#include <PhQ/Stress.hpp>
#include <PhQ/SymmetricDyad.hpp>
#include <PhQ/Vector.hpp>
#include <PhQ/Velocity.hpp>
#include <PhQ/VelocityGradient.hpp>

#include <array>
#include <cstdint>
#include <cstdio>
#include <iostream>
#include <limits>
#include <random>
#include <set>
#include <string>
#include <unordered_set>
#include <vector>

namespace {

std::uint64_t digest = 1469598103934665603ULL;
void Mix(const std::uint64_t v) {
  digest ^= v;
  digest *= 1099511628211ULL;
}

template <typename T>
std::vector<T> Pool() {
  using L = std::numeric_limits<T>;
  return {-L::infinity(),
          -L::max(),
          static_cast<T>(-1),
          -L::min(),
          -L::denorm_min(),
          static_cast<T>(-0.0),
          static_cast<T>(0.0),
          L::denorm_min(),
          L::min(),
          static_cast<T>(1),
          static_cast<T>(1) + L::epsilon(),
          static_cast<T>(1.1),
          L::max(),
          L::infinity(),
          L::quiet_NaN()};
}

template <typename T>
struct Make;

template <typename T>
struct Make<PhQ::PlanarVector<T>> {
  static constexpr std::size_t N = 2;
  static PhQ::PlanarVector<T> From(const std::array<T, 9>& c) {
    return PhQ::PlanarVector<T>{c[0], c[1]};
  }
};
template <typename T>
struct Make<PhQ::Vector<T>> {
  static constexpr std::size_t N = 3;
  static PhQ::Vector<T> From(const std::array<T, 9>& c) {
    return PhQ::Vector<T>{c[0], c[1], c[2]};
  }
};
template <typename T>
struct Make<PhQ::SymmetricDyad<T>> {
  static constexpr std::size_t N = 6;
  static PhQ::SymmetricDyad<T> From(const std::array<T, 9>& c) {
    return PhQ::SymmetricDyad<T>{c[0], c[1], c[2], c[3], c[4], c[5]};
  }
};
template <typename T>
struct Make<PhQ::Dyad<T>> {
  static constexpr std::size_t N = 9;
  static PhQ::Dyad<T> From(const std::array<T, 9>& c) {
    return PhQ::Dyad<T>{c[0], c[1], c[2], c[3], c[4], c[5], c[6], c[7], c[8]};
  }
};
template <typename T>
struct Make<PhQ::PlanarVelocity<T>> {
  static constexpr std::size_t N = 2;
  static PhQ::PlanarVelocity<T> From(const std::array<T, 9>& c) {
    return PhQ::PlanarVelocity<T>{
      PhQ::PlanarVector<T>{c[0], c[1]},
      PhQ::Unit::Speed::MetrePerSecond
    };
  }
};
template <typename T>
struct Make<PhQ::Velocity<T>> {
  static constexpr std::size_t N = 3;
  static PhQ::Velocity<T> From(const std::array<T, 9>& c) {
    return PhQ::Velocity<T>{
      PhQ::Vector<T>{c[0], c[1], c[2]},
      PhQ::Unit::Speed::MetrePerSecond
    };
  }
};
template <typename T>
struct Make<PhQ::Stress<T>> {
  static constexpr std::size_t N = 6;
  static PhQ::Stress<T> From(const std::array<T, 9>& c) {
    return PhQ::Stress<T>{
      PhQ::SymmetricDyad<T>{c[0], c[1], c[2], c[3], c[4], c[5]},
      PhQ::Unit::Pressure::Pascal
    };
  }
};
template <typename T>
struct Make<PhQ::VelocityGradient<T>> {
  static constexpr std::size_t N = 9;
  static PhQ::VelocityGradient<T> From(const std::array<T, 9>& c) {
    return PhQ::VelocityGradient<T>{
      PhQ::Dyad<T>{c[0], c[1], c[2], c[3], c[4], c[5], c[6], c[7], c[8]},
      PhQ::Unit::Frequency::Hertz
    };
  }
};

template <typename Object>
unsigned Compare(const Object& a, const Object& b) {
  unsigned bits = 0;
  bits |= (a == b) ? 1U : 0U;
  bits |= (a != b) ? 2U : 0U;
  bits |= (a < b) ? 4U : 0U;
  bits |= (a > b) ? 8U : 0U;
  bits |= (a <= b) ? 16U : 0U;
  bits |= (a >= b) ? 32U : 0U;
  return bits;
}

template <typename Object, typename T>
void Run(const std::string& name, const bool print_rows) {
  constexpr std::size_t N = Make<Object>::N;
  const std::vector<T> pool = Pool<T>();
  std::mt19937_64 rng(12345);
  std::uniform_int_distribution<std::size_t> pick(0, pool.size() - 1);
  std::uniform_real_distribution<double> real(-10.0, 10.0);

  const auto random_components = [&](const bool from_pool) {
    std::array<T, 9> c{};
    for (T& v : c) {
      v = from_pool ? pool[pick(rng)] : static_cast<T>(real(rng));
    }
    return c;
  };

  // Random objects with components from a small pool (ties in leading components), no NaN filter.
  std::vector<std::array<T, 9>> components;
  for (int i = 0; i < 70; ++i) {
    components.push_back(random_components(true));
  }
  for (int i = 0; i < 20; ++i) {
    components.push_back(random_components(false));
  }
  std::vector<Object> objects;
  for (const auto& c : components) {
    objects.push_back(Make<Object>::From(c));
  }

  std::cout << "== " << name << " ==\n";
  for (std::size_t i = 0; i < objects.size(); ++i) {
    std::string row;
    for (std::size_t j = 0; j < objects.size(); ++j) {
      const unsigned bits = Compare(objects[i], objects[j]);
      Mix(bits);
      row.push_back(static_cast<char>('0' + bits));
    }
    const std::size_t h = std::hash<Object>()(objects[i]);
    Mix(h);
    if (print_rows) {
      std::cout << row << ' ' << std::hex << h << std::dec << '\n';
    }
  }

  // Systematic ties: equal prefix of length k, every pool pair at position k, independent tails.
  std::uint64_t count = 0;
  for (std::size_t k = 0; k < N; ++k) {
    for (int repeat = 0; repeat < 3; ++repeat) {
      const std::array<T, 9> base = random_components(repeat == 0);
      for (const T a : pool) {
        for (const T b : pool) {
          std::array<T, 9> left = base;
          std::array<T, 9> right = base;
          left[k] = a;
          right[k] = b;
          for (std::size_t m = k + 1; m < 9; ++m) {
            left[m] = pool[pick(rng)];
            right[m] = pool[pick(rng)];
          }
          const Object l = Make<Object>::From(left);
          const Object r = Make<Object>::From(right);
          const unsigned bits = Compare(l, r);
          Mix(bits);
          Mix(std::hash<Object>()(l));
          Mix(std::hash<Object>()(r));
          if (print_rows && repeat == 0) {
            std::cout << static_cast<char>('0' + bits);
          }
          ++count;
        }
      }
      if (print_rows && repeat == 0) {
        std::cout << '\n';
      }
    }
  }

  // Containers: ordered and unordered, NaN-free objects only.
  std::set<Object> ordered;
  std::unordered_set<Object> unordered;
  const std::vector<T> finite_pool{static_cast<T>(-2), static_cast<T>(-0.0), static_cast<T>(0.0),
                                   static_cast<T>(3)};
  std::uniform_int_distribution<std::size_t> pick_finite(0, finite_pool.size() - 1);
  std::vector<Object> inserted;
  for (int i = 0; i < 300; ++i) {
    std::array<T, 9> c{};
    for (T& v : c) {
      v = finite_pool[pick_finite(rng)];
    }
    const Object object = Make<Object>::From(c);
    inserted.push_back(object);
    ordered.insert(object);
    unordered.insert(object);
  }
  std::size_t found = 0;
  for (const Object& object : inserted) {
    found += ordered.count(object) + unordered.count(object);
  }
  std::string order_trace;
  const Object* previous = nullptr;
  for (const Object& object : ordered) {
    if (previous != nullptr) {
      order_trace.push_back(static_cast<char>('0' + Compare(*previous, object)));
    }
    previous = &object;
  }
  std::cout << "pairs=" << count << " ordered=" << ordered.size()
            << " unordered=" << unordered.size() << " found=" << found << " trace=" << order_trace
            << " digest=" << std::hex << digest << std::dec << '\n';
}

template <typename T>
void RunAll(const std::string& suffix) {
  Run<PhQ::PlanarVector<T>, T>("PlanarVector<" + suffix + ">", true);
  Run<PhQ::Vector<T>, T>("Vector<" + suffix + ">", true);
  Run<PhQ::SymmetricDyad<T>, T>("SymmetricDyad<" + suffix + ">", true);
  Run<PhQ::Dyad<T>, T>("Dyad<" + suffix + ">", true);
  Run<PhQ::PlanarVelocity<T>, T>("PlanarVelocity<" + suffix + ">", false);
  Run<PhQ::Velocity<T>, T>("Velocity<" + suffix + ">", false);
  Run<PhQ::Stress<T>, T>("Stress<" + suffix + ">", false);
  Run<PhQ::VelocityGradient<T>, T>("VelocityGradient<" + suffix + ">", false);
}

PhQ::Dimensions MakeDimensions(const std::array<std::int8_t, 7>& e) {
  return PhQ::Dimensions{PhQ::Dimension::Time{e[0]},
                         PhQ::Dimension::Length{e[1]},
                         PhQ::Dimension::Mass{e[2]},
                         PhQ::Dimension::ElectricCurrent{e[3]},
                         PhQ::Dimension::Temperature{e[4]},
                         PhQ::Dimension::SubstanceAmount{e[5]},
                         PhQ::Dimension::LuminousIntensity{e[6]}};
}

void RunDimensions() {
  std::cout << "== Dimensions ==\n";
  const std::array<std::int8_t, 7> values{-128, -3, -1, 0, 1, 2, 127};
  std::mt19937_64 rng(777);
  std::uniform_int_distribution<std::size_t> pick(0, values.size() - 1);
  std::vector<PhQ::Dimensions> objects;
  for (int i = 0; i < 120; ++i) {
    std::array<std::int8_t, 7> e{};
    // Long equal prefixes: the first i % 8 exponents are zero.
    for (std::size_t k = static_cast<std::size_t>(i % 8); k < 7; ++k) {
      e[k] = values[pick(rng)];
    }
    objects.push_back(MakeDimensions(e));
  }
  for (std::size_t i = 0; i < objects.size(); ++i) {
    std::string row;
    for (std::size_t j = 0; j < objects.size(); ++j) {
      const unsigned bits = Compare(objects[i], objects[j]);
      Mix(bits);
      row.push_back(static_cast<char>('0' + bits));
    }
    const std::size_t h = std::hash<PhQ::Dimensions>()(objects[i]);
    Mix(h);
    std::cout << row << ' ' << std::hex << h << std::dec << ' ' << objects[i].Print() << '\n';
  }
  // Systematic: every pair of values at every position behind an equal prefix.
  for (std::size_t k = 0; k < 7; ++k) {
    for (const std::int8_t a : values) {
      for (const std::int8_t b : values) {
        std::array<std::int8_t, 7> left{};
        std::array<std::int8_t, 7> right{};
        for (std::size_t m = 0; m < k; ++m) {
          left[m] = right[m] = values[pick(rng)];
        }
        left[k] = a;
        right[k] = b;
        for (std::size_t m = k + 1; m < 7; ++m) {
          left[m] = values[pick(rng)];
          right[m] = values[pick(rng)];
        }
        const PhQ::Dimensions l = MakeDimensions(left);
        const PhQ::Dimensions r = MakeDimensions(right);
        const unsigned bits = Compare(l, r);
        Mix(bits);
        Mix(std::hash<PhQ::Dimensions>()(l));
        std::cout << static_cast<char>('0' + bits);
      }
    }
    std::cout << '\n';
  }
  std::set<PhQ::Dimensions> ordered(objects.begin(), objects.end());
  std::unordered_set<PhQ::Dimensions> unordered(objects.begin(), objects.end());
  std::size_t found = 0;
  for (const PhQ::Dimensions& object : objects) {
    found += ordered.count(object) + unordered.count(object);
  }
  for (const PhQ::Dimensions& object : ordered) {
    std::cout << object.Print() << " | ";
  }
  std::cout << "\nordered=" << ordered.size() << " unordered=" << unordered.size()
            << " found=" << found << " digest=" << std::hex << digest << std::dec << '\n';
}

// The comparison operators must remain usable in constant expressions.
constexpr PhQ::Vector<double> kA{1.0, 2.0, 3.0};
constexpr PhQ::Vector<double> kB{1.0, 2.0, 4.0};
static_assert(kA < kB && kB > kA && kA <= kB && kB >= kA && !(kA > kB) && !(kB < kA));
constexpr PhQ::PlanarVector<float> kPA{1.0F, -2.0F};
constexpr PhQ::PlanarVector<float> kPB{1.0F, 2.0F};
static_assert(kPA < kPB && kPB > kPA);
constexpr PhQ::SymmetricDyad<long double> kSA{1.0L, 2.0L, 3.0L, 4.0L, 5.0L, 6.0L};
constexpr PhQ::SymmetricDyad<long double> kSB{1.0L, 2.0L, 3.0L, 4.0L, 5.0L, 7.0L};
static_assert(kSA < kSB && kSB > kSA);
constexpr PhQ::Dyad<double> kDA{1.0, 2.0, 3.0, 4.0, 5.0, 6.0, 7.0, 8.0, 9.0};
constexpr PhQ::Dyad<double> kDB{1.0, 2.0, 3.0, 4.0, 5.0, 6.0, 7.0, 8.5, 0.0};
static_assert(kDA < kDB && kDB > kDA);
constexpr PhQ::Dimensions kMA{
  PhQ::Dimension::Time{-1},           PhQ::Dimension::Length{1},      PhQ::Dimension::Mass{0},
  PhQ::Dimension::ElectricCurrent{0}, PhQ::Dimension::Temperature{0},
  PhQ::Dimension::SubstanceAmount{0}, PhQ::Dimension::LuminousIntensity{0}};
constexpr PhQ::Dimensions kMB{
  PhQ::Dimension::Time{-1},           PhQ::Dimension::Length{1},      PhQ::Dimension::Mass{0},
  PhQ::Dimension::ElectricCurrent{0}, PhQ::Dimension::Temperature{0},
  PhQ::Dimension::SubstanceAmount{0}, PhQ::Dimension::LuminousIntensity{1}};
static_assert(kMA < kMB && kMB > kMA && kMA <= kMB && kMB >= kMA);

}  // namespace

int main() {
  RunAll<float>("float");
  RunAll<double>("double");
  RunAll<long double>("long double");
  RunDimensions();
  std::cout << "final digest=" << std::hex << digest << std::dec << '\n';
  return 0;
}
