// Differential program for property C16: changing floating-point precision casts each component
// and nothing else. Prints every converted component as a hexfloat.

#include <PhQ/Direction.hpp>
#include <PhQ/DisplacementGradient.hpp>
#include <PhQ/Dyad.hpp>
#include <PhQ/Force.hpp>
#include <PhQ/PlanarDirection.hpp>
#include <PhQ/PlanarForce.hpp>
#include <PhQ/PlanarVector.hpp>
#include <PhQ/Position.hpp>
#include <PhQ/Strain.hpp>
#include <PhQ/Stress.hpp>
#include <PhQ/SymmetricDyad.hpp>
#include <PhQ/Vector.hpp>
#include <PhQ/VelocityGradient.hpp>

#include <array>
#include <cfloat>
#include <cmath>
#include <cstdint>
#include <cstdio>
#include <cstring>
#include <limits>
#include <random>
#include <vector>

namespace {

template <typename T>
const char* Name();
template <>
const char* Name<float>() {
  return "f";
}
template <>
const char* Name<double>() {
  return "d";
}
template <>
const char* Name<long double>() {
  return "L";
}

void Put(const float v) {
  std::printf(" %a", static_cast<double>(v));
}
void Put(const double v) {
  std::printf(" %a", v);
}
void Put(const long double v) {
  std::printf(" %La", v);
}

template <typename T, std::size_t N>
void PutArray(const std::array<T, N>& a) {
  for (const T v : a) {
    Put(v);
  }
}

std::mt19937_64 rng(0xC16C16C16ULL);

// Produces interesting values of type T: edge cases first, then random values with a wide range of
// exponents and full mantissas (so that they are not representable in narrower types).
template <typename T>
T Sample(const int k) {
  using L = std::numeric_limits<T>;
  switch (k % 24) {
    case 0:
      return static_cast<T>(0);
    case 1:
      return -static_cast<T>(0);
    case 2:
      return L::min();
    case 3:
      return -L::min();
    case 4:
      return L::denorm_min();
    case 5:
      return -L::denorm_min();
    case 6:
      return L::max();
    case 7:
      return L::lowest();
    case 8:
      return L::epsilon();
    case 9:
      return static_cast<T>(1) + L::epsilon();
    case 10:
      return static_cast<T>(1) - L::epsilon() / static_cast<T>(2);
    case 11:
      return L::infinity();
    case 12:
      return -L::infinity();
    case 13:
      return static_cast<T>(FLT_MAX) * static_cast<T>(1.0000001L);
    case 14:
      return static_cast<T>(FLT_MIN) * static_cast<T>(0.4999999L);
    case 15:
      return static_cast<T>(0.1L);
    case 16:
      return static_cast<T>(-1.0L / 3.0L);
    case 17:
      return static_cast<T>(16777217.0L);  // 2^24 + 1
    case 18:
      return static_cast<T>(9007199254740993.0L);  // 2^53 + 1
    case 19:
      return static_cast<T>(1.0L + 0x1p-24L);  // float tie
    case 20:
      return static_cast<T>(1.0L + 0x1p-53L);  // double tie
    case 21:
      return static_cast<T>(1.0L + 0x3p-25L);
    default:
      break;
  }
  std::uniform_real_distribution<long double> mantissa(-2.0L, 2.0L);
  std::uniform_int_distribution<int> exponent(-160, 160);
  std::uniform_int_distribution<int> small(-8, 8);
  const long double m = mantissa(rng) + 0x1p-60L * static_cast<long double>(rng() & 0xFFFF);
  const int e = (k % 3 == 0) ? exponent(rng) : small(rng);
  return static_cast<T>(std::ldexp(m, e));
}

int counter = 0;

template <typename T, std::size_t N>
std::array<T, N> SampleArray() {
  std::array<T, N> a{};
  for (std::size_t i = 0; i < N; ++i) {
    a[i] = Sample<T>(counter++);
  }
  return a;
}

// Moderate values only (for directions, which normalise).
template <typename T, std::size_t N>
std::array<T, N> ModerateArray() {
  std::uniform_real_distribution<long double> value(-10.0L, 10.0L);
  std::array<T, N> a{};
  for (std::size_t i = 0; i < N; ++i) {
    a[i] = static_cast<T>(value(rng) + 0x1p-62L * static_cast<long double>(rng() & 0xFFF));
  }
  return a;
}

template <typename To, typename From>
void Shapes(const int iterations) {
  std::printf("== shapes %s <- %s\n", Name<To>(), Name<From>());
  for (int it = 0; it < iterations; ++it) {
    {
      const PhQ::Vector<From> source(SampleArray<From, 3>());
      const PhQ::Vector<To> constructed(source);
      PhQ::Vector<To> assigned(static_cast<To>(7), static_cast<To>(8), static_cast<To>(9));
      assigned = source;
      const auto cast = static_cast<PhQ::Vector<To>>(source);
      std::printf("V");
      PutArray(source.x_y_z());
      std::printf(" |");
      PutArray(constructed.x_y_z());
      std::printf(" |");
      PutArray(assigned.x_y_z());
      std::printf(" |");
      PutArray(cast.x_y_z());
      // Widening then narrowing round trip.
      const PhQ::Vector<From> back(constructed);
      PhQ::Vector<From> back_assigned;
      back_assigned = assigned;
      std::printf(" |");
      PutArray(back.x_y_z());
      PutArray(back_assigned.x_y_z());
      std::printf("\n");
    }
    {
      const PhQ::PlanarVector<From> source(SampleArray<From, 2>());
      const PhQ::PlanarVector<To> constructed(source);
      PhQ::PlanarVector<To> assigned(static_cast<To>(7), static_cast<To>(8));
      assigned = source;
      const auto cast = static_cast<PhQ::PlanarVector<To>>(source);
      std::printf("P");
      PutArray(source.x_y());
      std::printf(" |");
      PutArray(constructed.x_y());
      std::printf(" |");
      PutArray(assigned.x_y());
      std::printf(" |");
      PutArray(cast.x_y());
      const PhQ::PlanarVector<From> back(constructed);
      PhQ::PlanarVector<From> back_assigned;
      back_assigned = assigned;
      std::printf(" |");
      PutArray(back.x_y());
      PutArray(back_assigned.x_y());
      std::printf("\n");
    }
    {
      const PhQ::SymmetricDyad<From> source(SampleArray<From, 6>());
      const PhQ::SymmetricDyad<To> constructed(source);
      PhQ::SymmetricDyad<To> assigned(static_cast<To>(1), static_cast<To>(2), static_cast<To>(3),
                                      static_cast<To>(4), static_cast<To>(5), static_cast<To>(6));
      assigned = source;
      const auto cast = static_cast<PhQ::SymmetricDyad<To>>(source);
      std::printf("S");
      PutArray(source.xx_xy_xz_yy_yz_zz());
      std::printf(" |");
      PutArray(constructed.xx_xy_xz_yy_yz_zz());
      std::printf(" |");
      PutArray(assigned.xx_xy_xz_yy_yz_zz());
      std::printf(" |");
      PutArray(cast.xx_xy_xz_yy_yz_zz());
      std::printf(" |");
      Put(constructed.xx());
      Put(constructed.xy());
      Put(constructed.xz());
      Put(constructed.yx());
      Put(constructed.yy());
      Put(constructed.yz());
      Put(constructed.zx());
      Put(constructed.zy());
      Put(constructed.zz());
      const PhQ::SymmetricDyad<From> back(constructed);
      PhQ::SymmetricDyad<From> back_assigned;
      back_assigned = assigned;
      std::printf(" |");
      PutArray(back.xx_xy_xz_yy_yz_zz());
      PutArray(back_assigned.xx_xy_xz_yy_yz_zz());
      std::printf("\n");
    }
    {
      const PhQ::Dyad<From> source(SampleArray<From, 9>());
      const PhQ::Dyad<To> constructed(source);
      PhQ::Dyad<To> assigned(PhQ::Dyad<To>::Zero());
      assigned = source;
      const auto cast = static_cast<PhQ::Dyad<To>>(source);
      std::printf("D");
      PutArray(source.xx_xy_xz_yx_yy_yz_zx_zy_zz());
      std::printf(" |");
      PutArray(constructed.xx_xy_xz_yx_yy_yz_zx_zy_zz());
      std::printf(" |");
      PutArray(assigned.xx_xy_xz_yx_yy_yz_zx_zy_zz());
      std::printf(" |");
      PutArray(cast.xx_xy_xz_yx_yy_yz_zx_zy_zz());
      std::printf(" |");
      Put(assigned.xx());
      Put(assigned.xy());
      Put(assigned.xz());
      Put(assigned.yx());
      Put(assigned.yy());
      Put(assigned.yz());
      Put(assigned.zx());
      Put(assigned.zy());
      Put(assigned.zz());
      const PhQ::Dyad<From> back(constructed);
      PhQ::Dyad<From> back_assigned;
      back_assigned = assigned;
      std::printf(" |");
      PutArray(back.xx_xy_xz_yx_yy_yz_zx_zy_zz());
      PutArray(back_assigned.xx_xy_xz_yx_yy_yz_zx_zy_zz());
      std::printf("\n");
    }
  }
}

template <typename To, typename From>
void Quantities(const int iterations) {
  std::printf("== quantities %s <- %s\n", Name<To>(), Name<From>());
  for (int it = 0; it < iterations; ++it) {
    {
      const PhQ::Direction<From> source(PhQ::Vector<From>(ModerateArray<From, 3>()));
      const PhQ::Direction<To> constructed(source);
      PhQ::Direction<To> assigned;
      assigned = source;
      std::printf("dir");
      PutArray(source.Value().x_y_z());
      std::printf(" |");
      PutArray(constructed.Value().x_y_z());
      std::printf(" |");
      PutArray(assigned.Value().x_y_z());
      std::printf("\n");
    }
    {
      const PhQ::PlanarDirection<From> source(PhQ::PlanarVector<From>(ModerateArray<From, 2>()));
      const PhQ::PlanarDirection<To> constructed(source);
      PhQ::PlanarDirection<To> assigned;
      assigned = source;
      std::printf("pdir");
      PutArray(source.Value().x_y());
      std::printf(" |");
      PutArray(constructed.Value().x_y());
      std::printf(" |");
      PutArray(assigned.Value().x_y());
      std::printf("\n");
    }
    {
      const PhQ::Force<From> source(
          PhQ::Vector<From>(SampleArray<From, 3>()), PhQ::Unit::Force::Newton);
      const PhQ::Force<To> constructed(source);
      PhQ::Force<To> assigned;
      assigned = source;
      std::printf("force");
      PutArray(constructed.Value().x_y_z());
      std::printf(" |");
      PutArray(assigned.Value().x_y_z());
      std::printf("\n");
    }
    {
      const PhQ::Position<From> source(
          PhQ::Vector<From>(SampleArray<From, 3>()), PhQ::Unit::Length::Metre);
      const PhQ::Position<To> constructed(source);
      PhQ::Position<To> assigned;
      assigned = source;
      std::printf("position");
      PutArray(constructed.Value().x_y_z());
      std::printf(" |");
      PutArray(assigned.Value().x_y_z());
      std::printf("\n");
    }
    {
      const PhQ::PlanarForce<From> source(
          PhQ::PlanarVector<From>(SampleArray<From, 2>()), PhQ::Unit::Force::Newton);
      const PhQ::PlanarForce<To> constructed(source);
      PhQ::PlanarForce<To> assigned;
      assigned = source;
      std::printf("planarforce");
      PutArray(constructed.Value().x_y());
      std::printf(" |");
      PutArray(assigned.Value().x_y());
      std::printf("\n");
    }
    {
      const PhQ::Stress<From> source(
          PhQ::SymmetricDyad<From>(SampleArray<From, 6>()), PhQ::Unit::Pressure::Pascal);
      const PhQ::Stress<To> constructed(source);
      PhQ::Stress<To> assigned;
      assigned = source;
      std::printf("stress");
      PutArray(constructed.Value().xx_xy_xz_yy_yz_zz());
      std::printf(" |");
      PutArray(assigned.Value().xx_xy_xz_yy_yz_zz());
      std::printf("\n");
    }
    {
      const PhQ::Strain<From> source(SampleArray<From, 6>());
      const PhQ::Strain<To> constructed(source);
      PhQ::Strain<To> assigned;
      assigned = source;
      std::printf("strain");
      PutArray(constructed.Value().xx_xy_xz_yy_yz_zz());
      std::printf(" |");
      PutArray(assigned.Value().xx_xy_xz_yy_yz_zz());
      std::printf("\n");
    }
    {
      const PhQ::VelocityGradient<From> source(
          PhQ::Dyad<From>(SampleArray<From, 9>()), PhQ::Unit::Frequency::Hertz);
      const PhQ::VelocityGradient<To> constructed(source);
      PhQ::VelocityGradient<To> assigned;
      assigned = source;
      std::printf("velgrad");
      PutArray(constructed.Value().xx_xy_xz_yx_yy_yz_zx_zy_zz());
      std::printf(" |");
      PutArray(assigned.Value().xx_xy_xz_yx_yy_yz_zx_zy_zz());
      std::printf("\n");
    }
    {
      const PhQ::DisplacementGradient<From> source(SampleArray<From, 9>());
      const PhQ::DisplacementGradient<To> constructed(source);
      PhQ::DisplacementGradient<To> assigned;
      assigned = source;
      std::printf("dispgrad");
      PutArray(constructed.Value().xx_xy_xz_yx_yy_yz_zx_zy_zz());
      std::printf(" |");
      PutArray(assigned.Value().xx_xy_xz_yx_yy_yz_zx_zy_zz());
      std::printf("\n");
    }
  }
}

template <typename To, typename From>
void NaNs() {
  // NaN payload/sign is printed via "nan"/"-nan"; only slot positions matter here.
  const From nan = std::numeric_limits<From>::quiet_NaN();
  for (std::size_t slot = 0; slot < 9; ++slot) {
    std::array<From, 9> a{};
    for (std::size_t i = 0; i < 9; ++i) {
      a[i] = static_cast<From>(i + 1) + std::numeric_limits<From>::epsilon();
    }
    a[slot] = nan;
    const PhQ::Dyad<From> dyad(a);
    const PhQ::Dyad<To> constructed(dyad);
    PhQ::Dyad<To> assigned;
    assigned = dyad;
    std::printf("nanD");
    for (std::size_t i = 0; i < 9; ++i) {
      std::printf(" %d%d", std::isnan(constructed.xx_xy_xz_yx_yy_yz_zx_zy_zz()[i]) ? 1 : 0,
                  std::isnan(assigned.xx_xy_xz_yx_yy_yz_zx_zy_zz()[i]) ? 1 : 0);
    }
    if (slot < 6) {
      const PhQ::SymmetricDyad<From> symmetric(a[0], a[1], a[2], a[3], a[4], a[5]);
      const PhQ::SymmetricDyad<To> c2(symmetric);
      PhQ::SymmetricDyad<To> a2;
      a2 = symmetric;
      std::printf(" S");
      for (std::size_t i = 0; i < 6; ++i) {
        std::printf(" %d%d", std::isnan(c2.xx_xy_xz_yy_yz_zz()[i]) ? 1 : 0,
                    std::isnan(a2.xx_xy_xz_yy_yz_zz()[i]) ? 1 : 0);
      }
    }
    if (slot < 3) {
      const PhQ::Vector<From> vector(a[0], a[1], a[2]);
      const PhQ::Vector<To> c3(vector);
      PhQ::Vector<To> a3;
      a3 = vector;
      std::printf(" V");
      for (std::size_t i = 0; i < 3; ++i) {
        std::printf(" %d%d", std::isnan(c3.x_y_z()[i]) ? 1 : 0, std::isnan(a3.x_y_z()[i]) ? 1 : 0);
      }
    }
    if (slot < 2) {
      const PhQ::PlanarVector<From> planar(a[0], a[1]);
      const PhQ::PlanarVector<To> c4(planar);
      PhQ::PlanarVector<To> a4;
      a4 = planar;
      std::printf(" P");
      for (std::size_t i = 0; i < 2; ++i) {
        std::printf(" %d%d", std::isnan(c4.x_y()[i]) ? 1 : 0, std::isnan(a4.x_y()[i]) ? 1 : 0);
      }
    }
    std::printf("\n");
  }
}

// Compile-time use of the converting constructors.
constexpr PhQ::Vector<double> kVectorDouble(1.25, -2.5, 0.1);
constexpr PhQ::Vector<float> kVectorFloat(kVectorDouble);
constexpr PhQ::PlanarVector<long double> kPlanarLong(0.1L, -0.2L);
constexpr PhQ::PlanarVector<double> kPlanarDouble(kPlanarLong);
constexpr PhQ::SymmetricDyad<double> kSymmetricDouble(0.1, 0.2, 0.3, 0.4, 0.5, 0.6);
constexpr PhQ::SymmetricDyad<float> kSymmetricFloat(kSymmetricDouble);
constexpr PhQ::Dyad<float> kDyadFloat(0.1F, 0.2F, 0.3F, 0.4F, 0.5F, 0.6F, 0.7F, 0.8F, 0.9F);
constexpr PhQ::Dyad<long double> kDyadLong(kDyadFloat);

template <typename To, typename From>
void All(const int iterations) {
  Shapes<To, From>(iterations);
  Quantities<To, From>(iterations / 4);
  NaNs<To, From>();
}

}  // namespace

int main() {
  std::printf("constexpr");
  PutArray(kVectorFloat.x_y_z());
  PutArray(kPlanarDouble.x_y());
  PutArray(kSymmetricFloat.xx_xy_xz_yy_yz_zz());
  PutArray(kDyadLong.xx_xy_xz_yx_yy_yz_zx_zy_zz());
  std::printf("\n");

  constexpr int iterations = 400;
  All<float, double>(iterations);
  All<float, long double>(iterations);
  All<double, float>(iterations);
  All<double, long double>(iterations);
  All<long double, float>(iterations);
  All<long double, double>(iterations);
  return 0;
}
