"""Index-notation definitions of three-dimensional Cartesian tensor algebra (sympy matrices).

Written from the textbook definitions; nothing here is derived from PhQ's source.  Shapes:
  planar (x, y)                -> column vector (x, y, 0)
  vector (x, y, z)             -> column vector
  symdyad (xx,xy,xz,yy,yz,zz)  -> symmetric 3x3
  dyad (xx,xy,xz,yx,yy,yz,zx,zy,zz) -> 3x3 row-major
"""
import sympy
from sympy import Matrix, LeviCivita

N = {"planar": 2, "vector": 3, "symdyad": 6, "dyad": 9, "scalar": 1}


def embed(shape, comps):
    c = list(comps)
    if shape == "scalar":
        return c[0]
    if shape == "planar":
        return Matrix([c[0], c[1], 0])
    if shape == "vector":
        return Matrix([c[0], c[1], c[2]])
    if shape == "symdyad":
        xx, xy, xz, yy, yz, zz = c
        return Matrix([[xx, xy, xz], [xy, yy, yz], [xz, yz, zz]])
    if shape == "dyad":
        return Matrix(3, 3, c)
    raise ValueError(shape)


def is_vec(m):
    return isinstance(m, sympy.MatrixBase) and m.shape == (3, 1)


def dot(a, b):
    return sum(a[i] * b[i] for i in range(3))


def cross(a, b):
    return Matrix([sum(LeviCivita(i, j, k) * a[j] * b[k] for j in range(3) for k in range(3)) for i in range(3)])


def dyadic(a, b):
    return Matrix(3, 3, lambda i, j: a[i] * b[j])


def magnitude_squared(a):
    return dot(a, a)


def magnitude(a):
    return sympy.sqrt(dot(a, a))


def trace(A):
    return sum(A[i, i] for i in range(3))


def determinant(A):
    return sum(LeviCivita(i, j, k) * A[0, i] * A[1, j] * A[2, k] for i in range(3) for j in range(3) for k in range(3))


def transpose(A):
    return Matrix(3, 3, lambda i, j: A[j, i])


def minor(A, i, j):
    rows = [r for r in range(3) if r != i]
    cols = [c for c in range(3) if c != j]
    return A[rows[0], cols[0]] * A[rows[1], cols[1]] - A[rows[0], cols[1]] * A[rows[1], cols[0]]


def cofactors(A):
    return Matrix(3, 3, lambda i, j: (-1) ** (i + j) * minor(A, i, j))


def adjugate(A):
    return transpose(cofactors(A))


def inverse(A):
    return adjugate(A) / determinant(A)


def matvec(A, v):
    return Matrix([sum(A[i, j] * v[j] for j in range(3)) for i in range(3)])


def matmat(A, B):
    return Matrix(3, 3, lambda i, j: sum(A[i, k] * B[k, j] for k in range(3)))


UNARY = {
    "MagnitudeSquared": magnitude_squared, "Magnitude": magnitude, "Trace": trace, "Determinant": determinant,
    "Transpose": transpose, "Cofactors": cofactors, "Adjugate": adjugate,
}
BINARY = {"Dot": dot, "Cross": cross, "Dyadic": dyadic}
