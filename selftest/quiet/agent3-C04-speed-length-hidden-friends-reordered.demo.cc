// Differential program for the C04s refactor: arithmetic of PhQ::Speed and PhQ::Length and the
// Length/Time/Frequency/Speed relations, for float, double and long double.
#include <PhQ/Area.hpp>
#include <PhQ/Frequency.hpp>
#include <PhQ/Length.hpp>
#include <PhQ/MachNumber.hpp>
#include <PhQ/Position.hpp>
#include <PhQ/ScalarAcceleration.hpp>
#include <PhQ/SoundSpeed.hpp>
#include <PhQ/Speed.hpp>
#include <PhQ/Time.hpp>
#include <PhQ/Velocity.hpp>
#include <PhQ/Volume.hpp>

#include <cmath>
#include <cstdint>
#include <cstdio>
#include <cstring>
#include <limits>
#include <random>
#include <sstream>
#include <string>
#include <type_traits>
#include <vector>

namespace {

std::uint64_t digest = 1469598103934665603ULL;
std::uint64_t count = 0;

void Mix(const void* data, std::size_t size) {
  const unsigned char* bytes = static_cast<const unsigned char*>(data);
  for (std::size_t i = 0; i < size; ++i) {
    digest ^= bytes[i];
    digest *= 1099511628211ULL;
  }
}

template <typename T>
std::string Hex(const T x) {
  char buffer[128];
  if (x != x) {
    // The sign and payload of a NaN are not specified by the library; print only that it is a NaN.
    return "nan";
  }
  if constexpr (std::is_same_v<T, long double>) {
    std::snprintf(buffer, sizeof(buffer), "%La", x);
  } else {
    std::snprintf(buffer, sizeof(buffer), "%a", static_cast<double>(x));
  }
  return buffer;
}

bool verbose = true;

template <typename T>
void Out(const char* tag, const T x) {
  const std::string text = Hex(x);
  Mix(tag, std::strlen(tag));
  Mix(text.data(), text.size());
  ++count;
  if (verbose) {
    std::printf("%s %s\n", tag, text.c_str());
  }
}

void OutS(const char* tag, const std::string& text) {
  Mix(tag, std::strlen(tag));
  Mix(text.data(), text.size());
  ++count;
  if (verbose) {
    std::printf("%s %s\n", tag, text.c_str());
  }
}

template <typename T>
void Pair(const T a, const T b, const T n) {
  using namespace PhQ;
  const Length<T> la(a, Unit::Length::Metre);
  const Length<T> lb(b, Unit::Length::Metre);
  const Speed<T> sa(a, Unit::Speed::MetrePerSecond);
  const Speed<T> sb(b, Unit::Speed::MetrePerSecond);
  const Time<T> ta(a, Unit::Time::Second);
  const Time<T> tb(b, Unit::Time::Second);
  const Frequency<T> fa(a, Unit::Frequency::Hertz);
  const Frequency<T> fb(b, Unit::Frequency::Hertz);
  const SoundSpeed<T> ca(a, Unit::Speed::MetrePerSecond);
  const SoundSpeed<T> cb(b, Unit::Speed::MetrePerSecond);
  const ScalarAcceleration<T> aa(a, Unit::Acceleration::MetrePerSquareSecond);
  const ScalarAcceleration<T> ab(b, Unit::Acceleration::MetrePerSquareSecond);

  // Length with length and with numbers.
  Out("L+L", (la + lb).Value());
  Out("L-L", (la - lb).Value());
  Out("L*n", (la * n).Value());
  Out("n*L", (n * la).Value());
  Out("L/n", (la / n).Value());
  Out("L/L", la / lb);
  Out("L*L", (la * lb).Value());
  Out("L*A", (la * (la * lb)).Value());
  Out("A/L", ((la * lb) / lb).Value());
  {
    Length<T> x = la;
    x += lb;
    Out("L+=", x.Value());
    x *= n;
    Out("L*=", x.Value());
    x -= la;
    Out("L-=", x.Value());
    x /= n;
    Out("L/=", x.Value());
    x -= lb;
    x *= n;
    x += la;
    x /= n;
    Out("Lchain", x.Value());
    Out("Lpure", ((((((((la + lb) * n) - la) / n) - lb) * n) + la) / n).Value());
  }

  // Speed with speed, sound speed and numbers.
  Out("S+S", (sa + sb).Value());
  Out("S-S", (sa - sb).Value());
  Out("S*n", (sa * n).Value());
  Out("n*S", (n * sa).Value());
  Out("S/n", (sa / n).Value());
  Out("S/S", sa / sb);
  Out("S+C", (sa + cb).Value());
  Out("S-C", (sa - cb).Value());
  Out("C+S", (ca + sb).Value());
  Out("C-S", (ca - sb).Value());
  Out("S/C", (sa / cb).Value());
  Out("C*M", (cb * (sa / cb)).Value());
  Out("S(C,M)", Speed<T>(cb, MachNumber<T>(n)).Value());
  {
    Speed<T> x = sa;
    x += sb;
    Out("S+=", x.Value());
    x += cb;
    Out("S+=C", x.Value());
    x *= n;
    Out("S*=", x.Value());
    x -= sa;
    Out("S-=", x.Value());
    x -= ca;
    Out("S-=C", x.Value());
    x /= n;
    Out("S/=", x.Value());
    x -= sb;
    x *= n;
    x += sa;
    x /= n;
    Out("Schain", x.Value());
    Out("Spure",
        ((((((((((sa + sb) + cb) * n) - sa) - ca) / n) - sb) * n) + sa) / n).Value());
  }

  // Relations between length, time, frequency and speed: operators and their constructor twins.
  Out("L/T", (la / tb).Value());
  Out("S(L,T)", Speed<T>(la, tb).Value());
  Out("L*F", (la * fb).Value());
  Out("F*L", (fb * la).Value());
  Out("S(L,F)", Speed<T>(la, fb).Value());
  Out("L/S", (la / sb).Value());
  Out("T(L,S)", Time<T>(la, sb).Value());
  Out("S*T", (sa * tb).Value());
  Out("L(S,T)", Length<T>(sa, tb).Value());
  Out("S/F", (sa / fb).Value());
  Out("L(S,F)", Length<T>(sa, fb).Value());
  Out("S/L", (sa / lb).Value());
  Out("F(S,L)", Frequency<T>(sa, lb).Value());

  // Relations between speed and scalar acceleration.
  Out("S/T", (sa / tb).Value());
  Out("S*F", (sa * fb).Value());
  Out("S/A", (sa / ab).Value());
  Out("A*T", (aa * tb).Value());
  Out("A/F", (aa / fb).Value());
  Out("S(A,T)", Speed<T>(aa, tb).Value());
  Out("S(A,F)", Speed<T>(aa, fb).Value());

  // Vectors that use lengths and speeds.
  {
    const Direction<T> d(a, b, n);
    const Position<T> p = la * d;
    Out("Px", p.Value().x());
    Out("Py", p.Value().y());
    Out("Pz", p.Value().z());
    Out("Pm", p.Magnitude().Value());
    const Position<T> q = d * lb;
    Out("Qx", q.Value().x());
    const Velocity<T> v = sa * d;
    Out("Vx", v.Value().x());
    Out("Vy", v.Value().y());
    Out("Vz", v.Value().z());
    Out("Vm", v.Magnitude().Value());
    const Velocity<T> w = d * sb;
    Out("Wz", w.Value().z());
    Out("Vx()", v.x().Value());
    Out("Px()", p.x().Value());
  }

  // Comparisons and printing are not part of the refactor but use the same classes.
  OutS("L==", (la == lb) ? "1" : "0");
  OutS("S<", (sa < sb) ? "1" : "0");
}

template <typename T>
void Units(const T a) {
  using namespace PhQ;
  const Unit::Length lengths[] = {Unit::Length::Mile, Unit::Length::Kilometre, Unit::Length::Metre,
                                  Unit::Length::Yard, Unit::Length::Foot, Unit::Length::Inch,
                                  Unit::Length::Millimetre, Unit::Length::Micrometre};
  const Unit::Speed speeds[] = {Unit::Speed::MilePerHour, Unit::Speed::KilometrePerHour,
                                Unit::Speed::MetrePerSecond, Unit::Speed::FootPerSecond,
                                Unit::Speed::Knot, Unit::Speed::InchPerMinute};
  const Unit::Time times[] = {Unit::Time::Second, Unit::Time::Minute, Unit::Time::Hour};
  for (const Unit::Length ul : lengths) {
    const Length<T> l(a, ul);
    Out("uL", l.Value());
    Out("uL2", (l + l).Value());
    Out("uL3", (static_cast<T>(3) * l).Value());
    for (const Unit::Time ut : times) {
      const Time<T> t(a, ut);
      const Speed<T> s = l / t;
      Out("uL/T", s.Value());
      for (const Unit::Speed us : speeds) {
        Out("uL/T.v", s.Value(us));
        const Speed<T> r(a, us);
        Out("uS", r.Value());
        Out("uS+S", (s + r).Value());
        Out("uS-S", (s - r).Value());
        Out("uS/S", s / r);
        Out("uS*T", (r * t).Value());
        Out("uL/S", (l / r).Value());
      }
    }
  }
  Out("cL", Length<T>::template Create<Unit::Length::Foot>(a).Value());
  Out("cS", Speed<T>::template Create<Unit::Speed::Knot>(a).Value());
  Out("zL", (Length<T>::Zero() + Length<T>::Zero()).Value());
  Out("zS", (Speed<T>::Zero() - Speed<T>::Zero()).Value());
  std::ostringstream stream;
  stream << Speed<T>(a, Unit::Speed::MetrePerSecond) * static_cast<T>(2) << " "
         << static_cast<T>(2) * Length<T>(a, Unit::Length::Metre);
  OutS("print", stream.str());
}

template <typename T>
void Run(const char* name) {
  std::printf("# %s\n", name);
  const T inf = std::numeric_limits<T>::infinity();
  const std::vector<T> edges = {static_cast<T>(0),
                                -static_cast<T>(0),
                                static_cast<T>(1),
                                static_cast<T>(-1),
                                static_cast<T>(2),
                                static_cast<T>(8),
                                static_cast<T>(0.1L),
                                static_cast<T>(-0.3L),
                                static_cast<T>(1.0L / 3.0L),
                                std::numeric_limits<T>::min(),
                                -std::numeric_limits<T>::min(),
                                std::numeric_limits<T>::denorm_min(),
                                std::numeric_limits<T>::max(),
                                std::numeric_limits<T>::lowest(),
                                std::numeric_limits<T>::epsilon(),
                                static_cast<T>(1.0e-20L),
                                static_cast<T>(-1.0e20L),
                                inf,
                                -inf,
                                std::numeric_limits<T>::quiet_NaN()};
  verbose = true;
  for (const T a : edges) {
    for (const T b : edges) {
      Pair<T>(a, b, static_cast<T>(3));
      Pair<T>(a, b, b);
    }
  }
  for (const T a : edges) {
    Units<T>(a);
  }
  std::mt19937_64 generator(20240927);
  std::uniform_real_distribution<long double> mantissa(-1.0L, 1.0L);
  std::uniform_int_distribution<int> exponent(-30, 30);
  // Print the first random cases in full and only a digest of the rest.
  for (int i = 0; i < 20000; ++i) {
    verbose = i < 200;
    const T a = static_cast<T>(std::ldexp(mantissa(generator), exponent(generator)));
    const T b = static_cast<T>(std::ldexp(mantissa(generator), exponent(generator)));
    const T n = static_cast<T>(std::ldexp(mantissa(generator), exponent(generator) / 3));
    Pair<T>(a, b, n);
    if (i % 50 == 0) {
      Units<T>(a);
    }
  }
  std::printf("# %s results=%llu digest=%016llx\n", name,
              static_cast<unsigned long long>(count), static_cast<unsigned long long>(digest));
}

}  // namespace

int main() {
  Run<float>("float");
  Run<double>("double");
  Run<long double>("long double");

  // Compile-time evaluation must still be possible.
  constexpr PhQ::Length<double> l = PhQ::Length<double>::Create<PhQ::Unit::Length::Metre>(8.0);
  constexpr PhQ::Time<double> t = PhQ::Time<double>::Create<PhQ::Unit::Time::Second>(2.0);
  constexpr PhQ::Speed<double> s = l / t;
  constexpr PhQ::Speed<double> s2 = 2.0 * s + s * 2.0 - s / 2.0;
  constexpr double ratio = s2 / s;
  constexpr PhQ::Length<double> l2 = 2.0 * l + l * 2.0 - l / 2.0;
  constexpr double lratio = l2 / l;
  static_assert(noexcept(s2 / s), "");
  static_assert(noexcept(l2 / l), "");
  static_assert(sizeof(PhQ::Speed<float>) == sizeof(float), "");
  static_assert(sizeof(PhQ::Length<long double>) == sizeof(long double), "");
  std::printf("constexpr %a %a %a %a\n", s2.Value(), ratio, l2.Value(), lratio);
  return 0;
}
