// Differential program for the C06 refactor of PhQ::Dimensions.
// Generated lists
#include <PhQ/Acceleration.hpp>
#include <PhQ/Angle.hpp>
#include <PhQ/AngularSpeed.hpp>
#include <PhQ/Area.hpp>
#include <PhQ/BulkDynamicViscosity.hpp>
#include <PhQ/Direction.hpp>
#include <PhQ/Displacement.hpp>
#include <PhQ/DisplacementGradient.hpp>
#include <PhQ/DynamicKinematicPressure.hpp>
#include <PhQ/DynamicPressure.hpp>
#include <PhQ/DynamicViscosity.hpp>
#include <PhQ/ElectricCharge.hpp>
#include <PhQ/ElectricCurrent.hpp>
#include <PhQ/Energy.hpp>
#include <PhQ/Force.hpp>
#include <PhQ/Frequency.hpp>
#include <PhQ/GasConstant.hpp>
#include <PhQ/HeatCapacityRatio.hpp>
#include <PhQ/HeatFlux.hpp>
#include <PhQ/IsentropicBulkModulus.hpp>
#include <PhQ/IsobaricHeatCapacity.hpp>
#include <PhQ/IsochoricHeatCapacity.hpp>
#include <PhQ/IsothermalBulkModulus.hpp>
#include <PhQ/KinematicViscosity.hpp>
#include <PhQ/LameFirstModulus.hpp>
#include <PhQ/Length.hpp>
#include <PhQ/LinearThermalExpansionCoefficient.hpp>
#include <PhQ/MachNumber.hpp>
#include <PhQ/Mass.hpp>
#include <PhQ/MassDensity.hpp>
#include <PhQ/MassRate.hpp>
#include <PhQ/Memory.hpp>
#include <PhQ/MemoryRate.hpp>
#include <PhQ/PWaveModulus.hpp>
#include <PhQ/PlanarAcceleration.hpp>
#include <PhQ/PlanarDirection.hpp>
#include <PhQ/PlanarDisplacement.hpp>
#include <PhQ/PlanarForce.hpp>
#include <PhQ/PlanarHeatFlux.hpp>
#include <PhQ/PlanarPosition.hpp>
#include <PhQ/PlanarTemperatureGradient.hpp>
#include <PhQ/PlanarTraction.hpp>
#include <PhQ/PlanarVelocity.hpp>
#include <PhQ/PoissonRatio.hpp>
#include <PhQ/Position.hpp>
#include <PhQ/Power.hpp>
#include <PhQ/PrandtlNumber.hpp>
#include <PhQ/ReynoldsNumber.hpp>
#include <PhQ/ScalarAcceleration.hpp>
#include <PhQ/ScalarAngularAcceleration.hpp>
#include <PhQ/ScalarDisplacementGradient.hpp>
#include <PhQ/ScalarForce.hpp>
#include <PhQ/ScalarHeatFlux.hpp>
#include <PhQ/ScalarStrain.hpp>
#include <PhQ/ScalarStrainRate.hpp>
#include <PhQ/ScalarStress.hpp>
#include <PhQ/ScalarTemperatureGradient.hpp>
#include <PhQ/ScalarThermalConductivity.hpp>
#include <PhQ/ScalarTraction.hpp>
#include <PhQ/ScalarVelocityGradient.hpp>
#include <PhQ/ShearModulus.hpp>
#include <PhQ/SolidAngle.hpp>
#include <PhQ/SoundSpeed.hpp>
#include <PhQ/SpecificEnergy.hpp>
#include <PhQ/SpecificGasConstant.hpp>
#include <PhQ/SpecificIsobaricHeatCapacity.hpp>
#include <PhQ/SpecificIsochoricHeatCapacity.hpp>
#include <PhQ/SpecificPower.hpp>
#include <PhQ/Speed.hpp>
#include <PhQ/StaticKinematicPressure.hpp>
#include <PhQ/StaticPressure.hpp>
#include <PhQ/Strain.hpp>
#include <PhQ/StrainRate.hpp>
#include <PhQ/Stress.hpp>
#include <PhQ/SubstanceAmount.hpp>
#include <PhQ/Temperature.hpp>
#include <PhQ/TemperatureDifference.hpp>
#include <PhQ/TemperatureGradient.hpp>
#include <PhQ/ThermalConductivity.hpp>
#include <PhQ/ThermalDiffusivity.hpp>
#include <PhQ/Time.hpp>
#include <PhQ/TotalKinematicPressure.hpp>
#include <PhQ/TotalPressure.hpp>
#include <PhQ/Traction.hpp>
#include <PhQ/TransportEnergyConsumption.hpp>
#include <PhQ/VectorArea.hpp>
#include <PhQ/Velocity.hpp>
#include <PhQ/VelocityGradient.hpp>
#include <PhQ/Volume.hpp>
#include <PhQ/VolumeRate.hpp>
#include <PhQ/VolumetricThermalExpansionCoefficient.hpp>
#include <PhQ/YoungModulus.hpp>
#include <PhQ/Unit/Acceleration.hpp>
#include <PhQ/Unit/Angle.hpp>
#include <PhQ/Unit/AngularAcceleration.hpp>
#include <PhQ/Unit/AngularSpeed.hpp>
#include <PhQ/Unit/Area.hpp>
#include <PhQ/Unit/Diffusivity.hpp>
#include <PhQ/Unit/DynamicViscosity.hpp>
#include <PhQ/Unit/ElectricCharge.hpp>
#include <PhQ/Unit/ElectricCurrent.hpp>
#include <PhQ/Unit/Energy.hpp>
#include <PhQ/Unit/EnergyFlux.hpp>
#include <PhQ/Unit/Force.hpp>
#include <PhQ/Unit/Frequency.hpp>
#include <PhQ/Unit/HeatCapacity.hpp>
#include <PhQ/Unit/Length.hpp>
#include <PhQ/Unit/Mass.hpp>
#include <PhQ/Unit/MassDensity.hpp>
#include <PhQ/Unit/MassRate.hpp>
#include <PhQ/Unit/Memory.hpp>
#include <PhQ/Unit/MemoryRate.hpp>
#include <PhQ/Unit/Power.hpp>
#include <PhQ/Unit/Pressure.hpp>
#include <PhQ/Unit/ReciprocalTemperature.hpp>
#include <PhQ/Unit/SolidAngle.hpp>
#include <PhQ/Unit/SpecificEnergy.hpp>
#include <PhQ/Unit/SpecificHeatCapacity.hpp>
#include <PhQ/Unit/SpecificPower.hpp>
#include <PhQ/Unit/Speed.hpp>
#include <PhQ/Unit/SubstanceAmount.hpp>
#include <PhQ/Unit/Temperature.hpp>
#include <PhQ/Unit/TemperatureDifference.hpp>
#include <PhQ/Unit/TemperatureGradient.hpp>
#include <PhQ/Unit/ThermalConductivity.hpp>
#include <PhQ/Unit/Time.hpp>
#include <PhQ/Unit/TransportEnergyConsumption.hpp>
#include <PhQ/Unit/Volume.hpp>
#include <PhQ/Unit/VolumeRate.hpp>
#include <PhQ/ConstitutiveModel.hpp>
#define QUANTITIES(X) \
  X(Acceleration) \
  X(Angle) \
  X(AngularSpeed) \
  X(Area) \
  X(BulkDynamicViscosity) \
  X(Direction) \
  X(Displacement) \
  X(DisplacementGradient) \
  X(DynamicKinematicPressure) \
  X(DynamicPressure) \
  X(DynamicViscosity) \
  X(ElectricCharge) \
  X(ElectricCurrent) \
  X(Energy) \
  X(Force) \
  X(Frequency) \
  X(GasConstant) \
  X(HeatCapacityRatio) \
  X(HeatFlux) \
  X(IsentropicBulkModulus) \
  X(IsobaricHeatCapacity) \
  X(IsochoricHeatCapacity) \
  X(IsothermalBulkModulus) \
  X(KinematicViscosity) \
  X(LameFirstModulus) \
  X(Length) \
  X(LinearThermalExpansionCoefficient) \
  X(MachNumber) \
  X(Mass) \
  X(MassDensity) \
  X(MassRate) \
  X(Memory) \
  X(MemoryRate) \
  X(PWaveModulus) \
  X(PlanarAcceleration) \
  X(PlanarDirection) \
  X(PlanarDisplacement) \
  X(PlanarForce) \
  X(PlanarHeatFlux) \
  X(PlanarPosition) \
  X(PlanarTemperatureGradient) \
  X(PlanarTraction) \
  X(PlanarVelocity) \
  X(PoissonRatio) \
  X(Position) \
  X(Power) \
  X(PrandtlNumber) \
  X(ReynoldsNumber) \
  X(ScalarAcceleration) \
  X(ScalarAngularAcceleration) \
  X(ScalarDisplacementGradient) \
  X(ScalarForce) \
  X(ScalarHeatFlux) \
  X(ScalarStrain) \
  X(ScalarStrainRate) \
  X(ScalarStress) \
  X(ScalarTemperatureGradient) \
  X(ScalarThermalConductivity) \
  X(ScalarTraction) \
  X(ScalarVelocityGradient) \
  X(ShearModulus) \
  X(SolidAngle) \
  X(SoundSpeed) \
  X(SpecificEnergy) \
  X(SpecificGasConstant) \
  X(SpecificIsobaricHeatCapacity) \
  X(SpecificIsochoricHeatCapacity) \
  X(SpecificPower) \
  X(Speed) \
  X(StaticKinematicPressure) \
  X(StaticPressure) \
  X(Strain) \
  X(StrainRate) \
  X(Stress) \
  X(SubstanceAmount) \
  X(Temperature) \
  X(TemperatureDifference) \
  X(TemperatureGradient) \
  X(ThermalConductivity) \
  X(ThermalDiffusivity) \
  X(Time) \
  X(TotalKinematicPressure) \
  X(TotalPressure) \
  X(Traction) \
  X(TransportEnergyConsumption) \
  X(VectorArea) \
  X(Velocity) \
  X(VelocityGradient) \
  X(Volume) \
  X(VolumeRate) \
  X(VolumetricThermalExpansionCoefficient) \
  X(YoungModulus) \

#define UNITS(X) \
  X(Acceleration) \
  X(Angle) \
  X(AngularAcceleration) \
  X(AngularSpeed) \
  X(Area) \
  X(Diffusivity) \
  X(DynamicViscosity) \
  X(ElectricCharge) \
  X(ElectricCurrent) \
  X(Energy) \
  X(EnergyFlux) \
  X(Force) \
  X(Frequency) \
  X(HeatCapacity) \
  X(Length) \
  X(Mass) \
  X(MassDensity) \
  X(MassRate) \
  X(Memory) \
  X(MemoryRate) \
  X(Power) \
  X(Pressure) \
  X(ReciprocalTemperature) \
  X(SolidAngle) \
  X(SpecificEnergy) \
  X(SpecificHeatCapacity) \
  X(SpecificPower) \
  X(Speed) \
  X(SubstanceAmount) \
  X(Temperature) \
  X(TemperatureDifference) \
  X(TemperatureGradient) \
  X(ThermalConductivity) \
  X(Time) \
  X(TransportEnergyConsumption) \
  X(Volume) \
  X(VolumeRate) \


#include <cstdint>
#include <cstdio>
#include <iostream>
#include <random>
#include <set>
#include <sstream>
#include <string>
#include <unordered_map>
#include <unordered_set>
#include <vector>

namespace {

uint64_t digest = 1469598103934665603ULL;
void Feed(const std::string& s) {
  for (const unsigned char c : s) { digest ^= c; digest *= 1099511628211ULL; }
  digest ^= 0xff; digest *= 1099511628211ULL;
}
void Feed(const uint64_t v) { Feed(std::to_string(v)); }

PhQ::Dimensions Make(const int a, const int b, const int c, const int d, const int e, const int f, const int g) {
  return PhQ::Dimensions{
      PhQ::Dimension::Time{static_cast<int8_t>(a)}, PhQ::Dimension::Length{static_cast<int8_t>(b)},
      PhQ::Dimension::Mass{static_cast<int8_t>(c)}, PhQ::Dimension::ElectricCurrent{static_cast<int8_t>(d)},
      PhQ::Dimension::Temperature{static_cast<int8_t>(e)}, PhQ::Dimension::SubstanceAmount{static_cast<int8_t>(f)},
      PhQ::Dimension::LuminousIntensity{static_cast<int8_t>(g)}};
}

std::string Describe(const PhQ::Dimensions& d) {
  std::ostringstream s;
  s << d << " | " << d.Print() << " | " << d.JSON() << " | " << d.XML() << " | " << d.YAML()
    << " | hash=" << std::hash<PhQ::Dimensions>()(d) << " | ("
    << static_cast<int>(d.Time().Value()) << "," << static_cast<int>(d.Length().Value()) << ","
    << static_cast<int>(d.Mass().Value()) << "," << static_cast<int>(d.ElectricCurrent().Value()) << ","
    << static_cast<int>(d.Temperature().Value()) << "," << static_cast<int>(d.SubstanceAmount().Value()) << ","
    << static_cast<int>(d.LuminousIntensity().Value()) << ")";
  return s.str();
}

std::string Compare(const PhQ::Dimensions& a, const PhQ::Dimensions& b) {
  std::string r;
  r += (a == b) ? '1' : '0';
  r += (a != b) ? '1' : '0';
  r += (a < b) ? '1' : '0';
  r += (a > b) ? '1' : '0';
  r += (a <= b) ? '1' : '0';
  r += (a >= b) ? '1' : '0';
  return r;
}

template <typename Unit>
void UnitType(const char* name) {
  const PhQ::Dimensions& d = PhQ::RelatedDimensions<Unit>;
  std::cout << "unit-type " << name << ": " << Describe(d) << "\n";
  std::cout << "  units:";
  for (const auto& entry : PhQ::Internal::Abbreviations<Unit>) {
    std::cout << " [" << entry.second << "]";
  }
  std::cout << "\n";
}

template <typename Quantity>
void QuantityType(const char* name, const char* numeric) {
  const PhQ::Dimensions d = Quantity::Dimensions();
  std::cout << "quantity " << name << "<" << numeric << ">: " << Describe(d)
            << " cmp-dimensionless=" << Compare(d, PhQ::Dimensionless) << "\n";
}

// Compile-time checks of the constexpr comparison operators.
constexpr PhQ::Dimensions kA{PhQ::Dimension::Time{-1}, PhQ::Dimension::Length{1}, PhQ::Dimension::Mass{0},
                             PhQ::Dimension::ElectricCurrent{0}, PhQ::Dimension::Temperature{0},
                             PhQ::Dimension::SubstanceAmount{0}, PhQ::Dimension::LuminousIntensity{0}};
constexpr PhQ::Dimensions kB{PhQ::Dimension::Time{-1}, PhQ::Dimension::Length{1}, PhQ::Dimension::Mass{0},
                             PhQ::Dimension::ElectricCurrent{0}, PhQ::Dimension::Temperature{0},
                             PhQ::Dimension::SubstanceAmount{0}, PhQ::Dimension::LuminousIntensity{1}};
static_assert(kA != kB && !(kA != kA) && kA == kA && kA < kB && kB > kA && kA <= kB && kB >= kA, "constexpr");

}  // namespace

int main() {
  // 1. Every unit type and its units.
#define X(U) UnitType<PhQ::Unit::U>(#U);
  UNITS(X)
#undef X

  // 2. Every quantity type, in all three numeric types.
#define X(Q) QuantityType<PhQ::Q<float>>(#Q, "float"); QuantityType<PhQ::Q<double>>(#Q, "double"); \
  QuantityType<PhQ::Q<long double>>(#Q, "long double");
  QUANTITIES(X)
#undef X

  // 3. Exhaustive box [-3, 3]^7: print, serialisations and hash go into a digest; every 4099th is shown.
  {
    uint64_t count = 0;
    std::unordered_set<PhQ::Dimensions> seen;
    std::set<PhQ::Dimensions> ordered;
    for (int a = -3; a <= 3; ++a) for (int b = -3; b <= 3; ++b) for (int c = -3; c <= 3; ++c)
    for (int d = -3; d <= 3; ++d) for (int e = -3; e <= 3; ++e) for (int f = -3; f <= 3; ++f)
    for (int g = -3; g <= 3; ++g) {
      const PhQ::Dimensions x = Make(a, b, c, d, e, f, g);
      const std::string s = Describe(x);
      Feed(s);
      if (count % 4099 == 0) std::cout << "box " << count << ": " << s << "\n";
      // neighbours: compare with each single-slot perturbation and with itself
      Feed(Compare(x, x));
      Feed(Compare(x, Make(a + 1, b, c, d, e, f, g)));
      Feed(Compare(x, Make(a, b - 1, c, d, e, f, g)));
      Feed(Compare(x, Make(a, b, c + 1, d, e, f, g)));
      Feed(Compare(x, Make(a, b, c, d - 1, e, f, g)));
      Feed(Compare(x, Make(a, b, c, d, e + 1, f, g)));
      Feed(Compare(x, Make(a, b, c, d, e, f - 1, g)));
      Feed(Compare(x, Make(a, b, c, d, e, f, g + 1)));
      Feed(Compare(x, Make(g, f, e, d, c, b, a)));
      if ((a + b + c + d + e + f + g) % 5 == 0) { seen.insert(x); ordered.insert(x); }
      ++count;
    }
    std::cout << "box count=" << count << " digest=" << digest << " seen=" << seen.size()
              << " ordered=" << ordered.size() << "\n";
    uint64_t k = 0;
    for (const PhQ::Dimensions& x : ordered) {
      Feed(x.Print());
      if (k++ % 20011 == 0) std::cout << "ordered " << k << ": " << x << "\n";
    }
    std::cout << "ordered digest=" << digest << "\n";
  }

  // 4. Small box [-2, 2]^7 sample: all pairs among a subset, full comparison matrix into the digest.
  {
    std::vector<PhQ::Dimensions> v;
    for (int a = -1; a <= 1; ++a) for (int b = -1; b <= 1; ++b) for (int c = -1; c <= 1; ++c)
    for (int d = -1; d <= 1; ++d) for (int e = -1; e <= 1; ++e) for (int f = -1; f <= 1; ++f)
    for (int g = -1; g <= 1; ++g) {
      if ((a * 1 + b * 2 + c * 3 + d * 4 + e * 5 + f * 6 + g * 7 + 100) % 3 == 0) v.push_back(Make(a, b, c, d, e, f, g));
    }
    uint64_t tally[6] = {0, 0, 0, 0, 0, 0};
    for (const auto& x : v) for (const auto& y : v) {
      const std::string r = Compare(x, y);
      Feed(r);
      for (int i = 0; i < 6; ++i) tally[i] += (r[i] == '1');
    }
    std::cout << "pairs n=" << v.size() << " tally=" << tally[0] << "," << tally[1] << "," << tally[2] << ","
              << tally[3] << "," << tally[4] << "," << tally[5] << " digest=" << digest << "\n";
  }

  // 5. Random and extreme exponents (full int8_t range), printed in full.
  {
    std::mt19937_64 rng(20240606);
    std::uniform_int_distribution<int> wide(-128, 127);
    std::uniform_int_distribution<int> narrow(-2, 2);
    const int edge[] = {-128, -127, -100, -10, -9, -2, -1, 0, 1, 2, 9, 10, 99, 100, 126, 127};
    std::vector<PhQ::Dimensions> v;
    for (const int x : edge) {
      v.push_back(Make(x, x, x, x, x, x, x));
      for (int slot = 0; slot < 7; ++slot) {
        int t[7] = {0, 0, 0, 0, 0, 0, 0};
        t[slot] = x;
        v.push_back(Make(t[0], t[1], t[2], t[3], t[4], t[5], t[6]));
      }
    }
    for (int i = 0; i < 3000; ++i) {
      v.push_back(Make(wide(rng), wide(rng), wide(rng), wide(rng), wide(rng), wide(rng), wide(rng)));
      v.push_back(Make(narrow(rng), narrow(rng), narrow(rng), narrow(rng), narrow(rng), narrow(rng), narrow(rng)));
    }
    for (std::size_t i = 0; i < v.size(); ++i) {
      const PhQ::Dimensions& x = v[i];
      const PhQ::Dimensions& y = v[(i * 7919 + 13) % v.size()];
      std::cout << "rnd " << i << ": " << Describe(x) << " cmp=" << Compare(x, y) << Compare(y, x) << Compare(x, x) << "\n";
    }
    std::unordered_map<PhQ::Dimensions, int> m;
    for (const auto& x : v) ++m[x];
    std::cout << "unordered_map size=" << m.size() << "\n";
    std::set<PhQ::Dimensions> s(v.begin(), v.end());
    std::cout << "set size=" << s.size() << " first=" << *s.begin() << " last=" << *s.rbegin() << "\n";
    for (const auto& x : s) Feed(x.Print());
    std::cout << "set digest=" << digest << "\n";
  }

  // 6. Quantities printed with their dimensions, in three numeric types, with edge values.
  {
    const double values[] = {0.0, -0.0, 1.0e-300, 1.0e300, -1.2345678901234567, 4.9e-324};
    for (const double value : values) {
      const PhQ::Speed<float> sf(static_cast<float>(value), PhQ::Unit::Speed::MilePerHour);
      const PhQ::Speed<double> sd(value, PhQ::Unit::Speed::MilePerHour);
      const PhQ::Speed<long double> sl(static_cast<long double>(value), PhQ::Unit::Speed::MilePerHour);
      std::cout << std::hexfloat << "speed " << sf.Value() << " " << sd.Value() << " " << sl.Value()
                << std::defaultfloat << " " << sf << " " << sd << " " << sl << " dims "
                << sf.Dimensions() << " " << sd.Dimensions() << " " << sl.Dimensions() << "\n";
    }
  }
  std::cout << "final digest=" << digest << "\n";
  return 0;
}
