// Differential program for the C19s refactor: exercises the namespace-scope tables (abbreviations,
// spellings, consistent units, related unit systems, conversion dispatch) both before main() and
// inside main(), for float, double and long double.
#include <PhQ/Angle.hpp>
#include <PhQ/Area.hpp>
#include <PhQ/Energy.hpp>
#include <PhQ/Force.hpp>
#include <PhQ/Frequency.hpp>
#include <PhQ/Length.hpp>
#include <PhQ/Mass.hpp>
#include <PhQ/Position.hpp>
#include <PhQ/Power.hpp>
#include <PhQ/Speed.hpp>
#include <PhQ/StaticPressure.hpp>
#include <PhQ/Stress.hpp>
#include <PhQ/Temperature.hpp>
#include <PhQ/TemperatureDifference.hpp>
#include <PhQ/Time.hpp>
#include <PhQ/Traction.hpp>
#include <PhQ/Velocity.hpp>
#include <PhQ/VelocityGradient.hpp>
#include <PhQ/PlanarVelocity.hpp>
#include <PhQ/Volume.hpp>

#include <algorithm>
#include <array>
#include <cmath>
#include <cstdint>
#include <cstdio>
#include <iostream>
#include <limits>
#include <random>
#include <sstream>
#include <string>
#include <vector>

namespace {

using PhQ::operator<<;

// ------------------------------------------------------------------------------------------------
// Objects with static storage duration that only use the facilities that are usable before main()
// in the original library (tables that are explicit specializations, standard units).
// ------------------------------------------------------------------------------------------------
const PhQ::Time<double> pre_time{2.5, PhQ::Unit::Time::Second};
const PhQ::Length<float> pre_length{-0.0F, PhQ::Unit::Length::Metre};
const PhQ::Temperature<long double> pre_temperature{273.15L, PhQ::Unit::Temperature::Kelvin};
const std::string pre_print_time = pre_time.Print();
const std::string pre_print_length = pre_length.Print();
const std::string pre_print_temperature = pre_temperature.Print(PhQ::Unit::Temperature::Kelvin);
const std::string pre_json = pre_time.JSON();
const std::string pre_xml = pre_length.XML();
const std::string pre_yaml = pre_temperature.YAML();
const std::string_view pre_abbreviation_hour = PhQ::Abbreviation(PhQ::Unit::Time::Hour);
const std::string_view pre_abbreviation_system =
    PhQ::Abbreviation(PhQ::UnitSystem::FootPoundSecondRankine);
const std::optional<PhQ::Unit::Time> pre_parse_hit = PhQ::ParseEnumeration<PhQ::Unit::Time>("hrs");
const std::optional<PhQ::Unit::Time> pre_parse_miss =
    PhQ::ParseEnumeration<PhQ::Unit::Time>("fortnight");
const std::optional<PhQ::UnitSystem> pre_parse_system =
    PhQ::ParseEnumeration<PhQ::UnitSystem>("in, lbf, s, R");
const PhQ::Unit::Length pre_consistent =
    PhQ::ConsistentUnit<PhQ::Unit::Length>(PhQ::UnitSystem::InchPoundSecondRankine);
const std::optional<PhQ::UnitSystem> pre_related =
    PhQ::RelatedUnitSystem(PhQ::Unit::Length::Millimetre);
const std::optional<PhQ::UnitSystem> pre_related_none =
    PhQ::RelatedUnitSystem(PhQ::Unit::Length::Mile);
const bool pre_compare = pre_time < PhQ::Time<double>{3.0, PhQ::Unit::Time::Second};
const std::string pre_stream = [] {
  std::ostringstream stream;
  stream << pre_time << "|" << PhQ::Unit::Time::Minute << "|"
         << PhQ::UnitSystem::MillimetreGramSecondKelvin;
  return stream.str();
}();

// ------------------------------------------------------------------------------------------------
// Digest.
// ------------------------------------------------------------------------------------------------
std::uint64_t digest = 1469598103934665603ULL;
std::uint64_t count = 0;

void Feed(const std::string& text) {
  for (const char character : text) {
    digest ^= static_cast<unsigned char>(character);
    digest *= 1099511628211ULL;
  }
  digest ^= 0xFFU;
  digest *= 1099511628211ULL;
  ++count;
}

template <typename T>
std::string Hex(const T value) {
  char buffer[96];
  std::snprintf(buffer, sizeof(buffer), "%La", static_cast<long double>(value));
  return buffer;
}

template <typename T>
void FeedNumber(const T value) {
  Feed(Hex(value));
}

void Section(const char* name) {
  std::printf("%-44s count=%llu digest=%016llx\n", name, static_cast<unsigned long long>(count),
              static_cast<unsigned long long>(digest));
}

template <typename T>
const char* TypeName();
template <>
const char* TypeName<float>() {
  return "float";
}
template <>
const char* TypeName<double>() {
  return "double";
}
template <>
const char* TypeName<long double>() {
  return "long double";
}

template <typename T>
std::vector<T> Samples(const unsigned seed) {
  std::vector<T> samples{
    static_cast<T>(0.0),
    static_cast<T>(-0.0),
    static_cast<T>(1.0),
    static_cast<T>(-1.0),
    static_cast<T>(0.1L),
    static_cast<T>(-273.15L),
    static_cast<T>(459.67L),
    static_cast<T>(32.0),
    static_cast<T>(1.0e-30L),
    static_cast<T>(-1.0e30L),
    std::numeric_limits<T>::min(),
    std::numeric_limits<T>::denorm_min(),
    -std::numeric_limits<T>::denorm_min(),
    std::numeric_limits<T>::max(),
    std::numeric_limits<T>::lowest(),
    std::numeric_limits<T>::epsilon(),
    std::numeric_limits<T>::infinity(),
    -std::numeric_limits<T>::infinity(),
    static_cast<T>(3.14159265358979323846264338327950288L),
    static_cast<T>(12345.6789L),
    static_cast<T>(0.00123456789L),
  };
  std::mt19937_64 generator(seed);
  std::uniform_real_distribution<double> mantissa(-10.0, 10.0);
  std::uniform_int_distribution<int> exponent(-30, 30);
  for (int index = 0; index < 60; ++index) {
    const long double value = static_cast<long double>(mantissa(generator))
                              * std::pow(10.0L, static_cast<long double>(exponent(generator)));
    samples.push_back(static_cast<T>(value));
  }
  return samples;
}

template <typename U>
std::vector<U> AllUnits() {
  std::vector<U> units;
  for (const auto& entry : PhQ::Internal::Abbreviations<U>) {
    units.push_back(entry.first);
  }
  return units;
}

// Tables: abbreviations, spellings, consistent units, related unit systems, stream output.
template <typename U>
void Tables(const char* name) {
  const std::vector<U> units = AllUnits<U>();
  std::string line = name;
  line += ":";
  for (const U unit : units) {
    const std::string_view abbreviation = PhQ::Abbreviation(unit);
    line += " ";
    line += abbreviation;
    std::ostringstream stream;
    stream << unit;
    Feed(stream.str());
    const std::optional<U> parsed = PhQ::ParseEnumeration<U>(abbreviation);
    Feed(parsed.has_value() ? std::to_string(static_cast<int>(parsed.value())) : "nullopt");
    if constexpr (!std::is_same_v<U, PhQ::UnitSystem>) {
      const std::optional<PhQ::UnitSystem> system = PhQ::RelatedUnitSystem(unit);
      Feed(system.has_value() ? std::string(PhQ::Abbreviation(system.value())) : "none");
    }
  }
  Feed(line);
  // Every spelling in the table parses to its enumerator; mangled spellings do not parse unless
  // they happen to be in the table.
  std::vector<std::string> spellings;
  for (const auto& entry : PhQ::Internal::Spellings<U>) {
    spellings.emplace_back(entry.first);
  }
  std::sort(spellings.begin(), spellings.end());
  for (const std::string& spelling : spellings) {
    for (const std::string& candidate :
         {spelling, spelling + " ", " " + spelling, PhQ::Uppercase(spelling), spelling + "s"}) {
      const std::optional<U> parsed = PhQ::ParseEnumeration<U>(candidate);
      Feed(candidate + "=>"
           + (parsed.has_value() ? std::to_string(static_cast<int>(parsed.value())) : "nullopt"));
    }
  }
  if constexpr (!std::is_same_v<U, PhQ::UnitSystem>) {
    for (const PhQ::UnitSystem system :
         {PhQ::UnitSystem::MetreKilogramSecondKelvin, PhQ::UnitSystem::MillimetreGramSecondKelvin,
          PhQ::UnitSystem::FootPoundSecondRankine, PhQ::UnitSystem::InchPoundSecondRankine}) {
      const U unit = PhQ::ConsistentUnit<U>(system);
      Feed(std::string(PhQ::Abbreviation(system)) + "->" + std::string(PhQ::Abbreviation(unit)));
    }
  }
  std::printf("%s (%zu units, %zu spellings)\n", line.c_str(), units.size(), spellings.size());
}

// Conversion dispatch: every pair of units, every shape, one numeric type.
template <typename U, typename T>
void Conversions(const unsigned seed) {
  const std::vector<U> units = AllUnits<U>();
  const std::vector<T> samples = Samples<T>(seed);
  for (const U from : units) {
    for (const U to : units) {
      // Scalars.
      for (const T sample : samples) {
        T in_place = sample;
        PhQ::ConvertInPlace(in_place, from, to);
        FeedNumber(in_place);
        FeedNumber(PhQ::Convert(sample, from, to));
      }
      // std::vector, including the empty vector.
      std::vector<T> values = samples;
      PhQ::ConvertInPlace(values, from, to);
      for (const T value : values) {
        FeedNumber(value);
      }
      for (const T value : PhQ::Convert(samples, from, to)) {
        FeedNumber(value);
      }
      std::vector<T> empty;
      PhQ::ConvertInPlace(empty, from, to);
      Feed(std::to_string(empty.size()));
      // std::array and the vector and tensor shapes.
      for (std::size_t offset = 0; offset + 9 <= samples.size(); offset += 9) {
        const T* const s = samples.data() + offset;
        std::array<T, 4> array{s[0], s[1], s[2], s[3]};
        PhQ::ConvertInPlace(array, from, to);
        for (const T value : array) {
          FeedNumber(value);
        }
        for (const T value : PhQ::Convert(std::array<T, 1>{s[4]}, from, to)) {
          FeedNumber(value);
        }
        std::array<T, 0> none{};
        PhQ::ConvertInPlace(none, from, to);
        PhQ::PlanarVector<T> planar{s[0], s[1]};
        PhQ::ConvertInPlace(planar, from, to);
        FeedNumber(planar.x());
        FeedNumber(planar.y());
        const PhQ::PlanarVector<T> planar2 =
            PhQ::Convert(PhQ::PlanarVector<T>{s[2], s[3]}, from, to);
        FeedNumber(planar2.x());
        FeedNumber(planar2.y());
        PhQ::Vector<T> vector{s[0], s[1], s[2]};
        PhQ::ConvertInPlace(vector, from, to);
        const PhQ::Vector<T> vector2 = PhQ::Convert(PhQ::Vector<T>{s[3], s[4], s[5]}, from, to);
        for (const T value : vector.x_y_z()) {
          FeedNumber(value);
        }
        for (const T value : vector2.x_y_z()) {
          FeedNumber(value);
        }
        PhQ::SymmetricDyad<T> symmetric{s[0], s[1], s[2], s[3], s[4], s[5]};
        PhQ::ConvertInPlace(symmetric, from, to);
        const PhQ::SymmetricDyad<T> symmetric2 =
            PhQ::Convert(PhQ::SymmetricDyad<T>{s[3], s[4], s[5], s[6], s[7], s[8]}, from, to);
        for (const T value : symmetric.xx_xy_xz_yy_yz_zz()) {
          FeedNumber(value);
        }
        for (const T value : symmetric2.xx_xy_xz_yy_yz_zz()) {
          FeedNumber(value);
        }
        PhQ::Dyad<T> dyad{s[0], s[1], s[2], s[3], s[4], s[5], s[6], s[7], s[8]};
        PhQ::ConvertInPlace(dyad, from, to);
        const PhQ::Dyad<T> dyad2 = PhQ::Convert(
            PhQ::Dyad<T>{s[8], s[7], s[6], s[5], s[4], s[3], s[2], s[1], s[0]}, from, to);
        for (const T value : dyad.xx_xy_xz_yx_yy_yz_zx_zy_zz()) {
          FeedNumber(value);
        }
        for (const T value : dyad2.xx_xy_xz_yx_yy_yz_zx_zy_zz()) {
          FeedNumber(value);
        }
      }
    }
  }
}

// Static conversions go through Internal::Conversions (the sequence loops) for arrays.
template <typename T>
void StaticConversions(const unsigned seed) {
  using PhQ::Unit::Length;
  using PhQ::Unit::Temperature;
  using PhQ::Unit::Time;
  const std::vector<T> samples = Samples<T>(seed);
  for (std::size_t offset = 0; offset + 9 <= samples.size(); offset += 9) {
    const T* const s = samples.data() + offset;
    FeedNumber(PhQ::ConvertStatically<Time, Time::Hour, Time::Millisecond>(s[0]));
    FeedNumber(PhQ::ConvertStatically<Temperature, Temperature::Fahrenheit, Temperature::Celsius>(
        s[1]));
    for (const T value : PhQ::ConvertStatically<Length, Length::Mile, Length::Inch, 5, T>(
             std::array<T, 5>{s[0], s[1], s[2], s[3], s[4]})) {
      FeedNumber(value);
    }
    for (const T value :
         PhQ::ConvertStatically<Temperature, Temperature::Rankine, Temperature::Celsius, 3, T>(
             std::array<T, 3>{s[5], s[6], s[7]})) {
      FeedNumber(value);
    }
    Feed(std::to_string(PhQ::ConvertStatically<Time, Time::Minute, Time::Second, 0, T>(
                            std::array<T, 0>{})
                            .size()));
    const PhQ::PlanarVector<T> planar =
        PhQ::ConvertStatically<Length, Length::Foot, Length::Millimetre>(
            PhQ::PlanarVector<T>{s[0], s[1]});
    FeedNumber(planar.x());
    FeedNumber(planar.y());
    const PhQ::Vector<T> vector = PhQ::ConvertStatically<Length, Length::Yard, Length::Metre>(
        PhQ::Vector<T>{s[2], s[3], s[4]});
    for (const T value : vector.x_y_z()) {
      FeedNumber(value);
    }
    const PhQ::SymmetricDyad<T> symmetric =
        PhQ::ConvertStatically<Time, Time::Nanosecond, Time::Hour>(
            PhQ::SymmetricDyad<T>{s[0], s[1], s[2], s[3], s[4], s[5]});
    for (const T value : symmetric.xx_xy_xz_yy_yz_zz()) {
      FeedNumber(value);
    }
    const PhQ::Dyad<T> dyad = PhQ::ConvertStatically<Length, Length::Micrometre, Length::Mile>(
        PhQ::Dyad<T>{s[0], s[1], s[2], s[3], s[4], s[5], s[6], s[7], s[8]});
    for (const T value : dyad.xx_xy_xz_yx_yy_yz_zx_zy_zz()) {
      FeedNumber(value);
    }
  }
  // Compile-time evaluation of the sequence loops.
  constexpr std::array<T, 3> constant = PhQ::ConvertStatically<Time, Time::Hour, Time::Minute, 3, T>(
      std::array<T, 3>{static_cast<T>(1.5), static_cast<T>(-0.25), static_cast<T>(0.0)});
  for (const T value : constant) {
    FeedNumber(value);
  }
}

// Quantities: constructed in any unit, converted, compared and printed.
template <typename T>
void Quantities(const unsigned seed) {
  const std::vector<T> samples = Samples<T>(seed);
  const std::vector<PhQ::Unit::Time> time_units = AllUnits<PhQ::Unit::Time>();
  const std::vector<PhQ::Unit::Temperature> temperature_units =
      AllUnits<PhQ::Unit::Temperature>();
  const std::vector<PhQ::Unit::Length> length_units = AllUnits<PhQ::Unit::Length>();
  const std::vector<PhQ::Unit::Speed> speed_units = AllUnits<PhQ::Unit::Speed>();
  const std::vector<PhQ::Unit::Pressure> pressure_units = AllUnits<PhQ::Unit::Pressure>();
  const std::vector<PhQ::Unit::Frequency> frequency_units = AllUnits<PhQ::Unit::Frequency>();
  for (std::size_t index = 0; index + 2 < samples.size(); ++index) {
    const T a = samples[index];
    const T b = samples[index + 1];
    const T c = samples[index + 2];
    for (const PhQ::Unit::Time unit : time_units) {
      const PhQ::Time<T> first{a, unit};
      const PhQ::Time<T> second{b, time_units[(index + 1) % time_units.size()]};
      FeedNumber(first.Value());
      FeedNumber(first.Value(unit));
      Feed(first.Print());
      Feed(first.Print(unit));
      Feed(first.JSON(unit));
      Feed(first.XML(unit));
      Feed(first.YAML(unit));
      Feed(std::string{first == second ? "1" : "0"} + (first != second ? "1" : "0")
           + (first < second ? "1" : "0") + (first > second ? "1" : "0")
           + (first <= second ? "1" : "0") + (first >= second ? "1" : "0"));
      std::ostringstream stream;
      stream << first << ";" << unit;
      Feed(stream.str());
    }
    for (const PhQ::Unit::Temperature unit : temperature_units) {
      const PhQ::Temperature<T> temperature{a, unit};
      FeedNumber(temperature.Value());
      FeedNumber(temperature.Value(temperature_units[index % temperature_units.size()]));
      Feed(temperature.Print(unit));
      Feed(PhQ::Temperature<T>::template Create<PhQ::Unit::Temperature::Fahrenheit>(b).Print());
    }
    const PhQ::Unit::Length length_unit = length_units[index % length_units.size()];
    const PhQ::Position<T> position{
      {a, b, c},
      length_unit
    };
    Feed(position.Print(length_units[(index + 3) % length_units.size()]));
    Feed(position.JSON(length_unit));
    for (const T value : position.Value(length_unit).x_y_z()) {
      FeedNumber(value);
    }
    const PhQ::Unit::Speed speed_unit = speed_units[index % speed_units.size()];
    const PhQ::PlanarVelocity<T> planar_velocity{
      {a, b},
      speed_unit
    };
    Feed(planar_velocity.Print(speed_units[(index + 5) % speed_units.size()]));
    Feed(planar_velocity.YAML());
    const PhQ::Unit::Pressure pressure_unit = pressure_units[index % pressure_units.size()];
    const PhQ::Stress<T> stress{
      {a, b, c, a, c, b},
      pressure_unit
    };
    Feed(stress.Print(pressure_units[(index + 1) % pressure_units.size()]));
    Feed(stress.XML());
    const PhQ::Unit::Frequency frequency_unit = frequency_units[index % frequency_units.size()];
    const PhQ::VelocityGradient<T> gradient{
      {a, b, c, c, b, a, b, a, c},
      frequency_unit
    };
    Feed(gradient.Print(frequency_units[(index + 2) % frequency_units.size()]));
    Feed(gradient.JSON());
  }
}

template <typename T>
void RunNumericType(const unsigned seed) {
  Conversions<PhQ::Unit::Time, T>(seed + 1);
  Conversions<PhQ::Unit::Temperature, T>(seed + 2);
  Conversions<PhQ::Unit::TemperatureDifference, T>(seed + 3);
  Conversions<PhQ::Unit::Angle, T>(seed + 4);
  Conversions<PhQ::Unit::Mass, T>(seed + 5);
  Conversions<PhQ::Unit::Frequency, T>(seed + 6);
  Section((std::string("conversions small tables ") + TypeName<T>()).c_str());
  Conversions<PhQ::Unit::Length, T>(seed + 7);
  Section((std::string("conversions Length ") + TypeName<T>()).c_str());
  Conversions<PhQ::Unit::Force, T>(seed + 8);
  Conversions<PhQ::Unit::Pressure, T>(seed + 9);
  Section((std::string("conversions Force, Pressure ") + TypeName<T>()).c_str());
  StaticConversions<T>(seed + 10);
  Section((std::string("static conversions ") + TypeName<T>()).c_str());
  Quantities<T>(seed + 11);
  Section((std::string("quantities ") + TypeName<T>()).c_str());
}

}  // namespace

int main() {
  std::cout << "pre-main: " << pre_print_time << " | " << pre_print_length << " | "
            << pre_print_temperature << " | " << pre_json << " | " << pre_xml << " | " << pre_yaml
            << " | " << pre_abbreviation_hour << " | " << pre_abbreviation_system << " | "
            << (pre_parse_hit ? static_cast<int>(*pre_parse_hit) : -1) << " | "
            << (pre_parse_miss ? static_cast<int>(*pre_parse_miss) : -1) << " | "
            << (pre_parse_system ? static_cast<int>(*pre_parse_system) : -1) << " | "
            << pre_consistent << " | " << (pre_related ? static_cast<int>(*pre_related) : -1)
            << " | " << (pre_related_none ? static_cast<int>(*pre_related_none) : -1) << " | "
            << pre_compare << " | " << pre_stream << std::endl;
  std::cout << "in-main:  " << pre_time.Print() << " | " << pre_length.Print() << " | "
            << pre_temperature.Print(PhQ::Unit::Temperature::Kelvin) << " | " << pre_time.JSON()
            << " | " << pre_length.XML() << " | " << pre_temperature.YAML() << " | "
            << PhQ::Abbreviation(PhQ::Unit::Time::Hour) << " | "
            << PhQ::Abbreviation(PhQ::UnitSystem::FootPoundSecondRankine) << std::endl;

  Tables<PhQ::UnitSystem>("UnitSystem");
  Tables<PhQ::Unit::Time>("Time");
  Tables<PhQ::Unit::Length>("Length");
  Tables<PhQ::Unit::Mass>("Mass");
  Tables<PhQ::Unit::Temperature>("Temperature");
  Tables<PhQ::Unit::TemperatureDifference>("TemperatureDifference");
  Tables<PhQ::Unit::Angle>("Angle");
  Tables<PhQ::Unit::Area>("Area");
  Tables<PhQ::Unit::Volume>("Volume");
  Tables<PhQ::Unit::Speed>("Speed");
  Tables<PhQ::Unit::Force>("Force");
  Tables<PhQ::Unit::Pressure>("Pressure");
  Tables<PhQ::Unit::Energy>("Energy");
  Tables<PhQ::Unit::Power>("Power");
  Tables<PhQ::Unit::Frequency>("Frequency");
  Section("tables");

  RunNumericType<float>(100);
  RunNumericType<double>(200);
  RunNumericType<long double>(300);
  Section("total");
  return 0;
}
