"""Algebraic normal forms of evaluator terms (sympy): casts erased, exact rationals, sqrt as a radical.

Polynomial/rational identity is decided by normalisation (expand / cancel), not by search.  When two
forms differ a small rational witness point is produced by evaluating the two *terms* exactly."""
from fractions import Fraction
import itertools
import sympy
from sympy import Rational, Symbol, sqrt, S

from . import ev
from .ev import Inconclusive

_syms = {}


def sym(name, positive=False):
    key = (name, positive)
    if key not in _syms:
        _syms[key] = Symbol(name.replace(" ", ""), real=True, positive=positive or None)
    return _syms[key]


class Conv:
    def __init__(self, positive=False, uninterpreted=None):
        self.positive = positive
        self.cache = {}
        self.uninterpreted = uninterpreted or {}

    def __call__(self, t):
        return self.conv(t)

    def conv(self, t):
        if isinstance(t, bool):
            raise Inconclusive("boolean in arithmetic term")
        if isinstance(t, int):
            return sympy.Integer(t)
        if not isinstance(t, tuple) or not t:
            raise Inconclusive("cannot normalise %r" % (t,))
        if t in self.cache:
            return self.cache[t]
        r = self._conv(t)
        self.cache[t] = r
        return r

    def _conv(self, t):
        k = t[0]
        if k == "c":
            return Rational(t[1].numerator, t[1].denominator)
        if k == "pi":
            return sympy.pi
        if k == "leaf":
            return sym(t[1], self.positive)
        if k == "add":
            return self.conv(t[1]) + self.conv(t[2])
        if k == "sub":
            return self.conv(t[1]) - self.conv(t[2])
        if k == "mul":
            return self.conv(t[1]) * self.conv(t[2])
        if k == "div":
            return self.conv(t[1]) / self.conv(t[2])
        if k == "neg":
            return -self.conv(t[1])
        if k == "cast":
            return self.conv(t[2])
        if k == "fn":
            n = t[1]
            a = [self.conv(x) for x in t[2:]]
            if n == "sqrt":
                return sqrt(a[0])
            if n == "cbrt":
                return sympy.cbrt(a[0])
            if n == "pow":
                return a[0] ** a[1]
            if n == "abs":
                return sympy.Abs(a[0])
            if n in ("acos", "asin", "atan", "cos", "sin", "tan", "exp", "log"):
                return getattr(sympy, n)(*a)
            if n == "atan2":
                return sympy.atan2(*a)
            if n in ("min", "max"):
                return (sympy.Min if n == "min" else sympy.Max)(*a)
            if n == "clamp":
                return sympy.Max(a[1], sympy.Min(a[0], a[2]))
            return sympy.Function(str(n).replace("?", "u_").replace(":", "_").replace("<", "_").replace(">", "_").replace(" ", ""))(*a)
        if k == "g":
            raise Inconclusive("gamma term in algebraic normal form (resolve the branch first)")
        if k == "undef":
            raise Inconclusive("uninitialised value in term")
        raise Inconclusive("cannot normalise term kind %s" % k)


def is_zero(expr):
    """Decide expr == 0 for expressions built from rationals, symbols, + - * / and sqrt."""
    if expr == 0:
        return True
    e = sympy.together(expr)
    num, _ = sympy.fraction(e)
    num = sympy.expand(num)
    if num == 0:
        return True
    if num.has(sympy.Pow) and any(p.exp.is_Rational and not p.exp.is_Integer for p in num.atoms(sympy.Pow)):
        # radicals: a + b*sqrt(D) == 0 with polynomial a, b, D  =>  decide via simplification
        s = sympy.simplify(num)
        if s == 0:
            return True
        s2 = sympy.radsimp(sympy.expand(s))
        return s2 == 0
    return False


def equal(a, b):
    return is_zero(a - b)


def witness(a, b, limit=40):
    """A small integer point where the two expressions differ (exact evaluation of the forms)."""
    syms = sorted((a - b).free_symbols, key=lambda s: s.name)
    if not syms:
        return {}
    vals = [1, 2, 3, -1, 5, 7, -2, 11]
    for k in range(limit):
        pt = {s: vals[(i * 3 + k + (k * i) % 5) % len(vals)] + (k // len(vals)) for i, s in enumerate(syms)}
        try:
            da = a.subs(pt)
            db = b.subs(pt)
            if da.is_finite is False or db.is_finite is False or da.has(sympy.zoo, sympy.nan) or db.has(sympy.zoo, sympy.nan):
                continue
            if sympy.simplify(da - db) != 0:
                return {str(s): int(v) for s, v in pt.items()} | {"_lhs": str(sympy.nsimplify(da)), "_rhs": str(sympy.nsimplify(db))}
        except Exception:
            continue
    return None
