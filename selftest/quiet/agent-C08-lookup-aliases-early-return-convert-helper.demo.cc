// Differential program for property C08: enumeration tables (abbreviations, spellings, parsing,
// streaming) and the run-time unit conversion entry points that look enumerators up in the
// conversion tables.
#include <algorithm>
#include <cmath>
#include <optional>
#include <type_traits>
#include <utility>
#include <array>
#include <cstdint>
#include <cstdio>
#include <iostream>
#include <limits>
#include <random>
#include <sstream>
#include <string>
#include <vector>

#include <PhQ/Angle.hpp>
#include <PhQ/ConstitutiveModel.hpp>
#include <PhQ/Length.hpp>
#include <PhQ/SolidAngle.hpp>
#include <PhQ/Speed.hpp>
#include <PhQ/Temperature.hpp>
#include <PhQ/Time.hpp>
#include <PhQ/Unit/Acceleration.hpp>
#include <PhQ/Unit/Angle.hpp>
#include <PhQ/Unit/AngularAcceleration.hpp>
#include <PhQ/Unit/AngularSpeed.hpp>
#include <PhQ/Unit/Area.hpp>
#include <PhQ/Unit/Diffusivity.hpp>
#include <PhQ/Unit/DynamicViscosity.hpp>
#include <PhQ/Unit/ElectricCharge.hpp>
#include <PhQ/Unit/ElectricCurrent.hpp>
#include <PhQ/Unit/Energy.hpp>
#include <PhQ/Unit/EnergyFlux.hpp>
#include <PhQ/Unit/Force.hpp>
#include <PhQ/Unit/Frequency.hpp>
#include <PhQ/Unit/HeatCapacity.hpp>
#include <PhQ/Unit/Length.hpp>
#include <PhQ/Unit/Mass.hpp>
#include <PhQ/Unit/MassDensity.hpp>
#include <PhQ/Unit/MassRate.hpp>
#include <PhQ/Unit/Memory.hpp>
#include <PhQ/Unit/MemoryRate.hpp>
#include <PhQ/Unit/Power.hpp>
#include <PhQ/Unit/Pressure.hpp>
#include <PhQ/Unit/ReciprocalTemperature.hpp>
#include <PhQ/Unit/SolidAngle.hpp>
#include <PhQ/Unit/SpecificEnergy.hpp>
#include <PhQ/Unit/SpecificHeatCapacity.hpp>
#include <PhQ/Unit/SpecificPower.hpp>
#include <PhQ/Unit/Speed.hpp>
#include <PhQ/Unit/SubstanceAmount.hpp>
#include <PhQ/Unit/Temperature.hpp>
#include <PhQ/Unit/TemperatureDifference.hpp>
#include <PhQ/Unit/TemperatureGradient.hpp>
#include <PhQ/Unit/ThermalConductivity.hpp>
#include <PhQ/Unit/Time.hpp>
#include <PhQ/Unit/TransportEnergyConsumption.hpp>
#include <PhQ/Unit/Volume.hpp>
#include <PhQ/Unit/VolumeRate.hpp>
#include <PhQ/UnitSystem.hpp>

namespace PhQ::Demo {

// Declared inside namespace PhQ so that unqualified lookup finds the operator<< overloads that the
// library declares in namespace PhQ for enumerations of namespace PhQ::Unit.
template <typename E, typename = void>
struct IsStreamable : std::false_type {};
template <typename E>
struct IsStreamable<E, std::void_t<decltype(std::declval<std::ostream&>() << std::declval<E>())>>
  : std::true_type {};

template <typename E>
std::ostream& StreamEnumerator(std::ostream& stream, const E enumerator) {
  if constexpr (IsStreamable<E>::value) {
    return stream << enumerator;
  } else {
    return stream << "(no operator<<)" << PhQ::Abbreviation(enumerator);
  }
}

}  // namespace PhQ::Demo

namespace {

using PhQ::Demo::StreamEnumerator;

std::mt19937_64 rng{20260926ULL};

std::string Hex(const float v) {
  char buffer[64];
  std::snprintf(buffer, sizeof(buffer), "%a", static_cast<double>(v));
  return buffer;
}
std::string Hex(const double v) {
  char buffer[64];
  std::snprintf(buffer, sizeof(buffer), "%a", v);
  return buffer;
}
std::string Hex(const long double v) {
  char buffer[96];
  std::snprintf(buffer, sizeof(buffer), "%La", v);
  return buffer;
}

struct Digest {
  std::uint64_t state{1469598103934665603ULL};
  std::uint64_t count{0};
  void Add(const std::string& text) {
    for (const char c : text) {
      state ^= static_cast<unsigned char>(c);
      state *= 1099511628211ULL;
    }
    state ^= 0xffU;
    state *= 1099511628211ULL;
    ++count;
  }
};

template <typename T>
const char* TypeName();
template <>
const char* TypeName<float>() {
  return "float";
}
template <>
const char* TypeName<double>() {
  return "double";
}
template <>
const char* TypeName<long double>() {
  return "long double";
}

template <typename T>
std::vector<T> Values() {
  std::vector<T> values{
    static_cast<T>(0.0L),
    -static_cast<T>(0.0L),
    static_cast<T>(1.0L),
    static_cast<T>(-1.0L),
    static_cast<T>(0.1L),
    static_cast<T>(-273.15L),
    static_cast<T>(459.67L),
    static_cast<T>(3.141592653589793238462643383279502884L),
    static_cast<T>(1.0e-30L),
    static_cast<T>(-1.0e30L),
    std::numeric_limits<T>::min(),
    std::numeric_limits<T>::denorm_min(),
    std::numeric_limits<T>::max(),
    -std::numeric_limits<T>::max(),
    std::numeric_limits<T>::epsilon(),
    std::numeric_limits<T>::infinity(),
    -std::numeric_limits<T>::infinity(),
  };
  std::uniform_real_distribution<long double> mantissa(-10.0L, 10.0L);
  std::uniform_int_distribution<int> exponent(-30, 30);
  for (int i = 0; i < 24; ++i) {
    const long double m{mantissa(rng)};
    const int e{exponent(rng)};
    values.push_back(static_cast<T>(m * std::pow(10.0L, static_cast<long double>(e))));
  }
  return values;
}

template <typename U, typename T>
bool Convertible(const U unit) {
  return PhQ::Internal::MapOfConversionsFromStandard<U, T>.count(unit) == 1
         && PhQ::Internal::MapOfConversionsToStandard<U, T>.count(unit) == 1;
}

template <typename U, typename T>
void RunConversions(const char* name, const std::vector<U>& units) {
  const std::vector<T> values{Values<T>()};
  const U standard{PhQ::Standard<U>};
  // Scalar conversions to and from the standard unit: printed in full.
  for (const U unit : units) {
    if (!Convertible<U, T>(unit)) {
      std::cout << name << " " << TypeName<T>() << " " << static_cast<int>(unit)
                << " NOT-CONVERTIBLE\n";
      continue;
    }
    for (const T value : values) {
      const T to{PhQ::Convert(value, unit, standard)};
      const T from{PhQ::Convert(value, standard, unit)};
      T in_place{value};
      PhQ::ConvertInPlace(in_place, unit, standard);
      T round_trip{in_place};
      PhQ::ConvertInPlace(round_trip, standard, unit);
      const T same{PhQ::Convert(value, unit, unit)};
      std::cout << name << " " << TypeName<T>() << " " << static_cast<int>(unit) << " "
                << Hex(value) << " to=" << Hex(to) << " from=" << Hex(from)
                << " inplace=" << Hex(in_place) << " round=" << Hex(round_trip)
                << " same=" << Hex(same) << "\n";
    }
  }
  // All pairs and all container overloads: digested.
  Digest digest;
  for (const U a : units) {
    if (!Convertible<U, T>(a)) {
      continue;
    }
    for (const U b : units) {
      if (!Convertible<U, T>(b)) {
        continue;
      }
      for (std::size_t i = 0; i + 9 <= values.size(); i += 4) {
        const T* const v{values.data() + i};
        digest.Add(Hex(PhQ::Convert(v[0], a, b)));

        std::array<T, 3> array3{v[0], v[1], v[2]};
        const std::array<T, 3> array3_copy{PhQ::Convert(array3, a, b)};
        PhQ::ConvertInPlace(array3, a, b);
        for (const T x : array3) digest.Add(Hex(x));
        for (const T x : array3_copy) digest.Add(Hex(x));

        std::array<T, 0> array0{};
        PhQ::ConvertInPlace(array0, a, b);

        std::vector<T> vector_values(v, v + 9);
        const std::vector<T> vector_copy{PhQ::Convert(vector_values, a, b)};
        PhQ::ConvertInPlace(vector_values, a, b);
        for (const T x : vector_values) digest.Add(Hex(x));
        for (const T x : vector_copy) digest.Add(Hex(x));

        std::vector<T> empty;
        PhQ::ConvertInPlace(empty, a, b);
        digest.Add(std::to_string(empty.size()));

        PhQ::PlanarVector<T> planar_vector{v[0], v[1]};
        const PhQ::PlanarVector<T> planar_vector_copy{PhQ::Convert(planar_vector, a, b)};
        PhQ::ConvertInPlace(planar_vector, a, b);
        for (const T x : planar_vector.x_y()) digest.Add(Hex(x));
        for (const T x : planar_vector_copy.x_y()) digest.Add(Hex(x));

        PhQ::Vector<T> vector{v[0], v[1], v[2]};
        const PhQ::Vector<T> vector_copy2{PhQ::Convert(vector, a, b)};
        PhQ::ConvertInPlace(vector, a, b);
        for (const T x : vector.x_y_z()) digest.Add(Hex(x));
        for (const T x : vector_copy2.x_y_z()) digest.Add(Hex(x));

        PhQ::SymmetricDyad<T> symmetric_dyad{v[0], v[1], v[2], v[3], v[4], v[5]};
        const PhQ::SymmetricDyad<T> symmetric_dyad_copy{PhQ::Convert(symmetric_dyad, a, b)};
        PhQ::ConvertInPlace(symmetric_dyad, a, b);
        for (const T x : symmetric_dyad.xx_xy_xz_yy_yz_zz()) digest.Add(Hex(x));
        for (const T x : symmetric_dyad_copy.xx_xy_xz_yy_yz_zz()) digest.Add(Hex(x));

        PhQ::Dyad<T> dyad{v[0], v[1], v[2], v[3], v[4], v[5], v[6], v[7], v[8]};
        const PhQ::Dyad<T> dyad_copy{PhQ::Convert(dyad, a, b)};
        PhQ::ConvertInPlace(dyad, a, b);
        for (const T x : dyad.xx_xy_xz_yx_yy_yz_zx_zy_zz()) digest.Add(Hex(x));
        for (const T x : dyad_copy.xx_xy_xz_yx_yy_yz_zx_zy_zz()) digest.Add(Hex(x));
      }
    }
  }
  std::cout << name << " " << TypeName<T>() << " pairs digest=" << std::hex << digest.state
            << std::dec << " count=" << digest.count << "\n";
}

std::vector<std::string> Mutations(const std::string& spelling) {
  std::vector<std::string> result;
  result.push_back(spelling + " ");
  result.push_back(" " + spelling);
  result.push_back(spelling + "s");
  result.push_back(spelling + spelling);
  result.push_back(spelling + std::string(1, '\0'));
  if (!spelling.empty()) {
    result.push_back(spelling.substr(0, spelling.size() - 1));
    result.push_back(spelling.substr(1));
    std::string upper{spelling};
    std::string lower{spelling};
    for (char& c : upper) {
      if (c >= 'a' && c <= 'z') c = static_cast<char>(c - 'a' + 'A');
    }
    for (char& c : lower) {
      if (c >= 'A' && c <= 'Z') c = static_cast<char>(c - 'A' + 'a');
    }
    result.push_back(upper);
    result.push_back(lower);
    std::string swapped{spelling};
    std::swap(swapped.front(), swapped.back());
    result.push_back(swapped);
    std::string replaced{spelling};
    replaced[rng() % replaced.size()] = static_cast<char>('!' + rng() % 90);
    result.push_back(replaced);
  }
  return result;
}

std::string Escape(const std::string& text) {
  std::string result;
  for (const char c : text) {
    const unsigned char u{static_cast<unsigned char>(c)};
    if (u < 0x20 || u == 0x7f || c == '\\') {
      char buffer[8];
      std::snprintf(buffer, sizeof(buffer), "\\x%02x", u);
      result += buffer;
    } else {
      result += c;
    }
  }
  return result;
}

template <typename E>
std::string ParseText(const std::string& text) {
  const std::optional<E> parsed{PhQ::ParseEnumeration<E>(text)};
  if (parsed.has_value()) {
    return std::to_string(static_cast<int>(parsed.value()));
  }
  return "nullopt";
}

// Exercises Abbreviation, operator<<, ParseEnumeration on all enumerators, all accepted spellings
// and many strings that are near misses of accepted spellings. Returns the enumerators.
template <typename E>
std::vector<E> RunEnumeration(const char* name) {
  std::vector<E> enumerators;
  std::cout << "== " << name << " abbreviations=" << PhQ::Internal::Abbreviations<E>.size()
            << " spellings=" << PhQ::Internal::Spellings<E>.size() << "\n";
  for (const auto& [enumerator, abbreviation] : PhQ::Internal::Abbreviations<E>) {
    enumerators.push_back(enumerator);
    const std::string_view looked_up{PhQ::Abbreviation(enumerator)};
    std::ostringstream stream;
    std::ostream& returned{StreamEnumerator(stream, enumerator)};
    StreamEnumerator(returned << "|", enumerator) << "|";
    std::cout << name << " " << static_cast<int>(enumerator) << " abbr=[" << looked_up << "]"
              << " table=[" << abbreviation << "] same-storage="
              << (looked_up.data() == abbreviation.data() && looked_up.size() == abbreviation.size())
              << " stream=[" << stream.str() << "] same-stream=" << (&returned == &stream)
              << " good=" << stream.good() << " parse=" << ParseText<E>(std::string{looked_up})
              << "\n";
  }
  std::vector<std::string> spellings;
  for (const auto& [spelling, enumerator] : PhQ::Internal::Spellings<E>) {
    spellings.emplace_back(spelling);
  }
  // Iteration order of the table itself.
  Digest order;
  for (const std::string& spelling : spellings) order.Add(spelling);
  std::cout << name << " spelling-order digest=" << std::hex << order.state << std::dec << "\n";
  std::sort(spellings.begin(), spellings.end());
  for (const std::string& spelling : spellings) {
    std::cout << name << " spelling [" << Escape(spelling) << "] -> " << ParseText<E>(spelling)
              << " (string_view) "
              << ParseText<E>(std::string{std::string_view{spelling.c_str(), spelling.size()}})
              << "\n";
  }
  for (const std::string& spelling : spellings) {
    for (const std::string& mutation : Mutations(spelling)) {
      std::cout << name << " mutation [" << Escape(mutation) << "] -> " << ParseText<E>(mutation)
                << "\n";
    }
  }
  for (const char* other : {"", " ", "\t", "\n", "???", "0", "1", "rad^2", "nmi/hr", "kn", "knot",
                            "sr", "deg", "m", "kg", "s", "K", "°", "°C", "°F", "°R", "µm", "um",
                            "m·kg·s·K", "Elastic Isotropic Solid", "hr", "B", "b", "bit", "byte"}) {
    std::cout << name << " other [" << Escape(other) << "] -> " << ParseText<E>(other) << "\n";
  }
  for (int i = 0; i < 200; ++i) {
    std::string random_text;
    const std::size_t length{static_cast<std::size_t>(rng() % 6)};
    static const char alphabet[] = "abcdefghijklmnopqrstuvwxyzABCDEFGHIJKLMNOPQRSTUVWXYZ0123456789/^·*- ";
    for (std::size_t j = 0; j < length; ++j) {
      random_text += alphabet[rng() % (sizeof(alphabet) - 1)];
    }
    std::cout << name << " random [" << Escape(random_text) << "] -> "
              << ParseText<E>(random_text) << "\n";
  }
  return enumerators;
}

template <typename U>
void RunUnit(const char* name) {
  const std::vector<U> units{RunEnumeration<U>(name)};
  std::cout << name << " standard=" << static_cast<int>(PhQ::Standard<U>) << " [";
  StreamEnumerator(std::cout, PhQ::Standard<U>);
  std::cout << "] dimensions=" << PhQ::RelatedDimensions<U> << "\n";
  for (const PhQ::UnitSystem system :
       {PhQ::UnitSystem::MetreKilogramSecondKelvin, PhQ::UnitSystem::MillimetreGramSecondKelvin,
        PhQ::UnitSystem::FootPoundSecondRankine, PhQ::UnitSystem::InchPoundSecondRankine}) {
    std::cout << name << " consistent " << system << " -> "
              << static_cast<int>(PhQ::ConsistentUnit<U>(system)) << "\n";
  }
  for (const U unit : units) {
    const std::optional<PhQ::UnitSystem> related{PhQ::RelatedUnitSystem(unit)};
    std::cout << name << " related " << static_cast<int>(unit) << " -> ";
    if (related.has_value()) {
      std::cout << related.value();
    } else {
      std::cout << "nullopt";
    }
    std::cout << "\n";
  }
  RunConversions<U, float>(name, units);
  RunConversions<U, double>(name, units);
  RunConversions<U, long double>(name, units);
}

template <typename T>
void RunQuantities() {
  for (const T value : Values<T>()) {
    const PhQ::Angle<T> angle{value, PhQ::Unit::Angle::Degree};
    const PhQ::SolidAngle<T> solid_angle{value, PhQ::Unit::SolidAngle::SquareDegree};
    const PhQ::Speed<T> speed{value, PhQ::Unit::Speed::Knot};
    const PhQ::Length<T> length{value, PhQ::Unit::Length::NauticalMile};
    const PhQ::Time<T> time{value, PhQ::Unit::Time::Hour};
    const PhQ::Temperature<T> temperature{value, PhQ::Unit::Temperature::Fahrenheit};
    std::cout << "quantity " << TypeName<T>() << " " << Hex(value) << " " << angle << " | "
              << angle.Print(PhQ::Unit::Angle::Revolution) << " | "
              << Hex(angle.Value(PhQ::Unit::Angle::Arcsecond)) << " | " << solid_angle << " | "
              << solid_angle.Print(PhQ::Unit::SolidAngle::SquareArcminute) << " | " << speed
              << " | " << speed.Print(PhQ::Unit::Speed::MilePerHour) << " | "
              << speed.JSON(PhQ::Unit::Speed::Knot) << " | " << speed.XML(PhQ::Unit::Speed::Knot)
              << " | " << speed.YAML(PhQ::Unit::Speed::FootPerSecond) << " | " << length << " | "
              << length.Print(PhQ::Unit::Length::Inch) << " | " << time << " | "
              << time.Print(PhQ::Unit::Time::Minute) << " | " << temperature << " | "
              << temperature.Print(PhQ::Unit::Temperature::Celsius) << " | "
              << Hex(temperature.Value(PhQ::Unit::Temperature::Rankine)) << "\n";
  }
}

}  // namespace

#define RUN_UNIT(Name) RunUnit<PhQ::Unit::Name>(#Name)

int main() {
  RunEnumeration<PhQ::UnitSystem>("UnitSystem");
  RunEnumeration<PhQ::ConstitutiveModel::Type>("ConstitutiveModel::Type");
  RUN_UNIT(Acceleration);
  RUN_UNIT(Angle);
  RUN_UNIT(AngularAcceleration);
  RUN_UNIT(AngularSpeed);
  RUN_UNIT(Area);
  RUN_UNIT(Diffusivity);
  RUN_UNIT(DynamicViscosity);
  RUN_UNIT(ElectricCharge);
  RUN_UNIT(ElectricCurrent);
  RUN_UNIT(Energy);
  RUN_UNIT(EnergyFlux);
  RUN_UNIT(Force);
  RUN_UNIT(Frequency);
  RUN_UNIT(HeatCapacity);
  RUN_UNIT(Length);
  RUN_UNIT(Mass);
  RUN_UNIT(MassDensity);
  RUN_UNIT(MassRate);
  RUN_UNIT(Memory);
  RUN_UNIT(MemoryRate);
  RUN_UNIT(Power);
  RUN_UNIT(Pressure);
  RUN_UNIT(ReciprocalTemperature);
  RUN_UNIT(SolidAngle);
  RUN_UNIT(SpecificEnergy);
  RUN_UNIT(SpecificHeatCapacity);
  RUN_UNIT(SpecificPower);
  RUN_UNIT(Speed);
  RUN_UNIT(SubstanceAmount);
  RUN_UNIT(Temperature);
  RUN_UNIT(TemperatureDifference);
  RUN_UNIT(TemperatureGradient);
  RUN_UNIT(ThermalConductivity);
  RUN_UNIT(Time);
  RUN_UNIT(TransportEnergyConsumption);
  RUN_UNIT(Volume);
  RUN_UNIT(VolumeRate);
  RunQuantities<float>();
  RunQuantities<double>();
  RunQuantities<long double>();
  return 0;
}
