// Differential program for the C02 structural refactor: exercises every conversion entry point and
// every in-unit print/serialization of the dimensional quantity bases, for float/double/long double.
#include <PhQ/Displacement.hpp>
#include <PhQ/Length.hpp>
#include <PhQ/PlanarDisplacement.hpp>
#include <PhQ/Stress.hpp>
#include <PhQ/Temperature.hpp>
#include <PhQ/Unit.hpp>
#include <PhQ/Unit/Frequency.hpp>
#include <PhQ/Unit/Length.hpp>
#include <PhQ/Unit/Pressure.hpp>
#include <PhQ/Unit/Temperature.hpp>
#include <PhQ/VelocityGradient.hpp>

#include <array>
#include <cstdint>
#include <cstdio>
#include <limits>
#include <random>
#include <string>
#include <type_traits>
#include <utility>
#include <vector>

namespace {

template <typename T>
const char* TypeName() {
  if (std::is_same<T, float>::value) return "float";
  if (std::is_same<T, double>::value) return "double";
  return "long double";
}

template <typename T>
void Put(const T v) {
  if constexpr (std::is_same<T, long double>::value) {
    std::printf(" %La", v);
  } else {
    std::printf(" %a", static_cast<double>(v));
  }
}

template <typename T, std::size_t N>
void Put(const std::array<T, N>& a) {
  for (const T v : a) Put(v);
}

template <typename T>
void Put(const std::vector<T>& a) {
  std::printf(" [%zu]", a.size());
  for (const T v : a) Put(v);
}

template <typename T>
void Put(const PhQ::PlanarVector<T>& v) {
  Put(v.x_y());
}
template <typename T>
void Put(const PhQ::Vector<T>& v) {
  Put(v.x_y_z());
}
template <typename T>
void Put(const PhQ::SymmetricDyad<T>& v) {
  Put(v.xx_xy_xz_yy_yz_zz());
}
template <typename T>
void Put(const PhQ::Dyad<T>& v) {
  Put(v.xx_xy_xz_yx_yy_yz_zx_zy_zz());
}

template <typename T>
std::vector<T> Values() {
  std::vector<T> v{
    static_cast<T>(0.0),
    -static_cast<T>(0.0),
    static_cast<T>(1.0),
    static_cast<T>(-1.0),
    static_cast<T>(0.1L),
    static_cast<T>(-273.15L),
    static_cast<T>(459.67L),
    static_cast<T>(1852.0L),
    static_cast<T>(1.0e-30L),
    static_cast<T>(-3.0e30L),
    std::numeric_limits<T>::min(),
    std::numeric_limits<T>::denorm_min(),
    std::numeric_limits<T>::max(),
    -std::numeric_limits<T>::max(),
    std::numeric_limits<T>::epsilon(),
    std::numeric_limits<T>::infinity(),
    std::numeric_limits<T>::quiet_NaN(),
  };
  std::mt19937_64 gen(20240927u);
  std::uniform_real_distribution<double> mant(-10.0, 10.0);
  std::uniform_int_distribution<int> expo(-12, 12);
  for (int i = 0; i < 12; ++i) {
    long double x = mant(gen);
    const int e = expo(gen);
    for (int k = 0; k < (e < 0 ? -e : e); ++k) x = (e < 0) ? x / 10.0L : x * 10.0L;
    v.push_back(static_cast<T>(x));
  }
  return v;
}

// Run-time free functions: every (from, to) pair of a unit type, every container shape.
template <typename U, int Count, typename T>
void RuntimeFree(const char* unit_name) {
  const std::vector<T> vals = Values<T>();
  const std::size_t n = vals.size();
  for (int f = 0; f < Count; ++f) {
    for (int t = 0; t < Count; ++t) {
      const U from = static_cast<U>(f);
      const U to = static_cast<U>(t);
      for (std::size_t i = 0; i < n; ++i) {
        const T a = vals[i];
        const T b = vals[(i + 1) % n];
        const T c = vals[(i + 2) % n];
        const T d = vals[(i + 3) % n];
        const T e = vals[(i + 5) % n];
        const T g = vals[(i + 7) % n];
        const T h = vals[(i + 11) % n];
        const T j = vals[(i + 13) % n];
        const T k = vals[(i + 17) % n];
        std::printf("RT %s %s %d->%d #%zu:", unit_name, TypeName<T>(), f, t, i);
        // scalar
        {
          const T in = a;
          Put(PhQ::Convert(in, from, to));
          Put(in);
          T ip = a;
          PhQ::ConvertInPlace(ip, from, to);
          Put(ip);
        }
        // arrays
        {
          const std::array<T, 1> in{a};
          Put(PhQ::Convert(in, from, to));
          Put(in);
          std::array<T, 1> ip{a};
          PhQ::ConvertInPlace(ip, from, to);
          Put(ip);
        }
        {
          const std::array<T, 4> in{a, b, c, d};
          Put(PhQ::Convert(in, from, to));
          Put(in);
          std::array<T, 4> ip{d, c, b, a};
          PhQ::ConvertInPlace(ip, from, to);
          Put(ip);
        }
        {
          const std::array<T, 0> in{};
          Put(PhQ::Convert(in, from, to));
          std::array<T, 0> ip{};
          PhQ::ConvertInPlace(ip, from, to);
          Put(ip);
        }
        // std::vector
        {
          const std::vector<T> in{a, b, c, d, e};
          Put(PhQ::Convert(in, from, to));
          Put(in);
          std::vector<T> ip{e, d, c, b, a, k, j};
          PhQ::ConvertInPlace(ip, from, to);
          Put(ip);
          const std::vector<T> empty;
          Put(PhQ::Convert(empty, from, to));
          std::vector<T> empty_ip;
          PhQ::ConvertInPlace(empty_ip, from, to);
          Put(empty_ip);
        }
        // planar vector
        {
          const PhQ::PlanarVector<T> in{a, b};
          Put(PhQ::Convert(in, from, to));
          Put(in);
          PhQ::PlanarVector<T> ip{b, a};
          PhQ::ConvertInPlace(ip, from, to);
          Put(ip);
        }
        // vector
        {
          const PhQ::Vector<T> in{a, b, c};
          Put(PhQ::Convert(in, from, to));
          Put(in);
          PhQ::Vector<T> ip{c, a, b};
          PhQ::ConvertInPlace(ip, from, to);
          Put(ip);
        }
        // symmetric dyad
        {
          const PhQ::SymmetricDyad<T> in{a, b, c, d, e, g};
          Put(PhQ::Convert(in, from, to));
          Put(in);
          PhQ::SymmetricDyad<T> ip{g, e, d, c, b, a};
          PhQ::ConvertInPlace(ip, from, to);
          Put(ip);
        }
        // dyad
        {
          const PhQ::Dyad<T> in{a, b, c, d, e, g, h, j, k};
          Put(PhQ::Convert(in, from, to));
          Put(in);
          PhQ::Dyad<T> ip{k, j, h, g, e, d, c, b, a};
          PhQ::ConvertInPlace(ip, from, to);
          Put(ip);
        }
        std::printf("\n");
      }
    }
  }
}

// Compile-time free functions: every (from, to) pair, every shape.
template <typename U, U From, U To, typename T>
void StaticPair(const char* unit_name) {
  const std::vector<T> vals = Values<T>();
  const std::size_t n = vals.size();
  for (std::size_t i = 0; i < n; ++i) {
    const T a = vals[i];
    const T b = vals[(i + 1) % n];
    const T c = vals[(i + 2) % n];
    const T d = vals[(i + 3) % n];
    const T e = vals[(i + 5) % n];
    const T g = vals[(i + 7) % n];
    const T h = vals[(i + 11) % n];
    const T j = vals[(i + 13) % n];
    const T k = vals[(i + 17) % n];
    std::printf("ST %s %s %d->%d #%zu:", unit_name, TypeName<T>(), static_cast<int>(From),
                static_cast<int>(To), i);
    Put(PhQ::ConvertStatically<U, From, To>(a));
    const std::array<T, 5> arr{a, b, c, d, e};
    Put(PhQ::ConvertStatically<U, From, To>(arr));
    Put(arr);
    const std::array<T, 0> arr0{};
    Put(PhQ::ConvertStatically<U, From, To>(arr0));
    const PhQ::PlanarVector<T> pv{a, b};
    Put(PhQ::ConvertStatically<U, From, To>(pv));
    Put(pv);
    const PhQ::Vector<T> v{a, b, c};
    Put(PhQ::ConvertStatically<U, From, To>(v));
    Put(v);
    const PhQ::SymmetricDyad<T> sd{a, b, c, d, e, g};
    Put(PhQ::ConvertStatically<U, From, To>(sd));
    Put(sd);
    const PhQ::Dyad<T> dy{a, b, c, d, e, g, h, j, k};
    Put(PhQ::ConvertStatically<U, From, To>(dy));
    Put(dy);
    std::printf("\n");
  }
}

template <typename U, typename T, int F, int... Ts>
void StaticRow(const char* unit_name, std::integer_sequence<int, Ts...>) {
  (StaticPair<U, static_cast<U>(F), static_cast<U>(Ts), T>(unit_name), ...);
}

template <typename U, typename T, int... Fs>
void StaticAll(const char* unit_name, std::integer_sequence<int, Fs...> seq) {
  (StaticRow<U, T, Fs>(unit_name, seq), ...);
}

// constexpr evaluation really happens at compile time.
constexpr double kStaticMile =
    PhQ::ConvertStatically<PhQ::Unit::Length, PhQ::Unit::Length::Mile, PhQ::Unit::Length::Foot>(
        2.5);
constexpr PhQ::Vector<float> kStaticVector =
    PhQ::ConvertStatically<PhQ::Unit::Length, PhQ::Unit::Length::Inch,
                           PhQ::Unit::Length::Millimetre>(PhQ::Vector<float>{1.0F, -2.0F, 3.5F});
constexpr PhQ::Displacement<long double> kStaticDisplacement =
    PhQ::Displacement<long double>::Create<PhQ::Unit::Length::Yard>(1.0L, 2.0L, -3.0L);
constexpr long double kStaticLength =
    PhQ::Length<long double>::Create<PhQ::Unit::Length::NauticalMile>(0.3L)
        .StaticValue<PhQ::Unit::Length::Microinch>();

// Prints the strings in full for every fourth input and a 64-bit FNV-1a digest of them otherwise
// (keeps the output files at a manageable size while every string still influences the output).
template <typename Q>
void Serial(const Q& q, const typename std::decay<decltype(Q::Unit())>::type unit,
            const std::size_t index) {
  const std::string text = std::string{"|"} + q.Print(unit) + "|" + q.JSON(unit) + "|"
                           + q.XML(unit) + "|" + q.YAML(unit) + "|" + q.Print() + "|" + q.JSON()
                           + "|" + q.XML() + "|" + q.YAML() + "|";
  if (index % 4 == 0) {
    std::printf(" %s", text.c_str());
  } else {
    std::uint64_t hash = 1469598103934665603ULL;
    for (const char ch : text) {
      hash ^= static_cast<unsigned char>(ch);
      hash *= 1099511628211ULL;
    }
    std::printf(" |%016llx|", static_cast<unsigned long long>(hash));
  }
}

template <typename T, int U>
void LengthStatic(const std::vector<T>& vals, const std::size_t i) {
  constexpr PhQ::Unit::Length unit = static_cast<PhQ::Unit::Length>(U);
  const std::size_t n = vals.size();
  const T a = vals[i], b = vals[(i + 1) % n], c = vals[(i + 2) % n];
  std::printf("QS Length %s u%d #%zu:", TypeName<T>(), U, i);
  const auto len = PhQ::Length<T>::template Create<unit>(a);
  Put(len.Value());
  Put(len.template StaticValue<unit>());
  Put(PhQ::Length<T>(a, unit).template StaticValue<unit>());
  const auto pd = PhQ::PlanarDisplacement<T>::template Create<unit>(a, b);
  Put(pd.Value());
  Put(pd.template StaticValue<unit>());
  Put(PhQ::PlanarDisplacement<T>::template Create<unit>(std::array<T, 2>{b, a}).Value());
  Put(PhQ::PlanarDisplacement<T>::template Create<unit>(PhQ::PlanarVector<T>{b, c}).Value());
  const auto dd = PhQ::Displacement<T>::template Create<unit>(a, b, c);
  Put(dd.Value());
  Put(dd.template StaticValue<unit>());
  Put(PhQ::Displacement<T>::template Create<unit>(std::array<T, 3>{c, b, a}).Value());
  Put(PhQ::Displacement<T>::template Create<unit>(PhQ::Vector<T>{b, c, a}).Value());
  Put(PhQ::Displacement<T>(PhQ::Vector<T>{a, b, c}, unit).template StaticValue<unit>());
  std::printf("\n");
}

template <typename T, int... Us>
void LengthStaticAll(std::integer_sequence<int, Us...>) {
  const std::vector<T> vals = Values<T>();
  for (std::size_t i = 0; i < vals.size(); ++i) {
    (LengthStatic<T, Us>(vals, i), ...);
  }
}

template <typename T, int U>
void PressureStatic(const std::vector<T>& vals, const std::size_t i) {
  constexpr PhQ::Unit::Pressure unit = static_cast<PhQ::Unit::Pressure>(U);
  const std::size_t n = vals.size();
  const T a = vals[i], b = vals[(i + 1) % n], c = vals[(i + 2) % n], d = vals[(i + 3) % n],
          e = vals[(i + 5) % n], g = vals[(i + 7) % n];
  std::printf("QS Stress %s u%d #%zu:", TypeName<T>(), U, i);
  const auto s = PhQ::Stress<T>::template Create<unit>(a, b, c, d, e, g);
  Put(s.Value());
  Put(s.template StaticValue<unit>());
  Put(PhQ::Stress<T>::template Create<unit>(std::array<T, 6>{g, e, d, c, b, a}).Value());
  Put(PhQ::Stress<T>::template Create<unit>(PhQ::SymmetricDyad<T>{b, a, d, c, g, e}).Value());
  Put(PhQ::Stress<T>(PhQ::SymmetricDyad<T>{a, b, c, d, e, g}, unit).template StaticValue<unit>());
  std::printf("\n");
}

template <typename T, int... Us>
void PressureStaticAll(std::integer_sequence<int, Us...>) {
  const std::vector<T> vals = Values<T>();
  for (std::size_t i = 0; i < vals.size(); ++i) {
    (PressureStatic<T, Us>(vals, i), ...);
  }
}

template <typename T, int U>
void FrequencyStatic(const std::vector<T>& vals, const std::size_t i) {
  constexpr PhQ::Unit::Frequency unit = static_cast<PhQ::Unit::Frequency>(U);
  const std::size_t n = vals.size();
  const T a = vals[i], b = vals[(i + 1) % n], c = vals[(i + 2) % n], d = vals[(i + 3) % n],
          e = vals[(i + 5) % n], g = vals[(i + 7) % n], h = vals[(i + 11) % n],
          j = vals[(i + 13) % n], k = vals[(i + 17) % n];
  std::printf("QS VelocityGradient %s u%d #%zu:", TypeName<T>(), U, i);
  const auto s = PhQ::VelocityGradient<T>::template Create<unit>(a, b, c, d, e, g, h, j, k);
  Put(s.Value());
  Put(s.template StaticValue<unit>());
  Put(PhQ::VelocityGradient<T>::template Create<unit>(std::array<T, 9>{k, j, h, g, e, d, c, b, a})
          .Value());
  Put(PhQ::VelocityGradient<T>::template Create<unit>(PhQ::Dyad<T>{b, a, d, c, g, e, j, h, k})
          .Value());
  Put(PhQ::VelocityGradient<T>(PhQ::Dyad<T>{a, b, c, d, e, g, h, j, k}, unit)
          .template StaticValue<unit>());
  std::printf("\n");
}

template <typename T, int... Us>
void FrequencyStaticAll(std::integer_sequence<int, Us...>) {
  const std::vector<T> vals = Values<T>();
  for (std::size_t i = 0; i < vals.size(); ++i) {
    (FrequencyStatic<T, Us>(vals, i), ...);
  }
}

template <typename T, int U>
void TemperatureStatic(const std::vector<T>& vals, const std::size_t i) {
  constexpr PhQ::Unit::Temperature unit = static_cast<PhQ::Unit::Temperature>(U);
  std::printf("QS Temperature %s u%d #%zu:", TypeName<T>(), U, i);
  const auto s = PhQ::Temperature<T>::template Create<unit>(vals[i]);
  Put(s.Value());
  Put(s.template StaticValue<unit>());
  Put(PhQ::Temperature<T>(vals[i], unit).template StaticValue<unit>());
  std::printf("\n");
}

template <typename T, int... Us>
void TemperatureStaticAll(std::integer_sequence<int, Us...>) {
  const std::vector<T> vals = Values<T>();
  for (std::size_t i = 0; i < vals.size(); ++i) {
    (TemperatureStatic<T, Us>(vals, i), ...);
  }
}

// Quantities at run time: construct in unit u, read back in every unit v, print/serialize in v.
template <typename T>
void RuntimeQuantities() {
  const std::vector<T> vals = Values<T>();
  const std::size_t n = vals.size();
  for (std::size_t i = 0; i < n; ++i) {
    const T a = vals[i], b = vals[(i + 1) % n], c = vals[(i + 2) % n], d = vals[(i + 3) % n],
            e = vals[(i + 5) % n], g = vals[(i + 7) % n], h = vals[(i + 11) % n],
            j = vals[(i + 13) % n], k = vals[(i + 17) % n];
    for (int u = 0; u < 13; ++u) {
      const auto unit = static_cast<PhQ::Unit::Length>(u);
      const PhQ::Length<T> len(a, unit);
      const PhQ::PlanarDisplacement<T> pd(PhQ::PlanarVector<T>{a, b}, unit);
      const PhQ::Displacement<T> dd(PhQ::Vector<T>{a, b, c}, unit);
      for (int w = 0; w < 13; ++w) {
        const auto out = static_cast<PhQ::Unit::Length>(w);
        std::printf("QR Length %s %d->%d #%zu:", TypeName<T>(), u, w, i);
        Put(len.Value());
        Put(len.Value(out));
        Serial(len, out, i);
        Put(pd.Value());
        Put(pd.Value(out));
        Serial(pd, out, i);
        Put(dd.Value());
        Put(dd.Value(out));
        Serial(dd, out, i);
        std::printf("\n");
      }
    }
    for (int u = 0; u < 8; ++u) {
      const auto unit = static_cast<PhQ::Unit::Pressure>(u);
      const PhQ::Stress<T> s(PhQ::SymmetricDyad<T>{a, b, c, d, e, g}, unit);
      for (int w = 0; w < 8; ++w) {
        const auto out = static_cast<PhQ::Unit::Pressure>(w);
        std::printf("QR Stress %s %d->%d #%zu:", TypeName<T>(), u, w, i);
        Put(s.Value());
        Put(s.Value(out));
        Serial(s, out, i);
        std::printf("\n");
      }
    }
    for (int u = 0; u < 6; ++u) {
      const auto unit = static_cast<PhQ::Unit::Frequency>(u);
      const PhQ::VelocityGradient<T> s(PhQ::Dyad<T>{a, b, c, d, e, g, h, j, k}, unit);
      for (int w = 0; w < 6; ++w) {
        const auto out = static_cast<PhQ::Unit::Frequency>(w);
        std::printf("QR VelocityGradient %s %d->%d #%zu:", TypeName<T>(), u, w, i);
        Put(s.Value());
        Put(s.Value(out));
        Serial(s, out, i);
        std::printf("\n");
      }
    }
    for (int u = 0; u < 4; ++u) {
      const auto unit = static_cast<PhQ::Unit::Temperature>(u);
      const PhQ::Temperature<T> s(a, unit);
      for (int w = 0; w < 4; ++w) {
        const auto out = static_cast<PhQ::Unit::Temperature>(w);
        std::printf("QR Temperature %s %d->%d #%zu:", TypeName<T>(), u, w, i);
        Put(s.Value());
        Put(s.Value(out));
        Serial(s, out, i);
        std::printf("\n");
      }
    }
  }
}

template <typename T>
void All() {
  RuntimeFree<PhQ::Unit::Length, 13, T>("Length");
  RuntimeFree<PhQ::Unit::Temperature, 4, T>("Temperature");
  RuntimeFree<PhQ::Unit::Pressure, 8, T>("Pressure");
  RuntimeFree<PhQ::Unit::Frequency, 6, T>("Frequency");
  StaticAll<PhQ::Unit::Length, T>("Length", std::make_integer_sequence<int, 13>{});
  StaticAll<PhQ::Unit::Temperature, T>("Temperature", std::make_integer_sequence<int, 4>{});
  StaticAll<PhQ::Unit::Pressure, T>("Pressure", std::make_integer_sequence<int, 8>{});
  StaticAll<PhQ::Unit::Frequency, T>("Frequency", std::make_integer_sequence<int, 6>{});
  LengthStaticAll<T>(std::make_integer_sequence<int, 13>{});
  PressureStaticAll<T>(std::make_integer_sequence<int, 8>{});
  FrequencyStaticAll<T>(std::make_integer_sequence<int, 6>{});
  TemperatureStaticAll<T>(std::make_integer_sequence<int, 4>{});
  RuntimeQuantities<T>();
}

}  // namespace

int main() {
  std::printf("CE:");
  Put(kStaticMile);
  Put(kStaticVector);
  Put(kStaticDisplacement.Value());
  Put(kStaticLength);
  std::printf("\n");
  std::printf("sizeof: %zu %zu %zu %zu %zu %zu %zu %zu\n", sizeof(PhQ::Displacement<float>),
              sizeof(PhQ::Displacement<double>), sizeof(PhQ::Displacement<long double>),
              sizeof(PhQ::PlanarDisplacement<double>), sizeof(PhQ::Stress<double>),
              sizeof(PhQ::VelocityGradient<double>), sizeof(PhQ::Length<double>),
              sizeof(PhQ::Stress<float>));
  std::printf("traits: %d %d %d %d\n",
              static_cast<int>(std::is_trivially_copyable<PhQ::Displacement<double>>::value),
              static_cast<int>(std::is_standard_layout<PhQ::Displacement<double>>::value),
              static_cast<int>(std::is_trivially_copyable<PhQ::Stress<float>>::value),
              static_cast<int>(std::is_standard_layout<PhQ::VelocityGradient<long double>>::value));
  All<float>();
  All<double>();
  All<long double>();
  return 0;
}
