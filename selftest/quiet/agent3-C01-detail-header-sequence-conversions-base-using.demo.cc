// Differential program for property C01: exercises PhQ::ConvertInPlace, PhQ::Convert and
// PhQ::ConvertStatically over all units, shapes and numeric types. Generated.
#include <array>
#include <cmath>
#include <cstdint>
#include <cstdio>
#include <cstring>
#include <limits>
#include <random>
#include <string>
#include <vector>
#include <iostream>

#include <PhQ/Unit/Acceleration.hpp>
#include <PhQ/Unit/Angle.hpp>
#include <PhQ/Unit/AngularAcceleration.hpp>
#include <PhQ/Unit/AngularSpeed.hpp>
#include <PhQ/Unit/Area.hpp>
#include <PhQ/Unit/Diffusivity.hpp>
#include <PhQ/Unit/DynamicViscosity.hpp>
#include <PhQ/Unit/ElectricCharge.hpp>
#include <PhQ/Unit/ElectricCurrent.hpp>
#include <PhQ/Unit/Energy.hpp>
#include <PhQ/Unit/EnergyFlux.hpp>
#include <PhQ/Unit/Force.hpp>
#include <PhQ/Unit/Frequency.hpp>
#include <PhQ/Unit/HeatCapacity.hpp>
#include <PhQ/Unit/Length.hpp>
#include <PhQ/Unit/Mass.hpp>
#include <PhQ/Unit/MassDensity.hpp>
#include <PhQ/Unit/MassRate.hpp>
#include <PhQ/Unit/Memory.hpp>
#include <PhQ/Unit/MemoryRate.hpp>
#include <PhQ/Unit/Power.hpp>
#include <PhQ/Unit/Pressure.hpp>
#include <PhQ/Unit/ReciprocalTemperature.hpp>
#include <PhQ/Unit/SolidAngle.hpp>
#include <PhQ/Unit/SpecificEnergy.hpp>
#include <PhQ/Unit/SpecificHeatCapacity.hpp>
#include <PhQ/Unit/SpecificPower.hpp>
#include <PhQ/Unit/Speed.hpp>
#include <PhQ/Unit/SubstanceAmount.hpp>
#include <PhQ/Unit/Temperature.hpp>
#include <PhQ/Unit/TemperatureDifference.hpp>
#include <PhQ/Unit/TemperatureGradient.hpp>
#include <PhQ/Unit/ThermalConductivity.hpp>
#include <PhQ/Unit/Time.hpp>
#include <PhQ/Unit/TransportEnergyConsumption.hpp>
#include <PhQ/Unit/Volume.hpp>
#include <PhQ/Unit/VolumeRate.hpp>

namespace {

template <typename T> constexpr std::size_t kBytes = sizeof(T);
template <> constexpr std::size_t kBytes<long double> = 10;  // x87 extended: skip padding bytes

struct Digest {
  std::uint64_t h{1469598103934665603ULL};
  template <typename T> void Add(const T v) {
    unsigned char b[sizeof(T)];
    std::memcpy(b, &v, sizeof(T));
    for (std::size_t i = 0; i < kBytes<T>; ++i) { h ^= b[i]; h *= 1099511628211ULL; }
  }
};

template <typename T> const char* Name();
template <> const char* Name<float>() { return "float"; }
template <> const char* Name<double>() { return "double"; }
template <> const char* Name<long double>() { return "long double"; }

void PrintHex(const float v) { std::printf(" %a", static_cast<double>(v)); }
void PrintHex(const double v) { std::printf(" %a", v); }
void PrintHex(const long double v) { std::printf(" %La", v); }

template <typename T> std::vector<T> Inputs() {
  using L = std::numeric_limits<T>;
  std::vector<T> v{T(0), -T(0), T(1), T(-1), T(1.2345678901234567890L), T(-273.15L), T(273.15L),
                   T(459.67L), T(-459.67L), T(1.8L), T(100), T(-40), T(0.1L), T(3), T(1) / T(3),
                   L::min(), -L::min(), L::denorm_min(), -L::denorm_min(), L::epsilon(),
                   L::max(), L::lowest(), L::max() / T(1.0e6L), L::min() * T(1.0e6L),
                   T(1.0e-20L), T(-1.0e-20L), T(1.0e20L), T(-1.0e20L), T(6.02214076e23L),
                   L::infinity(), -L::infinity()};
  std::mt19937_64 gen(20260927u);
  std::uniform_real_distribution<double> mant(-10.0, 10.0);
  std::uniform_int_distribution<int> expo(-30, 30);
  for (int i = 0; i < 24; ++i) {
    const double m = mant(gen);
    const int e = expo(gen);
    v.push_back(static_cast<T>(static_cast<long double>(m) * std::pow(10.0L, e)));
  }
  return v;
}

// Runtime conversions: every ordered pair of units, every shape.
template <typename U, typename T> void Runtime(const char* type_name, const bool verbose) {
  const std::vector<T> inputs = Inputs<T>();
  std::vector<U> units;
  for (const auto& entry : PhQ::Internal::Abbreviations<U>) units.push_back(entry.first);
  for (const U from : units) {
    for (const U to : units) {
      Digest scalar, in_place, arr, vec, shapes;
      if (verbose) std::printf("%s %s %d->%d values:", type_name, Name<T>(), int(from), int(to));
      for (const T x : inputs) {
        const T y = PhQ::Convert(x, from, to);
        scalar.Add(y);
        if (verbose) PrintHex(y);
        T z = x;
        PhQ::ConvertInPlace(z, from, to);
        in_place.Add(z);
      }
      if (verbose) std::printf("\n");
      // std::vector, whole input set at once, and empty vector.
      {
        std::vector<T> all = inputs;
        PhQ::ConvertInPlace(all, from, to);
        for (const T y : all) vec.Add(y);
        const std::vector<T> copy = PhQ::Convert(inputs, from, to);
        for (const T y : copy) vec.Add(y);
        std::vector<T> empty;
        PhQ::ConvertInPlace(empty, from, to);
        vec.Add(static_cast<T>(empty.size()));
        std::vector<T> one{inputs[4]};
        PhQ::ConvertInPlace(one, from, to);
        vec.Add(one[0]);
      }
      // Arrays and tensor shapes built from sliding windows of the inputs.
      for (std::size_t i = 0; i + 9 <= inputs.size(); i += 3) {
        std::array<T, 1> a1{inputs[i]};
        std::array<T, 4> a4{inputs[i], inputs[i + 1], inputs[i + 2], inputs[i + 3]};
        std::array<T, 0> a0{};
        PhQ::ConvertInPlace(a1, from, to);
        PhQ::ConvertInPlace(a0, from, to);
        const std::array<T, 4> b4 = PhQ::Convert(a4, from, to);
        PhQ::ConvertInPlace(a4, from, to);
        arr.Add(a1[0]);
        for (const T y : a4) arr.Add(y);
        for (const T y : b4) arr.Add(y);
        PhQ::PlanarVector<T> pv(inputs[i], inputs[i + 1]);
        PhQ::Vector<T> v3(inputs[i], inputs[i + 1], inputs[i + 2]);
        PhQ::SymmetricDyad<T> sd(inputs[i], inputs[i + 1], inputs[i + 2], inputs[i + 3],
                                 inputs[i + 4], inputs[i + 5]);
        PhQ::Dyad<T> d(inputs[i], inputs[i + 1], inputs[i + 2], inputs[i + 3], inputs[i + 4],
                       inputs[i + 5], inputs[i + 6], inputs[i + 7], inputs[i + 8]);
        const PhQ::PlanarVector<T> pv2 = PhQ::Convert(pv, from, to);
        const PhQ::Vector<T> v32 = PhQ::Convert(v3, from, to);
        const PhQ::SymmetricDyad<T> sd2 = PhQ::Convert(sd, from, to);
        const PhQ::Dyad<T> d2 = PhQ::Convert(d, from, to);
        PhQ::ConvertInPlace(pv, from, to);
        PhQ::ConvertInPlace(v3, from, to);
        PhQ::ConvertInPlace(sd, from, to);
        PhQ::ConvertInPlace(d, from, to);
        for (const T y : pv.x_y()) shapes.Add(y);
        for (const T y : pv2.x_y()) shapes.Add(y);
        for (const T y : v3.x_y_z()) shapes.Add(y);
        for (const T y : v32.x_y_z()) shapes.Add(y);
        for (const T y : sd.xx_xy_xz_yy_yz_zz()) shapes.Add(y);
        for (const T y : sd2.xx_xy_xz_yy_yz_zz()) shapes.Add(y);
        for (const T y : d.xx_xy_xz_yx_yy_yz_zx_zy_zz()) shapes.Add(y);
        for (const T y : d2.xx_xy_xz_yx_yy_yz_zx_zy_zz()) shapes.Add(y);
      }
      std::printf("%s %s %d->%d scalar=%016llx inplace=%016llx vector=%016llx array=%016llx "
                  "shapes=%016llx\n",
                  type_name, Name<T>(), int(from), int(to), (unsigned long long)scalar.h,
                  (unsigned long long)in_place.h, (unsigned long long)vec.h,
                  (unsigned long long)arr.h, (unsigned long long)shapes.h);
    }
  }
}

// Static conversions between one unit and the standard unit, in both directions, every shape.
template <typename U, U A, U B, typename T> void StaticPair(Digest& digest, const bool verbose) {
  const std::vector<T> inputs = Inputs<T>();
  for (std::size_t i = 0; i + 9 <= inputs.size(); i += 2) {
    const T s = PhQ::ConvertStatically<U, A, B>(inputs[i]);
    digest.Add(s);
    if (verbose) PrintHex(s);
    const std::array<T, 5> a5{inputs[i], inputs[i + 1], inputs[i + 2], inputs[i + 3], inputs[i + 4]};
    for (const T y : PhQ::ConvertStatically<U, A, B>(a5)) digest.Add(y);
    const std::array<T, 1> a1{inputs[i + 5]};
    for (const T y : PhQ::ConvertStatically<U, A, B>(a1)) digest.Add(y);
    const PhQ::PlanarVector<T> pv(inputs[i], inputs[i + 1]);
    const PhQ::Vector<T> v3(inputs[i], inputs[i + 1], inputs[i + 2]);
    const PhQ::SymmetricDyad<T> sd(inputs[i], inputs[i + 1], inputs[i + 2], inputs[i + 3],
                                   inputs[i + 4], inputs[i + 5]);
    const PhQ::Dyad<T> d(inputs[i], inputs[i + 1], inputs[i + 2], inputs[i + 3], inputs[i + 4],
                         inputs[i + 5], inputs[i + 6], inputs[i + 7], inputs[i + 8]);
    for (const T y : PhQ::ConvertStatically<U, A, B>(pv).x_y()) digest.Add(y);
    for (const T y : PhQ::ConvertStatically<U, A, B>(v3).x_y_z()) digest.Add(y);
    for (const T y : PhQ::ConvertStatically<U, A, B>(sd).xx_xy_xz_yy_yz_zz()) digest.Add(y);
    for (const T y : PhQ::ConvertStatically<U, A, B>(d).xx_xy_xz_yx_yy_yz_zx_zy_zz()) digest.Add(y);
  }
}

template <typename U, U A, typename T> void Static(const char* type_name, const bool verbose) {
  Digest to, from, self;
  if (verbose) std::printf("%s %s static %d values:", type_name, Name<T>(), int(A));
  StaticPair<U, A, PhQ::Standard<U>, T>(to, verbose);
  StaticPair<U, PhQ::Standard<U>, A, T>(from, verbose);
  StaticPair<U, A, A, T>(self, false);
  if (verbose) std::printf("\n");
  std::printf("%s %s static %d to_std=%016llx from_std=%016llx self=%016llx\n", type_name,
              Name<T>(), int(A), (unsigned long long)to.h, (unsigned long long)from.h,
              (unsigned long long)self.h);
}

template <typename U, U A> void StaticAll(const char* type_name, const bool verbose) {
  Static<U, A, float>(type_name, verbose);
  Static<U, A, double>(type_name, verbose);
  Static<U, A, long double>(type_name, verbose);
}

// Compile-time evaluation must keep working and give the same bits as run-time evaluation.
constexpr double kStaticCelsius = PhQ::ConvertStatically<PhQ::Unit::Temperature,
    PhQ::Unit::Temperature::Fahrenheit, PhQ::Unit::Temperature::Celsius>(98.6);
constexpr std::array<float, 3> kStaticFeet = PhQ::ConvertStatically<PhQ::Unit::Length,
    PhQ::Unit::Length::Mile, PhQ::Unit::Length::Foot>(std::array<float, 3>{1.0F, -2.5F, 0.0F});
constexpr PhQ::Vector<long double> kStaticKnots = PhQ::ConvertStatically<PhQ::Unit::Speed,
    PhQ::Unit::Speed::MilePerHour, PhQ::Unit::Speed::Knot>(PhQ::Vector<long double>(1.0L, 2.0L, -3.0L));

}  // namespace

int main() {
  std::printf("constexpr");
  PrintHex(kStaticCelsius);
  for (const float y : kStaticFeet) PrintHex(y);
  for (const long double y : kStaticKnots.x_y_z()) PrintHex(y);
  std::printf("\n");

  Runtime<PhQ::Unit::Acceleration, float>("Acceleration", false);
  Runtime<PhQ::Unit::Acceleration, double>("Acceleration", false);
  Runtime<PhQ::Unit::Acceleration, long double>("Acceleration", false);
  Runtime<PhQ::Unit::Angle, float>("Angle", true);
  Runtime<PhQ::Unit::Angle, double>("Angle", true);
  Runtime<PhQ::Unit::Angle, long double>("Angle", true);
  Runtime<PhQ::Unit::AngularAcceleration, float>("AngularAcceleration", false);
  Runtime<PhQ::Unit::AngularAcceleration, double>("AngularAcceleration", false);
  Runtime<PhQ::Unit::AngularAcceleration, long double>("AngularAcceleration", false);
  Runtime<PhQ::Unit::AngularSpeed, float>("AngularSpeed", false);
  Runtime<PhQ::Unit::AngularSpeed, double>("AngularSpeed", false);
  Runtime<PhQ::Unit::AngularSpeed, long double>("AngularSpeed", false);
  Runtime<PhQ::Unit::Area, float>("Area", false);
  Runtime<PhQ::Unit::Area, double>("Area", false);
  Runtime<PhQ::Unit::Area, long double>("Area", false);
  Runtime<PhQ::Unit::Diffusivity, float>("Diffusivity", false);
  Runtime<PhQ::Unit::Diffusivity, double>("Diffusivity", false);
  Runtime<PhQ::Unit::Diffusivity, long double>("Diffusivity", false);
  Runtime<PhQ::Unit::DynamicViscosity, float>("DynamicViscosity", false);
  Runtime<PhQ::Unit::DynamicViscosity, double>("DynamicViscosity", false);
  Runtime<PhQ::Unit::DynamicViscosity, long double>("DynamicViscosity", false);
  Runtime<PhQ::Unit::ElectricCharge, float>("ElectricCharge", false);
  Runtime<PhQ::Unit::ElectricCharge, double>("ElectricCharge", false);
  Runtime<PhQ::Unit::ElectricCharge, long double>("ElectricCharge", false);
  Runtime<PhQ::Unit::ElectricCurrent, float>("ElectricCurrent", false);
  Runtime<PhQ::Unit::ElectricCurrent, double>("ElectricCurrent", false);
  Runtime<PhQ::Unit::ElectricCurrent, long double>("ElectricCurrent", false);
  Runtime<PhQ::Unit::Energy, float>("Energy", false);
  Runtime<PhQ::Unit::Energy, double>("Energy", false);
  Runtime<PhQ::Unit::Energy, long double>("Energy", false);
  Runtime<PhQ::Unit::EnergyFlux, float>("EnergyFlux", false);
  Runtime<PhQ::Unit::EnergyFlux, double>("EnergyFlux", false);
  Runtime<PhQ::Unit::EnergyFlux, long double>("EnergyFlux", false);
  Runtime<PhQ::Unit::Force, float>("Force", false);
  Runtime<PhQ::Unit::Force, double>("Force", false);
  Runtime<PhQ::Unit::Force, long double>("Force", false);
  Runtime<PhQ::Unit::Frequency, float>("Frequency", false);
  Runtime<PhQ::Unit::Frequency, double>("Frequency", false);
  Runtime<PhQ::Unit::Frequency, long double>("Frequency", false);
  Runtime<PhQ::Unit::HeatCapacity, float>("HeatCapacity", false);
  Runtime<PhQ::Unit::HeatCapacity, double>("HeatCapacity", false);
  Runtime<PhQ::Unit::HeatCapacity, long double>("HeatCapacity", false);
  Runtime<PhQ::Unit::Length, float>("Length", false);
  Runtime<PhQ::Unit::Length, double>("Length", false);
  Runtime<PhQ::Unit::Length, long double>("Length", false);
  Runtime<PhQ::Unit::Mass, float>("Mass", true);
  Runtime<PhQ::Unit::Mass, double>("Mass", true);
  Runtime<PhQ::Unit::Mass, long double>("Mass", true);
  Runtime<PhQ::Unit::MassDensity, float>("MassDensity", false);
  Runtime<PhQ::Unit::MassDensity, double>("MassDensity", false);
  Runtime<PhQ::Unit::MassDensity, long double>("MassDensity", false);
  Runtime<PhQ::Unit::MassRate, float>("MassRate", false);
  Runtime<PhQ::Unit::MassRate, double>("MassRate", false);
  Runtime<PhQ::Unit::MassRate, long double>("MassRate", false);
  Runtime<PhQ::Unit::Memory, float>("Memory", true);
  Runtime<PhQ::Unit::Memory, double>("Memory", true);
  Runtime<PhQ::Unit::Memory, long double>("Memory", true);
  Runtime<PhQ::Unit::MemoryRate, float>("MemoryRate", false);
  Runtime<PhQ::Unit::MemoryRate, double>("MemoryRate", false);
  Runtime<PhQ::Unit::MemoryRate, long double>("MemoryRate", false);
  Runtime<PhQ::Unit::Power, float>("Power", false);
  Runtime<PhQ::Unit::Power, double>("Power", false);
  Runtime<PhQ::Unit::Power, long double>("Power", false);
  Runtime<PhQ::Unit::Pressure, float>("Pressure", false);
  Runtime<PhQ::Unit::Pressure, double>("Pressure", false);
  Runtime<PhQ::Unit::Pressure, long double>("Pressure", false);
  Runtime<PhQ::Unit::ReciprocalTemperature, float>("ReciprocalTemperature", false);
  Runtime<PhQ::Unit::ReciprocalTemperature, double>("ReciprocalTemperature", false);
  Runtime<PhQ::Unit::ReciprocalTemperature, long double>("ReciprocalTemperature", false);
  Runtime<PhQ::Unit::SolidAngle, float>("SolidAngle", false);
  Runtime<PhQ::Unit::SolidAngle, double>("SolidAngle", false);
  Runtime<PhQ::Unit::SolidAngle, long double>("SolidAngle", false);
  Runtime<PhQ::Unit::SpecificEnergy, float>("SpecificEnergy", false);
  Runtime<PhQ::Unit::SpecificEnergy, double>("SpecificEnergy", false);
  Runtime<PhQ::Unit::SpecificEnergy, long double>("SpecificEnergy", false);
  Runtime<PhQ::Unit::SpecificHeatCapacity, float>("SpecificHeatCapacity", false);
  Runtime<PhQ::Unit::SpecificHeatCapacity, double>("SpecificHeatCapacity", false);
  Runtime<PhQ::Unit::SpecificHeatCapacity, long double>("SpecificHeatCapacity", false);
  Runtime<PhQ::Unit::SpecificPower, float>("SpecificPower", false);
  Runtime<PhQ::Unit::SpecificPower, double>("SpecificPower", false);
  Runtime<PhQ::Unit::SpecificPower, long double>("SpecificPower", false);
  Runtime<PhQ::Unit::Speed, float>("Speed", false);
  Runtime<PhQ::Unit::Speed, double>("Speed", false);
  Runtime<PhQ::Unit::Speed, long double>("Speed", false);
  Runtime<PhQ::Unit::SubstanceAmount, float>("SubstanceAmount", false);
  Runtime<PhQ::Unit::SubstanceAmount, double>("SubstanceAmount", false);
  Runtime<PhQ::Unit::SubstanceAmount, long double>("SubstanceAmount", false);
  Runtime<PhQ::Unit::Temperature, float>("Temperature", true);
  Runtime<PhQ::Unit::Temperature, double>("Temperature", true);
  Runtime<PhQ::Unit::Temperature, long double>("Temperature", true);
  Runtime<PhQ::Unit::TemperatureDifference, float>("TemperatureDifference", true);
  Runtime<PhQ::Unit::TemperatureDifference, double>("TemperatureDifference", true);
  Runtime<PhQ::Unit::TemperatureDifference, long double>("TemperatureDifference", true);
  Runtime<PhQ::Unit::TemperatureGradient, float>("TemperatureGradient", false);
  Runtime<PhQ::Unit::TemperatureGradient, double>("TemperatureGradient", false);
  Runtime<PhQ::Unit::TemperatureGradient, long double>("TemperatureGradient", false);
  Runtime<PhQ::Unit::ThermalConductivity, float>("ThermalConductivity", false);
  Runtime<PhQ::Unit::ThermalConductivity, double>("ThermalConductivity", false);
  Runtime<PhQ::Unit::ThermalConductivity, long double>("ThermalConductivity", false);
  Runtime<PhQ::Unit::Time, float>("Time", true);
  Runtime<PhQ::Unit::Time, double>("Time", true);
  Runtime<PhQ::Unit::Time, long double>("Time", true);
  Runtime<PhQ::Unit::TransportEnergyConsumption, float>("TransportEnergyConsumption", false);
  Runtime<PhQ::Unit::TransportEnergyConsumption, double>("TransportEnergyConsumption", false);
  Runtime<PhQ::Unit::TransportEnergyConsumption, long double>("TransportEnergyConsumption", false);
  Runtime<PhQ::Unit::Volume, float>("Volume", false);
  Runtime<PhQ::Unit::Volume, double>("Volume", false);
  Runtime<PhQ::Unit::Volume, long double>("Volume", false);
  Runtime<PhQ::Unit::VolumeRate, float>("VolumeRate", false);
  Runtime<PhQ::Unit::VolumeRate, double>("VolumeRate", false);
  Runtime<PhQ::Unit::VolumeRate, long double>("VolumeRate", false);
  StaticAll<PhQ::Unit::Acceleration, PhQ::Unit::Acceleration::MetrePerSquareSecond>("Acceleration", false);
  StaticAll<PhQ::Unit::Acceleration, PhQ::Unit::Acceleration::MetrePerSquareMinute>("Acceleration", false);
  StaticAll<PhQ::Unit::Acceleration, PhQ::Unit::Acceleration::MetrePerSquareHour>("Acceleration", false);
  StaticAll<PhQ::Unit::Acceleration, PhQ::Unit::Acceleration::NauticalMilePerSquareSecond>("Acceleration", false);
  StaticAll<PhQ::Unit::Acceleration, PhQ::Unit::Acceleration::NauticalMilePerSquareMinute>("Acceleration", false);
  StaticAll<PhQ::Unit::Acceleration, PhQ::Unit::Acceleration::KnotPerHour>("Acceleration", false);
  StaticAll<PhQ::Unit::Acceleration, PhQ::Unit::Acceleration::MilePerSquareSecond>("Acceleration", false);
  StaticAll<PhQ::Unit::Acceleration, PhQ::Unit::Acceleration::MilePerSquareMinute>("Acceleration", false);
  StaticAll<PhQ::Unit::Acceleration, PhQ::Unit::Acceleration::MilePerSquareHour>("Acceleration", false);
  StaticAll<PhQ::Unit::Acceleration, PhQ::Unit::Acceleration::KilometrePerSquareSecond>("Acceleration", false);
  StaticAll<PhQ::Unit::Acceleration, PhQ::Unit::Acceleration::KilometrePerSquareMinute>("Acceleration", false);
  StaticAll<PhQ::Unit::Acceleration, PhQ::Unit::Acceleration::KilometrePerSquareHour>("Acceleration", false);
  StaticAll<PhQ::Unit::Acceleration, PhQ::Unit::Acceleration::YardPerSquareSecond>("Acceleration", false);
  StaticAll<PhQ::Unit::Acceleration, PhQ::Unit::Acceleration::YardPerSquareMinute>("Acceleration", false);
  StaticAll<PhQ::Unit::Acceleration, PhQ::Unit::Acceleration::YardPerSquareHour>("Acceleration", false);
  StaticAll<PhQ::Unit::Acceleration, PhQ::Unit::Acceleration::FootPerSquareSecond>("Acceleration", false);
  StaticAll<PhQ::Unit::Acceleration, PhQ::Unit::Acceleration::FootPerSquareMinute>("Acceleration", false);
  StaticAll<PhQ::Unit::Acceleration, PhQ::Unit::Acceleration::FootPerSquareHour>("Acceleration", false);
  StaticAll<PhQ::Unit::Acceleration, PhQ::Unit::Acceleration::DecimetrePerSquareSecond>("Acceleration", false);
  StaticAll<PhQ::Unit::Acceleration, PhQ::Unit::Acceleration::DecimetrePerSquareMinute>("Acceleration", false);
  StaticAll<PhQ::Unit::Acceleration, PhQ::Unit::Acceleration::DecimetrePerSquareHour>("Acceleration", false);
  StaticAll<PhQ::Unit::Acceleration, PhQ::Unit::Acceleration::InchPerSquareSecond>("Acceleration", false);
  StaticAll<PhQ::Unit::Acceleration, PhQ::Unit::Acceleration::InchPerSquareMinute>("Acceleration", false);
  StaticAll<PhQ::Unit::Acceleration, PhQ::Unit::Acceleration::InchPerSquareHour>("Acceleration", false);
  StaticAll<PhQ::Unit::Acceleration, PhQ::Unit::Acceleration::CentimetrePerSquareSecond>("Acceleration", false);
  StaticAll<PhQ::Unit::Acceleration, PhQ::Unit::Acceleration::CentimetrePerSquareMinute>("Acceleration", false);
  StaticAll<PhQ::Unit::Acceleration, PhQ::Unit::Acceleration::CentimetrePerSquareHour>("Acceleration", false);
  StaticAll<PhQ::Unit::Acceleration, PhQ::Unit::Acceleration::MillimetrePerSquareSecond>("Acceleration", false);
  StaticAll<PhQ::Unit::Acceleration, PhQ::Unit::Acceleration::MillimetrePerSquareMinute>("Acceleration", false);
  StaticAll<PhQ::Unit::Acceleration, PhQ::Unit::Acceleration::MillimetrePerSquareHour>("Acceleration", false);
  StaticAll<PhQ::Unit::Acceleration, PhQ::Unit::Acceleration::MilliinchPerSquareSecond>("Acceleration", false);
  StaticAll<PhQ::Unit::Acceleration, PhQ::Unit::Acceleration::MilliinchPerSquareMinute>("Acceleration", false);
  StaticAll<PhQ::Unit::Acceleration, PhQ::Unit::Acceleration::MilliinchPerSquareHour>("Acceleration", false);
  StaticAll<PhQ::Unit::Acceleration, PhQ::Unit::Acceleration::MicrometrePerSquareSecond>("Acceleration", false);
  StaticAll<PhQ::Unit::Acceleration, PhQ::Unit::Acceleration::MicrometrePerSquareMinute>("Acceleration", false);
  StaticAll<PhQ::Unit::Acceleration, PhQ::Unit::Acceleration::MicrometrePerSquareHour>("Acceleration", false);
  StaticAll<PhQ::Unit::Acceleration, PhQ::Unit::Acceleration::MicroinchPerSquareSecond>("Acceleration", false);
  StaticAll<PhQ::Unit::Acceleration, PhQ::Unit::Acceleration::MicroinchPerSquareMinute>("Acceleration", false);
  StaticAll<PhQ::Unit::Acceleration, PhQ::Unit::Acceleration::MicroinchPerSquareHour>("Acceleration", false);
  StaticAll<PhQ::Unit::Angle, PhQ::Unit::Angle::Radian>("Angle", false);
  StaticAll<PhQ::Unit::Angle, PhQ::Unit::Angle::Degree>("Angle", false);
  StaticAll<PhQ::Unit::Angle, PhQ::Unit::Angle::Arcminute>("Angle", false);
  StaticAll<PhQ::Unit::Angle, PhQ::Unit::Angle::Arcsecond>("Angle", false);
  StaticAll<PhQ::Unit::Angle, PhQ::Unit::Angle::Revolution>("Angle", false);
  StaticAll<PhQ::Unit::AngularAcceleration, PhQ::Unit::AngularAcceleration::RadianPerSquareSecond>("AngularAcceleration", false);
  StaticAll<PhQ::Unit::AngularAcceleration, PhQ::Unit::AngularAcceleration::RadianPerSquareMinute>("AngularAcceleration", false);
  StaticAll<PhQ::Unit::AngularAcceleration, PhQ::Unit::AngularAcceleration::RadianPerSquareHour>("AngularAcceleration", false);
  StaticAll<PhQ::Unit::AngularAcceleration, PhQ::Unit::AngularAcceleration::DegreePerSquareSecond>("AngularAcceleration", false);
  StaticAll<PhQ::Unit::AngularAcceleration, PhQ::Unit::AngularAcceleration::DegreePerSquareMinute>("AngularAcceleration", false);
  StaticAll<PhQ::Unit::AngularAcceleration, PhQ::Unit::AngularAcceleration::DegreePerSquareHour>("AngularAcceleration", false);
  StaticAll<PhQ::Unit::AngularAcceleration, PhQ::Unit::AngularAcceleration::ArcminutePerSquareSecond>("AngularAcceleration", false);
  StaticAll<PhQ::Unit::AngularAcceleration, PhQ::Unit::AngularAcceleration::ArcminutePerSquareMinute>("AngularAcceleration", false);
  StaticAll<PhQ::Unit::AngularAcceleration, PhQ::Unit::AngularAcceleration::ArcminutePerSquareHour>("AngularAcceleration", false);
  StaticAll<PhQ::Unit::AngularAcceleration, PhQ::Unit::AngularAcceleration::ArcsecondPerSquareSecond>("AngularAcceleration", false);
  StaticAll<PhQ::Unit::AngularAcceleration, PhQ::Unit::AngularAcceleration::ArcsecondPerSquareMinute>("AngularAcceleration", false);
  StaticAll<PhQ::Unit::AngularAcceleration, PhQ::Unit::AngularAcceleration::ArcsecondPerSquareHour>("AngularAcceleration", false);
  StaticAll<PhQ::Unit::AngularAcceleration, PhQ::Unit::AngularAcceleration::RevolutionPerSquareSecond>("AngularAcceleration", false);
  StaticAll<PhQ::Unit::AngularAcceleration, PhQ::Unit::AngularAcceleration::RevolutionPerSquareMinute>("AngularAcceleration", false);
  StaticAll<PhQ::Unit::AngularAcceleration, PhQ::Unit::AngularAcceleration::RevolutionPerSquareHour>("AngularAcceleration", false);
  StaticAll<PhQ::Unit::AngularSpeed, PhQ::Unit::AngularSpeed::RadianPerSecond>("AngularSpeed", false);
  StaticAll<PhQ::Unit::AngularSpeed, PhQ::Unit::AngularSpeed::RadianPerMinute>("AngularSpeed", false);
  StaticAll<PhQ::Unit::AngularSpeed, PhQ::Unit::AngularSpeed::RadianPerHour>("AngularSpeed", false);
  StaticAll<PhQ::Unit::AngularSpeed, PhQ::Unit::AngularSpeed::DegreePerSecond>("AngularSpeed", false);
  StaticAll<PhQ::Unit::AngularSpeed, PhQ::Unit::AngularSpeed::DegreePerMinute>("AngularSpeed", false);
  StaticAll<PhQ::Unit::AngularSpeed, PhQ::Unit::AngularSpeed::DegreePerHour>("AngularSpeed", false);
  StaticAll<PhQ::Unit::AngularSpeed, PhQ::Unit::AngularSpeed::ArcminutePerSecond>("AngularSpeed", false);
  StaticAll<PhQ::Unit::AngularSpeed, PhQ::Unit::AngularSpeed::ArcminutePerMinute>("AngularSpeed", false);
  StaticAll<PhQ::Unit::AngularSpeed, PhQ::Unit::AngularSpeed::ArcminutePerHour>("AngularSpeed", false);
  StaticAll<PhQ::Unit::AngularSpeed, PhQ::Unit::AngularSpeed::ArcsecondPerSecond>("AngularSpeed", false);
  StaticAll<PhQ::Unit::AngularSpeed, PhQ::Unit::AngularSpeed::ArcsecondPerMinute>("AngularSpeed", false);
  StaticAll<PhQ::Unit::AngularSpeed, PhQ::Unit::AngularSpeed::ArcsecondPerHour>("AngularSpeed", false);
  StaticAll<PhQ::Unit::AngularSpeed, PhQ::Unit::AngularSpeed::RevolutionPerSecond>("AngularSpeed", false);
  StaticAll<PhQ::Unit::AngularSpeed, PhQ::Unit::AngularSpeed::RevolutionPerMinute>("AngularSpeed", false);
  StaticAll<PhQ::Unit::AngularSpeed, PhQ::Unit::AngularSpeed::RevolutionPerHour>("AngularSpeed", false);
  StaticAll<PhQ::Unit::Area, PhQ::Unit::Area::SquareMetre>("Area", false);
  StaticAll<PhQ::Unit::Area, PhQ::Unit::Area::SquareNauticalMile>("Area", false);
  StaticAll<PhQ::Unit::Area, PhQ::Unit::Area::SquareMile>("Area", false);
  StaticAll<PhQ::Unit::Area, PhQ::Unit::Area::SquareKilometre>("Area", false);
  StaticAll<PhQ::Unit::Area, PhQ::Unit::Area::Hectare>("Area", false);
  StaticAll<PhQ::Unit::Area, PhQ::Unit::Area::Acre>("Area", false);
  StaticAll<PhQ::Unit::Area, PhQ::Unit::Area::SquareYard>("Area", false);
  StaticAll<PhQ::Unit::Area, PhQ::Unit::Area::SquareFoot>("Area", false);
  StaticAll<PhQ::Unit::Area, PhQ::Unit::Area::SquareDecimetre>("Area", false);
  StaticAll<PhQ::Unit::Area, PhQ::Unit::Area::SquareInch>("Area", false);
  StaticAll<PhQ::Unit::Area, PhQ::Unit::Area::SquareCentimetre>("Area", false);
  StaticAll<PhQ::Unit::Area, PhQ::Unit::Area::SquareMillimetre>("Area", false);
  StaticAll<PhQ::Unit::Area, PhQ::Unit::Area::SquareMilliinch>("Area", false);
  StaticAll<PhQ::Unit::Area, PhQ::Unit::Area::SquareMicrometre>("Area", false);
  StaticAll<PhQ::Unit::Area, PhQ::Unit::Area::SquareMicroinch>("Area", false);
  StaticAll<PhQ::Unit::Diffusivity, PhQ::Unit::Diffusivity::SquareMetrePerSecond>("Diffusivity", false);
  StaticAll<PhQ::Unit::Diffusivity, PhQ::Unit::Diffusivity::SquareNauticalMilePerSecond>("Diffusivity", false);
  StaticAll<PhQ::Unit::Diffusivity, PhQ::Unit::Diffusivity::SquareMilePerSecond>("Diffusivity", false);
  StaticAll<PhQ::Unit::Diffusivity, PhQ::Unit::Diffusivity::SquareKilometrePerSecond>("Diffusivity", false);
  StaticAll<PhQ::Unit::Diffusivity, PhQ::Unit::Diffusivity::HectarePerSecond>("Diffusivity", false);
  StaticAll<PhQ::Unit::Diffusivity, PhQ::Unit::Diffusivity::AcrePerSecond>("Diffusivity", false);
  StaticAll<PhQ::Unit::Diffusivity, PhQ::Unit::Diffusivity::SquareYardPerSecond>("Diffusivity", false);
  StaticAll<PhQ::Unit::Diffusivity, PhQ::Unit::Diffusivity::SquareFootPerSecond>("Diffusivity", false);
  StaticAll<PhQ::Unit::Diffusivity, PhQ::Unit::Diffusivity::SquareDecimetrePerSecond>("Diffusivity", false);
  StaticAll<PhQ::Unit::Diffusivity, PhQ::Unit::Diffusivity::SquareInchPerSecond>("Diffusivity", false);
  StaticAll<PhQ::Unit::Diffusivity, PhQ::Unit::Diffusivity::SquareCentimetrePerSecond>("Diffusivity", false);
  StaticAll<PhQ::Unit::Diffusivity, PhQ::Unit::Diffusivity::SquareMillimetrePerSecond>("Diffusivity", false);
  StaticAll<PhQ::Unit::Diffusivity, PhQ::Unit::Diffusivity::SquareMilliinchPerSecond>("Diffusivity", false);
  StaticAll<PhQ::Unit::Diffusivity, PhQ::Unit::Diffusivity::SquareMicrometrePerSecond>("Diffusivity", false);
  StaticAll<PhQ::Unit::Diffusivity, PhQ::Unit::Diffusivity::SquareMicroinchPerSecond>("Diffusivity", false);
  StaticAll<PhQ::Unit::DynamicViscosity, PhQ::Unit::DynamicViscosity::PascalSecond>("DynamicViscosity", false);
  StaticAll<PhQ::Unit::DynamicViscosity, PhQ::Unit::DynamicViscosity::KilopascalSecond>("DynamicViscosity", false);
  StaticAll<PhQ::Unit::DynamicViscosity, PhQ::Unit::DynamicViscosity::MegapascalSecond>("DynamicViscosity", false);
  StaticAll<PhQ::Unit::DynamicViscosity, PhQ::Unit::DynamicViscosity::GigapascalSecond>("DynamicViscosity", false);
  StaticAll<PhQ::Unit::DynamicViscosity, PhQ::Unit::DynamicViscosity::Poise>("DynamicViscosity", false);
  StaticAll<PhQ::Unit::DynamicViscosity, PhQ::Unit::DynamicViscosity::PoundSecondPerSquareFoot>("DynamicViscosity", false);
  StaticAll<PhQ::Unit::DynamicViscosity, PhQ::Unit::DynamicViscosity::PoundSecondPerSquareInch>("DynamicViscosity", false);
  StaticAll<PhQ::Unit::ElectricCharge, PhQ::Unit::ElectricCharge::Coulomb>("ElectricCharge", false);
  StaticAll<PhQ::Unit::ElectricCharge, PhQ::Unit::ElectricCharge::Kilocoulomb>("ElectricCharge", false);
  StaticAll<PhQ::Unit::ElectricCharge, PhQ::Unit::ElectricCharge::Megacoulomb>("ElectricCharge", false);
  StaticAll<PhQ::Unit::ElectricCharge, PhQ::Unit::ElectricCharge::Gigacoulomb>("ElectricCharge", false);
  StaticAll<PhQ::Unit::ElectricCharge, PhQ::Unit::ElectricCharge::Teracoulomb>("ElectricCharge", false);
  StaticAll<PhQ::Unit::ElectricCharge, PhQ::Unit::ElectricCharge::Millicoulomb>("ElectricCharge", false);
  StaticAll<PhQ::Unit::ElectricCharge, PhQ::Unit::ElectricCharge::Microcoulomb>("ElectricCharge", false);
  StaticAll<PhQ::Unit::ElectricCharge, PhQ::Unit::ElectricCharge::Nanocoulomb>("ElectricCharge", false);
  StaticAll<PhQ::Unit::ElectricCharge, PhQ::Unit::ElectricCharge::ElementaryCharge>("ElectricCharge", false);
  StaticAll<PhQ::Unit::ElectricCharge, PhQ::Unit::ElectricCharge::AmpereMinute>("ElectricCharge", false);
  StaticAll<PhQ::Unit::ElectricCharge, PhQ::Unit::ElectricCharge::AmpereHour>("ElectricCharge", false);
  StaticAll<PhQ::Unit::ElectricCharge, PhQ::Unit::ElectricCharge::KiloampereMinute>("ElectricCharge", false);
  StaticAll<PhQ::Unit::ElectricCharge, PhQ::Unit::ElectricCharge::KiloampereHour>("ElectricCharge", false);
  StaticAll<PhQ::Unit::ElectricCharge, PhQ::Unit::ElectricCharge::MegaampereMinute>("ElectricCharge", false);
  StaticAll<PhQ::Unit::ElectricCharge, PhQ::Unit::ElectricCharge::MegaampereHour>("ElectricCharge", false);
  StaticAll<PhQ::Unit::ElectricCharge, PhQ::Unit::ElectricCharge::GigaampereMinute>("ElectricCharge", false);
  StaticAll<PhQ::Unit::ElectricCharge, PhQ::Unit::ElectricCharge::GigaampereHour>("ElectricCharge", false);
  StaticAll<PhQ::Unit::ElectricCharge, PhQ::Unit::ElectricCharge::TeraampereMinute>("ElectricCharge", false);
  StaticAll<PhQ::Unit::ElectricCharge, PhQ::Unit::ElectricCharge::TeraampereHour>("ElectricCharge", false);
  StaticAll<PhQ::Unit::ElectricCharge, PhQ::Unit::ElectricCharge::MilliampereMinute>("ElectricCharge", false);
  StaticAll<PhQ::Unit::ElectricCharge, PhQ::Unit::ElectricCharge::MilliampereHour>("ElectricCharge", false);
  StaticAll<PhQ::Unit::ElectricCharge, PhQ::Unit::ElectricCharge::MicroampereMinute>("ElectricCharge", false);
  StaticAll<PhQ::Unit::ElectricCharge, PhQ::Unit::ElectricCharge::MicroampereHour>("ElectricCharge", false);
  StaticAll<PhQ::Unit::ElectricCharge, PhQ::Unit::ElectricCharge::NanoampereMinute>("ElectricCharge", false);
  StaticAll<PhQ::Unit::ElectricCharge, PhQ::Unit::ElectricCharge::NanoampereHour>("ElectricCharge", false);
  StaticAll<PhQ::Unit::ElectricCurrent, PhQ::Unit::ElectricCurrent::Ampere>("ElectricCurrent", false);
  StaticAll<PhQ::Unit::ElectricCurrent, PhQ::Unit::ElectricCurrent::Kiloampere>("ElectricCurrent", false);
  StaticAll<PhQ::Unit::ElectricCurrent, PhQ::Unit::ElectricCurrent::Megaampere>("ElectricCurrent", false);
  StaticAll<PhQ::Unit::ElectricCurrent, PhQ::Unit::ElectricCurrent::Gigaampere>("ElectricCurrent", false);
  StaticAll<PhQ::Unit::ElectricCurrent, PhQ::Unit::ElectricCurrent::Teraampere>("ElectricCurrent", false);
  StaticAll<PhQ::Unit::ElectricCurrent, PhQ::Unit::ElectricCurrent::Milliampere>("ElectricCurrent", false);
  StaticAll<PhQ::Unit::ElectricCurrent, PhQ::Unit::ElectricCurrent::Microampere>("ElectricCurrent", false);
  StaticAll<PhQ::Unit::ElectricCurrent, PhQ::Unit::ElectricCurrent::Nanoampere>("ElectricCurrent", false);
  StaticAll<PhQ::Unit::ElectricCurrent, PhQ::Unit::ElectricCurrent::ElementaryChargePerSecond>("ElectricCurrent", false);
  StaticAll<PhQ::Unit::ElectricCurrent, PhQ::Unit::ElectricCurrent::ElementaryChargePerMinute>("ElectricCurrent", false);
  StaticAll<PhQ::Unit::ElectricCurrent, PhQ::Unit::ElectricCurrent::ElementaryChargePerHour>("ElectricCurrent", false);
  StaticAll<PhQ::Unit::Energy, PhQ::Unit::Energy::Joule>("Energy", false);
  StaticAll<PhQ::Unit::Energy, PhQ::Unit::Energy::Millijoule>("Energy", false);
  StaticAll<PhQ::Unit::Energy, PhQ::Unit::Energy::Microjoule>("Energy", false);
  StaticAll<PhQ::Unit::Energy, PhQ::Unit::Energy::Nanojoule>("Energy", false);
  StaticAll<PhQ::Unit::Energy, PhQ::Unit::Energy::Kilojoule>("Energy", false);
  StaticAll<PhQ::Unit::Energy, PhQ::Unit::Energy::Megajoule>("Energy", false);
  StaticAll<PhQ::Unit::Energy, PhQ::Unit::Energy::Gigajoule>("Energy", false);
  StaticAll<PhQ::Unit::Energy, PhQ::Unit::Energy::WattMinute>("Energy", false);
  StaticAll<PhQ::Unit::Energy, PhQ::Unit::Energy::WattHour>("Energy", false);
  StaticAll<PhQ::Unit::Energy, PhQ::Unit::Energy::KilowattMinute>("Energy", false);
  StaticAll<PhQ::Unit::Energy, PhQ::Unit::Energy::KilowattHour>("Energy", false);
  StaticAll<PhQ::Unit::Energy, PhQ::Unit::Energy::MegawattMinute>("Energy", false);
  StaticAll<PhQ::Unit::Energy, PhQ::Unit::Energy::MegawattHour>("Energy", false);
  StaticAll<PhQ::Unit::Energy, PhQ::Unit::Energy::GigawattMinute>("Energy", false);
  StaticAll<PhQ::Unit::Energy, PhQ::Unit::Energy::GigawattHour>("Energy", false);
  StaticAll<PhQ::Unit::Energy, PhQ::Unit::Energy::FootPound>("Energy", false);
  StaticAll<PhQ::Unit::Energy, PhQ::Unit::Energy::InchPound>("Energy", false);
  StaticAll<PhQ::Unit::Energy, PhQ::Unit::Energy::Calorie>("Energy", false);
  StaticAll<PhQ::Unit::Energy, PhQ::Unit::Energy::Millicalorie>("Energy", false);
  StaticAll<PhQ::Unit::Energy, PhQ::Unit::Energy::Microcalorie>("Energy", false);
  StaticAll<PhQ::Unit::Energy, PhQ::Unit::Energy::Nanocalorie>("Energy", false);
  StaticAll<PhQ::Unit::Energy, PhQ::Unit::Energy::Kilocalorie>("Energy", false);
  StaticAll<PhQ::Unit::Energy, PhQ::Unit::Energy::Megacalorie>("Energy", false);
  StaticAll<PhQ::Unit::Energy, PhQ::Unit::Energy::Gigacalorie>("Energy", false);
  StaticAll<PhQ::Unit::Energy, PhQ::Unit::Energy::Electronvolt>("Energy", false);
  StaticAll<PhQ::Unit::Energy, PhQ::Unit::Energy::Millielectronvolt>("Energy", false);
  StaticAll<PhQ::Unit::Energy, PhQ::Unit::Energy::Microelectronvolt>("Energy", false);
  StaticAll<PhQ::Unit::Energy, PhQ::Unit::Energy::Nanoelectronvolt>("Energy", false);
  StaticAll<PhQ::Unit::Energy, PhQ::Unit::Energy::Kiloelectronvolt>("Energy", false);
  StaticAll<PhQ::Unit::Energy, PhQ::Unit::Energy::Megaelectronvolt>("Energy", false);
  StaticAll<PhQ::Unit::Energy, PhQ::Unit::Energy::Gigaelectronvolt>("Energy", false);
  StaticAll<PhQ::Unit::Energy, PhQ::Unit::Energy::BritishThermalUnit>("Energy", false);
  StaticAll<PhQ::Unit::EnergyFlux, PhQ::Unit::EnergyFlux::WattPerSquareMetre>("EnergyFlux", false);
  StaticAll<PhQ::Unit::EnergyFlux, PhQ::Unit::EnergyFlux::NanowattPerSquareMillimetre>("EnergyFlux", false);
  StaticAll<PhQ::Unit::EnergyFlux, PhQ::Unit::EnergyFlux::FootPoundPerSquareFootPerSecond>("EnergyFlux", false);
  StaticAll<PhQ::Unit::EnergyFlux, PhQ::Unit::EnergyFlux::InchPoundPerSquareInchPerSecond>("EnergyFlux", false);
  StaticAll<PhQ::Unit::Force, PhQ::Unit::Force::Newton>("Force", false);
  StaticAll<PhQ::Unit::Force, PhQ::Unit::Force::Kilonewton>("Force", false);
  StaticAll<PhQ::Unit::Force, PhQ::Unit::Force::Meganewton>("Force", false);
  StaticAll<PhQ::Unit::Force, PhQ::Unit::Force::Giganewton>("Force", false);
  StaticAll<PhQ::Unit::Force, PhQ::Unit::Force::Millinewton>("Force", false);
  StaticAll<PhQ::Unit::Force, PhQ::Unit::Force::Micronewton>("Force", false);
  StaticAll<PhQ::Unit::Force, PhQ::Unit::Force::Nanonewton>("Force", false);
  StaticAll<PhQ::Unit::Force, PhQ::Unit::Force::Dyne>("Force", false);
  StaticAll<PhQ::Unit::Force, PhQ::Unit::Force::Pound>("Force", false);
  StaticAll<PhQ::Unit::Frequency, PhQ::Unit::Frequency::Hertz>("Frequency", false);
  StaticAll<PhQ::Unit::Frequency, PhQ::Unit::Frequency::Kilohertz>("Frequency", false);
  StaticAll<PhQ::Unit::Frequency, PhQ::Unit::Frequency::Megahertz>("Frequency", false);
  StaticAll<PhQ::Unit::Frequency, PhQ::Unit::Frequency::Gigahertz>("Frequency", false);
  StaticAll<PhQ::Unit::Frequency, PhQ::Unit::Frequency::PerMinute>("Frequency", false);
  StaticAll<PhQ::Unit::Frequency, PhQ::Unit::Frequency::PerHour>("Frequency", false);
  StaticAll<PhQ::Unit::HeatCapacity, PhQ::Unit::HeatCapacity::JoulePerKelvin>("HeatCapacity", true);
  StaticAll<PhQ::Unit::HeatCapacity, PhQ::Unit::HeatCapacity::NanojoulePerKelvin>("HeatCapacity", true);
  StaticAll<PhQ::Unit::HeatCapacity, PhQ::Unit::HeatCapacity::FootPoundPerRankine>("HeatCapacity", true);
  StaticAll<PhQ::Unit::HeatCapacity, PhQ::Unit::HeatCapacity::InchPoundPerRankine>("HeatCapacity", true);
  StaticAll<PhQ::Unit::Length, PhQ::Unit::Length::Metre>("Length", true);
  StaticAll<PhQ::Unit::Length, PhQ::Unit::Length::NauticalMile>("Length", true);
  StaticAll<PhQ::Unit::Length, PhQ::Unit::Length::Mile>("Length", true);
  StaticAll<PhQ::Unit::Length, PhQ::Unit::Length::Kilometre>("Length", true);
  StaticAll<PhQ::Unit::Length, PhQ::Unit::Length::Yard>("Length", true);
  StaticAll<PhQ::Unit::Length, PhQ::Unit::Length::Foot>("Length", true);
  StaticAll<PhQ::Unit::Length, PhQ::Unit::Length::Decimetre>("Length", true);
  StaticAll<PhQ::Unit::Length, PhQ::Unit::Length::Inch>("Length", true);
  StaticAll<PhQ::Unit::Length, PhQ::Unit::Length::Centimetre>("Length", true);
  StaticAll<PhQ::Unit::Length, PhQ::Unit::Length::Millimetre>("Length", true);
  StaticAll<PhQ::Unit::Length, PhQ::Unit::Length::Milliinch>("Length", true);
  StaticAll<PhQ::Unit::Length, PhQ::Unit::Length::Micrometre>("Length", true);
  StaticAll<PhQ::Unit::Length, PhQ::Unit::Length::Microinch>("Length", true);
  StaticAll<PhQ::Unit::Mass, PhQ::Unit::Mass::Kilogram>("Mass", false);
  StaticAll<PhQ::Unit::Mass, PhQ::Unit::Mass::Gram>("Mass", false);
  StaticAll<PhQ::Unit::Mass, PhQ::Unit::Mass::Slug>("Mass", false);
  StaticAll<PhQ::Unit::Mass, PhQ::Unit::Mass::Slinch>("Mass", false);
  StaticAll<PhQ::Unit::Mass, PhQ::Unit::Mass::Pound>("Mass", false);
  StaticAll<PhQ::Unit::MassDensity, PhQ::Unit::MassDensity::KilogramPerCubicMetre>("MassDensity", false);
  StaticAll<PhQ::Unit::MassDensity, PhQ::Unit::MassDensity::GramPerCubicMillimetre>("MassDensity", false);
  StaticAll<PhQ::Unit::MassDensity, PhQ::Unit::MassDensity::SlugPerCubicFoot>("MassDensity", false);
  StaticAll<PhQ::Unit::MassDensity, PhQ::Unit::MassDensity::SlinchPerCubicInch>("MassDensity", false);
  StaticAll<PhQ::Unit::MassDensity, PhQ::Unit::MassDensity::PoundPerCubicFoot>("MassDensity", false);
  StaticAll<PhQ::Unit::MassDensity, PhQ::Unit::MassDensity::PoundPerCubicInch>("MassDensity", false);
  StaticAll<PhQ::Unit::MassRate, PhQ::Unit::MassRate::KilogramPerSecond>("MassRate", false);
  StaticAll<PhQ::Unit::MassRate, PhQ::Unit::MassRate::GramPerSecond>("MassRate", false);
  StaticAll<PhQ::Unit::MassRate, PhQ::Unit::MassRate::SlugPerSecond>("MassRate", false);
  StaticAll<PhQ::Unit::MassRate, PhQ::Unit::MassRate::SlinchPerSecond>("MassRate", false);
  StaticAll<PhQ::Unit::MassRate, PhQ::Unit::MassRate::PoundPerSecond>("MassRate", false);
  StaticAll<PhQ::Unit::MassRate, PhQ::Unit::MassRate::KilogramPerMinute>("MassRate", false);
  StaticAll<PhQ::Unit::MassRate, PhQ::Unit::MassRate::GramPerMinute>("MassRate", false);
  StaticAll<PhQ::Unit::MassRate, PhQ::Unit::MassRate::SlugPerMinute>("MassRate", false);
  StaticAll<PhQ::Unit::MassRate, PhQ::Unit::MassRate::SlinchPerMinute>("MassRate", false);
  StaticAll<PhQ::Unit::MassRate, PhQ::Unit::MassRate::PoundPerMinute>("MassRate", false);
  StaticAll<PhQ::Unit::MassRate, PhQ::Unit::MassRate::KilogramPerHour>("MassRate", false);
  StaticAll<PhQ::Unit::MassRate, PhQ::Unit::MassRate::GramPerHour>("MassRate", false);
  StaticAll<PhQ::Unit::MassRate, PhQ::Unit::MassRate::SlugPerHour>("MassRate", false);
  StaticAll<PhQ::Unit::MassRate, PhQ::Unit::MassRate::SlinchPerHour>("MassRate", false);
  StaticAll<PhQ::Unit::MassRate, PhQ::Unit::MassRate::PoundPerHour>("MassRate", false);
  StaticAll<PhQ::Unit::Memory, PhQ::Unit::Memory::Bit>("Memory", false);
  StaticAll<PhQ::Unit::Memory, PhQ::Unit::Memory::Byte>("Memory", false);
  StaticAll<PhQ::Unit::Memory, PhQ::Unit::Memory::Kilobit>("Memory", false);
  StaticAll<PhQ::Unit::Memory, PhQ::Unit::Memory::Kibibit>("Memory", false);
  StaticAll<PhQ::Unit::Memory, PhQ::Unit::Memory::Kilobyte>("Memory", false);
  StaticAll<PhQ::Unit::Memory, PhQ::Unit::Memory::Kibibyte>("Memory", false);
  StaticAll<PhQ::Unit::Memory, PhQ::Unit::Memory::Megabit>("Memory", false);
  StaticAll<PhQ::Unit::Memory, PhQ::Unit::Memory::Mebibit>("Memory", false);
  StaticAll<PhQ::Unit::Memory, PhQ::Unit::Memory::Megabyte>("Memory", false);
  StaticAll<PhQ::Unit::Memory, PhQ::Unit::Memory::Mebibyte>("Memory", false);
  StaticAll<PhQ::Unit::Memory, PhQ::Unit::Memory::Gigabit>("Memory", false);
  StaticAll<PhQ::Unit::Memory, PhQ::Unit::Memory::Gibibit>("Memory", false);
  StaticAll<PhQ::Unit::Memory, PhQ::Unit::Memory::Gigabyte>("Memory", false);
  StaticAll<PhQ::Unit::Memory, PhQ::Unit::Memory::Gibibyte>("Memory", false);
  StaticAll<PhQ::Unit::Memory, PhQ::Unit::Memory::Terabit>("Memory", false);
  StaticAll<PhQ::Unit::Memory, PhQ::Unit::Memory::Tebibit>("Memory", false);
  StaticAll<PhQ::Unit::Memory, PhQ::Unit::Memory::Terabyte>("Memory", false);
  StaticAll<PhQ::Unit::Memory, PhQ::Unit::Memory::Tebibyte>("Memory", false);
  StaticAll<PhQ::Unit::Memory, PhQ::Unit::Memory::Petabit>("Memory", false);
  StaticAll<PhQ::Unit::Memory, PhQ::Unit::Memory::Pebibit>("Memory", false);
  StaticAll<PhQ::Unit::Memory, PhQ::Unit::Memory::Petabyte>("Memory", false);
  StaticAll<PhQ::Unit::Memory, PhQ::Unit::Memory::Pebibyte>("Memory", false);
  StaticAll<PhQ::Unit::MemoryRate, PhQ::Unit::MemoryRate::BitPerSecond>("MemoryRate", false);
  StaticAll<PhQ::Unit::MemoryRate, PhQ::Unit::MemoryRate::BytePerSecond>("MemoryRate", false);
  StaticAll<PhQ::Unit::MemoryRate, PhQ::Unit::MemoryRate::KilobitPerSecond>("MemoryRate", false);
  StaticAll<PhQ::Unit::MemoryRate, PhQ::Unit::MemoryRate::KibibitPerSecond>("MemoryRate", false);
  StaticAll<PhQ::Unit::MemoryRate, PhQ::Unit::MemoryRate::KilobytePerSecond>("MemoryRate", false);
  StaticAll<PhQ::Unit::MemoryRate, PhQ::Unit::MemoryRate::KibibytePerSecond>("MemoryRate", false);
  StaticAll<PhQ::Unit::MemoryRate, PhQ::Unit::MemoryRate::MegabitPerSecond>("MemoryRate", false);
  StaticAll<PhQ::Unit::MemoryRate, PhQ::Unit::MemoryRate::MebibitPerSecond>("MemoryRate", false);
  StaticAll<PhQ::Unit::MemoryRate, PhQ::Unit::MemoryRate::MegabytePerSecond>("MemoryRate", false);
  StaticAll<PhQ::Unit::MemoryRate, PhQ::Unit::MemoryRate::MebibytePerSecond>("MemoryRate", false);
  StaticAll<PhQ::Unit::MemoryRate, PhQ::Unit::MemoryRate::GigabitPerSecond>("MemoryRate", false);
  StaticAll<PhQ::Unit::MemoryRate, PhQ::Unit::MemoryRate::GibibitPerSecond>("MemoryRate", false);
  StaticAll<PhQ::Unit::MemoryRate, PhQ::Unit::MemoryRate::GigabytePerSecond>("MemoryRate", false);
  StaticAll<PhQ::Unit::MemoryRate, PhQ::Unit::MemoryRate::GibibytePerSecond>("MemoryRate", false);
  StaticAll<PhQ::Unit::MemoryRate, PhQ::Unit::MemoryRate::TerabitPerSecond>("MemoryRate", false);
  StaticAll<PhQ::Unit::MemoryRate, PhQ::Unit::MemoryRate::TebibitPerSecond>("MemoryRate", false);
  StaticAll<PhQ::Unit::MemoryRate, PhQ::Unit::MemoryRate::TerabytePerSecond>("MemoryRate", false);
  StaticAll<PhQ::Unit::MemoryRate, PhQ::Unit::MemoryRate::TebibytePerSecond>("MemoryRate", false);
  StaticAll<PhQ::Unit::MemoryRate, PhQ::Unit::MemoryRate::PetabitPerSecond>("MemoryRate", false);
  StaticAll<PhQ::Unit::MemoryRate, PhQ::Unit::MemoryRate::PebibitPerSecond>("MemoryRate", false);
  StaticAll<PhQ::Unit::MemoryRate, PhQ::Unit::MemoryRate::PetabytePerSecond>("MemoryRate", false);
  StaticAll<PhQ::Unit::MemoryRate, PhQ::Unit::MemoryRate::PebibytePerSecond>("MemoryRate", false);
  StaticAll<PhQ::Unit::MemoryRate, PhQ::Unit::MemoryRate::BitPerMinute>("MemoryRate", false);
  StaticAll<PhQ::Unit::MemoryRate, PhQ::Unit::MemoryRate::BytePerMinute>("MemoryRate", false);
  StaticAll<PhQ::Unit::MemoryRate, PhQ::Unit::MemoryRate::KilobitPerMinute>("MemoryRate", false);
  StaticAll<PhQ::Unit::MemoryRate, PhQ::Unit::MemoryRate::KibibitPerMinute>("MemoryRate", false);
  StaticAll<PhQ::Unit::MemoryRate, PhQ::Unit::MemoryRate::KilobytePerMinute>("MemoryRate", false);
  StaticAll<PhQ::Unit::MemoryRate, PhQ::Unit::MemoryRate::KibibytePerMinute>("MemoryRate", false);
  StaticAll<PhQ::Unit::MemoryRate, PhQ::Unit::MemoryRate::MegabitPerMinute>("MemoryRate", false);
  StaticAll<PhQ::Unit::MemoryRate, PhQ::Unit::MemoryRate::MebibitPerMinute>("MemoryRate", false);
  StaticAll<PhQ::Unit::MemoryRate, PhQ::Unit::MemoryRate::MegabytePerMinute>("MemoryRate", false);
  StaticAll<PhQ::Unit::MemoryRate, PhQ::Unit::MemoryRate::MebibytePerMinute>("MemoryRate", false);
  StaticAll<PhQ::Unit::MemoryRate, PhQ::Unit::MemoryRate::GigabitPerMinute>("MemoryRate", false);
  StaticAll<PhQ::Unit::MemoryRate, PhQ::Unit::MemoryRate::GibibitPerMinute>("MemoryRate", false);
  StaticAll<PhQ::Unit::MemoryRate, PhQ::Unit::MemoryRate::GigabytePerMinute>("MemoryRate", false);
  StaticAll<PhQ::Unit::MemoryRate, PhQ::Unit::MemoryRate::GibibytePerMinute>("MemoryRate", false);
  StaticAll<PhQ::Unit::MemoryRate, PhQ::Unit::MemoryRate::TerabitPerMinute>("MemoryRate", false);
  StaticAll<PhQ::Unit::MemoryRate, PhQ::Unit::MemoryRate::TebibitPerMinute>("MemoryRate", false);
  StaticAll<PhQ::Unit::MemoryRate, PhQ::Unit::MemoryRate::TerabytePerMinute>("MemoryRate", false);
  StaticAll<PhQ::Unit::MemoryRate, PhQ::Unit::MemoryRate::TebibytePerMinute>("MemoryRate", false);
  StaticAll<PhQ::Unit::MemoryRate, PhQ::Unit::MemoryRate::PetabitPerMinute>("MemoryRate", false);
  StaticAll<PhQ::Unit::MemoryRate, PhQ::Unit::MemoryRate::PebibitPerMinute>("MemoryRate", false);
  StaticAll<PhQ::Unit::MemoryRate, PhQ::Unit::MemoryRate::PetabytePerMinute>("MemoryRate", false);
  StaticAll<PhQ::Unit::MemoryRate, PhQ::Unit::MemoryRate::PebibytePerMinute>("MemoryRate", false);
  StaticAll<PhQ::Unit::MemoryRate, PhQ::Unit::MemoryRate::BitPerHour>("MemoryRate", false);
  StaticAll<PhQ::Unit::MemoryRate, PhQ::Unit::MemoryRate::BytePerHour>("MemoryRate", false);
  StaticAll<PhQ::Unit::MemoryRate, PhQ::Unit::MemoryRate::KilobitPerHour>("MemoryRate", false);
  StaticAll<PhQ::Unit::MemoryRate, PhQ::Unit::MemoryRate::KibibitPerHour>("MemoryRate", false);
  StaticAll<PhQ::Unit::MemoryRate, PhQ::Unit::MemoryRate::KilobytePerHour>("MemoryRate", false);
  StaticAll<PhQ::Unit::MemoryRate, PhQ::Unit::MemoryRate::KibibytePerHour>("MemoryRate", false);
  StaticAll<PhQ::Unit::MemoryRate, PhQ::Unit::MemoryRate::MegabitPerHour>("MemoryRate", false);
  StaticAll<PhQ::Unit::MemoryRate, PhQ::Unit::MemoryRate::MebibitPerHour>("MemoryRate", false);
  StaticAll<PhQ::Unit::MemoryRate, PhQ::Unit::MemoryRate::MegabytePerHour>("MemoryRate", false);
  StaticAll<PhQ::Unit::MemoryRate, PhQ::Unit::MemoryRate::MebibytePerHour>("MemoryRate", false);
  StaticAll<PhQ::Unit::MemoryRate, PhQ::Unit::MemoryRate::GigabitPerHour>("MemoryRate", false);
  StaticAll<PhQ::Unit::MemoryRate, PhQ::Unit::MemoryRate::GibibitPerHour>("MemoryRate", false);
  StaticAll<PhQ::Unit::MemoryRate, PhQ::Unit::MemoryRate::GigabytePerHour>("MemoryRate", false);
  StaticAll<PhQ::Unit::MemoryRate, PhQ::Unit::MemoryRate::GibibytePerHour>("MemoryRate", false);
  StaticAll<PhQ::Unit::MemoryRate, PhQ::Unit::MemoryRate::TerabitPerHour>("MemoryRate", false);
  StaticAll<PhQ::Unit::MemoryRate, PhQ::Unit::MemoryRate::TebibitPerHour>("MemoryRate", false);
  StaticAll<PhQ::Unit::MemoryRate, PhQ::Unit::MemoryRate::TerabytePerHour>("MemoryRate", false);
  StaticAll<PhQ::Unit::MemoryRate, PhQ::Unit::MemoryRate::TebibytePerHour>("MemoryRate", false);
  StaticAll<PhQ::Unit::MemoryRate, PhQ::Unit::MemoryRate::PetabitPerHour>("MemoryRate", false);
  StaticAll<PhQ::Unit::MemoryRate, PhQ::Unit::MemoryRate::PebibitPerHour>("MemoryRate", false);
  StaticAll<PhQ::Unit::MemoryRate, PhQ::Unit::MemoryRate::PetabytePerHour>("MemoryRate", false);
  StaticAll<PhQ::Unit::MemoryRate, PhQ::Unit::MemoryRate::PebibytePerHour>("MemoryRate", false);
  StaticAll<PhQ::Unit::Power, PhQ::Unit::Power::Watt>("Power", false);
  StaticAll<PhQ::Unit::Power, PhQ::Unit::Power::Milliwatt>("Power", false);
  StaticAll<PhQ::Unit::Power, PhQ::Unit::Power::Microwatt>("Power", false);
  StaticAll<PhQ::Unit::Power, PhQ::Unit::Power::Nanowatt>("Power", false);
  StaticAll<PhQ::Unit::Power, PhQ::Unit::Power::Kilowatt>("Power", false);
  StaticAll<PhQ::Unit::Power, PhQ::Unit::Power::Megawatt>("Power", false);
  StaticAll<PhQ::Unit::Power, PhQ::Unit::Power::Gigawatt>("Power", false);
  StaticAll<PhQ::Unit::Power, PhQ::Unit::Power::FootPoundPerSecond>("Power", false);
  StaticAll<PhQ::Unit::Power, PhQ::Unit::Power::InchPoundPerSecond>("Power", false);
  StaticAll<PhQ::Unit::Pressure, PhQ::Unit::Pressure::Pascal>("Pressure", true);
  StaticAll<PhQ::Unit::Pressure, PhQ::Unit::Pressure::Kilopascal>("Pressure", true);
  StaticAll<PhQ::Unit::Pressure, PhQ::Unit::Pressure::Megapascal>("Pressure", true);
  StaticAll<PhQ::Unit::Pressure, PhQ::Unit::Pressure::Gigapascal>("Pressure", true);
  StaticAll<PhQ::Unit::Pressure, PhQ::Unit::Pressure::Bar>("Pressure", true);
  StaticAll<PhQ::Unit::Pressure, PhQ::Unit::Pressure::Atmosphere>("Pressure", true);
  StaticAll<PhQ::Unit::Pressure, PhQ::Unit::Pressure::PoundPerSquareFoot>("Pressure", true);
  StaticAll<PhQ::Unit::Pressure, PhQ::Unit::Pressure::PoundPerSquareInch>("Pressure", true);
  StaticAll<PhQ::Unit::ReciprocalTemperature, PhQ::Unit::ReciprocalTemperature::PerKelvin>("ReciprocalTemperature", false);
  StaticAll<PhQ::Unit::ReciprocalTemperature, PhQ::Unit::ReciprocalTemperature::PerCelsius>("ReciprocalTemperature", false);
  StaticAll<PhQ::Unit::ReciprocalTemperature, PhQ::Unit::ReciprocalTemperature::PerRankine>("ReciprocalTemperature", false);
  StaticAll<PhQ::Unit::ReciprocalTemperature, PhQ::Unit::ReciprocalTemperature::PerFahrenheit>("ReciprocalTemperature", false);
  StaticAll<PhQ::Unit::SolidAngle, PhQ::Unit::SolidAngle::Steradian>("SolidAngle", false);
  StaticAll<PhQ::Unit::SolidAngle, PhQ::Unit::SolidAngle::SquareDegree>("SolidAngle", false);
  StaticAll<PhQ::Unit::SolidAngle, PhQ::Unit::SolidAngle::SquareArcminute>("SolidAngle", false);
  StaticAll<PhQ::Unit::SolidAngle, PhQ::Unit::SolidAngle::SquareArcsecond>("SolidAngle", false);
  StaticAll<PhQ::Unit::SpecificEnergy, PhQ::Unit::SpecificEnergy::JoulePerKilogram>("SpecificEnergy", false);
  StaticAll<PhQ::Unit::SpecificEnergy, PhQ::Unit::SpecificEnergy::NanojoulePerGram>("SpecificEnergy", false);
  StaticAll<PhQ::Unit::SpecificEnergy, PhQ::Unit::SpecificEnergy::FootPoundPerSlug>("SpecificEnergy", false);
  StaticAll<PhQ::Unit::SpecificEnergy, PhQ::Unit::SpecificEnergy::InchPoundPerSlinch>("SpecificEnergy", false);
  StaticAll<PhQ::Unit::SpecificHeatCapacity, PhQ::Unit::SpecificHeatCapacity::JoulePerKilogramPerKelvin>("SpecificHeatCapacity", false);
  StaticAll<PhQ::Unit::SpecificHeatCapacity, PhQ::Unit::SpecificHeatCapacity::NanojoulePerGramPerKelvin>("SpecificHeatCapacity", false);
  StaticAll<PhQ::Unit::SpecificHeatCapacity, PhQ::Unit::SpecificHeatCapacity::FootPoundPerSlugPerRankine>("SpecificHeatCapacity", false);
  StaticAll<PhQ::Unit::SpecificHeatCapacity, PhQ::Unit::SpecificHeatCapacity::InchPoundPerSlinchPerRankine>("SpecificHeatCapacity", false);
  StaticAll<PhQ::Unit::SpecificPower, PhQ::Unit::SpecificPower::WattPerKilogram>("SpecificPower", false);
  StaticAll<PhQ::Unit::SpecificPower, PhQ::Unit::SpecificPower::NanowattPerGram>("SpecificPower", false);
  StaticAll<PhQ::Unit::SpecificPower, PhQ::Unit::SpecificPower::FootPoundPerSlugPerSecond>("SpecificPower", false);
  StaticAll<PhQ::Unit::SpecificPower, PhQ::Unit::SpecificPower::InchPoundPerSlinchPerSecond>("SpecificPower", false);
  StaticAll<PhQ::Unit::Speed, PhQ::Unit::Speed::MetrePerSecond>("Speed", true);
  StaticAll<PhQ::Unit::Speed, PhQ::Unit::Speed::MetrePerMinute>("Speed", true);
  StaticAll<PhQ::Unit::Speed, PhQ::Unit::Speed::MetrePerHour>("Speed", true);
  StaticAll<PhQ::Unit::Speed, PhQ::Unit::Speed::NauticalMilePerSecond>("Speed", true);
  StaticAll<PhQ::Unit::Speed, PhQ::Unit::Speed::NauticalMilePerMinute>("Speed", true);
  StaticAll<PhQ::Unit::Speed, PhQ::Unit::Speed::Knot>("Speed", true);
  StaticAll<PhQ::Unit::Speed, PhQ::Unit::Speed::MilePerSecond>("Speed", true);
  StaticAll<PhQ::Unit::Speed, PhQ::Unit::Speed::MilePerMinute>("Speed", true);
  StaticAll<PhQ::Unit::Speed, PhQ::Unit::Speed::MilePerHour>("Speed", true);
  StaticAll<PhQ::Unit::Speed, PhQ::Unit::Speed::KilometrePerSecond>("Speed", true);
  StaticAll<PhQ::Unit::Speed, PhQ::Unit::Speed::KilometrePerMinute>("Speed", true);
  StaticAll<PhQ::Unit::Speed, PhQ::Unit::Speed::KilometrePerHour>("Speed", true);
  StaticAll<PhQ::Unit::Speed, PhQ::Unit::Speed::YardPerSecond>("Speed", true);
  StaticAll<PhQ::Unit::Speed, PhQ::Unit::Speed::YardPerMinute>("Speed", true);
  StaticAll<PhQ::Unit::Speed, PhQ::Unit::Speed::YardPerHour>("Speed", true);
  StaticAll<PhQ::Unit::Speed, PhQ::Unit::Speed::FootPerSecond>("Speed", true);
  StaticAll<PhQ::Unit::Speed, PhQ::Unit::Speed::FootPerMinute>("Speed", true);
  StaticAll<PhQ::Unit::Speed, PhQ::Unit::Speed::FootPerHour>("Speed", true);
  StaticAll<PhQ::Unit::Speed, PhQ::Unit::Speed::DecimetrePerSecond>("Speed", true);
  StaticAll<PhQ::Unit::Speed, PhQ::Unit::Speed::DecimetrePerMinute>("Speed", true);
  StaticAll<PhQ::Unit::Speed, PhQ::Unit::Speed::DecimetrePerHour>("Speed", true);
  StaticAll<PhQ::Unit::Speed, PhQ::Unit::Speed::InchPerSecond>("Speed", true);
  StaticAll<PhQ::Unit::Speed, PhQ::Unit::Speed::InchPerMinute>("Speed", true);
  StaticAll<PhQ::Unit::Speed, PhQ::Unit::Speed::InchPerHour>("Speed", true);
  StaticAll<PhQ::Unit::Speed, PhQ::Unit::Speed::CentimetrePerSecond>("Speed", true);
  StaticAll<PhQ::Unit::Speed, PhQ::Unit::Speed::CentimetrePerMinute>("Speed", true);
  StaticAll<PhQ::Unit::Speed, PhQ::Unit::Speed::CentimetrePerHour>("Speed", true);
  StaticAll<PhQ::Unit::Speed, PhQ::Unit::Speed::MillimetrePerSecond>("Speed", true);
  StaticAll<PhQ::Unit::Speed, PhQ::Unit::Speed::MillimetrePerMinute>("Speed", true);
  StaticAll<PhQ::Unit::Speed, PhQ::Unit::Speed::MillimetrePerHour>("Speed", true);
  StaticAll<PhQ::Unit::Speed, PhQ::Unit::Speed::MilliinchPerSecond>("Speed", true);
  StaticAll<PhQ::Unit::Speed, PhQ::Unit::Speed::MilliinchPerMinute>("Speed", true);
  StaticAll<PhQ::Unit::Speed, PhQ::Unit::Speed::MilliinchPerHour>("Speed", true);
  StaticAll<PhQ::Unit::Speed, PhQ::Unit::Speed::MicrometrePerSecond>("Speed", true);
  StaticAll<PhQ::Unit::Speed, PhQ::Unit::Speed::MicrometrePerMinute>("Speed", true);
  StaticAll<PhQ::Unit::Speed, PhQ::Unit::Speed::MicrometrePerHour>("Speed", true);
  StaticAll<PhQ::Unit::Speed, PhQ::Unit::Speed::MicroinchPerSecond>("Speed", true);
  StaticAll<PhQ::Unit::Speed, PhQ::Unit::Speed::MicroinchPerMinute>("Speed", true);
  StaticAll<PhQ::Unit::Speed, PhQ::Unit::Speed::MicroinchPerHour>("Speed", true);
  StaticAll<PhQ::Unit::SubstanceAmount, PhQ::Unit::SubstanceAmount::Mole>("SubstanceAmount", false);
  StaticAll<PhQ::Unit::SubstanceAmount, PhQ::Unit::SubstanceAmount::Kilomole>("SubstanceAmount", false);
  StaticAll<PhQ::Unit::SubstanceAmount, PhQ::Unit::SubstanceAmount::Megamole>("SubstanceAmount", false);
  StaticAll<PhQ::Unit::SubstanceAmount, PhQ::Unit::SubstanceAmount::Gigamole>("SubstanceAmount", false);
  StaticAll<PhQ::Unit::SubstanceAmount, PhQ::Unit::SubstanceAmount::Particles>("SubstanceAmount", false);
  StaticAll<PhQ::Unit::Temperature, PhQ::Unit::Temperature::Kelvin>("Temperature", true);
  StaticAll<PhQ::Unit::Temperature, PhQ::Unit::Temperature::Celsius>("Temperature", true);
  StaticAll<PhQ::Unit::Temperature, PhQ::Unit::Temperature::Rankine>("Temperature", true);
  StaticAll<PhQ::Unit::Temperature, PhQ::Unit::Temperature::Fahrenheit>("Temperature", true);
  StaticAll<PhQ::Unit::TemperatureDifference, PhQ::Unit::TemperatureDifference::Kelvin>("TemperatureDifference", true);
  StaticAll<PhQ::Unit::TemperatureDifference, PhQ::Unit::TemperatureDifference::Celsius>("TemperatureDifference", true);
  StaticAll<PhQ::Unit::TemperatureDifference, PhQ::Unit::TemperatureDifference::Rankine>("TemperatureDifference", true);
  StaticAll<PhQ::Unit::TemperatureDifference, PhQ::Unit::TemperatureDifference::Fahrenheit>("TemperatureDifference", true);
  StaticAll<PhQ::Unit::TemperatureGradient, PhQ::Unit::TemperatureGradient::KelvinPerMetre>("TemperatureGradient", false);
  StaticAll<PhQ::Unit::TemperatureGradient, PhQ::Unit::TemperatureGradient::CelsiusPerMetre>("TemperatureGradient", false);
  StaticAll<PhQ::Unit::TemperatureGradient, PhQ::Unit::TemperatureGradient::KelvinPerMillimetre>("TemperatureGradient", false);
  StaticAll<PhQ::Unit::TemperatureGradient, PhQ::Unit::TemperatureGradient::CelsiusPerMillimetre>("TemperatureGradient", false);
  StaticAll<PhQ::Unit::TemperatureGradient, PhQ::Unit::TemperatureGradient::RankinePerFoot>("TemperatureGradient", false);
  StaticAll<PhQ::Unit::TemperatureGradient, PhQ::Unit::TemperatureGradient::FahrenheitPerFoot>("TemperatureGradient", false);
  StaticAll<PhQ::Unit::TemperatureGradient, PhQ::Unit::TemperatureGradient::RankinePerInch>("TemperatureGradient", false);
  StaticAll<PhQ::Unit::TemperatureGradient, PhQ::Unit::TemperatureGradient::FahrenheitPerInch>("TemperatureGradient", false);
  StaticAll<PhQ::Unit::ThermalConductivity, PhQ::Unit::ThermalConductivity::WattPerMetrePerKelvin>("ThermalConductivity", false);
  StaticAll<PhQ::Unit::ThermalConductivity, PhQ::Unit::ThermalConductivity::NanowattPerMillimetrePerKelvin>("ThermalConductivity", false);
  StaticAll<PhQ::Unit::ThermalConductivity, PhQ::Unit::ThermalConductivity::PoundPerSecondPerRankine>("ThermalConductivity", false);
  StaticAll<PhQ::Unit::Time, PhQ::Unit::Time::Second>("Time", false);
  StaticAll<PhQ::Unit::Time, PhQ::Unit::Time::Nanosecond>("Time", false);
  StaticAll<PhQ::Unit::Time, PhQ::Unit::Time::Microsecond>("Time", false);
  StaticAll<PhQ::Unit::Time, PhQ::Unit::Time::Millisecond>("Time", false);
  StaticAll<PhQ::Unit::Time, PhQ::Unit::Time::Minute>("Time", false);
  StaticAll<PhQ::Unit::Time, PhQ::Unit::Time::Hour>("Time", false);
  StaticAll<PhQ::Unit::TransportEnergyConsumption, PhQ::Unit::TransportEnergyConsumption::JoulePerMetre>("TransportEnergyConsumption", false);
  StaticAll<PhQ::Unit::TransportEnergyConsumption, PhQ::Unit::TransportEnergyConsumption::JoulePerMile>("TransportEnergyConsumption", false);
  StaticAll<PhQ::Unit::TransportEnergyConsumption, PhQ::Unit::TransportEnergyConsumption::JoulePerKilometre>("TransportEnergyConsumption", false);
  StaticAll<PhQ::Unit::TransportEnergyConsumption, PhQ::Unit::TransportEnergyConsumption::NanojoulePerMillimetre>("TransportEnergyConsumption", false);
  StaticAll<PhQ::Unit::TransportEnergyConsumption, PhQ::Unit::TransportEnergyConsumption::KilojoulePerMile>("TransportEnergyConsumption", false);
  StaticAll<PhQ::Unit::TransportEnergyConsumption, PhQ::Unit::TransportEnergyConsumption::WattMinutePerMile>("TransportEnergyConsumption", false);
  StaticAll<PhQ::Unit::TransportEnergyConsumption, PhQ::Unit::TransportEnergyConsumption::WattHourPerMile>("TransportEnergyConsumption", false);
  StaticAll<PhQ::Unit::TransportEnergyConsumption, PhQ::Unit::TransportEnergyConsumption::WattMinutePerKilometre>("TransportEnergyConsumption", false);
  StaticAll<PhQ::Unit::TransportEnergyConsumption, PhQ::Unit::TransportEnergyConsumption::WattHourPerKilometre>("TransportEnergyConsumption", false);
  StaticAll<PhQ::Unit::TransportEnergyConsumption, PhQ::Unit::TransportEnergyConsumption::WattMinutePerMetre>("TransportEnergyConsumption", false);
  StaticAll<PhQ::Unit::TransportEnergyConsumption, PhQ::Unit::TransportEnergyConsumption::WattHourPerMetre>("TransportEnergyConsumption", false);
  StaticAll<PhQ::Unit::TransportEnergyConsumption, PhQ::Unit::TransportEnergyConsumption::KilowattMinutePerMile>("TransportEnergyConsumption", false);
  StaticAll<PhQ::Unit::TransportEnergyConsumption, PhQ::Unit::TransportEnergyConsumption::KilowattHourPerMile>("TransportEnergyConsumption", false);
  StaticAll<PhQ::Unit::TransportEnergyConsumption, PhQ::Unit::TransportEnergyConsumption::KilowattMinutePerKilometre>("TransportEnergyConsumption", false);
  StaticAll<PhQ::Unit::TransportEnergyConsumption, PhQ::Unit::TransportEnergyConsumption::KilowattHourPerKilometre>("TransportEnergyConsumption", false);
  StaticAll<PhQ::Unit::TransportEnergyConsumption, PhQ::Unit::TransportEnergyConsumption::KilowattMinutePerMetre>("TransportEnergyConsumption", false);
  StaticAll<PhQ::Unit::TransportEnergyConsumption, PhQ::Unit::TransportEnergyConsumption::KilowattHourPerMetre>("TransportEnergyConsumption", false);
  StaticAll<PhQ::Unit::TransportEnergyConsumption, PhQ::Unit::TransportEnergyConsumption::FootPoundPerFoot>("TransportEnergyConsumption", false);
  StaticAll<PhQ::Unit::TransportEnergyConsumption, PhQ::Unit::TransportEnergyConsumption::InchPoundPerInch>("TransportEnergyConsumption", false);
  StaticAll<PhQ::Unit::Volume, PhQ::Unit::Volume::CubicMetre>("Volume", false);
  StaticAll<PhQ::Unit::Volume, PhQ::Unit::Volume::CubicNauticalMile>("Volume", false);
  StaticAll<PhQ::Unit::Volume, PhQ::Unit::Volume::CubicMile>("Volume", false);
  StaticAll<PhQ::Unit::Volume, PhQ::Unit::Volume::CubicKilometre>("Volume", false);
  StaticAll<PhQ::Unit::Volume, PhQ::Unit::Volume::CubicYard>("Volume", false);
  StaticAll<PhQ::Unit::Volume, PhQ::Unit::Volume::CubicFoot>("Volume", false);
  StaticAll<PhQ::Unit::Volume, PhQ::Unit::Volume::CubicDecimetre>("Volume", false);
  StaticAll<PhQ::Unit::Volume, PhQ::Unit::Volume::Litre>("Volume", false);
  StaticAll<PhQ::Unit::Volume, PhQ::Unit::Volume::CubicInch>("Volume", false);
  StaticAll<PhQ::Unit::Volume, PhQ::Unit::Volume::CubicCentimetre>("Volume", false);
  StaticAll<PhQ::Unit::Volume, PhQ::Unit::Volume::Millilitre>("Volume", false);
  StaticAll<PhQ::Unit::Volume, PhQ::Unit::Volume::CubicMillimetre>("Volume", false);
  StaticAll<PhQ::Unit::Volume, PhQ::Unit::Volume::CubicMilliinch>("Volume", false);
  StaticAll<PhQ::Unit::Volume, PhQ::Unit::Volume::CubicMicrometre>("Volume", false);
  StaticAll<PhQ::Unit::Volume, PhQ::Unit::Volume::CubicMicroinch>("Volume", false);
  StaticAll<PhQ::Unit::VolumeRate, PhQ::Unit::VolumeRate::CubicMetrePerSecond>("VolumeRate", false);
  StaticAll<PhQ::Unit::VolumeRate, PhQ::Unit::VolumeRate::CubicMetrePerMinute>("VolumeRate", false);
  StaticAll<PhQ::Unit::VolumeRate, PhQ::Unit::VolumeRate::CubicMetrePerHour>("VolumeRate", false);
  StaticAll<PhQ::Unit::VolumeRate, PhQ::Unit::VolumeRate::CubicNauticalMilePerSecond>("VolumeRate", false);
  StaticAll<PhQ::Unit::VolumeRate, PhQ::Unit::VolumeRate::CubicNauticalMilePerMinute>("VolumeRate", false);
  StaticAll<PhQ::Unit::VolumeRate, PhQ::Unit::VolumeRate::CubicNauticalMilePerHour>("VolumeRate", false);
  StaticAll<PhQ::Unit::VolumeRate, PhQ::Unit::VolumeRate::CubicMilePerSecond>("VolumeRate", false);
  StaticAll<PhQ::Unit::VolumeRate, PhQ::Unit::VolumeRate::CubicMilePerMinute>("VolumeRate", false);
  StaticAll<PhQ::Unit::VolumeRate, PhQ::Unit::VolumeRate::CubicMilePerHour>("VolumeRate", false);
  StaticAll<PhQ::Unit::VolumeRate, PhQ::Unit::VolumeRate::CubicKilometrePerSecond>("VolumeRate", false);
  StaticAll<PhQ::Unit::VolumeRate, PhQ::Unit::VolumeRate::CubicKilometrePerMinute>("VolumeRate", false);
  StaticAll<PhQ::Unit::VolumeRate, PhQ::Unit::VolumeRate::CubicKilometrePerHour>("VolumeRate", false);
  StaticAll<PhQ::Unit::VolumeRate, PhQ::Unit::VolumeRate::CubicYardPerSecond>("VolumeRate", false);
  StaticAll<PhQ::Unit::VolumeRate, PhQ::Unit::VolumeRate::CubicYardPerMinute>("VolumeRate", false);
  StaticAll<PhQ::Unit::VolumeRate, PhQ::Unit::VolumeRate::CubicYardPerHour>("VolumeRate", false);
  StaticAll<PhQ::Unit::VolumeRate, PhQ::Unit::VolumeRate::CubicFootPerSecond>("VolumeRate", false);
  StaticAll<PhQ::Unit::VolumeRate, PhQ::Unit::VolumeRate::CubicFootPerMinute>("VolumeRate", false);
  StaticAll<PhQ::Unit::VolumeRate, PhQ::Unit::VolumeRate::CubicFootPerHour>("VolumeRate", false);
  StaticAll<PhQ::Unit::VolumeRate, PhQ::Unit::VolumeRate::CubicDecimetrePerSecond>("VolumeRate", false);
  StaticAll<PhQ::Unit::VolumeRate, PhQ::Unit::VolumeRate::CubicDecimetrePerMinute>("VolumeRate", false);
  StaticAll<PhQ::Unit::VolumeRate, PhQ::Unit::VolumeRate::CubicDecimetrePerHour>("VolumeRate", false);
  StaticAll<PhQ::Unit::VolumeRate, PhQ::Unit::VolumeRate::LitrePerSecond>("VolumeRate", false);
  StaticAll<PhQ::Unit::VolumeRate, PhQ::Unit::VolumeRate::LitrePerMinute>("VolumeRate", false);
  StaticAll<PhQ::Unit::VolumeRate, PhQ::Unit::VolumeRate::LitrePerHour>("VolumeRate", false);
  StaticAll<PhQ::Unit::VolumeRate, PhQ::Unit::VolumeRate::CubicInchPerSecond>("VolumeRate", false);
  StaticAll<PhQ::Unit::VolumeRate, PhQ::Unit::VolumeRate::CubicInchPerMinute>("VolumeRate", false);
  StaticAll<PhQ::Unit::VolumeRate, PhQ::Unit::VolumeRate::CubicInchPerHour>("VolumeRate", false);
  StaticAll<PhQ::Unit::VolumeRate, PhQ::Unit::VolumeRate::CubicCentimetrePerSecond>("VolumeRate", false);
  StaticAll<PhQ::Unit::VolumeRate, PhQ::Unit::VolumeRate::CubicCentimetrePerMinute>("VolumeRate", false);
  StaticAll<PhQ::Unit::VolumeRate, PhQ::Unit::VolumeRate::CubicCentimetrePerHour>("VolumeRate", false);
  StaticAll<PhQ::Unit::VolumeRate, PhQ::Unit::VolumeRate::MillilitrePerSecond>("VolumeRate", false);
  StaticAll<PhQ::Unit::VolumeRate, PhQ::Unit::VolumeRate::MillilitrePerMinute>("VolumeRate", false);
  StaticAll<PhQ::Unit::VolumeRate, PhQ::Unit::VolumeRate::MillilitrePerHour>("VolumeRate", false);
  StaticAll<PhQ::Unit::VolumeRate, PhQ::Unit::VolumeRate::CubicMillimetrePerSecond>("VolumeRate", false);
  StaticAll<PhQ::Unit::VolumeRate, PhQ::Unit::VolumeRate::CubicMillimetrePerMinute>("VolumeRate", false);
  StaticAll<PhQ::Unit::VolumeRate, PhQ::Unit::VolumeRate::CubicMillimetrePerHour>("VolumeRate", false);
  StaticAll<PhQ::Unit::VolumeRate, PhQ::Unit::VolumeRate::CubicMilliinchPerSecond>("VolumeRate", false);
  StaticAll<PhQ::Unit::VolumeRate, PhQ::Unit::VolumeRate::CubicMilliinchPerMinute>("VolumeRate", false);
  StaticAll<PhQ::Unit::VolumeRate, PhQ::Unit::VolumeRate::CubicMilliinchPerHour>("VolumeRate", false);
  StaticAll<PhQ::Unit::VolumeRate, PhQ::Unit::VolumeRate::CubicMicrometrePerSecond>("VolumeRate", false);
  StaticAll<PhQ::Unit::VolumeRate, PhQ::Unit::VolumeRate::CubicMicrometrePerMinute>("VolumeRate", false);
  StaticAll<PhQ::Unit::VolumeRate, PhQ::Unit::VolumeRate::CubicMicrometrePerHour>("VolumeRate", false);
  StaticAll<PhQ::Unit::VolumeRate, PhQ::Unit::VolumeRate::CubicMicroinchPerSecond>("VolumeRate", false);
  StaticAll<PhQ::Unit::VolumeRate, PhQ::Unit::VolumeRate::CubicMicroinchPerMinute>("VolumeRate", false);
  StaticAll<PhQ::Unit::VolumeRate, PhQ::Unit::VolumeRate::CubicMicroinchPerHour>("VolumeRate", false);
  return 0;
}
