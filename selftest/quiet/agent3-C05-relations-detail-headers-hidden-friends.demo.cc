// Differential program for the C05s refactor: Time <-> Frequency and
// Speed <-> DynamicKinematicPressure <-> DynamicPressure relations, plus number * quantity.
#include <PhQ/DynamicKinematicPressure.hpp>
#include <PhQ/DynamicPressure.hpp>
#include <PhQ/Frequency.hpp>
#include <PhQ/MassDensity.hpp>
#include <PhQ/Speed.hpp>
#include <PhQ/Time.hpp>

#include <cstdint>
#include <cstdio>
#include <functional>
#include <limits>
#include <random>
#include <sstream>
#include <string>
#include <vector>

namespace {

std::uint64_t digest = 1469598103934665603ULL;
unsigned long long count = 0;

void Mix(const std::string& text) {
  for (const char c : text) {
    digest ^= static_cast<unsigned char>(c);
    digest *= 1099511628211ULL;
  }
}

template <typename T>
std::string Hex(const T value) {
  char buffer[128];
  std::snprintf(buffer, sizeof(buffer), "%La", static_cast<long double>(value));
  return buffer;
}

bool verbose = true;

void Emit(const std::string& line) {
  Mix(line);
  Mix("\n");
  ++count;
  if (verbose) {
    std::puts(line.c_str());
  }
}

template <typename T>
const char* Name();
template <>
const char* Name<float>() {
  return "float";
}
template <>
const char* Name<double>() {
  return "double";
}
template <>
const char* Name<long double>() {
  return "long double";
}

template <typename Q>
std::string Show(const Q& quantity) {
  std::ostringstream stream;
  stream << quantity;
  return Hex(quantity.Value()) + " [" + quantity.Print() + "|" + stream.str() + "|"
         + std::to_string(std::hash<Q>()(quantity)) + "]";
}

template <typename T>
void TimeFrequency(const T a, const T b) {
  const std::string tag = std::string(Name<T>()) + " TF a=" + Hex(a) + " b=" + Hex(b) + " : ";
  const PhQ::Unit::Time time_units[] = {
      PhQ::Unit::Time::Nanosecond, PhQ::Unit::Time::Microsecond, PhQ::Unit::Time::Millisecond,
      PhQ::Unit::Time::Second,     PhQ::Unit::Time::Minute,      PhQ::Unit::Time::Hour};
  const PhQ::Unit::Frequency frequency_units[] = {
      PhQ::Unit::Frequency::Hertz,     PhQ::Unit::Frequency::Kilohertz,
      PhQ::Unit::Frequency::Megahertz, PhQ::Unit::Frequency::Gigahertz,
      PhQ::Unit::Frequency::PerMinute, PhQ::Unit::Frequency::PerHour};
  for (const PhQ::Unit::Time unit : time_units) {
    const PhQ::Time<T> time(a, unit);
    const PhQ::Frequency<T> frequency(time);
    const PhQ::Time<T> back(frequency);
    const PhQ::Frequency<T> again{back};
    Emit(tag + "t " + Show(time) + " f " + Show(frequency) + " back " + Show(back) + " again "
         + Show(again));
    Emit(tag + "t.Frequency " + Show(time.Frequency()) + " f.Period " + Show(frequency.Period())
         + " t.Frequency.Period " + Show(time.Frequency().Period()));
    Emit(tag + "t*f " + Hex(time * frequency) + " f*t " + Hex(frequency * time) + " back*f "
         + Hex(back * frequency) + " f*back " + Hex(frequency * back));
    Emit(tag + "b*t " + Show(b * time) + " t*b " + Show(time * b) + " b*f " + Show(b * frequency)
         + " f*b " + Show(frequency * b) + " (b*t).Frequency " + Show((b * time).Frequency())
         + " (b*f).Period " + Show((b * frequency).Period()));
    Emit(tag + "cmp " + std::to_string(time == back) + std::to_string(time != back)
         + std::to_string(time < back) + std::to_string(time > back) + std::to_string(time <= back)
         + std::to_string(time >= back) + std::to_string(frequency == again)
         + std::to_string(frequency < again) + std::to_string(frequency > again));
  }
  for (const PhQ::Unit::Frequency unit : frequency_units) {
    const PhQ::Frequency<T> frequency(a, unit);
    const PhQ::Time<T> time(frequency);
    const PhQ::Frequency<T> back(time);
    Emit(tag + "f " + Show(frequency) + " t " + Show(time) + " back " + Show(back) + " period "
         + Show(frequency.Period()) + " period.freq " + Show(frequency.Period().Frequency()));
    Emit(tag + "f*t " + Hex(frequency * time) + " t*f " + Hex(time * frequency) + " t*back "
         + Hex(time * back));
    Emit(tag + "b*f " + Show(b * frequency) + " b*t " + Show(b * time));
  }
  // Static creation.
  {
    constexpr PhQ::Time<T> unit_time = PhQ::Time<T>::template Create<PhQ::Unit::Time::Minute>(2);
    constexpr PhQ::Frequency<T> unit_frequency =
        PhQ::Frequency<T>::template Create<PhQ::Unit::Frequency::Kilohertz>(4);
    Emit(tag + "static " + Show(PhQ::Frequency<T>(unit_time)) + " " + Show(unit_frequency.Period())
         + " " + Show(b * unit_time) + " " + Show(b * unit_frequency));
  }
}

template <typename T>
void Pressure(const T a, const T b, const T c) {
  const std::string tag =
      std::string(Name<T>()) + " P a=" + Hex(a) + " b=" + Hex(b) + " c=" + Hex(c) + " : ";
  const PhQ::Unit::Speed speed_units[] = {
      PhQ::Unit::Speed::MetrePerSecond, PhQ::Unit::Speed::MillimetrePerSecond,
      PhQ::Unit::Speed::FootPerSecond, PhQ::Unit::Speed::KilometrePerHour,
      PhQ::Unit::Speed::Knot};
  const PhQ::Unit::SpecificEnergy specific_energy_units[] = {
      PhQ::Unit::SpecificEnergy::JoulePerKilogram, PhQ::Unit::SpecificEnergy::NanojoulePerGram,
      PhQ::Unit::SpecificEnergy::FootPoundPerSlug};
  const PhQ::Unit::MassDensity mass_density_units[] = {
      PhQ::Unit::MassDensity::KilogramPerCubicMetre, PhQ::Unit::MassDensity::GramPerCubicMillimetre,
      PhQ::Unit::MassDensity::SlugPerCubicFoot};
  const PhQ::Unit::Pressure pressure_units[] = {
      PhQ::Unit::Pressure::Pascal, PhQ::Unit::Pressure::Kilopascal,
      PhQ::Unit::Pressure::PoundPerSquareFoot, PhQ::Unit::Pressure::Bar};

  for (const PhQ::Unit::Speed unit : speed_units) {
    const PhQ::Speed<T> speed(a, unit);
    const PhQ::DynamicKinematicPressure<T> pressure(speed);
    const PhQ::Speed<T> back(pressure);
    const PhQ::DynamicKinematicPressure<T> again{back};
    Emit(tag + "v " + Show(speed) + " q " + Show(pressure) + " back " + Show(back) + " again "
         + Show(again));
    Emit(tag + "c*q " + Show(c * pressure) + " q*c " + Show(pressure * c) + " v(c*q) "
         + Show(PhQ::Speed<T>(c * pressure)));
    for (const PhQ::Unit::MassDensity density_unit : mass_density_units) {
      const PhQ::MassDensity<T> density(b, density_unit);
      const PhQ::DynamicPressure<T> dynamic_pressure(density, pressure);
      const PhQ::DynamicKinematicPressure<T> kinematic(dynamic_pressure, density);
      const PhQ::DynamicKinematicPressure<T> quotient = dynamic_pressure / density;
      const PhQ::DynamicPressure<T> direct(density, speed);
      Emit(tag + "rho " + Show(density) + " p " + Show(dynamic_pressure) + " p/rho "
           + Show(kinematic) + " quotient " + Show(quotient) + " direct " + Show(direct)
           + " direct/rho " + Show(direct / density) + " v(direct/rho) "
           + Show(PhQ::Speed<T>(direct / density)) + " v(direct,rho) "
           + Show(PhQ::Speed<T>(direct, density)) + " p(rho,p/rho) "
           + Show(PhQ::DynamicPressure<T>(density, quotient)));
    }
  }
  for (const PhQ::Unit::SpecificEnergy unit : specific_energy_units) {
    const PhQ::DynamicKinematicPressure<T> pressure(a, unit);
    const PhQ::Speed<T> speed(pressure);
    const PhQ::DynamicKinematicPressure<T> back(speed);
    Emit(tag + "q " + Show(pressure) + " v " + Show(speed) + " back " + Show(back) + " c*q "
         + Show(c * pressure) + " cmp " + std::to_string(pressure == back)
         + std::to_string(pressure < back) + std::to_string(pressure > back));
    Emit(tag + "sum " + Show(pressure + back) + " diff " + Show(pressure - back) + " div "
         + Show(pressure / c) + " ratio " + Hex(pressure / back));
  }
  for (const PhQ::Unit::Pressure unit : pressure_units) {
    const PhQ::DynamicPressure<T> dynamic_pressure(a, unit);
    for (const PhQ::Unit::MassDensity density_unit : mass_density_units) {
      const PhQ::MassDensity<T> density(b, density_unit);
      const PhQ::DynamicKinematicPressure<T> kinematic(dynamic_pressure, density);
      const PhQ::DynamicPressure<T> back(density, kinematic);
      Emit(tag + "p " + Show(dynamic_pressure) + " rho " + Show(density) + " q " + Show(kinematic)
           + " q' " + Show(dynamic_pressure / density) + " back " + Show(back) + " v "
           + Show(PhQ::Speed<T>(kinematic)) + " c*p " + Show(c * dynamic_pressure));
    }
  }
  {
    constexpr PhQ::DynamicKinematicPressure<T> created =
        PhQ::DynamicKinematicPressure<T>::template Create<PhQ::Unit::SpecificEnergy::JoulePerKilogram>(
            8);
    Emit(tag + "static " + Show(created) + " " + Show(c * created) + " "
         + Show(PhQ::Speed<T>(created)));
  }
}

template <typename T>
void Run() {
  const T lowest = std::numeric_limits<T>::denorm_min();
  const T tiny = std::numeric_limits<T>::min();
  const T huge = std::numeric_limits<T>::max();
  const T epsilon = std::numeric_limits<T>::epsilon();
  const std::vector<T> edges = {static_cast<T>(0),
                                -static_cast<T>(0),
                                static_cast<T>(1),
                                static_cast<T>(-1),
                                static_cast<T>(2),
                                static_cast<T>(0.5),
                                static_cast<T>(3),
                                static_cast<T>(0.1L),
                                static_cast<T>(1) + epsilon,
                                static_cast<T>(1) - epsilon / 2,
                                lowest,
                                tiny,
                                tiny * 4,
                                huge,
                                huge / 4,
                                -huge,
                                std::sqrt(huge),
                                std::sqrt(tiny),
                                static_cast<T>(1.0e-20L),
                                static_cast<T>(1.0e20L),
                                static_cast<T>(-7.25L),
                                std::numeric_limits<T>::infinity(),
                                -std::numeric_limits<T>::infinity(),
                                std::numeric_limits<T>::quiet_NaN()};
  verbose = true;
  for (const T a : edges) {
    for (const T b : {static_cast<T>(1), static_cast<T>(-0.75L), static_cast<T>(3.3L)}) {
      TimeFrequency<T>(a, b);
      Pressure<T>(a, static_cast<T>(1.25L), b);
      Pressure<T>(a, a, b);
    }
  }
  std::mt19937_64 generator(20240605);
  const int max_exponent = std::numeric_limits<T>::max_exponent10;
  std::uniform_real_distribution<long double> exponent(-0.45L * max_exponent, 0.45L * max_exponent);
  std::uniform_real_distribution<long double> mantissa(1.0L, 10.0L);
  std::uniform_real_distribution<long double> small_exponent(-6.0L, 6.0L);
  for (int i = 0; i < 400; ++i) {
    verbose = i < 40;
    const T a = static_cast<T>(mantissa(generator) * std::pow(10.0L, exponent(generator)));
    const T b = static_cast<T>(mantissa(generator) * std::pow(10.0L, small_exponent(generator)));
    const T c = static_cast<T>(mantissa(generator) * std::pow(10.0L, small_exponent(generator)));
    TimeFrequency<T>(a, c);
    Pressure<T>(a, b, c);
    const T d = static_cast<T>(mantissa(generator) * std::pow(10.0L, small_exponent(generator)));
    TimeFrequency<T>(d, b);
    Pressure<T>(d, b, c);
  }
  verbose = true;
  std::printf("%s: lines=%llu digest=%016llx\n", Name<T>(), count,
              static_cast<unsigned long long>(digest));
}

}  // namespace

int main() {
  Run<float>();
  Run<double>();
  Run<long double>();
  return 0;
}
