"""C17 — quantities are bare numbers in memory."""
import os
import re
import subprocess
import tempfile

from .. import facts, ev, quant, frontend
from ..facts import short, strip_cvref
from ..frontend import NUMERIC

SIZEOF = {"float": 4, "double": 8, "long double": 16}


def slots_of_type(F, t):
    """Number of NumericType slots of a value type made of floats / std::array / PhQ tensors."""
    t = strip_cvref(t)
    if t in SIZEOF:
        return 1
    m = re.match(r"std::array<(.+), (\d+)>$", t)
    if m:
        inner = slots_of_type(F, m.group(1))
        return None if inner is None else inner * int(m.group(2))
    if t in F.records:
        n = 0
        for _, ft, _ in quant.all_fields(F, t):
            k = slots_of_type(F, ft)
            if k is None:
                return None
            n += k
        return n
    return None


def run(chk):
    chk.level = "proof"
    chk.technique = ("record-layout facts from clang's ASTRecordLayout for every instantiated quantity/tensor class x 3 numeric types; "
                     "term evaluation of Zero/Value/SetValue/MutableValue; thorough tier adds a generated static_assert batch compiled "
                     "-fsyntax-only with g++ (the repo's ABI) and clang")
    chk.rule("R1", "sizeof(Q<T>) = n*sizeof(T) with n in {1,2,3,6,9} fixed by the shape; exactly one data member along the chain; "
                   "no virtual functions or bases; trivially copyable; standard layout")
    chk.rule("R3", "Zero() has +0 in every slot; Value() returns the stored member; SetValue(v) stores v; MutableValue() is an lvalue of the stored member")
    chk.rule("R2", "(thorough) the same facts hold as static_asserts under g++ and clang")
    n_classes = 0
    witness = []
    for T in NUMERIC:
        F = facts.load(T, chk.tier)
        inv = quant.inventory(F)
        for name, q in sorted(inv.items()):
            r = q.rec
            inst = name
            loc = short(r["loc"])
            if T == "double":
                n_classes += 1
            fields = quant.all_fields(F, name)
            want_n = quant.SHAPE_N[q.shape]
            probs = []
            if len(fields) != 1:
                probs.append("%d data members along the inheritance chain (%s)" % (len(fields), [(n, d) for n, _, d in fields]))
            n_slots = slots_of_type(F, name)
            if n_slots != want_n:
                probs.append("%s slots of %s, expected %d for a %s" % (n_slots, T, want_n, q.shape))
            if r.get("size") != want_n * SIZEOF[T]:
                probs.append("sizeof = %s, expected %d" % (r.get("size"), want_n * SIZEOF[T]))
            if r.get("polymorphic"):
                probs.append("has virtual functions or virtual bases")
            chain = [r]
            while chain[-1]["bases"]:
                b = F.records.get(F.T(chain[-1]["bases"][0]["t"]))
                if b is None:
                    break
                chain.append(b)
            if any(b.get("virtual") for rr in chain for b in rr["bases"]):
                probs.append("virtual base")
            mutable_fields = [f["n"] for rr in chain for f in rr["fields"] if f.get("mutable")]
            if mutable_fields:
                probs.append("mutable member(s) %s: hidden state that const accessors may change" % mutable_fields)
            if not r.get("trivially_copyable"):
                probs.append("not trivially copyable")
            if not r.get("standard_layout"):
                probs.append("not standard-layout")
            if probs:
                chk.violated("R1", inst, "; ".join(probs), loc)
            else:
                chk.holds("R1", inst, "%d x %s, one member %s::%s" % (want_n, T, fields[0][2].replace("PhQ::", ""), fields[0][0]), loc)
            witness.append((name, want_n, T))
            if q.kind == "base":
                continue
            # R3 accessors
            check_zero(chk, F, q, want_n)
            if q.kind == "quantity":
                check_accessors(chk, F, q)
    chk.floor("quantity/tensor/base classes", n_classes, 100)
    chk.coverage["classes_per_numeric_type"] = n_classes
    if chk.tier == "thorough":
        compile_witnesses(chk, witness)


def check_zero(chk, F, q, want_n):
    zs = [f for f in F.methods(q.name, "Zero") if f.get("static")]
    if not zs:
        chk.violated("R3", q.name + "::Zero", "no static Zero() member", short(q.rec["loc"]))
        return
    f = zs[0]
    try:
        E = ev.Evaluator(F)
        r, _, _ = E.run_symbolic(f)
        flat = ev.flatten(r)
        bad = [(p, ev.show(v)) for p, v in flat if v != ev.ZERO]
        if len(flat) != want_n:
            chk.violated("R3", q.name + "::Zero", "Zero() has %d slots, expected %d" % (len(flat), want_n), short(f["loc"]))
        elif bad:
            chk.violated("R3", q.name + "::Zero", "slots not equal to +0: %s" % bad[:4], short(f["loc"]))
        else:
            chk.holds("R3", q.name + "::Zero", "%d slots, all +0" % want_n, short(f["loc"]))
    except ev.Inconclusive as x:
        chk.inconclusive("R3", q.name + "::Zero", str(x), short(f["loc"]))


def check_accessors(chk, F, q):
    name = q.name
    field = quant.all_fields(F, name)[0][0] if quant.all_fields(F, name) else None
    # Value()
    vs = quant.find_method(F, name, "Value", lambda f: len(f["params"]) == 0)
    for sname, fl in (("Value", vs),):
        if not fl:
            chk.violated("R3", "%s::%s" % (name, sname), "no %s() accessor" % sname, short(q.rec["loc"]))
            continue
        f = fl[0]
        try:
            E = ev.Evaluator(F)
            this = E.new_loc(E.symbolic(name, "self"), "this")
            r = E.call(f["id"], this, [])
            r = E.rv(r)
            want = E.load(ev.LV(this.loc, (field,)))
            (chk.holds if r == want else chk.violated)("R3", "%s::Value" % name, "returns %s" % ev.show(r)[:160], short(f["loc"]))
        except ev.Inconclusive as x:
            chk.inconclusive("R3", "%s::Value" % name, str(x), short(f["loc"]))
    ms = quant.find_method(F, name, "MutableValue")
    if ms:
        f = ms[0]
        try:
            E = ev.Evaluator(F)
            this = E.new_loc(E.symbolic(name, "self"), "this")
            r = E.call(f["id"], this, [])
            ok = isinstance(r, ev.LV) and r.loc == this.loc and r.path == (field,)
            (chk.holds if ok else chk.violated)("R3", "%s::MutableValue" % name, "returns %r" % (r,), short(f["loc"]))
        except ev.Inconclusive as x:
            chk.inconclusive("R3", "%s::MutableValue" % name, str(x), short(f["loc"]))
    ss = quant.find_method(F, name, "SetValue")
    if ss:
        f = ss[0]
        try:
            E = ev.Evaluator(F)
            this = E.new_loc(E.symbolic(name, "self"), "this")
            pt = F.T(f["params"][0]["t"])
            v = E.symbolic(pt, "v")
            arg = E.new_loc(v, "arg")
            E.call(f["id"], this, [arg if facts.is_ref(pt) else v])
            got = E.load(ev.LV(this.loc, (field,)))
            (chk.holds if got == v else chk.violated)("R3", "%s::SetValue" % name, "stored member becomes %s" % ev.show(got)[:160], short(f["loc"]))
        except ev.Inconclusive as x:
            chk.inconclusive("R3", "%s::SetValue" % name, str(x), short(f["loc"]))


def compile_witnesses(chk, witness):
    lines = ['#include "umbrella.hpp"', "#include <type_traits>"]
    for name, n, T in witness:
        lines.append("static_assert(sizeof(%s) == %d * sizeof(%s), \"size %s\");" % (name, n, T, name))
        lines.append("static_assert(std::is_trivially_copyable<%s>::value, \"trivially copyable %s\");" % (name, name))
        lines.append("static_assert(std::is_standard_layout<%s>::value, \"standard layout %s\");" % (name, name))
        lines.append("static_assert(!std::is_polymorphic<%s>::value, \"polymorphic %s\");" % (name, name))
    work = frontend.build_facts(chk.tier)
    d = tempfile.mkdtemp(prefix="phq-c17-", dir="/var/tmp")
    try:
        src = os.path.join(d, "w.cc")
        open(src, "w").write("\n".join(lines) + "\n")
        r = subprocess.run(["g++", "-std=c++17", "-fsyntax-only", "-fmax-errors=0", "-w", "-I" + work, "-I" + frontend.INC, src],
                           capture_output=True, text=True)
        errs = re.findall(r"static assertion failed: (.*)", r.stderr)
        other = [l for l in r.stderr.splitlines() if "error" in l and "static assertion" not in l]
        if other:
            chk.inconclusive("R2", "g++ batch", "witness TU does not compile: " + other[0][:300], "")
        for e in errs:
            chk.violated("R2", "g++:" + e, "static_assert fails under g++ 12 (the repository's compiler)", "")
        if not errs and not other:
            chk.holds("R2", "g++ batch", "%d static_asserts hold under g++" % (4 * len(witness)), "")
        chk.coverage["gxx_static_asserts"] = 4 * len(witness)
    finally:
        subprocess.run(["rm", "-rf", d])
