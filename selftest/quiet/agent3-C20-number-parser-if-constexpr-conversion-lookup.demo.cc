// Differential program for the C20s refactor: number parsing, enumeration parsing, abbreviations,
// case helpers, unit-system lookups and unit conversions (dynamic and static) for all unit types,
// all shapes and all three numeric types. Prints explicit results for small cases and FNV-1a
// digests for bulk data.
#include <PhQ/Base.hpp>
#include <PhQ/ConstitutiveModel.hpp>
#include <PhQ/ConstitutiveModel/CompressibleNewtonianFluid.hpp>
#include <PhQ/ConstitutiveModel/ElasticIsotropicSolid.hpp>
#include <PhQ/ConstitutiveModel/IncompressibleNewtonianFluid.hpp>
#include <PhQ/Displacement.hpp>
#include <PhQ/Force.hpp>
#include <PhQ/Length.hpp>
#include <PhQ/Stress.hpp>
#include <PhQ/Temperature.hpp>
#include <PhQ/Time.hpp>
#include <PhQ/Unit.hpp>
#include <PhQ/Unit/Acceleration.hpp>
#include <PhQ/Unit/Angle.hpp>
#include <PhQ/Unit/AngularAcceleration.hpp>
#include <PhQ/Unit/AngularSpeed.hpp>
#include <PhQ/Unit/Area.hpp>
#include <PhQ/Unit/Diffusivity.hpp>
#include <PhQ/Unit/DynamicViscosity.hpp>
#include <PhQ/Unit/ElectricCharge.hpp>
#include <PhQ/Unit/ElectricCurrent.hpp>
#include <PhQ/Unit/Energy.hpp>
#include <PhQ/Unit/EnergyFlux.hpp>
#include <PhQ/Unit/Force.hpp>
#include <PhQ/Unit/Frequency.hpp>
#include <PhQ/Unit/HeatCapacity.hpp>
#include <PhQ/Unit/Length.hpp>
#include <PhQ/Unit/Mass.hpp>
#include <PhQ/Unit/MassDensity.hpp>
#include <PhQ/Unit/MassRate.hpp>
#include <PhQ/Unit/Memory.hpp>
#include <PhQ/Unit/MemoryRate.hpp>
#include <PhQ/Unit/Power.hpp>
#include <PhQ/Unit/Pressure.hpp>
#include <PhQ/Unit/ReciprocalTemperature.hpp>
#include <PhQ/Unit/SolidAngle.hpp>
#include <PhQ/Unit/SpecificEnergy.hpp>
#include <PhQ/Unit/SpecificHeatCapacity.hpp>
#include <PhQ/Unit/SpecificPower.hpp>
#include <PhQ/Unit/Speed.hpp>
#include <PhQ/Unit/SubstanceAmount.hpp>
#include <PhQ/Unit/Temperature.hpp>
#include <PhQ/Unit/TemperatureDifference.hpp>
#include <PhQ/Unit/TemperatureGradient.hpp>
#include <PhQ/Unit/ThermalConductivity.hpp>
#include <PhQ/Unit/Time.hpp>
#include <PhQ/Unit/TransportEnergyConsumption.hpp>
#include <PhQ/Unit/Volume.hpp>
#include <PhQ/Unit/VolumeRate.hpp>
#include <PhQ/UnitSystem.hpp>
#include <PhQ/VelocityGradient.hpp>

#include <array>
#include <cmath>
#include <cstdint>
#include <cstdio>
#include <cstring>
#include <iostream>
#include <limits>
#include <random>
#include <sstream>
#include <string>
#include <utility>
#include <vector>

namespace {

struct Digest {
  std::uint64_t hash{1469598103934665603ULL};
  std::uint64_t count{0};
  void Bytes(const void* data, std::size_t size) {
    const unsigned char* bytes = static_cast<const unsigned char*>(data);
    for (std::size_t i = 0; i < size; ++i) {
      hash ^= bytes[i];
      hash *= 1099511628211ULL;
    }
    ++count;
  }
  void Text(const std::string& text) {
    Bytes(text.data(), text.size());
    const char separator = '\x1f';
    Bytes(&separator, 1);
  }
};

std::string Hex(float value) {
  char buffer[64];
  std::snprintf(buffer, sizeof buffer, "%a", static_cast<double>(value));
  return buffer;
}
std::string Hex(double value) {
  char buffer[64];
  std::snprintf(buffer, sizeof buffer, "%a", value);
  return buffer;
}
std::string Hex(long double value) {
  char buffer[96];
  std::snprintf(buffer, sizeof buffer, "%La", value);
  return buffer;
}

template <typename T>
const char* TypeName();
template <>
const char* TypeName<float>() {
  return "float";
}
template <>
const char* TypeName<double>() {
  return "double";
}
template <>
const char* TypeName<long double>() {
  return "long double";
}

std::string Escape(const std::string& text) {
  std::string out;
  for (const char c : text) {
    const unsigned char u = static_cast<unsigned char>(c);
    if (u >= 0x20 && u < 0x7f && c != '\\') {
      out.push_back(c);
    } else {
      char buffer[8];
      std::snprintf(buffer, sizeof buffer, "\\x%02x", u);
      out += buffer;
    }
  }
  return out;
}

std::mt19937_64 rng(0xC20C20C20ULL);

template <typename T>
T RandomFinite() {
  for (;;) {
    T value;
    if constexpr (std::is_same_v<T, float>) {
      const std::uint32_t bits = static_cast<std::uint32_t>(rng());
      std::memcpy(&value, &bits, sizeof value);
    } else if constexpr (std::is_same_v<T, double>) {
      const std::uint64_t bits = rng();
      std::memcpy(&value, &bits, sizeof value);
    } else {
      const std::uint64_t bits = rng();
      double d;
      std::memcpy(&d, &bits, sizeof d);
      if (!std::isfinite(d)) {
        continue;
      }
      // Add extra low-order bits so that the long double is not just a widened double.
      value = static_cast<long double>(d);
      value += value * (static_cast<long double>(rng() >> 40) * 0x1p-70L);
    }
    if (std::isfinite(value)) {
      return value;
    }
  }
}

template <typename T>
T RandomModerate() {
  // Mantissa in [-1,1) times 2^[-20,20].
  const long double mantissa =
      static_cast<long double>(static_cast<std::int64_t>(rng())) * 0x1p-63L;
  const int exponent = static_cast<int>(rng() % 41) - 20;
  return static_cast<T>(std::ldexp(mantissa, exponent));
}

template <typename T>
std::vector<T> Values() {
  using L = std::numeric_limits<T>;
  std::vector<T> values{T(0),
                        -T(0),
                        T(1),
                        T(-1),
                        T(0.5),
                        T(2),
                        T(10),
                        T(1000),
                        T(273.15L),
                        T(-459.67L),
                        T(32),
                        T(180),
                        T(0.001L),
                        T(1.0e-6L),
                        L::min(),
                        -L::min(),
                        L::denorm_min(),
                        -L::denorm_min(),
                        L::max(),
                        -L::max(),
                        L::lowest(),
                        L::epsilon(),
                        L::max() / T(1024),
                        L::min() * T(1024),
                        T(1) + L::epsilon(),
                        T(1) - L::epsilon() / T(2),
                        T(3.141592653589793238462643383279502884L),
                        T(1.0e30L),
                        T(-1.0e-30L)};
  for (int i = 0; i < 40; ++i) {
    values.push_back(RandomModerate<T>());
  }
  for (int i = 0; i < 40; ++i) {
    values.push_back(RandomFinite<T>());
  }
  return values;
}

// ---------------------------------------------------------------------------------------------
// Number parsing.

std::vector<std::string> NumberStrings() {
  std::vector<std::string> strings{
    "", " ", "0", "-0", "+0", "0.0", "-0.0", "1", "-1", "+1", "1.", ".1", ".", "-.", "+.5", "1e", "1e+",
    "1e5", "1E5", "1e-5", "1e+5", "1e400", "-1e400", "1e-400", "1e39", "3.5e38", "3.4028235e38",
    "3.4028236e38", "1e-46", "1e-45", "1.4e-45", "1.17549435e-38", "1e308", "1.7976931348623157e308",
    "1.7976931348623159e308", "2e308", "4.9e-324", "2e-324", "1e-4951", "1e4932", "1.2e4932", "1e4933",
    "1e-4966", "1e99999", "-1e99999", "1e-99999", "nan", "NaN", "-NaN", "NAN", "nan(1)", "nan(abc)",
    "nan(", "inf", "Inf", "-inf", "+inf", "infinity", "-infinity", "INFINITY", "infinit", "in", "i",
    "Hello world!", "hello", "abc123", "123abc", "  42", "\t42", "\n42", "42  ", "4 2", "0x10", "0X1p4",
    "0x1.8p1", "-0x1.fffffep127", "0x1p-149", "0x1p-150", "0x1p128", "0x1p1024", "0x1p-1075", "0x",
    "0x.", "0xg", "1,5", "1.5.5", "--1", "+-1", "-+1", "1-", "e5", "E", "+", "-", "1e5e5", "1_000",
    "１２３", "π", "3.14159265358979323846264338327950288419716939937510", "0.1", "0.2", "0.3",
    "0.30000000000000004", "1.0000000000000002", "1.00000011920928955078125", "16777217", "9007199254740993",
    "18446744073709551617", "123456789012345678901234567890", "0.000000000000000000000000000000000000001",
    "1e-37", "1e-38", "1e-39", "1e-307", "1e-308", "1e-309", "1e-4930", "1e-4931", "1e-4932", "1e-4940",
    "000000000000000000000000000000001", "-000.000e000", "1e0000000000000000000005", "1e-0000000000000000005",
    std::string("1\0" "2", 3), std::string("\0", 1), std::string("\0" "1", 2), std::string("12\0", 3),
    std::string("1e\0" "5", 4), "\xff", "\xff\xfe", "1\xff", "\x80" "1", "\xc3\xa9", "1\xc2\xa0", "\xc2\xa0" "1",
    "\v1", "\f1", "\r1", " \t\n\v\f\r-2.5e-3xyz", std::string(400, '9'), std::string(5000, '9'),
    "0." + std::string(400, '0') + "1", "0." + std::string(5000, '0') + "1", std::string(100, ' ') + "7",
    std::string(1000, '1') + "e-1000", "1" + std::string(310, '0'), "1" + std::string(38, '0'),
    "1" + std::string(39, '0'), "0." + std::string(44, '0') + "1", "0." + std::string(45, '0') + "1",
  };
  // Random numeric-looking strings.
  const char alphabet[] = "0123456789+-.eExXpPnNaAiIfF \t";
  for (int i = 0; i < 6000; ++i) {
    const std::size_t length = rng() % 12;
    std::string text;
    for (std::size_t j = 0; j < length; ++j) {
      text.push_back(alphabet[rng() % (sizeof alphabet - 1)]);
    }
    strings.push_back(text);
  }
  // Random decimal numbers with exponents around the range limits of the three types.
  for (int i = 0; i < 3000; ++i) {
    std::string text;
    if (rng() % 2 == 0) {
      text.push_back('-');
    }
    const std::size_t digits = 1 + rng() % 25;
    for (std::size_t j = 0; j < digits; ++j) {
      text.push_back(static_cast<char>('0' + rng() % 10));
      if (j == 0 && rng() % 2 == 0) {
        text.push_back('.');
      }
    }
    static const int centres[] = {0, 0, 0, 38, -38, -45, 308, -308, -324, 4932, -4932, -4951};
    const int exponent = centres[rng() % 12] + static_cast<int>(rng() % 9) - 4;
    text += "e" + std::to_string(exponent);
    strings.push_back(text);
  }
  // Arbitrary byte strings, including NUL and non-ASCII bytes.
  for (int i = 0; i < 6000; ++i) {
    const std::size_t length = rng() % 10;
    std::string text;
    for (std::size_t j = 0; j < length; ++j) {
      text.push_back(static_cast<char>(rng() % 256));
    }
    strings.push_back(text);
  }
  return strings;
}

template <typename T>
std::string ParseResult(const std::string& text) {
  const std::optional<T> parsed = PhQ::ParseNumber<T>(text);
  if (!parsed.has_value()) {
    return "nullopt";
  }
  if (std::isnan(parsed.value())) {
    return std::signbit(parsed.value()) ? "-nan" : "nan";
  }
  return Hex(parsed.value());
}

void TestParseNumber() {
  const std::vector<std::string> strings = NumberStrings();
  Digest digest;
  std::size_t index = 0;
  for (const std::string& text : strings) {
    const std::string f = ParseResult<float>(text);
    const std::string d = ParseResult<double>(text);
    const std::string l = ParseResult<long double>(text);
    // The default numeric type is double.
    const std::optional<double> fallback = PhQ::ParseNumber<>(text);
    const std::optional<double> implicit = PhQ::ParseNumber(text);
    std::string extra = fallback.has_value() ? (std::isnan(*fallback) ? "nan" : Hex(*fallback)) : "nullopt";
    extra += implicit.has_value() ? (std::isnan(*implicit) ? "nan" : Hex(*implicit)) : "nullopt";
    digest.Text(text);
    digest.Text(f);
    digest.Text(d);
    digest.Text(l);
    digest.Text(extra);
    if (index < 220 && text.size() < 60) {
      std::printf("ParseNumber \"%s\" -> %s | %s | %s\n", Escape(text).c_str(), f.c_str(), d.c_str(),
                  l.c_str());
    }
    ++index;
  }
  std::printf("ParseNumber digest %016llx over %llu items\n",
              static_cast<unsigned long long>(digest.hash),
              static_cast<unsigned long long>(digest.count));
}

// ---------------------------------------------------------------------------------------------
// Case helpers.

void TestCase() {
  Digest digest;
  std::vector<std::string> strings{"", "Hello World", "SNAKE case Here", "m·kg·s·K", "ft·lbf·s·°R", "μs",
                                   "ÀÉÎõü", "a b  c", " _ ", std::string("A\0B c", 5)};
  {
    std::string all;
    for (int c = 0; c < 128; ++c) {
      all.push_back(static_cast<char>(c));
    }
    strings.push_back(all);
  }
  for (int i = 0; i < 3000; ++i) {
    const std::size_t length = rng() % 24;
    std::string text;
    for (std::size_t j = 0; j < length; ++j) {
      // ASCII bytes only: passing negative char values to std::tolower is not defined.
      text.push_back(static_cast<char>(rng() % 128));
    }
    strings.push_back(text);
  }
  std::size_t index = 0;
  for (const std::string& text : strings) {
    const std::string lower = PhQ::Lowercase(text);
    const std::string upper = PhQ::Uppercase(text);
    const std::string snake = PhQ::SnakeCase(text);
    digest.Text(lower);
    digest.Text(upper);
    digest.Text(snake);
    if (index < 11) {
      std::printf("Case \"%s\" -> \"%s\" | \"%s\" | \"%s\"\n", Escape(text).c_str(),
                  Escape(lower).c_str(), Escape(upper).c_str(), Escape(snake).c_str());
    }
    ++index;
  }
  // Non-ASCII bytes as found in the library's own abbreviations (UTF-8 multi-byte sequences).
  for (const std::string text : {"m·kg·s·K", "°R", "μm", "Å"}) {
    digest.Text(PhQ::Lowercase(text));
    digest.Text(PhQ::Uppercase(text));
    digest.Text(PhQ::SnakeCase(text));
  }
  std::printf("Case digest %016llx over %llu items\n", static_cast<unsigned long long>(digest.hash),
              static_cast<unsigned long long>(digest.count));
}

// ---------------------------------------------------------------------------------------------
// Enumerations: abbreviations, spellings, parsing, streaming, unit systems.

std::vector<std::string> junk_strings;

void MakeJunk() {
  junk_strings = {"", " ", "m", "M", "kg", "KG", "s", "S", "hr", "Hr", "ft", "lbf", "°R", "K", "k",
                  "m·kg·s·K", "m-kg-s-K", "in, lb, s, R", "N", "Pa", "J", "W", "rad", "deg", "°", "B",
                  "bit", "kB", "KiB", std::string("m\0", 2), std::string("\0", 1), "\xff", "m ", " m",
                  "metre", "meter", "Metre", "second", "Seconds", "μs", "us", "°C", "degC", "C", "F", "R",
                  "mol", "A", "C", "Hz", "m/s", "m/s^2", "m^2", "m^3", "kg/m^3", "N/m^2", "psi", "lb", "lbm"};
  for (int i = 0; i < 1500; ++i) {
    const std::size_t length = rng() % 8;
    std::string text;
    for (std::size_t j = 0; j < length; ++j) {
      text.push_back(static_cast<char>(rng() % 256));
    }
    junk_strings.push_back(text);
  }
}

template <typename Enumeration, bool Streamable = true>
void TestEnumeration(const char* name) {
  using PhQ::operator<<;
  Digest digest;
  for (const auto& entry : PhQ::Internal::Abbreviations<Enumeration>) {
    const std::string_view abbreviation = PhQ::Abbreviation(entry.first);
    digest.Text(std::to_string(static_cast<int>(entry.first)));
    digest.Text(std::string(abbreviation));
    if constexpr (Streamable) {
      std::ostringstream stream;
      stream << entry.first;
      digest.Text(stream.str());
    }
    const std::optional<Enumeration> round_trip = PhQ::ParseEnumeration<Enumeration>(abbreviation);
    digest.Text(round_trip.has_value() ? std::to_string(static_cast<int>(*round_trip)) : "nullopt");
  }
  // Spellings in a deterministic order: sort the keys.
  std::vector<std::string> spellings;
  for (const auto& entry : PhQ::Internal::Spellings<Enumeration>) {
    spellings.emplace_back(entry.first);
  }
  std::sort(spellings.begin(), spellings.end());
  for (const std::string& spelling : spellings) {
    const std::optional<Enumeration> parsed = PhQ::ParseEnumeration<Enumeration>(spelling);
    digest.Text(spelling);
    digest.Text(parsed.has_value() ? std::to_string(static_cast<int>(*parsed)) : "nullopt");
    // Near misses.
    for (const std::string& variant :
         {spelling + " ", " " + spelling, PhQ::Uppercase(spelling), PhQ::Lowercase(spelling),
          spelling.substr(0, spelling.size() / 2), spelling + std::string(1, '\0')}) {
      const std::optional<Enumeration> other = PhQ::ParseEnumeration<Enumeration>(variant);
      digest.Text(other.has_value() ? std::to_string(static_cast<int>(*other)) : "nullopt");
    }
  }
  for (const std::string& junk : junk_strings) {
    const std::optional<Enumeration> parsed = PhQ::ParseEnumeration<Enumeration>(junk);
    digest.Text(parsed.has_value() ? std::to_string(static_cast<int>(*parsed)) : "nullopt");
  }
  std::printf("Enumeration %s digest %016llx over %llu items\n", name,
              static_cast<unsigned long long>(digest.hash),
              static_cast<unsigned long long>(digest.count));
}

const std::array<PhQ::UnitSystem, 4> unit_systems{
  PhQ::UnitSystem::MetreKilogramSecondKelvin, PhQ::UnitSystem::MillimetreGramSecondKelvin,
  PhQ::UnitSystem::FootPoundSecondRankine, PhQ::UnitSystem::InchPoundSecondRankine};

// ---------------------------------------------------------------------------------------------
// Units: dynamic conversions of every shape.

template <typename UnitT, typename T>
void ConvertAll(Digest& digest, std::string& sample) {
  const std::vector<T> values = Values<T>();
  std::vector<UnitT> units;
  for (const auto& entry : PhQ::Internal::Abbreviations<UnitT>) {
    units.push_back(entry.first);
  }
  std::size_t cursor = 0;
  const auto next = [&]() -> T {
    const T value = values[cursor % values.size()];
    ++cursor;
    return value;
  };
  for (const UnitT from : units) {
    for (const UnitT to : units) {
      // Scalars: every value.
      for (const T value : values) {
        const T converted = PhQ::Convert(value, from, to);
        digest.Bytes(Hex(converted).data(), Hex(converted).size());
        T in_place = value;
        PhQ::ConvertInPlace(in_place, from, to);
        digest.Text(Hex(in_place));
      }
      // Arrays of several sizes, including empty.
      {
        std::array<T, 0> a0{};
        PhQ::ConvertInPlace(a0, from, to);
        const std::array<T, 0> c0 = PhQ::Convert(a0, from, to);
        (void)c0;
        std::array<T, 1> a1{next()};
        std::array<T, 4> a4{next(), next(), next(), next()};
        std::array<T, 7> a7{next(), next(), next(), next(), next(), next(), next()};
        const std::array<T, 1> c1 = PhQ::Convert(a1, from, to);
        const std::array<T, 4> c4 = PhQ::Convert(a4, from, to);
        const std::array<T, 7> c7 = PhQ::Convert(a7, from, to);
        PhQ::ConvertInPlace(a1, from, to);
        PhQ::ConvertInPlace(a4, from, to);
        PhQ::ConvertInPlace(a7, from, to);
        for (const T v : c1) digest.Text(Hex(v));
        for (const T v : c4) digest.Text(Hex(v));
        for (const T v : c7) digest.Text(Hex(v));
        for (const T v : a1) digest.Text(Hex(v));
        for (const T v : a4) digest.Text(Hex(v));
        for (const T v : a7) digest.Text(Hex(v));
      }
      // std::vector, including empty.
      {
        std::vector<T> empty;
        PhQ::ConvertInPlace(empty, from, to);
        digest.Text(std::to_string(PhQ::Convert(empty, from, to).size()));
        std::vector<T> some;
        const std::size_t size = 1 + cursor % 13;
        for (std::size_t i = 0; i < size; ++i) {
          some.push_back(next());
        }
        const std::vector<T> converted = PhQ::Convert(some, from, to);
        PhQ::ConvertInPlace(some, from, to);
        for (const T v : converted) digest.Text(Hex(v));
        for (const T v : some) digest.Text(Hex(v));
      }
      // Planar vector, vector, symmetric dyad, dyad.
      {
        PhQ::PlanarVector<T> planar{next(), next()};
        const PhQ::PlanarVector<T> converted = PhQ::Convert(planar, from, to);
        PhQ::ConvertInPlace(planar, from, to);
        for (const T v : converted.x_y()) digest.Text(Hex(v));
        for (const T v : planar.x_y()) digest.Text(Hex(v));
      }
      {
        PhQ::Vector<T> vector{next(), next(), next()};
        const PhQ::Vector<T> converted = PhQ::Convert(vector, from, to);
        PhQ::ConvertInPlace(vector, from, to);
        for (const T v : converted.x_y_z()) digest.Text(Hex(v));
        for (const T v : vector.x_y_z()) digest.Text(Hex(v));
      }
      {
        PhQ::SymmetricDyad<T> symmetric{next(), next(), next(), next(), next(), next()};
        const PhQ::SymmetricDyad<T> converted = PhQ::Convert(symmetric, from, to);
        PhQ::ConvertInPlace(symmetric, from, to);
        for (const T v : converted.xx_xy_xz_yy_yz_zz()) digest.Text(Hex(v));
        for (const T v : symmetric.xx_xy_xz_yy_yz_zz()) digest.Text(Hex(v));
      }
      {
        PhQ::Dyad<T> dyad{next(), next(), next(), next(), next(), next(), next(), next(), next()};
        const PhQ::Dyad<T> converted = PhQ::Convert(dyad, from, to);
        PhQ::ConvertInPlace(dyad, from, to);
        for (const T v : converted.xx_xy_xz_yx_yy_yz_zx_zy_zz()) digest.Text(Hex(v));
        for (const T v : dyad.xx_xy_xz_yx_yy_yz_zx_zy_zz()) digest.Text(Hex(v));
      }
    }
  }
  // A human-readable sample: 273.15-ish value from the last unit to the first unit.
  sample += std::string(" ") + TypeName<T>() + "="
            + Hex(PhQ::Convert(static_cast<T>(1.2345678901234567890L), units.back(), units.front()));
}

template <typename UnitT>
void TestUnit(const char* name) {
  using PhQ::operator<<;
  TestEnumeration<UnitT>(name);
  Digest digest;
  // Unit systems.
  for (const PhQ::UnitSystem system : unit_systems) {
    const UnitT unit = PhQ::ConsistentUnit<UnitT>(system);
    digest.Text(std::to_string(static_cast<int>(unit)));
  }
  for (const auto& entry : PhQ::Internal::Abbreviations<UnitT>) {
    const std::optional<PhQ::UnitSystem> system = PhQ::RelatedUnitSystem(entry.first);
    std::ostringstream stream;
    if (system.has_value()) {
      stream << system.value();
    } else {
      stream << "nullopt";
    }
    digest.Text(stream.str());
  }
  digest.Text(std::to_string(static_cast<int>(PhQ::Standard<UnitT>)));
  digest.Text(PhQ::RelatedDimensions<UnitT>.Print());
  std::string sample;
  ConvertAll<UnitT, float>(digest, sample);
  ConvertAll<UnitT, double>(digest, sample);
  ConvertAll<UnitT, long double>(digest, sample);
  std::printf("Unit %s digest %016llx over %llu items;%s\n", name,
              static_cast<unsigned long long>(digest.hash),
              static_cast<unsigned long long>(digest.count), sample.c_str());
}

// ---------------------------------------------------------------------------------------------
// Static conversions (these use the Conversions sequence loops).

template <typename UnitT, UnitT From, UnitT To, typename T>
void StaticPair(Digest& digest) {
  const std::vector<T> values = Values<T>();
  std::size_t cursor = 0;
  const auto next = [&]() -> T {
    const T value = values[cursor % values.size()];
    ++cursor;
    return value;
  };
  for (const T value : values) {
    digest.Text(Hex(PhQ::ConvertStatically<UnitT, From, To>(value)));
  }
  for (int repeat = 0; repeat < 8; ++repeat) {
    const std::array<T, 0> a0{};
    const std::array<T, 0> c0 = PhQ::ConvertStatically<UnitT, From, To>(a0);
    (void)c0;
    const std::array<T, 1> a1{next()};
    const std::array<T, 5> a5{next(), next(), next(), next(), next()};
    for (const T v : PhQ::ConvertStatically<UnitT, From, To>(a1)) digest.Text(Hex(v));
    for (const T v : PhQ::ConvertStatically<UnitT, From, To>(a5)) digest.Text(Hex(v));
    const PhQ::PlanarVector<T> planar{next(), next()};
    for (const T v : PhQ::ConvertStatically<UnitT, From, To>(planar).x_y()) digest.Text(Hex(v));
    const PhQ::Vector<T> vector{next(), next(), next()};
    for (const T v : PhQ::ConvertStatically<UnitT, From, To>(vector).x_y_z()) digest.Text(Hex(v));
    const PhQ::SymmetricDyad<T> symmetric{next(), next(), next(), next(), next(), next()};
    for (const T v : PhQ::ConvertStatically<UnitT, From, To>(symmetric).xx_xy_xz_yy_yz_zz()) {
      digest.Text(Hex(v));
    }
    const PhQ::Dyad<T> dyad{next(), next(), next(), next(), next(), next(), next(), next(), next()};
    for (const T v : PhQ::ConvertStatically<UnitT, From, To>(dyad).xx_xy_xz_yx_yy_yz_zx_zy_zz()) {
      digest.Text(Hex(v));
    }
  }
}

template <typename UnitT, std::size_t I, std::size_t... J>
void StaticRow(Digest& digest, std::index_sequence<J...>) {
  (StaticPair<UnitT, static_cast<UnitT>(I), static_cast<UnitT>(J), float>(digest), ...);
  (StaticPair<UnitT, static_cast<UnitT>(I), static_cast<UnitT>(J), double>(digest), ...);
  (StaticPair<UnitT, static_cast<UnitT>(I), static_cast<UnitT>(J), long double>(digest), ...);
}

template <typename UnitT, std::size_t... I>
void StaticRows(Digest& digest, std::index_sequence<I...>) {
  (StaticRow<UnitT, I>(digest, std::index_sequence<I...>{}), ...);
}

template <typename UnitT, std::size_t N>
void TestStatic(const char* name) {
  if (PhQ::Internal::Abbreviations<UnitT>.size() != N) {
    std::printf("Static %s: unexpected number of units %zu\n", name,
                PhQ::Internal::Abbreviations<UnitT>.size());
    return;
  }
  Digest digest;
  StaticRows<UnitT>(digest, std::make_index_sequence<N>{});
  std::printf("Static %s digest %016llx over %llu items\n", name,
              static_cast<unsigned long long>(digest.hash),
              static_cast<unsigned long long>(digest.count));
}

// Compile-time evaluation still works.
static_assert(PhQ::ConvertStatically<PhQ::Unit::Time, PhQ::Unit::Time::Hour, PhQ::Unit::Time::Minute>(
                  2.0)
              == 120.0);
static_assert(PhQ::ConvertStatically<PhQ::Unit::Time, PhQ::Unit::Time::Hour, PhQ::Unit::Time::Second>(
                  std::array<double, 3>{1.0, 2.0, 0.5})[2]
              == 1800.0);

// ---------------------------------------------------------------------------------------------
// Physical quantities that sit on top of these code paths.

template <typename T>
void TestQuantities() {
  Digest digest;
  const std::vector<T> values = Values<T>();
  for (const T value : values) {
    const PhQ::Time<T> time(value, PhQ::Unit::Time::Hour);
    digest.Text(Hex(time.Value()));
    digest.Text(Hex(time.Value(PhQ::Unit::Time::Minute)));
    digest.Text(time.Print());
    digest.Text(time.Print(PhQ::Unit::Time::Millisecond));
    digest.Text(time.JSON());
    digest.Text(time.XML(PhQ::Unit::Time::Hour));
    digest.Text(time.YAML());
    const PhQ::Length<T> length = PhQ::Length<T>::template Create<PhQ::Unit::Length::Foot>(value);
    digest.Text(Hex(length.Value()));
    digest.Text(Hex(length.template StaticValue<PhQ::Unit::Length::Inch>()));
    digest.Text(length.Print(PhQ::Unit::Length::Mile));
    const PhQ::Temperature<T> temperature(value, PhQ::Unit::Temperature::Fahrenheit);
    digest.Text(Hex(temperature.Value(PhQ::Unit::Temperature::Celsius)));
    digest.Text(temperature.Print(PhQ::Unit::Temperature::Rankine));
    const PhQ::Force<T> force({value, T(2) * value, -value}, PhQ::Unit::Force::Pound);
    digest.Text(force.Print());
    digest.Text(force.JSON(PhQ::Unit::Force::Kilonewton));
    for (const T v : force.Value(PhQ::Unit::Force::Dyne).x_y_z()) digest.Text(Hex(v));
    const PhQ::Displacement<T> displacement({value, value, value}, PhQ::Unit::Length::Yard);
    digest.Text(displacement.Print(PhQ::Unit::Length::Centimetre));
    const PhQ::Stress<T> stress({value, -value, value, T(3), value, T(0)},
                                PhQ::Unit::Pressure::PoundPerSquareInch);
    digest.Text(stress.Print(PhQ::Unit::Pressure::Bar));
    for (const T v : stress.Value(PhQ::Unit::Pressure::Atmosphere).xx_xy_xz_yy_yz_zz()) {
      digest.Text(Hex(v));
    }
    const PhQ::VelocityGradient<T> gradient(
        {value, T(1), T(2), T(3), value, T(5), T(6), T(7), -value}, PhQ::Unit::Frequency::Kilohertz);
    digest.Text(gradient.Print(PhQ::Unit::Frequency::Megahertz));
    for (const T v : gradient.Value(PhQ::Unit::Frequency::Gigahertz).xx_xy_xz_yx_yy_yz_zx_zy_zz()) {
      digest.Text(Hex(v));
    }
    digest.Text(PhQ::Print(value));
  }
  std::printf("Quantities %s digest %016llx over %llu items\n", TypeName<T>(),
              static_cast<unsigned long long>(digest.hash),
              static_cast<unsigned long long>(digest.count));
}

}  // namespace

int main() {
  using PhQ::operator<<;
  TestParseNumber();
  TestCase();
  MakeJunk();

  TestEnumeration<PhQ::UnitSystem>("UnitSystem");
  TestEnumeration<PhQ::ConstitutiveModel::Type, false>("ConstitutiveModel::Type");
  for (const PhQ::UnitSystem system : unit_systems) {
    std::cout << "UnitSystem " << static_cast<int>(system) << " " << system << " "
              << PhQ::Abbreviation(system) << " length=" << PhQ::ConsistentUnit<PhQ::Unit::Length>(system)
              << " force=" << PhQ::ConsistentUnit<PhQ::Unit::Force>(system)
              << " temperature=" << PhQ::ConsistentUnit<PhQ::Unit::Temperature>(system) << "\n";
  }
  std::cout.flush();

  TestUnit<PhQ::Unit::Acceleration>("Acceleration");
  TestUnit<PhQ::Unit::Angle>("Angle");
  TestUnit<PhQ::Unit::AngularAcceleration>("AngularAcceleration");
  TestUnit<PhQ::Unit::AngularSpeed>("AngularSpeed");
  TestUnit<PhQ::Unit::Area>("Area");
  TestUnit<PhQ::Unit::Diffusivity>("Diffusivity");
  TestUnit<PhQ::Unit::DynamicViscosity>("DynamicViscosity");
  TestUnit<PhQ::Unit::ElectricCharge>("ElectricCharge");
  TestUnit<PhQ::Unit::ElectricCurrent>("ElectricCurrent");
  TestUnit<PhQ::Unit::Energy>("Energy");
  TestUnit<PhQ::Unit::EnergyFlux>("EnergyFlux");
  TestUnit<PhQ::Unit::Force>("Force");
  TestUnit<PhQ::Unit::Frequency>("Frequency");
  TestUnit<PhQ::Unit::HeatCapacity>("HeatCapacity");
  TestUnit<PhQ::Unit::Length>("Length");
  TestUnit<PhQ::Unit::Mass>("Mass");
  TestUnit<PhQ::Unit::MassDensity>("MassDensity");
  TestUnit<PhQ::Unit::MassRate>("MassRate");
  TestUnit<PhQ::Unit::Memory>("Memory");
  TestUnit<PhQ::Unit::MemoryRate>("MemoryRate");
  TestUnit<PhQ::Unit::Power>("Power");
  TestUnit<PhQ::Unit::Pressure>("Pressure");
  TestUnit<PhQ::Unit::ReciprocalTemperature>("ReciprocalTemperature");
  TestUnit<PhQ::Unit::SolidAngle>("SolidAngle");
  TestUnit<PhQ::Unit::SpecificEnergy>("SpecificEnergy");
  TestUnit<PhQ::Unit::SpecificHeatCapacity>("SpecificHeatCapacity");
  TestUnit<PhQ::Unit::SpecificPower>("SpecificPower");
  TestUnit<PhQ::Unit::Speed>("Speed");
  TestUnit<PhQ::Unit::SubstanceAmount>("SubstanceAmount");
  TestUnit<PhQ::Unit::Temperature>("Temperature");
  TestUnit<PhQ::Unit::TemperatureDifference>("TemperatureDifference");
  TestUnit<PhQ::Unit::TemperatureGradient>("TemperatureGradient");
  TestUnit<PhQ::Unit::ThermalConductivity>("ThermalConductivity");
  TestUnit<PhQ::Unit::Time>("Time");
  TestUnit<PhQ::Unit::TransportEnergyConsumption>("TransportEnergyConsumption");
  TestUnit<PhQ::Unit::Volume>("Volume");
  TestUnit<PhQ::Unit::VolumeRate>("VolumeRate");

  TestStatic<PhQ::Unit::Time, 6>("Time");
  TestStatic<PhQ::Unit::Temperature, 4>("Temperature");
  TestStatic<PhQ::Unit::Angle, 4>("Angle");
  TestStatic<PhQ::Unit::SolidAngle, 1>("SolidAngle");

  TestQuantities<float>();
  TestQuantities<double>();
  TestQuantities<long double>();
  return 0;
}
